// C02 — ledger objects (transaction / header / block) encode faithfully with signature-independent identity.
//
// In-process, bounded-exhaustive over boundary alphabets:
//   (a) decode(encode(x)) == x, re-encode byte-identical (ToArray, Raw), real encoding == independent reference encoding
//   (b) tx.Hash() / header.Hash() == sha256(sha256(reference unsigned bytes)) for EVERY signature set of every body
//   (c) block decoder: every sequence of <=3 transactions from a pool that contains two signature-variants of the same
//       transaction x every root from the alphabet: accepted iff no repeated identity and root == reference root
//   (d) oversize: total size MAX_TX_SIZE-1 / MAX / MAX+1 reached through the code and through the signatures,
//       via TransactionFromRawBytes and via a block
// Child processes (re-exec, `ulimit -v 4000000`, timeout), deviation-bounded:
//   (e) every truncation, every single-byte corruption (4 replacement values), every count/length prefix spliced to
//       {remaining+1, 0xFFFF, 2^32, 2^40, 2^62, 2^63, 2^64-1}, and every pair of prefixes x {0, orig+1, huge} of a
//       representative object set; outcome classes: clean error / accepted / recoverable panic / fatal (OOM) / timeout.
package main

import (
	"bytes"
	"fmt"
	"math"
	"os"

	"github.com/polynetwork/poly/common"
	"github.com/polynetwork/poly/core/types"
	"verif.local/engine/ev"
)

// ---------------------------------------------------------------------------------------------
// alphabets

func sigSets() [][]mSig {
	atoms := []mSig{single(1, 0x10), single(2, 0x20), multi(0x30)}
	out := [][]mSig{{}}
	var rec func(cur []mSig)
	rec = func(cur []mSig) {
		if len(cur) > 0 {
			out = append(out, append([]mSig{}, cur...))
		}
		if len(cur) == 3 {
			return
		}
		for _, a := range atoms {
			rec(append(cur, a))
		}
	}
	rec(nil)
	// odd but encodable entries: empty signature bytes, 0xFD-byte signature, sig count != m
	out = append(out, []mSig{{sigData: [][]byte{{}}, pubs: []int{1}, m: 1}},
		[]mSig{{sigData: [][]byte{pattern(0xFD, 1)}, pubs: []int{1}, m: 0xFFFF}},
		[]mSig{{sigData: nil, pubs: []int{1, 2}, m: 0}})
	return out
}

func txBodies(codeLens []int) []*mTx {
	var out []*mTx
	var p1 [20]byte
	copy(p1[:], pattern(20, 0xA0))
	type f struct {
		nonce          uint32
		chain, gl, gp  uint64
		payer          [20]byte
	}
	fields := []f{
		{0, 0, 0, 0, [20]byte{}},
		{1, 1, 1, 1, p1},
		{math.MaxUint32, math.MaxUint64, math.MaxUint64, math.MaxUint64, p1},
		{0xFD, 0xFD, 1 << 63, 0xFFFF, [20]byte{}},
		{0x10000, 1 << 32, 0xFE, 0xFFFFFFFF, p1},
		{0, math.MaxUint64, 0, 0xFF, p1},
	}
	for _, fl := range fields {
		for _, cl := range codeLens {
			out = append(out, &mTx{nonce: fl.nonce, chainID: fl.chain, gasLimit: fl.gl, gasPrice: fl.gp, payer: fl.payer, code: pattern(cl, 0x51)})
		}
	}
	return out
}

func hdrSigSets() []hdrSigSet {
	a, b, c := pattern(65, 0x41), pattern(65, 0x42), pattern(64, 0x43)
	bkLists := [][]int{{}, {1}, {2}, {1, 2}, {2, 1}, {1, 2, 3}, {3, 2, 1}, {1, 1}}
	sigLists := [][][]byte{{}, {a}, {b}, {a, b}, {b, a}, {a, b, c}, {{}}, {pattern(0xFD, 7)}}
	var out []hdrSigSet
	for _, bk := range bkLists {
		for _, sg := range sigLists {
			out = append(out, hdrSigSet{bk, sg})
		}
	}
	return out
}

func hdrBodies(payloadLens []int) []*mHeader {
	var h1, h2 [32]byte
	copy(h1[:], pattern(32, 0x11))
	for i := range h2 {
		h2[i] = 0xFF
	}
	var a1 [20]byte
	copy(a1[:], pattern(20, 0x77))
	var out []*mHeader
	type f struct {
		chain            uint64
		p, t, c, b       [32]byte
		ts, height       uint32
		cd               uint64
		nb               [20]byte
	}
	z := [32]byte{}
	fields := []f{
		{0, z, z, z, z, 0, 0, 0, [20]byte{}},
		{1, h1, h2, h1, h2, 1, 1, 1, a1},
		{math.MaxUint64, h2, h2, h2, h2, math.MaxUint32, math.MaxUint32, math.MaxUint64, a1},
		{0xFD, h1, z, z, h1, 0xFD, 0xFFFF, 1 << 63, [20]byte{}},
		{1 << 32, z, h1, h2, z, 0x10000, 0xFE, 0xFFFFFFFF, a1},
		{0, z, z, z, z, 0, math.MaxUint32, 0, a1},
	}
	for _, fl := range fields {
		for _, pl := range payloadLens {
			out = append(out, &mHeader{chainID: fl.chain, prev: fl.p, txRoot: fl.t, crossRoot: fl.c, blkRoot: fl.b, timestamp: fl.ts,
				height: fl.height, consData: fl.cd, nextBk: fl.nb, consPayload: pattern(pl, 0x99)})
		}
	}
	return out
}

// ---------------------------------------------------------------------------------------------
// in-process checks (a)-(d)

func checkTxs(r *ev.Run) {
	codeLens := []int{0, 1, 0xFD}
	if r.Thorough() {
		codeLens = []int{0, 1, 0xFC, 0xFD, 0xFFFF, 0x10000}
	}
	sets := sigSets()
	for _, body := range txBodies(codeLens) {
		wantHash := dsha(refTxUnsigned(body))
		for si, ss := range sets {
			t := *body
			t.sigs = ss
			ref := refTx(&t)
			tx := realTx(&t)
			r.Eval()
			r.Case(fmt.Sprintf("tx code=%d nsig=%d", len(t.code), len(ss)))
			var raw []byte
			var serr error
			rec, p := ev.Guard(func() {
				sink := common.NewZeroCopySink(nil)
				serr = tx.Serialization(sink)
				raw = sink.Bytes()
			})
			if p || serr != nil {
				r.Violation("Transaction.Serialization:failed", map[string]any{"tx": describeTx(&t), "panic": fmt.Sprint(rec), "err": fmt.Sprint(serr)})
				continue
			}
			if !bytes.Equal(raw, ref.b) {
				r.Violation("Transaction:wire-format-differs-from-reference", map[string]any{"tx": describeTx(&t), "got": clipHex(raw), "want": clipHex(ref.b)})
				continue
			}
			if !bytes.Equal(tx.ToArray(), raw) {
				r.Violation("Transaction.ToArray:differs-from-Serialization", map[string]any{"tx": describeTx(&t)})
			}
			for _, via := range []string{"TransactionFromRawBytes", "Deserialization"} {
				var dec *types.Transaction
				var err error
				in := append([]byte{}, raw...)
				rec, p := ev.Guard(func() {
					if via == "TransactionFromRawBytes" {
						dec, err = types.TransactionFromRawBytes(in)
					} else {
						dec = new(types.Transaction)
						// non-zero starting offset: the object sits behind 3 foreign bytes
						src := common.NewZeroCopySource(append([]byte{9, 9, 9}, in...))
						src.Skip(3)
						err = dec.Deserialization(src)
						if err == nil && src.Len() != 0 {
							err = fmt.Errorf("decoder left %d bytes", src.Len())
						}
					}
				})
				if p {
					r.Violation("Transaction.Deserialization:panic:well-formed", map[string]any{"tx": describeTx(&t), "panic": fmt.Sprint(rec)})
					continue
				}
				if err != nil {
					r.Violation("Transaction:well-formed-rejected", map[string]any{"tx": describeTx(&t), "via": via, "err": err.Error()})
					continue
				}
				r.Class("tx_roundtrip")
				if !txEqual(dec, &t) {
					r.Violation("Transaction:roundtrip-fields", map[string]any{"tx": describeTx(&t), "via": via})
				}
				if !bytes.Equal(dec.Raw, raw) {
					r.Violation("Transaction:Raw-differs", map[string]any{"tx": describeTx(&t), "via": via, "raw": clipHex(dec.Raw)})
				}
				if !bytes.Equal(dec.ToArray(), raw) {
					r.Violation("Transaction:re-encode-differs", map[string]any{"tx": describeTx(&t), "via": via})
				}
				if dec.Hash() != wantHash {
					r.Violation("Transaction.Hash:not-dsha-of-unsigned-bytes", map[string]any{"tx": describeTx(&t), "via": via, "sigset": si,
						"got": hx(dec.Hash()), "want": wantHash.ToHexString()})
				} else {
					r.Class("tx_identity_sig_independent")
				}
				// changing the signatures of the decoded object must not change its identity either
				before := dec.Hash()
				dec.Sigs = append(dec.Sigs, realSigs([]mSig{single(3, 0x66)})...)
				if dec.Hash() != before {
					r.Violation("Transaction.Hash:changes-with-sigs-appended", map[string]any{"tx": describeTx(&t)})
				}
			}
			if si == 5 && len(t.code) == 1 {
				r.Sample(map[string]any{"tx": describeTx(&t), "raw": clipHex(raw), "hash": wantHash.ToHexString()})
			}
		}
	}
}

func checkHeaders(r *ev.Run) {
	pls := []int{0, 1, 0xFD}
	if r.Thorough() {
		pls = []int{0, 1, 0xFC, 0xFD, 0xFFFF, 0x10000}
	}
	sets := hdrSigSets()
	for _, body := range hdrBodies(pls) {
		wantHash := dsha(refHeaderUnsigned(body))
		for si, ss := range sets {
			h := *body
			h.bookkeepers, h.sigData = ss.bks, ss.sigs
			ref := refHeader(&h)
			hd := realHeader(&h)
			r.Eval()
			r.Case(fmt.Sprintf("hdr payload=%d nbk=%d nsig=%d", len(h.consPayload), len(ss.bks), len(ss.sigs)))
			var raw, rawStream []byte
			rec, p := ev.Guard(func() {
				sink := common.NewZeroCopySink(nil)
				_ = hd.Serialization(sink)
				raw = sink.Bytes()
				var bb bytes.Buffer
				_ = hd.Serialize(&bb)
				rawStream = bb.Bytes()
			})
			desc := map[string]any{"chainid": h.chainID, "height": h.height, "payload_len": len(h.consPayload), "bookkeepers": ss.bks, "nsig": len(ss.sigs), "sigset": si}
			if p {
				r.Violation("Header.Serialization:panic", map[string]any{"hdr": desc, "panic": fmt.Sprint(rec)})
				continue
			}
			if !bytes.Equal(raw, ref.b) {
				r.Violation("Header:wire-format-differs-from-reference", map[string]any{"hdr": desc, "got": clipHex(raw), "want": clipHex(ref.b)})
				continue
			}
			if !bytes.Equal(rawStream, raw) {
				r.Violation("Header:streaming-and-zero-copy-encoders-differ", map[string]any{"hdr": desc})
			}
			if !bytes.Equal(hd.ToArray(), raw) {
				r.Violation("Header.ToArray:differs", map[string]any{"hdr": desc})
			}
			if hd.Hash() != wantHash {
				r.Violation("Header.Hash:not-dsha-of-unsigned-bytes", map[string]any{"hdr": desc, "where": "constructed", "got": hx(hd.Hash()), "want": wantHash.ToHexString()})
			}
			if !bytes.Equal(hd.GetMessage(), refHeaderUnsigned(&h)) {
				r.Violation("Header.GetMessage:not-unsigned-bytes", map[string]any{"hdr": desc})
			}
			for _, via := range []string{"HeaderFromRawBytes", "Deserialize(stream)"} {
				var dec *types.Header
				var err error
				rec, p := ev.Guard(func() {
					if via == "HeaderFromRawBytes" {
						dec, err = types.HeaderFromRawBytes(append([]byte{}, raw...))
					} else {
						dec = new(types.Header)
						rd := bytes.NewReader(raw)
						err = dec.Deserialize(rd)
						if err == nil && rd.Len() != 0 {
							err = fmt.Errorf("decoder left %d bytes", rd.Len())
						}
					}
				})
				if p {
					r.Violation("Header.Deserialization:panic:well-formed", map[string]any{"hdr": desc, "via": via, "panic": fmt.Sprint(rec)})
					continue
				}
				if err != nil {
					r.Violation("Header:well-formed-rejected", map[string]any{"hdr": desc, "via": via, "err": err.Error()})
					continue
				}
				r.Class("hdr_roundtrip")
				if !headerEqual(dec, &h) {
					r.Violation("Header:roundtrip-fields", map[string]any{"hdr": desc, "via": via})
				}
				if !bytes.Equal(dec.ToArray(), raw) {
					r.Violation("Header:re-encode-differs", map[string]any{"hdr": desc, "via": via})
				}
				if dec.Hash() != wantHash {
					r.Violation("Header.Hash:not-dsha-of-unsigned-bytes", map[string]any{"hdr": desc, "where": via, "got": hx(dec.Hash()), "want": wantHash.ToHexString()})
				} else {
					r.Class("hdr_identity_sig_independent")
				}
				// a fresh header object that differs only in signatures (no cached hash involved)
				dec2, _ := types.HeaderFromRawBytes(append([]byte{}, raw...))
				if dec2 != nil {
					dec2.SigData = append(dec2.SigData, pattern(65, 0x55))
					dec2.Bookkeepers = append(dec2.Bookkeepers, pub(4))
					if dec2.Hash() != wantHash {
						r.Violation("Header.Hash:changes-with-signatures", map[string]any{"hdr": desc})
					}
				}
			}
			if si == 27 && len(h.consPayload) == 1 {
				r.Sample(map[string]any{"hdr": desc, "raw": clipHex(raw), "hash": wantHash.ToHexString()})
			}
		}
	}
}

func checkBlocks(r *ev.Run) {
	// pool: A signed by k1, the same A signed by k2 (same identity), B, C
	a := &mTx{nonce: 1, code: pattern(3, 1)}
	a1, a2 := *a, *a
	a1.sigs = []mSig{single(1, 0x10)}
	a2.sigs = []mSig{single(2, 0x20), multi(0x30)}
	b := &mTx{nonce: 2, code: pattern(0xFD, 2), sigs: []mSig{multi(0x40)}}
	c := &mTx{nonce: 3, chainID: math.MaxUint64}
	pool := []*mTx{&a1, &a2, b, c}
	names := []string{"A/k1", "A/k2+multi", "B", "C"}
	ids := make([]common.Uint256, len(pool))
	for i, t := range pool {
		ids[i] = dsha(refTxUnsigned(t))
	}
	maxN := 3
	if r.Thorough() {
		maxN = 5
	}
	hdrSets := []hdrSigSet{{nil, nil}, {[]int{1, 2, 3}, [][]byte{pattern(65, 1), pattern(65, 2)}}}
	var seqs [][]int
	var rec func(cur []int)
	rec = func(cur []int) {
		seqs = append(seqs, append([]int{}, cur...))
		if len(cur) == maxN {
			return
		}
		for i := range pool {
			rec(append(cur, i))
		}
	}
	rec(nil)
	for _, seq := range seqs {
		txs := make([]*mTx, len(seq))
		hashes := make([]common.Uint256, len(seq))
		dup := false
		seen := map[common.Uint256]bool{}
		var nm []string
		for i, k := range seq {
			txs[i], hashes[i] = pool[k], ids[k]
			if seen[ids[k]] {
				dup = true
			}
			seen[ids[k]] = true
			nm = append(nm, names[k])
		}
		good := refRoot(hashes)
		roots := map[common.Uint256]string{good: "correct", {}: "zero", dsha([]byte("other")): "foreign"}
		if len(seq) > 0 {
			if x := refRoot(hashes[:len(hashes)-1]); x != good {
				roots[x] = "root-of-prefix"
			}
			rev := make([]common.Uint256, len(hashes))
			for i := range rev {
				rev[i] = hashes[len(hashes)-1-i]
			}
			if x := refRoot(rev); x != good {
				roots[x] = "root-of-reversed"
			}
			if x := hashes[0]; x != good {
				roots[x] = "first-tx-hash"
			}
		}
		if good == (common.Uint256{}) {
			roots[good] = "correct"
		}
		for root, rootName := range roots {
			for hi, hs := range hdrSets {
				h := &mHeader{height: 7, timestamp: 99, txRoot: root, bookkeepers: hs.bks, sigData: hs.sigs}
				ref := refBlock(h, txs)
				// real encoding of the same block
				blk := &types.Block{Header: realHeader(h)}
				for _, t := range txs {
					blk.Transactions = append(blk.Transactions, realTx(t))
				}
				raw := blk.ToArray()
				r.Eval()
				desc := map[string]any{"txs": nm, "root": rootName, "hdr_sigset": hi, "raw": clipHex(raw)}
				if !bytes.Equal(raw, ref.b) {
					r.Violation("Block:wire-format-differs-from-reference", desc)
					continue
				}
				var dec *types.Block
				var err error
				if pv, p := ev.Guard(func() { dec, err = types.BlockFromRawBytes(append([]byte{}, raw...)) }); p {
					desc["panic"] = fmt.Sprint(pv)
					r.Violation("Block.Deserialization:panic:well-formed-encoding", desc)
					continue
				}
				r.Case(fmt.Sprintf("block n=%d dup=%v root=%s accepted=%v", len(seq), dup, rootName, err == nil))
				switch {
				case dup && err == nil:
					r.Violation("Block.Deserialization:repeated-transaction-accepted", desc)
				case rootName != "correct" && err == nil:
					r.Violation("Block.Deserialization:wrong-root-accepted:"+rootName, desc)
				case !dup && rootName == "correct" && err != nil:
					desc["err"] = err.Error()
					r.Violation("Block.Deserialization:well-formed-rejected", desc)
				case err != nil && dup:
					r.Class("block_reject_duplicate")
				case err != nil:
					r.Class("block_reject_wrong_root")
				default:
					r.Class("block_accept")
					ok := headerEqual(dec.Header, h) && len(dec.Transactions) == len(txs)
					for i := 0; ok && i < len(txs); i++ {
						ok = txEqual(dec.Transactions[i], txs[i]) && dec.Transactions[i].Hash() == hashes[i]
					}
					if !ok {
						r.Violation("Block:roundtrip-fields", desc)
					}
					if !bytes.Equal(dec.ToArray(), raw) {
						r.Violation("Block:re-encode-differs", desc)
					}
					if dec.Hash() != dsha(refHeaderUnsigned(h)) {
						r.Violation("Block.Hash:not-header-identity", desc)
					}
				}
			}
		}
	}
}

func checkOversize(r *ev.Run) {
	max := types.MAX_TX_SIZE
	base := refTx(&mTx{})
	overheadNoSig := len(base.b) - 1 + 5 // code length prefix grows from 1 to 5 bytes for a ~1 MiB code
	sig := []mSig{single(1, 0x10)}
	sigLen := len(refTx(&mTx{sigs: sig}).b) - len(base.b)
	type variant struct {
		name string
		mk   func(total int) *mTx
	}
	variants := []variant{
		{"by-code", func(total int) *mTx { return &mTx{code: make([]byte, total-overheadNoSig)} }},
		{"by-signatures", func(total int) *mTx { return &mTx{code: make([]byte, total-overheadNoSig-sigLen), sigs: sig} }},
	}
	for _, v := range variants {
		for _, total := range []int{max - 1, max, max + 1, max + 0x100} {
			t := v.mk(total)
			raw := realTx(t).ToArray()
			if len(raw) != total || !bytes.Equal(raw, refTx(t).b) {
				r.HarnessError("oversize builder produced %d bytes, wanted %d", len(raw), total)
			}
			id := dsha(refTxUnsigned(t))
			for _, via := range []string{"TransactionFromRawBytes", "Deserialization", "BlockFromRawBytes"} {
				r.Eval()
				var err error
				pv, p := ev.Guard(func() {
					switch via {
					case "TransactionFromRawBytes":
						_, err = types.TransactionFromRawBytes(append([]byte{}, raw...))
					case "Deserialization":
						err = new(types.Transaction).Deserialization(common.NewZeroCopySource(append([]byte{}, raw...)))
					default:
						h := &mHeader{txRoot: refRoot([]common.Uint256{id})}
						_, err = types.BlockFromRawBytes(refBlock(h, []*mTx{t}).b)
					}
				})
				key := fmt.Sprintf("%s size=MAX%+d via %s", v.name, total-max, via)
				r.Case("oversize " + key)
				if p {
					r.Violation("oversize:panic:"+via, map[string]any{"case": key, "panic": fmt.Sprint(pv)})
					continue
				}
				if total > max && err == nil {
					r.Violation("oversize-transaction-accepted:"+via+":"+v.name, map[string]any{"case": key, "size": total, "max": max})
				} else if total <= max && err != nil {
					r.Violation("max-size-transaction-rejected:"+via, map[string]any{"case": key, "size": total, "err": err.Error()})
				} else if err != nil {
					r.Class("oversize_refused")
				} else {
					r.Class("maxsize_accepted")
				}
			}
		}
	}
}

// TxAttribute (core/types/transaction_attribute.go): streaming codec, in-process (ReadVarBytes never pre-allocates > 2 MiB)
func checkAttributes(r *ev.Run) {
	for usage := 0; usage < 256; usage++ {
		for _, dl := range []int{0, 1, 0xFC, 0xFD} {
			a := types.NewTxAttribute(types.TransactionAttributeUsage(usage), pattern(dl, 3))
			var bb bytes.Buffer
			err := a.Serialize(&bb)
			valid := types.IsValidAttributeType(types.TransactionAttributeUsage(usage))
			r.Eval()
			if (err == nil) != valid {
				r.Violation("TxAttribute.Serialize:validity", map[string]any{"usage": usage})
			}
			raw := append([]byte{byte(usage)}, append(varuint(uint64(dl)), pattern(dl, 3)...)...)
			if valid && !bytes.Equal(bb.Bytes(), raw) {
				r.Violation("TxAttribute:wire-format-differs-from-reference", map[string]any{"usage": usage, "len": dl})
			}
			for t := 0; t <= len(raw); t++ {
				var d types.TxAttribute
				var derr error
				if pv, p := ev.Guard(func() { derr = d.Deserialize(bytes.NewReader(raw[:t])) }); p {
					r.Violation("TxAttribute.Deserialize:panic", map[string]any{"in": clipHex(raw[:t]), "panic": fmt.Sprint(pv)})
					continue
				}
				if t == len(raw) && valid {
					if derr != nil || d.Usage != a.Usage || !bytes.Equal(d.Data, a.Data) {
						r.Violation("TxAttribute:roundtrip", map[string]any{"usage": usage, "len": dl})
					}
					r.Class("attr_roundtrip")
				} else if derr == nil {
					r.Violation("TxAttribute.Deserialize:bad-input-accepted", map[string]any{"in": clipHex(raw[:t]), "valid_usage": valid})
				} else {
					r.Class("attr_reject")
				}
			}
			if valid && dl == 1 {
				for _, L := range []uint64{2, 0xFFFF, 1 << 31, 1 << 62, 1 << 63, math.MaxUint64} {
					in := append([]byte{byte(usage)}, append(varuint(L), 0x03)...)
					var d types.TxAttribute
					var derr error
					if pv, p := ev.Guard(func() { derr = d.Deserialize(bytes.NewReader(in)) }); p {
						r.Violation("TxAttribute.Deserialize:panic:len-prefix", map[string]any{"in": clipHex(in), "panic": fmt.Sprint(pv)})
					} else if derr == nil {
						r.Violation("TxAttribute.Deserialize:oversize-prefix-accepted", map[string]any{"in": clipHex(in)})
					} else {
						r.Class("attr_reject")
					}
				}
			}
		}
	}
	r.Case("txattribute")
}

// ---------------------------------------------------------------------------------------------
// (e) deviation-bounded mutations, executed in child processes

func objects(thorough bool) []object {
	var out []object
	codeLens := []int{0, 1, 0xFD}
	txSets := [][]mSig{{}, {single(1, 0x10)}, {multi(0x30)}, {single(1, 0x10), multi(0x30), single(2, 0x20)}}
	for _, ss := range txSets {
		for _, cl := range codeLens {
			t := &mTx{nonce: 1, chainID: 2, gasLimit: 3, gasPrice: 4, code: pattern(cl, 0x51), sigs: ss}
			out = append(out, object{"tx", fmt.Sprintf("tx code=%d sigs=%v", cl, describeSigs(ss)), refTx(t)})
		}
	}
	hsets := []hdrSigSet{{nil, nil}, {[]int{1}, [][]byte{pattern(65, 1)}}, {[]int{1, 2, 3}, [][]byte{pattern(65, 1), pattern(65, 2), pattern(65, 3)}},
		{[]int{1, 2, 3}, [][]byte{pattern(65, 1), pattern(65, 2)}}}
	for _, hs := range hsets {
		for _, pl := range []int{0, 0xFD} {
			h := &mHeader{chainID: 2, height: 5, timestamp: 6, consData: 7, consPayload: pattern(pl, 0x99), bookkeepers: hs.bks, sigData: hs.sigs}
			out = append(out, object{"header", fmt.Sprintf("header payload=%d bk=%v nsig=%d", pl, hs.bks, len(hs.sigs)), refHeader(h)})
		}
	}
	pool := []*mTx{{nonce: 1, sigs: []mSig{single(1, 0x10)}}, {nonce: 2, code: pattern(1, 2), sigs: []mSig{multi(0x30)}}, {nonce: 3}}
	nblk := 3
	for n := 0; n <= nblk; n++ {
		txs := pool[:n]
		var hashes []common.Uint256
		for _, t := range txs {
			hashes = append(hashes, dsha(refTxUnsigned(t)))
		}
		bk, sg := []int{1, 2}, [][]byte{pattern(65, 1)}
		if n == 0 {
			bk, sg = nil, nil
		}
		h := &mHeader{height: 5, txRoot: refRoot(hashes), bookkeepers: bk, sigData: sg}
		out = append(out, object{"block", fmt.Sprintf("block ntx=%d", n), refBlock(h, txs)})
	}
	if thorough {
		for i, ss := range sigSets() {
			t := &mTx{nonce: 7, chainID: math.MaxUint64, code: pattern(1, 0x51), sigs: ss}
			out = append(out, object{"tx", fmt.Sprintf("tx(thorough) sigset=%d %v", i, describeSigs(ss)), refTx(t)})
		}
		for i, hs := range hdrSigSets() {
			if i%3 != 0 {
				continue
			}
			h := &mHeader{chainID: 1, height: math.MaxUint32, consPayload: pattern(1, 0x99), bookkeepers: hs.bks, sigData: hs.sigs}
			out = append(out, object{"header", fmt.Sprintf("header(thorough) sigset=%d", i), refHeader(h)})
		}
	}
	return out
}

func decodersFor(kind string) []decoder {
	switch kind {
	case "tx":
		return []decoder{{"Transaction.Deserialization", func(in []byte, _ *mcase) (bool, string) {
			tx, err := types.TransactionFromRawBytes(in)
			if err != nil {
				return false, ""
			}
			// identity of whatever was accepted is the double SHA-256 of exactly the unsigned bytes that were received
			// (located by an independent minimal parser; the wire form may carry non-minimal var-uints)
			n := refUnsignedLen(in)
			if n < 0 {
				return true, "accepted-object-not-parseable-by-reference"
			}
			if tx.Hash() != dsha(in[:n]) {
				return true, "accepted-object-hash-not-dsha-of-unsigned-bytes"
			}
			return true, ""
		}}}
	case "header":
		return []decoder{
			{"Header.Deserialization", func(in []byte, _ *mcase) (bool, string) {
				h, err := types.HeaderFromRawBytes(in)
				if err != nil {
					return false, ""
				}
				// identity of whatever was accepted ignores the signatures: same fields without bookkeepers / signatures
				bare := &types.Header{Version: h.Version, ChainID: h.ChainID, PrevBlockHash: h.PrevBlockHash, TransactionsRoot: h.TransactionsRoot,
					CrossStateRoot: h.CrossStateRoot, BlockRoot: h.BlockRoot, Timestamp: h.Timestamp, Height: h.Height, ConsensusData: h.ConsensusData,
					ConsensusPayload: h.ConsensusPayload, NextBookkeeper: h.NextBookkeeper}
				if h.Hash() != bare.Hash() {
					return true, "accepted-object-hash-depends-on-signatures"
				}
				return true, ""
			}},
			{"Header.Deserialize(stream)", func(in []byte, _ *mcase) (bool, string) {
				h := new(types.Header)
				return h.Deserialize(bytes.NewReader(in)) == nil, ""
			}},
		}
	}
	return []decoder{{"Block.Deserialization", func(in []byte, _ *mcase) (bool, string) {
		b, err := types.BlockFromRawBytes(in)
		if err != nil {
			return false, ""
		}
		seen := map[common.Uint256]bool{}
		var hs []common.Uint256
		for _, t := range b.Transactions {
			if seen[t.Hash()] {
				return true, "accepted-block-repeats-a-transaction"
			}
			seen[t.Hash()] = true
			hs = append(hs, t.Hash())
		}
		if refRoot(hs) != b.Header.TransactionsRoot {
			return true, "accepted-block-root-mismatch"
		}
		return true, ""
	}}}
}

// refUnsignedLen parses just enough of a transaction to find the end of its unsigned part (-1 = malformed).
func refUnsignedLen(in []byte) int {
	pos := 1 + 1 + 4 + 8 + 8 + 8
	rdVar := func() (uint64, bool) {
		if pos >= len(in) {
			return 0, false
		}
		w := map[byte]int{0xFD: 2, 0xFE: 4, 0xFF: 8}[in[pos]]
		if w == 0 {
			pos++
			return uint64(in[pos-1]), true
		}
		if pos+1+w > len(in) {
			return 0, false
		}
		var v uint64
		for i := 0; i < w; i++ {
			v |= uint64(in[pos+1+i]) << (8 * uint(i))
		}
		pos += 1 + w
		return v, true
	}
	for f := 0; f < 2; f++ { // code, attributes
		l, ok := rdVar()
		if !ok || l > uint64(len(in)-pos) {
			return -1
		}
		pos += int(l)
	}
	pos += 20 + 1
	if pos > len(in) {
		return -1
	}
	return pos
}

func hx(h common.Uint256) string { return h.ToHexString() }

func main() {
	spec := &mutSpec{childFlag: "--c02-child", objects: objects, decodersFor: decodersFor,
		mainDecoder: func(kind string) string {
			return map[string]string{"tx": "Transaction.Deserialization", "header": "Header.Deserialization", "block": "Block.Deserialization"}[kind]
		}}
	if len(os.Args) > 1 && os.Args[1] == spec.childFlag {
		childMain(spec, os.Args[2:])
		return
	}
	r := ev.Start("C02", "exploration")
	checkTxs(r)
	checkHeaders(r)
	checkBlocks(r)
	checkOversize(r)
	checkAttributes(r)
	cov := runMutations(r, spec)
	r.Assume("signature bytes are fixed patterns (decoders never verify signatures); keys are real P-256 points",
		"transaction attributes are empty (MAX_ATTRIBUTES_LEN = 0) and the only payload type is InvokeCode, as in the code",
		"a mutant that decodes successfully is not a violation (the corrupted field may be a value); only panic / fatal / inconsistent identity are")
	cov["rule"] = "tx: 6 field vectors x code lengths x 43 signature sets; header: 6 field vectors x payload lengths x 64 bookkeeper/signature sets; " +
		"block: all sequences of <=3 (thorough 5) txs from a 4-tx pool with two signature variants of one tx x up to 6 roots x 2 header sig sets; " +
		"oversize MAX-1/MAX/MAX+1/MAX+256 by code and by signatures via 3 entry points; mutations (child processes, ulimit -v 4000000): every truncation, " +
		"every byte x 4 replacements, every count/length prefix x blown-up values, every prefix pair x 3x3 values, on 12 tx + 8 header + 4 block objects (thorough: + every signature set of the tx alphabet and every third of the header alphabet)"
	if r.NViolations() == 0 { // vacuity guard; a run that already found violations reports those (exit 1), not exit 2
		r.Require("tx_roundtrip", "tx_identity_sig_independent", "hdr_roundtrip", "hdr_identity_sig_independent", "block_accept",
		"block_reject_duplicate", "block_reject_wrong_root", "oversize_refused", "maxsize_accepted", "attr_roundtrip", "attr_reject",
		"mutant_accepted", "mutant_clean_error")
	}
	r.Finish(cov)
}
