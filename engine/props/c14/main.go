// C14 — blocks / headers need a signature quorum of the validators in force (model_checking, real ledger).
//
// Part 1 (quorum sweep): for every validator-set size N (1..7 quick / 1..10 thorough), a real on-disk
// ledger whose genesis lists N validators, every region {private net (legacy rule), main net low heights
// (legacy), main net header tip == 20 000 000 (last legacy height), main net header tip > 20 000 000 (new
// rule)} and every entry path {AddBlock, ExecuteBlock+SubmitBlock, AddHeaders}: EVERY subset of the N
// validators as signers (2^N) plus the boundary classes built just below each threshold (duplicated
// bookkeeper, duplicated signature, foreign key, corrupted signature, signature over another hash,
// bookkeeper listed without signature, unlisted member signature, foreign signature, trailing garbage,
// reversed signature order, and for quorum >= 2 the positional repeated-signature classes: every listed order
// of the first 2 (thorough 3) genuine bookkeepers x every assignment with repetition of those SigData slots
// to the listed members, all slots valid). Oracle (implication): accept => #distinct set members with a valid signature
// over the header hash >= m and no foreign / duplicate bookkeeper listed; m = N-floor(6N/7) where the
// legacy rule applies, N-floor((N-1)/3) otherwise. After EVERY call the validator sets in force held by the
// ledger (header path / block path) must equal the reference sets, and a rejected call must leave
// heights and tip unchanged.
//
// Every variant is additionally delivered against what the ledger already holds for that height: after
// AddHeader of the fully signed header with the SAME unsigned part / hash (header-cache hit), after the very
// same variant was first offered to AddHeader, and after ExecuteBlock of the honest block (same hash,
// different Bookkeepers/SigData: non-validator signatures, signatures over another hash, missing SigData,
// bookkeepers >= quorum with fewer signatures, ...). After every acceptance the header served by
// GetHeaderByHeight / GetBlockByHeight must itself carry the quorum.
//
// Part 2 (hand-over histories): mc.BFS over event sequences (depth 2-3 quick / 3-4 thorough) on fresh
// ledgers: plain / config-announcing (add, remove, replace a validator) blocks and headers signed by the
// set in force, by the previous set, by one signer too few, with a wrong block root or a wrong state root
// (rejected after signature verification), and restart. On every path a config-ANNOUNCING header/block is
// also refused at EVERY rejection stage (bad timestamp, too few bookkeepers, foreign bookkeeper, no / damaged
// / wrong-hash signatures under a correct bookkeeper list, undecodable payload, wrong block root, wrong
// state root), each followed by a header/block signed by the announced set; the same suite runs in the
// sweep for every N, region and path. The reference model changes the set in force only when a block
// (header) announcing NewChainConfig is accepted.
package main

import (
	"encoding/hex"
	"fmt"
	"os"
	"sort"
	"strings"
	"sync"
	"sync/atomic"
	"time"

	"github.com/ontio/ontology-crypto/keypair"
	osig "github.com/ontio/ontology-crypto/signature"
	"github.com/polynetwork/poly/common"
	"github.com/polynetwork/poly/common/config"
	vconfig "github.com/polynetwork/poly/consensus/vbft/config"
	"github.com/polynetwork/poly/core/signature"
	"github.com/polynetwork/poly/core/store/ledgerstore"
	"github.com/polynetwork/poly/core/types"
	"verif.local/engine/ev"
	"verif.local/engine/mc"
	"verif.local/engine/polyenv"
)

const forkTip = 20000000 // legacy rule applies on main net while the header tip is <= forkTip
const lowFill = 1 << 16

var r *ev.Run

var posK3 bool // thorough: positional classes over the first 3 listed bookkeepers (quick: 2)

// ---------------------------------------------------------------------------------------------
// reference arithmetic and signature judgement (shares nothing with verifyHeader/VerifyMultiSignature)

func mLegacy(n int) int { return n - (6*n)/7 }
func mNew(n int) int    { return n - (n-1)/3 }

func legacyApplies(main bool, hdrTip uint32) bool { return !main || hdrTip <= forkTip }

func mReq(n int, main bool, hdrTip uint32) int {
	if legacyApplies(main, hdrTip) {
		return mLegacy(n)
	}
	return mNew(n)
}

type verdictIn struct {
	valid   int // distinct members of the set in force having at least one valid signature over the hash
	foreign bool
	dup     bool
}

func judge(set []*polyenv.Acct, hdr *types.Header) verdictIn {
	hash := hdr.Hash()
	var v verdictIn
	ids := map[string]bool{}
	for _, a := range set {
		ids[a.PubHex] = true
	}
	seen := map[string]bool{}
	for _, bk := range hdr.Bookkeepers {
		id := hex.EncodeToString(keypair.SerializePublicKey(bk))
		if !ids[id] {
			v.foreign = true
		}
		if seen[id] {
			v.dup = true
		}
		seen[id] = true
	}
	for _, a := range set {
		for _, sd := range hdr.SigData {
			so, err := osig.Deserialize(sd)
			if err != nil {
				continue
			}
			if osig.Verify(a.Pub, hash[:], so) {
				v.valid++
				break
			}
		}
	}
	return v
}

// ---------------------------------------------------------------------------------------------
// signer specifications

const (
	sgGood = iota
	sgCorrupt
	sgOtherHash
	sgGarbage
)

type sigEnt struct {
	who  *polyenv.Acct
	kind int
}

type sigSpec struct {
	name string
	bks  []*polyenv.Acct
	sigs []sigEnt
}

func good(as ...*polyenv.Acct) []sigEnt {
	out := make([]sigEnt, len(as))
	for i, a := range as {
		out[i] = sigEnt{a, sgGood}
	}
	return out
}

func cat(a []*polyenv.Acct, b ...*polyenv.Acct) []*polyenv.Acct {
	return append(append([]*polyenv.Acct{}, a...), b...)
}

// applySpec fills Bookkeepers / SigData (neither is covered by the header hash).
func applySpec(hdr *types.Header, sp sigSpec) {
	hash := hdr.Hash()
	hdr.Bookkeepers = nil
	hdr.SigData = nil
	for _, b := range sp.bks {
		hdr.Bookkeepers = append(hdr.Bookkeepers, b.Pub)
	}
	for _, s := range sp.sigs {
		var sd []byte
		var err error
		switch s.kind {
		case sgGood:
			sd, err = signature.Sign(s.who, hash[:])
		case sgCorrupt:
			sd, err = signature.Sign(s.who, hash[:])
			if err == nil {
				sd = append([]byte{}, sd...)
				sd[len(sd)/2] ^= 0x40
			}
		case sgOtherHash:
			other := hash
			other[0] ^= 1
			sd, err = signature.Sign(s.who, other[:])
		case sgGarbage:
			sd = []byte{0xff, 0xfe, 0xfd}
		}
		if err != nil {
			panic(err)
		}
		hdr.SigData = append(hdr.SigData, sd)
	}
}

// specsFor: every subset of the set + the boundary classes around every threshold t.
func specsFor(set []*polyenv.Acct, foreign *polyenv.Acct) []sigSpec {
	n := len(set)
	var out []sigSpec
	for mask := 0; mask < 1<<uint(n); mask++ {
		var who []*polyenv.Acct
		for i := 0; i < n; i++ {
			if mask&(1<<uint(i)) != 0 {
				who = append(who, set[i])
			}
		}
		out = append(out, sigSpec{fmt.Sprintf("subset/k=%d", len(who)), who, good(who...)})
	}
	ts := map[int]bool{mLegacy(n): true, mNew(n): true}
	var tl []int
	for t := range ts {
		tl = append(tl, t)
	}
	sort.Ints(tl)
	for _, t := range tl {
		if t < 1 || t > n {
			continue
		}
		first := set[:t]
		pre := set[:t-1] // t-1 honest members
		tag := func(s string) string { return fmt.Sprintf("%s/t=%d", s, t) }
		// duplicated bookkeeper: t entries, t-1 distinct (t>=2) ; t distinct + one repeated
		if t >= 2 {
			d := cat(pre, pre[0])
			out = append(out, sigSpec{tag("dup-bookkeeper"), d, good(d...)})
		}
		d2 := cat(first, first[0])
		out = append(out, sigSpec{tag("dup-bookkeeper-extra"), d2, good(d2...)})
		// duplicated signature: t distinct bookkeepers, t-1 distinct signatures + a repeat
		if t >= 2 {
			out = append(out, sigSpec{tag("dup-signature"), first, good(cat(pre, pre[0])...)})
		}
		// foreign key in place of the t-th member / in addition to t members
		f1 := cat(pre, foreign)
		out = append(out, sigSpec{tag("foreign"), f1, good(f1...)})
		f2 := cat(first, foreign)
		out = append(out, sigSpec{tag("foreign-extra"), f2, good(f2...)})
		// foreign signature only (bookkeepers are members)
		out = append(out, sigSpec{tag("foreign-signature"), first, good(cat(pre, foreign)...)})
		// corrupted signature (last / first position)
		out = append(out, sigSpec{tag("invalid-signature-last"), first, append(good(pre...), sigEnt{first[t-1], sgCorrupt})})
		out = append(out, sigSpec{tag("invalid-signature-first"), first, append([]sigEnt{{first[0], sgCorrupt}}, good(first[1:]...)...)})
		// signature over another hash
		out = append(out, sigSpec{tag("other-hash"), first, append(good(pre...), sigEnt{first[t-1], sgOtherHash})})
		// bookkeeper listed without signature
		out = append(out, sigSpec{tag("listed-without-signature"), first, good(pre...)})
		// signature of a member that is not listed
		if n > t {
			out = append(out, sigSpec{tag("unlisted-member-signature"), first, good(cat(pre, set[t])...)})
		}
		// t good signatures followed by garbage / garbage first
		out = append(out, sigSpec{tag("trailing-garbage"), first, append(good(first...), sigEnt{nil, sgGarbage})})
		out = append(out, sigSpec{tag("leading-garbage"), first, append([]sigEnt{{nil, sgGarbage}}, good(first...)...)})
		// reversed signature order
		rev := make([]*polyenv.Acct, t)
		for i := range first {
			rev[t-1-i] = first[i]
		}
		out = append(out, sigSpec{tag("reversed-signatures"), first, good(rev...)})
	}
	// positional repeated-signature classes (quorum >= 2): t distinct genuine bookkeepers listed in every
	// order of the first k of them, every assignment (with repetition) of the first k SigData slots to those
	// k members, the remaining slots signed by their own bookkeeper; every slot is a VALID signature.
	for _, t := range tl {
		if t < 2 || t > n {
			continue
		}
		k := 2
		if posK3 && t >= 3 {
			k = 3
		}
		var perms [][]int
		var gen func(cur []int, used int)
		gen = func(cur []int, used int) {
			if len(cur) == k {
				perms = append(perms, append([]int{}, cur...))
				return
			}
			for i := 0; i < k; i++ {
				if used&(1<<uint(i)) == 0 {
					gen(append(cur, i), used|1<<uint(i))
				}
			}
		}
		gen(nil, 0)
		total := 1
		for i := 0; i < k; i++ {
			total *= k
		}
		for _, pm := range perms {
			listed := make([]*polyenv.Acct, t)
			copy(listed, set[:t])
			on := ""
			for i, x := range pm {
				listed[i] = set[x]
				on += string(rune('A' + x))
			}
			for a := 0; a < total; a++ {
				signers := make([]*polyenv.Acct, t)
				copy(signers, listed)
				sn := ""
				for i, x := 0, a; i < k; i, x = i+1, x/k {
					signers[i] = set[x%k]
					sn += string(rune('A' + x%k))
				}
				out = append(out, sigSpec{fmt.Sprintf("positional/t=%d/listed=%s/signed=%s", t, on, sn), listed, good(signers...)})
			}
		}
	}
	out = append(out, sigSpec{"all-listed-no-signature", set, nil})
	return out
}

// ---------------------------------------------------------------------------------------------
// simulated node: real ledger + reference model of the sets in force

type sim struct {
	ch      *polyenv.Chain
	g       *types.Block
	gvals   []*polyenv.Acct
	main    bool
	tag     string
	blkSet  []*polyenv.Acct
	hdrSet  []*polyenv.Acct
	prevBlk []*polyenv.Acct
	prevHdr []*polyenv.Acct
	blkCfgH uint32
	hdrTip  uint32 // reference header tip (len(headerIndex)-1 as the reference counts it)
	inflate uint32 // 0 = not inflated, else the tip set by VerifC14SetHeaderTip (re-applied on restart)
	fresh   int
	seq     uint64
	pinSeq  uint64
	diverge string // the ledger no longer matches the reference (set in force / tip): nothing further is judged on it
	flag    string // a quorum violation was recorded on this path (BFS does not expand such states further)
}

var tmpDirs sync.Map

var tOpen, tCall, tClose, nOpen int64

func openSim(tag string, gvals []*polyenv.Acct, g *types.Block, main bool) *sim {
	t0 := time.Now()
	defer func() { atomic.AddInt64(&tOpen, int64(time.Since(t0))); atomic.AddInt64(&nOpen, 1) }()
	dir := polyenv.TmpDir("c14-")
	tmpDirs.Store(dir, true)
	l, err := ledgerstore.NewLedgerStore(dir)
	if err != nil {
		r.HarnessError("NewLedgerStore: %v", err)
	}
	if err := l.InitLedgerStoreWithGenesisBlock(g, polyenv.Pubs(gvals)); err != nil {
		r.HarnessError("InitLedgerStoreWithGenesisBlock: %v", err)
	}
	ch := &polyenv.Chain{Dir: dir, L: l, Vals: gvals, Genesis: g}
	return &sim{ch: ch, g: g, gvals: gvals, main: main, tag: tag, blkSet: gvals, hdrSet: gvals, prevBlk: gvals, prevHdr: gvals, fresh: 1000}
}

func (s *sim) close() {
	t0 := time.Now()
	defer func() { atomic.AddInt64(&tClose, int64(time.Since(t0))) }()
	s.ch.Close()
	os.RemoveAll(s.ch.Dir)
	tmpDirs.Delete(s.ch.Dir)
}

func (s *sim) restart() error {
	s.ch.L.Close()
	l, err := ledgerstore.NewLedgerStore(s.ch.Dir)
	if err != nil {
		return err
	}
	if err := l.InitLedgerStoreWithGenesisBlock(s.g, polyenv.Pubs(s.gvals)); err != nil {
		return err
	}
	s.ch.L = l
	s.hdrSet, s.prevHdr = s.blkSet, s.prevBlk
	s.hdrTip = l.GetCurrentBlockHeight()
	if s.inflate != 0 {
		s.setTip(s.inflate, false)
	}
	return nil
}

// setTip inflates the header index (see the accessor's comment) and chains a driver-made header at upto.
func (s *sim) setTip(upto uint32, real bool) {
	last := &types.Header{Version: types.CURR_HEADER_VERSION, ChainID: polyenv.ChainID(), Height: upto,
		Timestamp: s.g.Header.Timestamp + 1000000, ConsensusData: uint64(upto), ConsensusPayload: polyenv.VbftPayload(0, nil)}
	s.ch.L.VerifC14SetHeaderTip(upto, last, real, lowFill)
	s.hdrTip = upto
	s.inflate = upto
	if got := s.ch.L.GetCurrentHeaderHeight(); got != upto {
		r.HarnessError("header tip after inflation %d != %d", got, upto)
	}
}

func names(set []*polyenv.Acct) string {
	var b []string
	for _, a := range set {
		b = append(b, a.PubHex[2:8])
	}
	return strings.Join(b, ",")
}

func setMap(set []*polyenv.Acct) map[string]bool {
	m := map[string]bool{}
	for _, a := range set {
		m[a.PubHex] = true
	}
	return m
}

func sameSet(model []*polyenv.Acct, led map[string]uint32) bool {
	if len(model) != len(led) {
		return false
	}
	for _, a := range model {
		if _, ok := led[a.PubHex]; !ok {
			return false
		}
	}
	return true
}

func ledNames(m map[string]uint32) string {
	var b []string
	for k := range m {
		b = append(b, k[2:8])
	}
	sort.Strings(b)
	return strings.Join(b, ",")
}

func chainCfg(set []*polyenv.Acct) *vconfig.ChainConfig {
	c := &vconfig.ChainConfig{Version: 1, View: 2, N: uint32(len(set)), C: uint32(len(set) / 3),
		BlockMsgDelay: 10 * time.Second, HashMsgDelay: 10 * time.Second, PeerHandshakeTimeout: 10 * time.Second, MaxBlockChangeView: 1000}
	for i, a := range set {
		c.Peers = append(c.Peers, &vconfig.PeerConfig{Index: uint32(i + 1), ID: a.PubHex})
		c.PosTable = append(c.PosTable, uint32(i+1))
	}
	return c
}

type callOut struct {
	accepted bool
	err      error
	region   string
	m        int
	v        verdictIn
	n        int
}

const (
	pAdd = "AddBlock"
	pSub = "SubmitBlock"
	pHdr = "AddHeaders"
	pHdr1 = "AddHeader"
	pExec = "ExecuteBlock" // prior step only: ExecuteBlock of the block, nothing submitted
)

// call builds the successor block (or header) with the given signer spec / announced config / defect and
// feeds it through the given path; evaluates the oracle; keeps the reference model in step.
// defect: "" | "badroot" | "badstate". key = stable class key used in violation keys.
func (s *sim) call(path string, sp sigSpec, newSet []*polyenv.Acct, defect, key string, trace []string) callOut {
	L := s.ch.L
	seq := s.pinSeq // experiments deliver several variants of ONE header (same unsigned part, same hash)
	if seq == 0 {
		s.seq++
		seq = s.seq
	}
	t0 := time.Now()
	defer func() { atomic.AddInt64(&tCall, int64(time.Since(t0))) }()
	isHdr := path == pHdr || path == pHdr1
	bh0, bhash0, hh0 := L.GetCurrentBlockHeight(), L.GetCurrentBlockHash(), L.GetCurrentHeaderHeight()
	if hh0 != s.hdrTip {
		r.HarnessError("%s: reference header tip %d != ledger %d (trace %v)", s.tag, s.hdrTip, hh0, trace)
	}
	var prevHash common.Uint256
	var height uint32
	if isHdr {
		prevHash, height = L.GetCurrentHeaderHash(), hh0+1
	} else {
		prevHash, height = bhash0, bh0+1
	}
	prevHdr, err := L.GetHeaderByHash(prevHash)
	if err != nil || prevHdr == nil {
		r.HarnessError("%s: no prev header at %d: %v", s.tag, height-1, err)
	}
	var cfg *vconfig.ChainConfig
	if newSet != nil {
		cfg = chainCfg(newSet)
	}
	hdr := &types.Header{Version: types.CURR_HEADER_VERSION, ChainID: polyenv.ChainID(), PrevBlockHash: prevHash,
		Timestamp: prevHdr.Timestamp + 1, Height: height, ConsensusData: seq,
		ConsensusPayload: polyenv.VbftPayload(s.blkCfgH, cfg), NextBookkeeper: polyenv.OperatorAddr(s.gvals)}
	switch defect {
	case "badtime":
		hdr.Timestamp = prevHdr.Timestamp
	case "badpayload":
		hdr.ConsensusPayload = []byte("{\"leader\":1,\"new_chain_config\":")
	}
	if !isHdr || hh0 == bh0 { // a header right above the block tip is the header of the next block
		hdr.BlockRoot = L.GetBlockRootWithPreBlockHashes(height, []common.Uint256{prevHash})
		if defect == "badroot" {
			hdr.BlockRoot[5] ^= 0x10
		}
	}
	applySpec(hdr, sp)
	set := s.blkSet
	if isHdr {
		set = s.hdrSet
	}
	out := callOut{n: len(set), v: judge(set, hdr)}
	legacy := legacyApplies(s.main, s.hdrTip)
	out.m = mReq(len(set), s.main, s.hdrTip)
	switch {
	case !s.main:
		out.region = "private-legacy"
	case s.hdrTip < forkTip:
		out.region = "main-legacy"
	case legacy:
		out.region = "main-boundary"
	default:
		out.region = "main-new"
	}
	blk := &types.Block{Header: hdr}
	if path == pExec {
		if _, e := L.ExecuteBlock(blk); e != nil {
			r.HarnessError("ExecuteBlock: %v", e)
		}
		return out
	}
	switch path {
	case pHdr:
		out.err = L.AddHeaders([]*types.Header{hdr})
	case pHdr1:
		out.err = L.AddHeader(hdr)
	case pAdd:
		res, e := L.ExecuteBlock(blk)
		if e != nil {
			r.HarnessError("ExecuteBlock: %v", e)
		}
		root := res.MerkleRoot
		if defect == "badstate" {
			root[7] ^= 0x20
		}
		out.err = L.AddBlock(blk, root)
	case pSub:
		res, e := L.ExecuteBlock(blk)
		if e != nil {
			r.HarnessError("ExecuteBlock: %v", e)
		}
		out.err = L.SubmitBlock(blk, res)
	}
	bh1, hh1 := L.GetCurrentBlockHeight(), L.GetCurrentHeaderHeight()
	if isHdr {
		out.accepted = out.err == nil && hh1 == hh0+1 && L.GetCurrentHeaderHash() == hdr.Hash()
	} else {
		out.accepted = out.err == nil && bh1 == bh0+1 && L.GetCurrentBlockHash() == hdr.Hash()
	}
	r.Eval()
	detail := func(extra string) map[string]any {
		return map[string]any{"ledger": s.tag, "trace": trace, "path": path, "class": sp.name, "defect": defect, "region": out.region,
			"set_size": out.n, "required": out.m, "distinct_valid_member_signatures": out.v.valid, "foreign_listed": out.v.foreign,
			"duplicate_listed": out.v.dup, "bookkeepers": len(hdr.Bookkeepers), "signatures": len(hdr.SigData), "height": height,
			"header_tip": s.hdrTip, "err": fmt.Sprint(out.err), "announces": newSet != nil, "note": extra}
	}
	// --- oracle 1: accept => quorum of distinct members, nothing foreign / duplicated listed
	if out.accepted {
		if out.v.valid < out.m {
			r.Violation(fmt.Sprintf("accepted-below-quorum/%s/%s/%s", out.region, path, key), detail(""))
			s.flag = "below-quorum"
		}
		if out.v.foreign {
			r.Violation(fmt.Sprintf("accepted-foreign-bookkeeper/%s/%s/%s", out.region, path, key), detail(""))
			s.flag = "foreign"
		}
		if out.v.dup {
			r.Violation(fmt.Sprintf("accepted-duplicate-bookkeeper/%s/%s/%s", out.region, path, key), detail(""))
			s.flag = "dup"
		}
		if defect != "" {
			r.Violation(fmt.Sprintf("accepted-defective-block/%s/%s", path, defect), detail(""))
		}
	} else {
		// --- a rejected call leaves tip and heights alone
		if bh1 != bh0 || L.GetCurrentBlockHash() != bhash0 || hh1 != hh0 {
			r.Violation(fmt.Sprintf("rejected-call-moved-tip/%s/%s", path, key), detail(fmt.Sprintf("block %d->%d header %d->%d", bh0, bh1, hh0, hh1)))
			s.diverge = "tip-moved"
		}
		if out.err == nil {
			r.Class("silent-nil-without-progress")
		}
	}
	// --- oracle 2: what the ledger stores and serves for that height must itself carry the quorum
	if out.accepted {
		served := map[string]*types.Header{}
		if h, e := L.GetHeaderByHeight(height); e == nil && h != nil {
			served["GetHeaderByHeight"] = h
		}
		if !isHdr {
			if b, e := L.GetBlockByHeight(height); e == nil && b != nil {
				served["GetBlockByHeight"] = b.Header
			} else {
				r.Violation(fmt.Sprintf("accepted-block-not-served/%s/%s", path, key), detail(fmt.Sprint(e)))
			}
		}
		for api, sh := range served {
			sv := judge(set, sh)
			if sh.Hash() != hdr.Hash() || sv.valid < out.m || sv.foreign || sv.dup {
				r.Violation(fmt.Sprintf("served-header-lacks-quorum/%s/%s/%s/%s", out.region, path, api, key),
					detail(fmt.Sprintf("served header: %d distinct valid member signatures, %d bookkeepers, %d signatures, same hash %v", sv.valid, len(sh.Bookkeepers), len(sh.SigData), sh.Hash() == hdr.Hash())))
				s.flag = "served"
			}
		}
	}
	// --- reference model: the set changes only when an accepted block (header) announces a new one
	if out.accepted {
		if isHdr {
			s.hdrTip++
			if newSet != nil {
				s.prevHdr, s.hdrSet = s.hdrSet, newSet
			}
		} else {
			if height > s.hdrTip {
				s.hdrTip = height
			}
			if newSet != nil {
				s.prevBlk, s.blkSet = s.blkSet, newSet
				s.blkCfgH = height
			}
		}
	}
	lh, lb := L.VerifC14PeerInfo()
	if !sameSet(s.blkSet, lb) || !sameSet(s.hdrSet, lh) {
		what := "accepted"
		if !out.accepted {
			what = "rejected"
		}
		k := defect
		if k == "" {
			k = key
		}
		r.Violation(fmt.Sprintf("set-in-force-changed-by-%s-call/%s/%s", what, path, k),
			detail(fmt.Sprintf("reference block-set [%s] header-set [%s]; ledger block-set [%s] header-set [%s]", names(s.blkSet), names(s.hdrSet), ledNames(lb), ledNames(lh))))
		s.diverge = "set-mismatch"
	}
	return out
}

// ---------------------------------------------------------------------------------------------
// part 1: quorum sweep

type thr struct{ minAccept, maxReject int }

var (
	thrMu   sync.Mutex
	thrTab  = map[string]*thr{} // region/N/path -> observed acceptance boundary over plain subsets
	nCalls  int64
	canonKO int64
	verdMu  sync.Mutex
	verdVec = map[string][]byte{} // ledger tag -> accept/reject vector (poke vs real cross-check)
)

func noteThr(region string, n int, path string, k int, acc bool) {
	thrMu.Lock()
	defer thrMu.Unlock()
	key := fmt.Sprintf("%s/N=%d/%s", region, n, path)
	t := thrTab[key]
	if t == nil {
		t = &thr{minAccept: 1 << 30, maxReject: -1}
		thrTab[key] = t
	}
	if acc && k < t.minAccept {
		t.minAccept = k
	}
	if !acc && k > t.maxReject {
		t.maxReject = k
	}
}

// priors: what the ledger already holds for the height when the variant arrives.
const (
	prHdrGood = "signed-header-of-same-hash-cached" // AddHeader of the fully signed header with the same unsigned part
	prSame    = "same-variant-via-AddHeader-before" // the very same variant was first offered to AddHeader
	prExec    = "honest-block-executed-before"      // ExecuteBlock of the fully signed block of the same hash
)

// firstK: the subset spec consisting of exactly the first k validators.
func firstK(sp sigSpec, vals []*polyenv.Acct) bool {
	for i, a := range sp.bks {
		if i >= len(vals) || a != vals[i] {
			return false
		}
	}
	return true
}

func (s *sim) priorsFor(path string) []string {
	if path == pHdr || path == pHdr1 {
		return []string{prSame}
	}
	if s.ch.L.GetCurrentHeaderHeight() == s.ch.L.GetCurrentBlockHeight() {
		return []string{prHdrGood, prSame, prExec}
	}
	return []string{prExec} // header tip ahead of the block tip (inflated index): no header of the next block can be added
}

// experiment: one header (one hash) delivered as several variants: the prior step, then the variant under
// test through `path`; afterwards the block tip is re-aligned with the header tip by committing the fully
// signed block of the same hash if the variant was refused.
func (s *sim) experiment(path string, sp sigSpec, prior string, trace []string) callOut {
	s.seq++
	s.pinSeq = s.seq
	defer func() { s.pinSeq = 0 }()
	full := sigSpec{"all", s.blkSet, good(s.blkSet...)}
	blockPath := path == pAdd || path == pSub
	tr := append(append([]string{}, trace...), "prior="+prior)
	switch prior {
	case prHdrGood:
		if o := s.call(pHdr1, full, nil, "", sp.name+"/prior-step:signed-header", tr); !o.accepted {
			atomic.AddInt64(&canonKO, 1)
			r.Note("canonical_rejected_"+s.tag, fmt.Sprintf("prior AddHeader: %v", o.err))
		}
	case prSame:
		o := s.call(pHdr1, sp, nil, "", sp.name+"/offered-to-AddHeader-first", tr)
		r.Class("entry-AddHeader/" + map[bool]string{true: "accept", false: "reject"}[o.accepted])
	case prExec:
		s.call(pExec, full, nil, "", "", tr)
	}
	atomic.AddInt64(&nCalls, 1)
	if s.diverge != "" {
		return callOut{}
	}
	out := s.call(path, sp, nil, "", sp.name+"/prior="+prior, tr)
	atomic.AddInt64(&nCalls, 1)
	if blockPath && s.diverge == "" && s.inflate == 0 && s.ch.L.GetCurrentHeaderHeight() > s.ch.L.GetCurrentBlockHeight() {
		if o := s.call(pSub, full, nil, "", sp.name+"/realign", tr); !o.accepted {
			atomic.AddInt64(&canonKO, 1)
			r.Note("canonical_rejected_"+s.tag, fmt.Sprintf("realign after %s: %v", prior, o.err))
		}
		atomic.AddInt64(&nCalls, 1)
	}
	return out
}

func (s *sim) sweepPhase(phase string, paths []string, specs []sigSpec, vec *[]byte) {
	n := len(s.blkSet)
	for _, path := range paths {
		for _, sp := range specs {
			if r.Expired() {
				r.Capped("sweep " + s.tag)
				return
			}
			out := s.call(path, sp, nil, "", sp.name, []string{phase, path, sp.name})
			atomic.AddInt64(&nCalls, 1)
			res := "reject"
			if out.accepted {
				res = "accept"
				*vec = append(*vec, 'A')
			} else {
				*vec = append(*vec, 'r')
			}
			r.Class(out.region + "/" + res)
			r.Case(fmt.Sprintf("%s/N=%d/%s/%s/%s", out.region, n, path, sp.name, res))
			if strings.HasPrefix(sp.name, "subset/") {
				noteThr(out.region, n, path, out.v.valid, out.accepted)
				if out.v.valid == n && !out.accepted {
					atomic.AddInt64(&canonKO, 1)
					r.Note("canonical_rejected_"+s.tag, fmt.Sprintf("%s %s: %v", out.region, path, out.err))
				}
			}
			if !out.accepted && out.region == "main-new" && out.v.valid >= mLegacy(n) && out.v.valid < mNew(n) && !out.v.foreign && !out.v.dup {
				r.Class("main-new/reject:legacy-would-accept")
			}
			if out.region == "main-boundary" && out.accepted && out.v.valid < mNew(n) {
				r.Class("main-boundary/accept:below-new-quorum")
			}
			if s.diverge != "" {
				return // the ledger no longer matches the reference; the violation is recorded
			}
		}
		// the same variants against what the ledger already holds for that height (not repeated at the
		// boundary tip: the mechanism does not depend on the threshold rule; low and new regions run it)
		for _, sp := range specs {
			if phase == "tip=20000000" {
				break
			}
			if r.Quick() && strings.HasPrefix(sp.name, "positional/") {
				continue
			}
			if r.Quick() && strings.HasPrefix(sp.name, "subset/") && !firstK(sp, s.gvals) {
				continue // quick: one subset per size (the first k validators); thorough: all 2^N
			}
			for _, prior := range s.priorsFor(path) {
				if r.Expired() {
					r.Capped("sweep " + s.tag)
					return
				}
				out := s.experiment(path, sp, prior, []string{phase, path, sp.name})
				if s.diverge != "" {
					return
				}
				res := "reject"
				if out.accepted {
					res = "accept"
					*vec = append(*vec, 'A')
				} else {
					*vec = append(*vec, 'r')
				}
				r.Class("prior:" + prior + "/" + res)
				r.Case(fmt.Sprintf("%s/N=%d/%s/%s/prior=%s/%s", out.region, n, path, sp.name, prior, res))
			}
		}
		// config-ANNOUNCING header/block refused at every rejection stage, each followed by a header/block
		// signed by the announced set: the set in force must stay what it was (checked inside call()).
		for _, st := range rejectStages {
			cur := s.blkSet
			if path == pHdr {
				cur = s.hdrSet
			}
			sp, defect, ok := stageSpec(st, cur, mReq(len(cur), s.main, s.hdrTip), path)
			if !ok || r.Expired() {
				continue
			}
			announced := cat([]*polyenv.Acct{polyenv.Key(501)}, cur[1:]...)
			if defect == "badpayload" {
				announced = nil
			}
			out := s.call(path, sp, announced, defect, "announce-rep/"+st, []string{phase, path, "announce-rep/" + st})
			atomic.AddInt64(&nCalls, 1)
			res := "reject"
			if out.accepted {
				res = "accept"
				*vec = append(*vec, 'A')
			} else {
				*vec = append(*vec, 'r')
			}
			r.Class("announce-refused-at/" + st + "/" + res)
			r.Case(fmt.Sprintf("%s/N=%d/%s/announce-rep/%s/%s", out.region, n, path, st, res))
			if !out.accepted && announced != nil && (s.diverge == "" || s.diverge == "set-mismatch") {
				fo := s.call(path, sigSpec{"announced-set", announced, good(announced...)}, nil, "", "announce-rep/"+st+"+announced-set-signs",
					[]string{phase, path, "announce-rep/" + st, "then plain signed by the announced set"})
				atomic.AddInt64(&nCalls, 1)
				if fo.accepted {
					*vec = append(*vec, 'A')
					r.Class("followup-by-announced-set/accept")
				} else {
					*vec = append(*vec, 'r')
					r.Class("followup-by-announced-set/reject")
				}
			}
			if s.diverge != "" {
				return
			}
		}
	}
}

func sweep(main bool, n int, g *types.Block, real bool) {
	vals := polyenv.Keys(n)
	foreign := polyenv.Key(500)
	tag := fmt.Sprintf("sweep/%s/N=%d", map[bool]string{false: "private", true: "main"}[main], n)
	if real {
		tag += "/real-inflation"
	}
	s := openSim(tag, vals, g, main)
	defer s.close()
	specs := specsFor(vals, foreign)
	r.Sample(map[string]any{"ledger": tag, "signer_specs": len(specs), "first": specs[1].name, "last": specs[len(specs)-1].name})
	var vec []byte
	all := []string{pAdd, pSub, pHdr}
	s.sweepPhase("low", all, specs, &vec)
	if main && s.diverge == "" {
		s.setTip(forkTip, real)
		// header tip == 20 000 000: block paths first (they do not move the header tip), then headers
		s.sweepPhase("tip=20000000", []string{pAdd, pSub}, specs, &vec)
		if s.diverge == "" {
			s.sweepPhase("tip=20000000", []string{pHdr}, specs, &vec)
		}
		if s.diverge == "" {
			s.sweepPhase("tip>20000000", all, specs, &vec)
		}
	}
	verdMu.Lock()
	verdVec[tag] = vec
	verdMu.Unlock()
}

// ---------------------------------------------------------------------------------------------
// part 2: hand-over histories (mc.BFS, state = event path replayed on a fresh real ledger)

type hst struct {
	path []string
	key  string
	dead bool
}

type hworld struct {
	main bool
	n0   int
	g    *types.Block
	vals []*polyenv.Acct
}

func (w *hworld) tag() string {
	return fmt.Sprintf("handover/%s/N0=%d", map[bool]string{false: "private", true: "main-new"}[w.main], w.n0)
}

func (w *hworld) open() *sim {
	s := openSim(w.tag(), w.vals, w.g, w.main)
	if w.main {
		s.setTip(forkTip+1, false)
	}
	return s
}

func (s *sim) key() string {
	if s.diverge != "" || s.flag != "" {
		return "DIVERGED:" + s.diverge + s.flag
	}
	return fmt.Sprintf("b=%d h+%d blk[%s] hdr[%s] pb[%s] ph[%s] cfg=%d f=%d", s.ch.L.GetCurrentBlockHeight(), s.hdrTip-s.inflate,
		names(s.blkSet), names(s.hdrSet), names(s.prevBlk), names(s.prevHdr), s.blkCfgH, s.fresh)
}

// thorough alphabet; the quick tier drops the events marked (t) — the same hand-over kind through the
// other block path — and keeps "restart" last.
var handoverEventsAll = []string{
	"A:plain/all", "S:plain/all(t)", "H:plain/all",
	"A:plain/under", "H:plain/under",
	"A:plain/old(t)", "S:plain/old", "H:plain/old",
	"A:add/all", "S:rem/all", "A:rep/all", "S:rep/all", "A:rem/all(t)", "S:add/all(t)",
	"H:add/all(t)", "H:rem/all", "H:rep/all",
	"A:plain/badpayload", "S:plain/badpayload", "H:plain/badpayload",
	// + for every path: <path>:rep/<stage> for every rejection stage, <path>:add/wronghash, <path>:rem/wronghash (initEvents)
	"restart",
}

var handoverEvents []string

// from depth 2 on only the signature-stage refusals (nosig, wronghash) of the announcing events are kept
var handoverEventsDeep []string

func initEvents(thorough bool) {
	var all []string
	for _, e := range handoverEventsAll {
		if e == "restart" {
			for _, p := range []string{"A", "S", "H"} {
				for _, st := range rejectStages {
					if st == "badpayload" || (st == "badroot" && p == "H") || (st == "badstate" && p != "A") {
						continue
					}
					all = append(all, p+":rep/"+st)
				}
				all = append(all, p+":add/wronghash", p+":rem/wronghash")
			}
		}
		all = append(all, e)
	}
	for _, e := range all {
		if strings.HasSuffix(e, "(t)") {
			if !thorough {
				continue
			}
			e = strings.TrimSuffix(e, "(t)")
		}
		handoverEvents = append(handoverEvents, e)
		if i := strings.Index(e, ":rep/"); i < 0 || !strings.Contains("badtime under foreign corrupt badroot badstate", e[i+5:]) {
			handoverEventsDeep = append(handoverEventsDeep, e)
		}
	}
}

// rejection stages of verifyHeader / saveBlock / submitBlock, in the order the checks run. Each yields a
// signer spec (+ header/block defect) that must be refused; used with config-ANNOUNCING headers/blocks to
// show that a refused announcement never becomes the set in force.
var rejectStages = []string{"badtime", "under", "foreign", "nosig", "corrupt", "wronghash", "badpayload", "badroot", "badstate"}

func stageSpec(stage string, cur []*polyenv.Acct, m int, path string) (sp sigSpec, defect string, ok bool) {
	ok = true
	switch stage {
	case "all":
		sp = sigSpec{stage, cur, good(cur...)}
	case "under": // too few bookkeepers
		sp = sigSpec{stage, cur[:m-1], good(cur[:m-1]...)}
	case "foreign": // a foreign bookkeeper next to the full set
		f := cat(cur, polyenv.Key(500))
		sp = sigSpec{stage, f, good(f...)}
	case "nosig": // correct bookkeeper list, no signature at all
		sp = sigSpec{stage, cur, nil}
	case "corrupt": // correct bookkeeper list, first signature damaged
		sp = sigSpec{stage, cur, append([]sigEnt{{cur[0], sgCorrupt}}, good(cur[1:]...)...)}
	case "wronghash": // correct bookkeeper list, well-formed signatures over another hash
		var se []sigEnt
		for _, a := range cur {
			se = append(se, sigEnt{a, sgOtherHash})
		}
		sp = sigSpec{stage, cur, se}
	case "badtime", "badpayload":
		sp, defect = sigSpec{stage, cur, good(cur...)}, stage
	case "badroot":
		sp, defect = sigSpec{stage, cur, good(cur...)}, stage
		ok = path != pHdr
	case "badstate":
		sp, defect = sigSpec{stage, cur, good(cur...)}, stage
		ok = path == pAdd
	default:
		ok = false
	}
	return
}

// apply one event; returns false when the event is not applicable in this state.
func (s *sim) apply(evn string, trace []string) bool {
	if evn == "restart" {
		if err := s.restart(); err != nil {
			r.Violation("restart-failed", map[string]any{"ledger": s.tag, "trace": trace, "err": err.Error()})
			s.diverge = "restart"
			return true
		}
		lh, lb := s.ch.L.VerifC14PeerInfo()
		if !sameSet(s.blkSet, lb) || !sameSet(s.hdrSet, lh) {
			r.Violation("set-in-force-after-restart", map[string]any{"ledger": s.tag, "trace": trace,
				"reference": names(s.blkSet), "ledger_block_set": ledNames(lb), "ledger_header_set": ledNames(lh)})
			s.diverge = "restart-set"
		}
		r.Class("handover/restart")
		return true
	}
	pc := map[byte]string{'A': pAdd, 'S': pSub, 'H': pHdr}[evn[0]]
	rest := evn[2:]
	sl := strings.Index(rest, "/")
	kind, who := rest[:sl], rest[sl+1:]
	cur, prev := s.blkSet, s.prevBlk
	if pc == pHdr {
		cur, prev = s.hdrSet, s.prevHdr
	}
	var newSet []*polyenv.Acct
	switch kind {
	case "add":
		newSet = cat(cur, polyenv.Key(s.fresh))
	case "rem":
		if len(cur) < 2 {
			return false
		}
		newSet = cat(cur[:len(cur)-1])
	case "rep":
		newSet = cat([]*polyenv.Acct{polyenv.Key(s.fresh)}, cur[1:]...)
	}
	m := mReq(len(cur), s.main, s.hdrTip)
	var sp sigSpec
	defect := ""
	if who == "old" {
		if names(prev) == names(cur) {
			return false
		}
		sp = sigSpec{who, prev, good(prev...)}
	} else {
		var ok bool
		if sp, defect, ok = stageSpec(who, cur, m, pc); !ok {
			return false
		}
		if defect == "badpayload" {
			newSet = nil // an undecodable payload announces nothing
		}
	}
	out := s.call(pc, sp, newSet, defect, kind+"/"+who, trace)
	if out.accepted && (kind == "add" || kind == "rep") {
		s.fresh++
	}
	if !out.accepted && newSet != nil && kind != "rem" && (s.diverge == "" || s.diverge == "set-mismatch") {
		// follow-up (not for "rem": a subset of the set in force signing is an ordinary block): the set announced by the REFUSED header/block signs the next one. It is judged against
		// the set really in force (for add/rep it lists a key foreign to it and must be refused).
		fo := s.call(pc, sigSpec{"announced-set", newSet, good(newSet...)}, nil, "", kind+"/"+who+"+announced-set-signs", append(append([]string{}, trace...), "(then "+evn[:2]+"plain signed by the announced set)"))
		if fo.accepted {
			r.Class("handover/followup-by-announced-set/accept")
		} else {
			r.Class("handover/followup-by-announced-set/reject")
		}
	}
	res := "reject"
	if out.accepted {
		res = "accept"
	}
	r.Class("handover/" + res)
	r.Class(fmt.Sprintf("handover/%s/%s", rest, res))
	r.Case(fmt.Sprintf("handover/%s/%s/%s/%s", s.tag, pc, rest, res))
	if who == "all" && !out.accepted && s.diverge == "" {
		atomic.AddInt64(&canonKO, 1)
		r.Note("canonical_rejected_"+s.tag, fmt.Sprintf("trace %v: %v", trace, out.err))
	}
	if who == "old" && !out.accepted {
		r.Class("handover/old-set-rejected-after-handover")
	}
	return true
}

func (w *hworld) replay(path []string) *sim {
	s := w.open()
	for i, e := range path {
		if !s.apply(e, path[:i+1]) {
			r.HarnessError("replay: event %s not applicable in %v", e, path)
		}
	}
	return s
}

// bfs: mc.BFS where a state is an event path. The worker that expands a state keeps ONE ledger positioned
// at that state for as long as events are rejected (a rejected event must leave the state key unchanged,
// which is itself checked); after an event that moved the ledger the next event starts from a fresh
// replay of the path from genesis.
func (w *hworld) bfs(depth, workers int) mc.Stats {
	s0 := w.open()
	init := hst{key: s0.key()}
	s0.close()
	var cache sync.Map // path string -> *sim positioned at that state
	lastEv := handoverEvents[len(handoverEvents)-1]
	st := mc.BFS(mc.Config[hst]{
		Init: []hst{init},
		Events: func(s hst, d int) []string {
			if s.dead {
				return nil
			}
			if d >= 2 {
				return handoverEventsDeep
			}
			return handoverEvents
		},
		Step: func(s hst, e string) (hst, bool) {
			pk := strings.Join(s.path, " ")
			var sm *sim
			if c, ok := cache.LoadAndDelete(pk); ok {
				sm = c.(*sim)
			} else {
				sm = w.replay(s.path)
				atomic.AddInt64(&nReplays, 1)
				if sm.diverge != "" || sm.key() != s.key {
					r.HarnessError("replay of %v is not deterministic: %q vs %q", s.path, sm.key(), s.key)
				}
			}
			p := append(append([]string{}, s.path...), e)
			ok := sm.apply(e, p)
			nk := sm.key()
			if (!ok || nk == s.key) && e != lastEv {
				cache.Store(pk, sm)
			} else {
				sm.close()
			}
			if !ok {
				return hst{}, false
			}
			return hst{path: p, key: nk, dead: sm.diverge != "" || sm.flag != ""}, true
		},
		Key:      func(s hst) string { return s.key },
		MaxDepth: depth, Workers: workers, Stop: r.Expired,
	})
	cache.Range(func(k, v any) bool { v.(*sim).close(); return true })
	return st
}

var nReplays int64

// ---------------------------------------------------------------------------------------------

func main() {
	r = ev.Start("C14", "model_checking")
	defer func() {
		tmpDirs.Range(func(k, _ any) bool { os.RemoveAll(k.(string)); return true })
	}()
	maxN := r.QT(7, 10)
	initEvents(r.Thorough())
	posK3 = r.Thorough()
	depth := r.QT(3, 4)
	type job struct {
		main bool
		n    int
		real bool
	}
	states, transitions, maxDepth := 0, 0, 0
	bfsInfo := map[string]any{}
	for _, main := range []bool{false, true} {
		netID := uint32(0)
		if main {
			netID = config.NETWORK_ID_MAIN_NET
		}
		// genesis blocks are built serially (they read the process-wide genesis config); afterwards the
		// code under test only reads NetworkId / ConsensusType, which stay fixed for the whole phase.
		gen := map[int]*types.Block{}
		bases := []int{4, 7, 8}
		if main {
			bases = []int{3, 4}
		}
		need := map[int]bool{}
		for n := 1; n <= maxN; n++ {
			need[n] = true
		}
		for _, b := range bases {
			need[b] = true
		}
		for n := range need {
			vals := polyenv.Keys(n)
			polyenv.Setup(netID, vals)
			gen[n] = polyenv.GenesisBlock(vals)
		}
		var wg sync.WaitGroup
		for n := maxN; n >= 1; n-- {
			wg.Add(1)
			go func(n int) {
				defer wg.Done()
				sweep(main, n, gen[n], false)
			}(n)
		}
		if main && r.Thorough() {
			// cross-check of the len() shortcut against a genuinely inflated index (about 1 GB), one ledger
			wg.Add(1)
			go func() {
				defer wg.Done()
				sweep(true, 4, gen[4], true)
			}()
		}
		var mu sync.Mutex
		for _, b := range bases {
			wg.Add(1)
			go func(b int) {
				defer wg.Done()
				w := &hworld{main: main, n0: b, g: gen[b], vals: polyenv.Keys(b)}
				d := depth - 1
				if (!main && b == 7) || (main && b == 4) {
					d = depth // 7 -> 8 crosses the legacy threshold 1 -> 2; 4 -> 5 crosses the new-rule threshold 3 -> 4
				}
				workers := 4
				if d == depth {
					workers = 12
				}
				st := w.bfs(d, workers)
				mu.Lock()
				states += st.States
				transitions += st.Transitions
				if st.MaxDepth > maxDepth {
					maxDepth = st.MaxDepth
				}
				bfsInfo[w.tag()] = map[string]any{"states": st.States, "transitions": st.Transitions, "per_depth": st.PerDepth, "max_depth": st.MaxDepth}
				if st.Truncated {
					r.Capped("bfs " + w.tag())
				}
				mu.Unlock()
			}(b)
		}
		wg.Wait()
	}
	if r.Thorough() {
		a, b := verdVec["sweep/main/N=4"], verdVec["sweep/main/N=4/real-inflation"]
		if string(a) != string(b) {
			r.Violation("harness/len-shortcut-differs-from-real-inflation", map[string]any{"shortcut": string(a), "real": string(b)})
		}
		r.Note("real_inflation_crosscheck", map[string]any{"ledger": "main N=4", "verdicts": len(b), "identical": string(a) == string(b)})
	}
	tt := map[string]string{}
	for k, t := range thrTab {
		tt[k] = fmt.Sprintf("min_signers_accepted=%d max_signers_rejected=%d", t.minAccept, t.maxReject)
	}
	r.Note("observed_thresholds", tt)
	r.Note("handover_bfs", bfsInfo)
	r.Note("cpu_profile_s", map[string]any{"ledger_opens": nOpen, "open_s": time.Duration(tOpen).Seconds(), "close_s": time.Duration(tClose).Seconds(), "calls_s": time.Duration(tCall).Seconds()})
	r.Assume("ECDSA P-256 / SHA-256 from ontology-crypto are correct (the reference counts valid signatures with the same primitives)",
		"new-rule region reached by making len(headerIndex) answer > 20 000 000 through an in-package accessor (entry count of the map header set; thorough tier cross-checks one ledger against a genuinely inflated 20 000 001-entry index)",
		"legacy rule taken to apply while the ledger's header tip (GetCurrentHeaderHeight) is <= 20 000 000 on main net, i.e. the header 20 000 001 itself is still verified under the legacy rule",
		"validator-set sizes 1..3 are accepted by genesis construction (no minimum enforced)")
	if r.NViolations() == 0 { // vacuity guard for a run that claims the property held
		r.Require("private-legacy/accept", "private-legacy/reject", "main-legacy/accept", "main-legacy/reject",
			"main-boundary/accept", "main-boundary/reject", "main-new/accept", "main-new/reject",
			"main-new/reject:legacy-would-accept", "handover/accept", "handover/reject", "handover/old-set-rejected-after-handover",
			"handover/restart", "followup-by-announced-set/reject", "handover/followup-by-announced-set/reject")
		for _, pr := range []string{prHdrGood, prSame, prExec} {
			r.Require("prior:"+pr+"/accept", "prior:"+pr+"/reject")
		}
		r.Require("entry-AddHeader/accept", "entry-AddHeader/reject")
		for _, st := range rejectStages {
			r.Require("announce-refused-at/" + st + "/reject")
			if st != "badpayload" {
				r.Require("handover/rep/" + st + "/reject")
			}
		}
	}
	if canonKO > 0 && r.NViolations() == 0 {
		r.HarnessError("canonical fully-signed block/header rejected %d times (see evidence notes)", canonKO)
	}
	r.Finish(map[string]any{
		"rule":                          "accept => distinct valid member signatures >= m(N, region) and no foreign/duplicate bookkeeper; set in force (ledger) == reference after every call; rejected call leaves tip unchanged",
		"N_range":                       fmt.Sprintf("1..%d", maxN),
		"regions":                       []string{"private-legacy", "main-legacy", "main-boundary(tip=20000000)", "main-new(tip>20000000)"},
		"paths":                         []string{pAdd, pSub, pHdr},
		"sweep_calls":                   nCalls,
		"states":                        states,
		"transitions":                   transitions + int(nCalls),
		"traces_validated_against_impl": transitions + int(nCalls),
		"max_depth":                     maxDepth,
		"handover_bases":                map[string][]int{"private": {4, 7, 8}, "main-new": {3, 4}},
		"handover_events":               handoverEvents,
		"handover_depth":                fmt.Sprintf("%d for private N0=7 and main-new N0=4, %d for the other bases", depth, depth-1),
		"handover_replays_from_genesis": nReplays,
	})
}
