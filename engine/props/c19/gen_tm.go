package main

// Trust-root / header synthesis for the tendermint-shaped routers: cosmos, okex (tendermint v0.33 types, amino),
// polygon heimdall (the repo's own port of tendermint v0.32). Validator sets of two deterministic keys; the header
// event is an epoch-switch header (NextValidatorsHash != ValidatorsHash) whose validator set is the one the
// genesis header announced, with a full commit of real signatures over the canonical precommit sign bytes
// (computed by the tendermint libraries, not by the handlers under test).

import (
	"bytes"
	"fmt"
	"sort"
	"time"

	"github.com/polynetwork/poly/native/service/header_sync/cosmos"
	"github.com/polynetwork/poly/native/service/header_sync/okex"
	"github.com/polynetwork/poly/native/service/header_sync/polygon"
	pt "github.com/polynetwork/poly/native/service/header_sync/polygon/types"
	ptsecp "github.com/polynetwork/poly/native/service/header_sync/polygon/types/secp256k1"
	"github.com/polynetwork/poly/native/service/utils"
	"github.com/tendermint/go-amino"
	"github.com/tendermint/tendermint/crypto"
	"github.com/tendermint/tendermint/crypto/ed25519"
	tm "github.com/tendermint/tendermint/types"
	"github.com/tendermint/tendermint/version"
)

func fill(b byte) []byte { return bytes.Repeat([]byte{b}, 32) }

func tmTime(h int64) time.Time { return time.Unix(pastTime+h*6, 0).UTC() }

type tmSet struct {
	keys []crypto.PrivKey
}

func edSet(tag string) *tmSet {
	s := &tmSet{}
	for i := 0; i < 2; i++ {
		s.keys = append(s.keys, ed25519.GenPrivKeyFromSecret([]byte(fmt.Sprintf("c19-tm-%s-%d", tag, i))))
	}
	// slot order of tendermint < v0.34: by address
	sort.Slice(s.keys, func(a, b int) bool {
		return bytes.Compare(s.keys[a].PubKey().Address(), s.keys[b].PubKey().Address()) < 0
	})
	return s
}

func (s *tmSet) vals() []*tm.Validator {
	var o []*tm.Validator
	for _, k := range s.keys {
		o = append(o, tm.NewValidator(k.PubKey(), 10))
	}
	return o
}

func (s *tmSet) hash() []byte { return tm.NewValidatorSet(s.vals()).Hash() }

func tmHeader(chainID string, height int64, cur, next *tmSet) tm.Header {
	return tm.Header{
		Version: version.Consensus{Block: 10, App: 1}, ChainID: chainID, Height: height, Time: tmTime(height),
		LastBlockID:    tm.BlockID{Hash: fill(1), PartsHeader: tm.PartSetHeader{Total: 1, Hash: fill(2)}},
		LastCommitHash: fill(3), DataHash: fill(4), ValidatorsHash: cur.hash(), NextValidatorsHash: next.hash(),
		ConsensusHash: fill(5), AppHash: fill(0xaa), LastResultsHash: fill(6), EvidenceHash: fill(7),
		ProposerAddress: cur.keys[0].PubKey().Address(),
	}
}

// tmSigned: header at `height` validated by `cur` (all validators precommit), announcing `next`.
func tmSigned(chainID string, height int64, cur, next *tmSet) (tm.Header, *tm.Commit, []*tm.Validator) {
	hdr := tmHeader(chainID, height, cur, next)
	bid := tm.BlockID{Hash: hdr.Hash(), PartsHeader: tm.PartSetHeader{Total: 1, Hash: fill(8)}}
	ts := tmTime(height).Add(time.Second)
	sigs := make([]tm.CommitSig, len(cur.keys))
	for i, k := range cur.keys {
		sigs[i] = tm.CommitSig{BlockIDFlag: tm.BlockIDFlagCommit, ValidatorAddress: k.PubKey().Address(), Timestamp: ts}
	}
	commit := tm.NewCommit(height, 0, bid, sigs)
	for i, k := range cur.keys {
		sig, err := k.Sign(commit.VoteSignBytes(chainID, i))
		if err != nil {
			panic(err)
		}
		commit.Signatures[i].Signature = sig
	}
	return hdr, commit, cur.vals()
}

func mustAmino(cdc *amino.Codec, v any) []byte {
	b, err := cdc.MarshalBinaryBare(v)
	if err != nil {
		panic(err)
	}
	return b
}

const tmG0Note = "height 1 (first possible tendermint height)"
const tmH0Note = "epoch-switch header at height 2 validated by the set G0 announced"
const tmGzNote = "all-zero header (height 0, empty chain id, empty validator hashes, no commit) — accepted by the handler"
const tmNote = "epoch-switch header at G1.height+1 whose validator set is the one G1 announced, full commit of real ed25519/secp256k1 precommit signatures"

func genCosmos() *routerCase {
	const cid = "c19-cosmos"
	s0, s1, s2, s3 := edSet("c0"), edSet("c1"), edSet("c2"), edSet("c3")
	gh, gc, gv := tmSigned(cid, 100, s0, s1)
	g2h, g2c, g2v := tmSigned(cid, 200, s0, s3)
	hh, hc, hv := tmSigned(cid, 101, s1, s2)
	s4, s5 := edSet("c4"), edSet("c5")
	g0h, g0c, g0v := tmSigned(cid, 1, s0, s4)
	h0h, h0c, h0v := tmSigned(cid, 2, s4, s5)
	return &routerCase{name: "cosmos", router: utils.COSMOS_ROUTER, ccmc: []byte{1, 2, 3},
		g1:  mustAmino(cosmos.Cdc, cosmos.CosmosHeader{Header: gh, Commit: gc, Valsets: gv}),
		g2:  mustAmino(cosmos.Cdc, cosmos.CosmosHeader{Header: g2h, Commit: g2c, Valsets: g2v}),
		hdr: [][]byte{mustAmino(cosmos.Cdc, cosmos.CosmosHeader{Header: hh, Commit: hc, Valsets: hv})}, hdrNote: tmNote,
		g0: mustAmino(cosmos.Cdc, cosmos.CosmosHeader{Header: g0h, Commit: g0c, Valsets: g0v}), g0Note: tmG0Note,
		hdr0: [][]byte{mustAmino(cosmos.Cdc, cosmos.CosmosHeader{Header: h0h, Commit: h0c, Valsets: h0v})}, hdr0Note: tmH0Note,
		gz: mustAmino(cosmos.Cdc, cosmos.CosmosHeader{}), gzNote: tmGzNote, gzOptional: true}
}

func genOkex() *routerCase {
	const cid = "c19-okex"
	cdc := okex.NewCDC()
	s0, s1, s2, s3 := edSet("o0"), edSet("o1"), edSet("o2"), edSet("o3")
	gh, gc, gv := tmSigned(cid, 100, s0, s1)
	g2h, g2c, g2v := tmSigned(cid, 200, s0, s3)
	hh, hc, hv := tmSigned(cid, 101, s1, s2)
	s4, s5 := edSet("o4"), edSet("o5")
	g0h, g0c, g0v := tmSigned(cid, 1, s0, s4)
	h0h, h0c, h0v := tmSigned(cid, 2, s4, s5)
	return &routerCase{name: "okex", router: utils.OKEX_ROUTER, ccmc: []byte{1, 2, 3},
		g1:  mustAmino(cdc, okex.CosmosHeader{Header: gh, Commit: gc, Valsets: gv}),
		g2:  mustAmino(cdc, okex.CosmosHeader{Header: g2h, Commit: g2c, Valsets: g2v}),
		hdr: [][]byte{mustAmino(cdc, okex.CosmosHeader{Header: hh, Commit: hc, Valsets: hv})}, hdrNote: tmNote,
		g0: mustAmino(cdc, okex.CosmosHeader{Header: g0h, Commit: g0c, Valsets: g0v}), g0Note: tmG0Note,
		hdr0: [][]byte{mustAmino(cdc, okex.CosmosHeader{Header: h0h, Commit: h0c, Valsets: h0v})}, hdr0Note: tmH0Note,
		gz: mustAmino(cdc, okex.CosmosHeader{}), gzNote: tmGzNote, gzOptional: true}
}

// ---------------------------------------------------------------------------------------------
// heimdall (peppermint types inside the repo)

type hmSet struct{ keys []ptsecp.PrivKeySecp256k1 }

func newHmSet(tag string) *hmSet {
	s := &hmSet{}
	for i := 0; i < 2; i++ {
		s.keys = append(s.keys, ptsecp.GenPrivKeySecp256k1([]byte(fmt.Sprintf("c19-hm-%s-%d", tag, i))))
	}
	sort.Slice(s.keys, func(a, b int) bool {
		return bytes.Compare(s.keys[a].PubKey().Address(), s.keys[b].PubKey().Address()) < 0
	})
	return s
}

func (s *hmSet) vals() []*pt.Validator {
	var o []*pt.Validator
	for _, k := range s.keys {
		o = append(o, pt.NewValidator(k.PubKey(), 10))
	}
	return o
}

func (s *hmSet) hash() []byte { return pt.NewValidatorSet(s.vals()).Hash() }

func hmSigned(chainID string, height int64, cur, next *hmSet) polygon.CosmosHeader {
	hdr := pt.Header{
		Version: version.Consensus{Block: 10, App: 1}, ChainID: chainID, Height: height, Time: tmTime(height), NumTxs: 1, TotalTxs: height,
		LastBlockID:    pt.BlockID{Hash: fill(1), PartsHeader: pt.PartSetHeader{Total: 1, Hash: fill(2)}},
		LastCommitHash: fill(3), DataHash: fill(4), ValidatorsHash: cur.hash(), NextValidatorsHash: next.hash(),
		ConsensusHash: fill(5), AppHash: fill(0xaa), LastResultsHash: fill(6), EvidenceHash: fill(7),
		ProposerAddress: cur.keys[0].PubKey().Address(),
	}
	bid := pt.BlockID{Hash: hdr.Hash(), PartsHeader: pt.PartSetHeader{Total: 1, Hash: fill(8)}}
	ts := tmTime(height).Add(time.Second)
	pcs := make([]*pt.CommitSig, len(cur.keys))
	for i, k := range cur.keys {
		v := &pt.Vote{Type: pt.PrecommitType, Height: height, Round: 0, BlockID: bid, Timestamp: ts,
			ValidatorAddress: k.PubKey().Address(), ValidatorIndex: i}
		sig, err := k.Sign(v.SignBytes(chainID))
		if err != nil {
			panic(err)
		}
		v.Signature = sig
		pcs[i] = (*pt.CommitSig)(v)
	}
	return polygon.CosmosHeader{Header: hdr, Commit: &pt.Commit{BlockID: bid, Precommits: pcs}, Valsets: cur.vals()}
}

func genHeimdall() *routerCase {
	const cid = "c19-heimdall"
	cdc := pt.NewCDC()
	s0, s1, s2, s3, s4, s5 := newHmSet("0"), newHmSet("1"), newHmSet("2"), newHmSet("3"), newHmSet("4"), newHmSet("5")
	return &routerCase{name: "polygon-heimdall", router: utils.POLYGON_HEIMDALL_ROUTER, ccmc: []byte{1, 2, 3},
		g1:  mustAmino(cdc, hmSigned(cid, 100, s0, s1)),
		g2:  mustAmino(cdc, hmSigned(cid, 200, s0, s3)),
		hdr: [][]byte{mustAmino(cdc, hmSigned(cid, 101, s1, s2))}, hdrNote: tmNote,
		g0: mustAmino(cdc, hmSigned(cid, 1, s0, s4)), g0Note: tmG0Note,
		hdr0: [][]byte{mustAmino(cdc, hmSigned(cid, 2, s4, s5))}, hdr0Note: tmH0Note,
		gz: mustAmino(cdc, polygon.CosmosHeader{}), gzNote: tmGzNote, gzOptional: true}
}
