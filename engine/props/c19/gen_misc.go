package main

// Trust-root / header synthesis for btc (regtest, real proof of work), zilliqa / zilliqalegacy (the repo's own
// recorded main-net test vectors), starcoin, ont, neo, neo3, neo3legacy.

import (
	"bufio"
	"bytes"
	"encoding/binary"
	"encoding/hex"
	"encoding/json"
	"fmt"
	"os"
	"sort"
	"strings"
	"time"

	zilcore "github.com/Zilliqa/gozilliqa-sdk/core"
	"github.com/btcsuite/btcd/blockchain"
	"github.com/btcsuite/btcd/chaincfg"
	"github.com/btcsuite/btcd/chaincfg/chainhash"
	"github.com/btcsuite/btcd/wire"
	neohelper "github.com/joeqian10/neo-gogogo/helper"
	n3lblock "github.com/joeqian10/neo3-gogogo-legacy/block"
	n3lcrypto "github.com/joeqian10/neo3-gogogo-legacy/crypto"
	n3lhelper "github.com/joeqian10/neo3-gogogo-legacy/helper"
	n3lio "github.com/joeqian10/neo3-gogogo-legacy/io"
	n3lkeys "github.com/joeqian10/neo3-gogogo-legacy/keys"
	n3lsc "github.com/joeqian10/neo3-gogogo-legacy/sc"
	n3ltx "github.com/joeqian10/neo3-gogogo-legacy/tx"
	neo3helper "github.com/joeqian10/neo3-gogogo/helper"
	"github.com/polynetwork/poly/native/service/header_sync/zilliqa"
	"github.com/polynetwork/poly/native/service/utils"
	stc "github.com/starcoinorg/starcoin-go/client"
	"verif.local/engine/lib/ontneo"
	"verif.local/engine/lib/src"
	"verif.local/engine/polyenv"
)

// ---------------------------------------------------------------------------------------------
// btc (regtest net selected by the side chain's CCMC address; trust root = 80-byte header ++ BE32 height)

func btcSer(h *wire.BlockHeader) []byte {
	var b bytes.Buffer
	if err := h.Serialize(&b); err != nil {
		panic(err)
	}
	return b.Bytes()
}

func btcMine(h *wire.BlockHeader) {
	target := blockchain.CompactToBig(h.Bits)
	for n := uint32(0); ; n++ {
		h.Nonce = n
		bh := h.BlockHash()
		if blockchain.HashToBig(&bh).Cmp(target) <= 0 {
			return
		}
	}
}

func btcRoot(h *wire.BlockHeader, height uint32) []byte {
	var hb [4]byte
	binary.BigEndian.PutUint32(hb[:], height)
	return append(btcSer(h), hb[:]...)
}

func genBtc() *routerCase {
	g := chaincfg.RegressionNetParams.GenesisBlock.Header
	mk := func(prev chainhash.Hash, tag byte, ts int64) *wire.BlockHeader {
		var mr chainhash.Hash
		mr[0] = tag
		h := &wire.BlockHeader{Version: 1, PrevBlock: prev, MerkleRoot: mr, Timestamp: time.Unix(ts, 0), Bits: 0x207fffff}
		btcMine(h)
		return h
	}
	g2 := mk(chainhash.Hash{9}, 2, pastTime)
	h := mk(g.BlockHash(), 3, pastTime+600)
	g0 := mk(chainhash.Hash{7}, 4, pastTime)
	h0 := mk(g0.BlockHash(), 5, pastTime+600)
	net := make([]byte, 8)
	binary.LittleEndian.PutUint64(net, uint64(utils.TyRegtest))
	return &routerCase{name: "btc", router: utils.BTC_ROUTER, ccmc: net,
		g1: btcRoot(&g, 100), g2: btcRoot(g2, 200), hdr: [][]byte{btcSer(h)},
		hdrNote: "child of G1 mined at the regtest proof-of-work limit",
		g0:      btcRoot(g0, 0), g0Note: "height 0", hdr0: [][]byte{btcSer(h0)}, hdr0Note: "mined child (height 1) of G0",
		gzNote: "none: a btc trust root is a fixed 80-byte header + height; G0 is the boundary genesis"}
}

// ---------------------------------------------------------------------------------------------
// zilliqa: /repo/native/service/header_sync/zilliqa/test_genesis (main-net tx block 1461646 + DS block + DS committee)
// and the first recorded tx block of test_blocks (real Schnorr co-signatures).

func zilVectors() (g0, g1, g2, h []byte, err error) {
	raw, err := src.Read("native/service/header_sync/zilliqa/test_genesis")
	if err != nil {
		return
	}
	js, err := hex.DecodeString(strings.TrimSpace(string(raw)))
	if err != nil {
		return
	}
	var g zilliqa.TxBlockAndDsComm
	if err = json.Unmarshal(js, &g); err != nil {
		return
	}
	g1 = mustJSON(g)
	// G2: same committee, another (unverified, as every genesis) tx block
	var gg zilliqa.TxBlockAndDsComm
	_ = json.Unmarshal(js, &gg)
	gg.TxBlock.BlockHash[0] ^= 0x55
	gg.TxBlock.BlockHeader.BlockNum += 1000
	g2 = mustJSON(gg)
	// G0: the same (unverified) block relabelled as tx block number 0
	var g00 zilliqa.TxBlockAndDsComm
	_ = json.Unmarshal(js, &g00)
	g00.TxBlock.BlockHash[0] ^= 0xaa
	g00.TxBlock.BlockHeader.BlockNum = 0
	g0 = mustJSON(g00)
	f, err := os.Open(src.Path("native/service/header_sync/zilliqa/test_blocks"))
	if err != nil {
		return
	}
	defer f.Close()
	sc := bufio.NewScanner(f)
	sc.Buffer(make([]byte, 1<<20), 1<<26)
	if !sc.Scan() {
		err = fmt.Errorf("test_blocks empty")
		return
	}
	args := strings.SplitN(sc.Text(), " ", 2)
	if len(args) != 2 || args[0] != "tx" {
		err = fmt.Errorf("test_blocks: first record is not a tx block")
		return
	}
	var tb zilcore.TxBlock
	if err = json.Unmarshal([]byte(args[1]), &tb); err != nil {
		return
	}
	h = mustJSON(zilcore.TxBlockOrDsBlock{TxBlock: &tb})
	return
}

func genZil(name string, router uint64) *routerCase {
	g0, g1, g2, h, err := zilVectors()
	if err != nil {
		return &routerCase{name: name, router: router, skip: "cannot read the repo's zilliqa test vectors: " + err.Error()}
	}
	return &routerCase{name: name, router: router, ccmc: []byte{1, 2, 3}, extra: mustJSON(zilliqa.ExtraInfo{NumOfGuardList: 420}),
		g1: g1, g2: g2, hdr: [][]byte{h}, hdrOptional: router == utils.ZILLIQA_LEGACY_ROUTER,
		hdrNote: "first recorded main-net tx block after the recorded genesis (repo test vectors, real Schnorr multi-signature)",
		g0:      g0, g0Note: "tx block number 0 (the recorded genesis relabelled; a genesis is not verified)",
		hdr0Note: "none: the recorded blocks only extend the recorded genesis (Schnorr co-signatures cannot be synthesised)",
		gzNote:   "none: G0 is the boundary genesis"}
}

// ---------------------------------------------------------------------------------------------
// starcoin: trust root = JSON {header, block_info}; not verified at installation. A later header needs real
// cryptonight proof of work over a 24-block difficulty window: not synthesised.

func genStarcoin() *routerCase {
	h32 := func(b byte) string { return "0x" + hex.EncodeToString(bytes.Repeat([]byte{b}, 32)) }
	mk := func(number uint64, tag byte) []byte {
		acc := func(t byte) stc.AccumulatorInfo {
			return stc.AccumulatorInfo{AccumulatorRoot: h32(t), FrozenSubtreeRoots: []string{h32(t)}, NumLeaves: "1", NumNodes: "1"}
		}
		return mustJSON(stc.BlockHeaderAndBlockInfo{
			BlockHeader: stc.BlockHeader{Timestamp: fmt.Sprint(uint64(pastTime)*1000 + number), Author: "0x00000000000000000000000000000001",
				BlockAccumulatorRoot: h32(tag + 1), BlockHash: h32(tag), BodyHash: h32(tag + 2), ChainId: 1, DifficultyHexStr: "0xb1ec37",
				Extra: "0x00000000", GasUsed: "0", Nonce: 7, Height: fmt.Sprint(number), ParentHash: h32(tag + 3), StateRoot: h32(tag + 4),
				TxnAccumulatorRoot: h32(tag + 5)},
			BlockInfo: stc.BlockInfo{BlockHash: h32(tag), TotalDifficulty: "0xb1ec37", TxnAccumulatorInfo: acc(tag + 5), BlockAccumulatorInfo: acc(tag + 1)},
		})
	}
	return &routerCase{name: "starcoin", router: utils.STARCOIN_ROUTER, ccmc: []byte{1, 2, 3},
		g1: mk(1000, 0x10), g2: mk(2000, 0x40),
		g0: mk(0, 0x70), g0Note: "number 0", hdr0Note: "none (no starcoin header event at all)", gzNote: "none: G0 is the boundary genesis",
		hdrNote: "no header event: a starcoin header needs cryptonight proof of work against a 24-block difficulty window"}
}

// ---------------------------------------------------------------------------------------------
// ont: trust root = header whose VBFT payload carries the consensus peer set

func genOnt() *routerCase {
	p1, p2, p3 := polyenv.KeysFrom(40, 4), polyenv.KeysFrom(44, 4), polyenv.KeysFrom(48, 4)
	g1 := ontneo.OntHeader(100, p1, 1, nil)
	g2 := ontneo.OntHeader(200, p2, 2, nil)
	h := ontneo.OntHeader(101, p3, 3, []ontneo.OntSigner{{Key: p1[0]}, {Key: p1[1]}, {Key: p1[2]}})
	p0, p4 := polyenv.KeysFrom(140, 4), polyenv.KeysFrom(144, 4)
	g0 := ontneo.OntHeader(0, p0, 4, nil)
	h0 := ontneo.OntHeader(1, p4, 5, []ontneo.OntSigner{{Key: p0[0]}, {Key: p0[1]}, {Key: p0[2]}})
	gz := ontneo.OntHeader(0, nil, 6, nil)
	return &routerCase{name: "ont", router: utils.ONT_ROUTER, ccmc: []byte{1, 2, 3}, g1: g1, g2: g2, hdr: [][]byte{h},
		hdrNote: "key header (new consensus peers) at G1.height+1 signed by 3 of G1's 4 peers",
		g0:      g0, g0Note: "height 0", hdr0: [][]byte{h0}, hdr0Note: "key header at height 1 signed by 3 of G0's 4 peers",
		gz: gz, gzNote: "height 0 WITHOUT a consensus configuration (accepted: stores the header, no peer set, empty key-height list)"}
}

// ---------------------------------------------------------------------------------------------
// neo / neo3 / neo3legacy: trust root = NextConsensus script hash of the submitted header; a later header is
// stored only if it changes NextConsensus, and must carry a multi-signature witness of the current set.

func genNeo() *routerCase {
	a := ontneo.NewNeoSet(3, polyenv.KeysFrom(52, 4), polyenv.Key(99))
	b := ontneo.NewNeoSet(3, polyenv.KeysFrom(56, 4), polyenv.Key(99))
	c := ontneo.NewNeoSet(3, polyenv.KeysFrom(60, 4), polyenv.Key(99))
	gh, _ := ontneo.NeoHeaderUnsigned(100, a.Hash, 1)
	g2h, _ := ontneo.NeoHeaderUnsigned(200, c.Hash, 2)
	hh, msg := ontneo.NeoHeaderUnsigned(101, b.Hash, 3)
	inv := a.Sign(msg).Invocation([]ontneo.Sig{{K: 0}, {K: 1}, {K: 2}})
	d := ontneo.NewNeoSet(3, polyenv.KeysFrom(152, 4), polyenv.Key(99))
	e := ontneo.NewNeoSet(3, polyenv.KeysFrom(156, 4), polyenv.Key(99))
	g0h, _ := ontneo.NeoHeaderUnsigned(0, d.Hash, 4)
	h0h, msg0 := ontneo.NeoHeaderUnsigned(1, e.Hash, 5)
	inv0 := d.Sign(msg0).Invocation([]ontneo.Sig{{K: 0}, {K: 1}, {K: 2}})
	gzh, _ := ontneo.NeoHeaderUnsigned(300, neohelper.UInt160{}, 6)
	return &routerCase{name: "neo", router: utils.NEO_ROUTER, ccmc: []byte{1, 2, 3},
		g1: ontneo.NeoHeaderBytes(gh, []byte{0}, []byte{81}), g2: ontneo.NeoHeaderBytes(g2h, []byte{0}, []byte{81}),
		hdr:     [][]byte{ontneo.NeoHeaderBytes(hh, inv, a.Script)},
		hdrNote: "header at G1.index+1 switching NextConsensus, 3-of-4 witness of G1's consensus set",
		g0:      ontneo.NeoHeaderBytes(g0h, []byte{0}, []byte{81}), g0Note: "index 0", hdr0: [][]byte{ontneo.NeoHeaderBytes(h0h, inv0, d.Script)}, hdr0Note: neoH0Note,
		gz: ontneo.NeoHeaderBytes(gzh, []byte{0}, []byte{81}), gzNote: neoGzNote}
}

const neo3Magic = 5195086
const neoH0Note = "header at index 1 switching NextConsensus, 3-of-4 witness of G0's consensus set"
const neoGzNote = "index 300 with an all-zero NextConsensus script hash (accepted by the handler)"

func genNeo3() *routerCase {
	a := ontneo.NewNeo3Set(3, polyenv.KeysFrom(64, 4), polyenv.Key(99))
	b := ontneo.NewNeo3Set(3, polyenv.KeysFrom(68, 4), polyenv.Key(99))
	c := ontneo.NewNeo3Set(3, polyenv.KeysFrom(72, 4), polyenv.Key(99))
	gh, _ := ontneo.Neo3HeaderUnsigned(100, a.Hash, 1, neo3Magic)
	g2h, _ := ontneo.Neo3HeaderUnsigned(200, c.Hash, 2, neo3Magic)
	hh, msg := ontneo.Neo3HeaderUnsigned(101, b.Hash, 3, neo3Magic)
	inv := a.Sign(msg).Invocation([]ontneo.Sig{{K: 0}, {K: 1}, {K: 2}})
	d := ontneo.NewNeo3Set(3, polyenv.KeysFrom(164, 4), polyenv.Key(99))
	e := ontneo.NewNeo3Set(3, polyenv.KeysFrom(168, 4), polyenv.Key(99))
	g0h, _ := ontneo.Neo3HeaderUnsigned(0, d.Hash, 4, neo3Magic)
	h0h, msg0 := ontneo.Neo3HeaderUnsigned(1, e.Hash, 5, neo3Magic)
	inv0 := d.Sign(msg0).Invocation([]ontneo.Sig{{K: 0}, {K: 1}, {K: 2}})
	gzh, _ := ontneo.Neo3HeaderUnsigned(300, neo3helper.NewUInt160(), 6, neo3Magic)
	return &routerCase{name: "neo3", router: utils.NEO3_ROUTER, ccmc: []byte{1, 2, 3}, extra: ontneo.MagicBytes(neo3Magic),
		g1: ontneo.Neo3HeaderBytes(gh, []byte{0}, []byte{81}), g2: ontneo.Neo3HeaderBytes(g2h, []byte{0}, []byte{81}),
		hdr:     [][]byte{ontneo.Neo3HeaderBytes(hh, inv, a.Script)},
		hdrNote: "header at G1.index+1 switching NextConsensus, 3-of-4 witness of G1's consensus set (network magic from ExtraInfo)",
		g0:      ontneo.Neo3HeaderBytes(g0h, []byte{0}, []byte{81}), g0Note: "index 0", hdr0: [][]byte{ontneo.Neo3HeaderBytes(h0h, inv0, d.Script)}, hdr0Note: neoH0Note,
		gz: ontneo.Neo3HeaderBytes(gzh, []byte{0}, []byte{81}), gzNote: neoGzNote}
}

// neo3legacy uses the frozen github.com/joeqian10/neo3-gogogo-legacy types (header without nonce).
type n3lSet struct {
	pairs  []*n3lkeys.KeyPair
	script []byte
	hash   *n3lhelper.UInt160
}

func newN3lSet(m int, accts []*polyenv.Acct) *n3lSet {
	s := &n3lSet{}
	for _, a := range accts {
		kp, err := n3lkeys.NewKeyPair(ontneo.PrivBytes(a))
		if err != nil {
			panic(err)
		}
		s.pairs = append(s.pairs, kp)
	}
	sort.Slice(s.pairs, func(i, j int) bool { return s.pairs[i].PublicKey.CompareTo(s.pairs[j].PublicKey) < 0 })
	pubs := make([]n3lcrypto.ECPoint, len(s.pairs))
	for i, p := range s.pairs {
		pubs[i] = *p.PublicKey
	}
	var err error
	if s.script, err = n3lsc.CreateMultiSigRedeemScript(m, pubs); err != nil {
		panic(err)
	}
	s.hash = n3lcrypto.BytesToScriptHash(s.script)
	return s
}

func n3lHeader(index uint32, next *n3lhelper.UInt160, salt uint64) (*n3lblock.Header, []byte) {
	h := n3lblock.NewBlockHeader()
	h.SetIndex(index)
	h.SetTimeStamp(uint64(pastTime)*1000 + salt)
	h.SetNextConsensus(next)
	bw := n3lio.NewBufBinaryWriter()
	h.SerializeUnsigned(bw.BinaryWriter)
	hash := n3lhelper.UInt256FromBytes(n3lcrypto.Sha256(bw.Bytes()))
	buf := n3lio.NewBufBinaryWriter()
	buf.BinaryWriter.WriteLE(uint32(neo3Magic))
	buf.BinaryWriter.WriteLE(hash)
	return h, buf.Bytes()
}

func n3lBytes(h *n3lblock.Header, inv, ver []byte) []byte {
	h.Witness = &n3ltx.Witness{InvocationScript: inv, VerificationScript: ver}
	bw := n3lio.NewBufBinaryWriter()
	h.Serialize(bw.BinaryWriter)
	if bw.Err != nil {
		panic(bw.Err)
	}
	return bw.Bytes()
}

func genNeo3Legacy() *routerCase {
	a, b, c := newN3lSet(3, polyenv.KeysFrom(76, 4)), newN3lSet(3, polyenv.KeysFrom(80, 4)), newN3lSet(3, polyenv.KeysFrom(84, 4))
	gh, _ := n3lHeader(100, a.hash, 1)
	g2h, _ := n3lHeader(200, c.hash, 2)
	hh, msg := n3lHeader(101, b.hash, 3)
	witness := func(s *n3lSet, msg []byte) []byte {
		var inv bytes.Buffer
		for _, p := range s.pairs[:3] {
			sig, err := p.Sign(msg)
			if err != nil {
				panic(err)
			}
			inv.WriteByte(0x0c)
			inv.WriteByte(0x40)
			inv.Write(sig)
		}
		return inv.Bytes()
	}
	d, e := newN3lSet(3, polyenv.KeysFrom(176, 4)), newN3lSet(3, polyenv.KeysFrom(180, 4))
	g0h, _ := n3lHeader(0, d.hash, 4)
	h0h, msg0 := n3lHeader(1, e.hash, 5)
	gzh, _ := n3lHeader(300, n3lhelper.NewUInt160(), 6)
	return &routerCase{name: "neo3legacy", router: utils.NEO3_LEGACY_ROUTER, ccmc: []byte{1, 2, 3}, extra: n3lhelper.UInt32ToBytes(neo3Magic),
		g1: n3lBytes(gh, []byte{0}, []byte{81}), g2: n3lBytes(g2h, []byte{0}, []byte{81}),
		hdr:     [][]byte{n3lBytes(hh, witness(a, msg), a.script)},
		hdrNote: "header at G1.index+1 switching NextConsensus, 3-of-4 witness of G1's consensus set (legacy N3 header format)",
		g0:      n3lBytes(g0h, []byte{0}, []byte{81}), g0Note: "index 0", hdr0: [][]byte{n3lBytes(h0h, witness(d, msg0), d.script)}, hdr0Note: neoH0Note,
		gz: n3lBytes(gzh, []byte{0}, []byte{81}), gzNote: neoGzNote}
}
