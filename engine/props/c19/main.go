// C19 — Side-chain trust roots are installed at most once.
//
// Model checking of the real header_sync contract (entrance.go dispatch + every router's SyncGenesisHeader /
// SyncBlockHeader) on the native World: per router two side chains A, B are registered through the real
// side_chain_manager transactions; the event alphabet per router is
//
//	iA0 iA1 iA2 iAz iB0 iB1   syncGenesisHeader(chain, genesis variant), operator-signed. G1, G2: two different ordinary
//	                          trust roots; G0: the boundary root at height / number / index 0 (tendermint: height 1), where
//	                          a stored "0" aliases "nothing stored"; Gz: a degenerate root the handler still accepts
//	                          (empty validator list, all-zero consensus hash, all-zero tendermint header, ont header
//	                          without consensus configuration) where one exists. All of them are accepted on a fresh chain.
//	                          Gz is offered only as the FIRST root of chain A (it probes guards that mistake a stored
//	                          degenerate root for "absent"; every later install over it is explored).
//	hA hB / hA0               syncBlockHeader(chain, one header valid on top of G1 / of G0), where synthesisable
//
// and ALL event sequences up to depth 3 (quick) / 5 (thorough; DESIGN asks for 4) are explored by BFS over storage dumps
// (state = full store dump + "a trust root was installed on A / on B" flags). A router that keeps the property has
// a small closed state space (per chain: none or one of the installed roots, optionally + its header); depth 5 closes it (fixpoint: every longer sequence
// revisits an explored state); with the boundary variants the closed space has up to 28 states.
//
// Oracle per transition:
//   - once a syncGenesisHeader for chain X has succeeded, every later syncGenesisHeader for X returns an error AND the
//     whole store dump is byte-identical ("second-install-succeeds:<router>" when the call reports success with
//     the state unchanged, "second-install-overwrites:<router>" when the state changed);
//   - a first installation on X is accepted (also when the other chain of the same router already has a root);
//   - a transaction addressed to chain X changes no storage key of the other chain of the same router;
//   - a failed transaction changes nothing.
//
// Pre-flight per router (harness sanity, HARNESS-ERROR otherwise): G1 and G2 are accepted on a fresh chain, and H
// is accepted after G1 and changes the light-client state.
package main

import (
	"bytes"
	"crypto/sha256"
	"encoding/hex"
	"fmt"
	"os"
	"runtime/debug"
	"sort"
	"strings"
	"sync"
	"time"

	"github.com/polynetwork/poly/common"
	"github.com/polynetwork/poly/common/verifhook"
	"github.com/polynetwork/poly/core/types"
	_ "github.com/polynetwork/poly/native/service"
	"github.com/polynetwork/poly/native/service/governance/side_chain_manager"
	"github.com/polynetwork/poly/native/service/utils"
	"verif.local/engine/ev"
	"verif.local/engine/lib/hsenv"
	"verif.local/engine/mc"
	"verif.local/engine/polyenv"
)

type routerCase struct {
	name        string
	router      uint64
	ccmc, extra []byte
	g1, g2      []byte
	g0          []byte   // boundary genesis: height / number / index 0 (or the lowest the handler accepts)
	gz          []byte   // degenerate genesis the handler still accepts (empty validator list, zero hash ...); nil: none
	gzOptional  bool     // drop Gz instead of failing when the pre-flight shows the handler rejects it
	hdr0        [][]byte // header event valid on top of G0; nil: none
	g0Note      string
	gzNote      string
	hdr0Note    string
	hdr         [][]byte // headers of the single header-sync event (valid on top of G1); nil: no header event
	hdrOptional bool     // drop the header event instead of failing when the pre-flight rejects it
	hdrNote     string
	skip        string // non-empty: no genesis parameter could be synthesised (reason)

	chain          [2]uint64
	extraX, extraY []byte // ExtraInfo of the updateSideChain events uAx / uAy (nil: keep the registered one)
	multi          map[string][]*types.Transaction
	txs            map[string]*types.Transaction
	evs            []string
}

const (
	execHeight = 10
	execTime   = 1_700_000_000
)

var (
	r         *ev.Run
	env       *hsenv.Env
	replayOps []string
)

func chainIDs(router uint64) [2]uint64 {
	return [2]uint64{0xC19A000000000000 | router<<8 | 0xA1, 0xC19B000000000000 | router<<8 | 0xB2}
}

func registerSideChain(w *polyenv.World, chainID, router uint64, name string, ccmc, extra []byte, nonce *uint32) error {
	owner := polyenv.Key(20)
	p := &side_chain_manager.RegisterSideChainParam{Address: owner.Addr, ChainId: chainID, Router: router, Name: name,
		BlocksToWait: 1, CCMCAddress: ccmc, ExtraInfo: extra}
	sink := common.NewZeroCopySink(nil)
	if err := p.Serialization(sink); err != nil {
		return err
	}
	*nonce++
	res := w.Exec(polyenv.Tx(utils.SideChainManagerContractAddress, side_chain_manager.REGISTER_SIDE_CHAIN, sink.Bytes(),
		*nonce, polyenv.Single(owner)), 1, 100)
	if !res.OK {
		return fmt.Errorf("registerSideChain(%s): %v", name, res.Err)
	}
	for _, v := range env.Vals {
		cp := &side_chain_manager.ChainidParam{Chainid: chainID, Address: v.Addr}
		s2 := common.NewZeroCopySink(nil)
		cp.Serialization(s2)
		*nonce++
		res := w.Exec(polyenv.Tx(utils.SideChainManagerContractAddress, side_chain_manager.APPROVE_REGISTER_SIDE_CHAIN,
			s2.Bytes(), *nonce, polyenv.Single(v)), 1, 100)
		if !res.OK {
			break // quorum reached: the request is gone
		}
	}
	sc, err := side_chain_manager.GetSideChain(hsenv.Reader(w), chainID)
	if err != nil || sc == nil {
		return fmt.Errorf("side chain %s not registered after approvals: %v", name, err)
	}
	if sc.Router != router || !bytes.Equal(sc.ExtraInfo, extra) {
		return fmt.Errorf("side chain %s stored with router %d / extra %q", name, sc.Router, sc.ExtraInfo)
	}
	return nil
}

// ---------------------------------------------------------------------------------------------
// BFS state

type outcome struct {
	ok      bool
	err     string
	changed []string // raw store keys whose value differs before/after
}

type state struct {
	upd  bool // the registration of chain A was updated on this path (a first install may then be legitimately refused)
	d    polyenv.Dump
	key  string
	inst [2]bool
	last *outcome
}

func dumpKey(d polyenv.Dump, inst [2]bool) string {
	h := sha256.New()
	var n [8]byte
	put := func(s string) {
		n[0], n[1], n[2], n[3] = byte(len(s)), byte(len(s)>>8), byte(len(s)>>16), byte(len(s)>>24)
		h.Write(n[:4])
		h.Write([]byte(s))
	}
	for _, kv := range d {
		put(kv.K)
		put(kv.V)
	}
	return fmt.Sprintf("%x/%v/%v", h.Sum(nil), inst[0], inst[1])
}

func diffKeys(a, b polyenv.Dump) []string {
	var out []string
	i, j := 0, 0
	for i < len(a) || j < len(b) {
		switch {
		case j >= len(b) || (i < len(a) && a[i].K < b[j].K):
			out = append(out, a[i].K)
			i++
		case i >= len(a) || b[j].K < a[i].K:
			out = append(out, b[j].K)
			j++
		default:
			if a[i].V != b[j].V {
				out = append(out, a[i].K)
			}
			i++
			j++
		}
	}
	return out
}

func le8(x uint64) []byte { return utils.GetUint64Bytes(x) }

func hexKeys(ks []string) []string {
	out := make([]string, len(ks))
	for i, k := range ks {
		out[i] = hex.EncodeToString([]byte(k))
	}
	return out
}

// ---------------------------------------------------------------------------------------------
// violations: keep, per key, the shortest (then lexicographically least) witness so that reports are stable

type finding struct {
	path   []string
	detail map[string]any
}

var (
	fmu      sync.Mutex
	findings = map[string]*finding{}
)

func flag(key string, path []string, detail map[string]any) {
	fmu.Lock()
	defer fmu.Unlock()
	old := findings[key]
	if old != nil && (len(old.path) < len(path) || (len(old.path) == len(path) && strings.Join(old.path, " ") <= strings.Join(path, " "))) {
		return
	}
	detail["ops"] = path
	findings[key] = &finding{path: append([]string(nil), path...), detail: detail}
}

// ---------------------------------------------------------------------------------------------

type routerStats struct {
	States, Transitions, MaxDepth int
	Accepted, Rejected            int // first installs accepted / re-installs rejected
	ReinstallOK                   int // re-installs that reported success (violations)
	HdrOK, HdrRejected            int
	Truncated                     bool
	Fixpoint                      bool // the BFS frontier ran empty below the depth bound: all sequences of ANY length covered
	WallS                         float64
}

func (rc *routerCase) genesisOf(v byte) []byte {
	switch v {
	case '0':
		return rc.g0
	case '1':
		return rc.g1
	case '2':
		return rc.g2
	case 'z':
		return rc.gz
	}
	return nil
}

var variantDesc = map[byte]string{'0': "G0 (boundary genesis: lowest height the handler accepts)", '1': "G1", '2': "G2",
	'z': "Gz (degenerate genesis the handler still accepts)"}

func (rc *routerCase) opDesc() map[string]string {
	m := map[string]string{}
	for _, e := range rc.evs {
		x := int(e[1] - 'A')
		switch {
		case e[0] == 'u':
			m[e] = fmt.Sprintf("updateSideChain(chain A) + approveUpdateSideChain by the validators: %s", map[byte]string{'x': "CCMCAddress, BlocksToWait (and ExtraInfo where the router reads it: value NOT dividing the installed height) changed",
				'y': "BlocksToWait (and ExtraInfo: value dividing the installed heights) changed"}[e[2]])
		case e[0] == 'i':
			m[e] = fmt.Sprintf("syncGenesisHeader(chain %c=%#x, %s) signed by the consensus operator", e[1], rc.chain[x], variantDesc[e[2]])
		case len(e) == 2:
			m[e] = fmt.Sprintf("syncBlockHeader(chain %c, H): %s", e[1], rc.hdrNote)
		default:
			m[e] = fmt.Sprintf("syncBlockHeader(chain %c, H0): %s", e[1], rc.hdr0Note)
		}
	}
	return m
}

// prepare builds the event menu: chain A gets every genesis variant and both header events, the sibling chain B
// (independence checks) gets G0, G1 and H.
func (rc *routerCase) prepare() {
	rc.txs = map[string]*types.Transaction{}
	rc.evs = nil
	add := func(e string, tx *types.Transaction) {
		rc.txs[e] = tx
		rc.evs = append(rc.evs, e)
	}
	for _, e := range []string{"iA0", "iA1", "iA2", "iAz", "iB0", "iB1"} {
		if g := rc.genesisOf(e[2]); g != nil {
			add(e, env.GenesisTx(rc.chain[e[1]-'A'], g))
		}
	}
	if rc.hdr != nil {
		add("hA", hsenv.HeadersTx(rc.chain[0], rc.hdr...))
		add("hB", hsenv.HeadersTx(rc.chain[1], rc.hdr...))
	}
	if rc.hdr0 != nil && rc.g0 != nil {
		add("hA0", hsenv.HeadersTx(rc.chain[0], rc.hdr0...))
	}
	// uAx / uAy: the registration of chain A is updated through the real updateSideChain + approveUpdateSideChain
	// transactions (router unchanged). x: CCMCAddress and BlocksToWait changed, ExtraInfo = extraX; y: BlocksToWait
	// changed, ExtraInfo = extraY.
	rc.multi = map[string][]*types.Transaction{}
	for i, u := range []struct {
		e     string
		wait  uint64
		ccmc  []byte
		extra []byte
	}{{"uAx", 7, append([]byte{0xcc}, rc.ccmc...), rc.extraX}, {"uAy", 3, rc.ccmc, rc.extraY}} {
		extra := u.extra
		if extra == nil {
			extra = rc.extra
		}
		owner := polyenv.Key(20)
		p := &side_chain_manager.RegisterSideChainParam{Address: owner.Addr, ChainId: rc.chain[0], Router: rc.router, Name: rc.name + "A",
			BlocksToWait: u.wait, CCMCAddress: u.ccmc, ExtraInfo: extra}
		sink := common.NewZeroCopySink(nil)
		p.Serialization(sink)
		nonce := uint32(195000 + 100*i + int(rc.router))
		txs := []*types.Transaction{polyenv.Tx(utils.SideChainManagerContractAddress, side_chain_manager.UPDATE_SIDE_CHAIN, sink.Bytes(), nonce, polyenv.Single(owner))}
		for j, v := range env.Vals {
			cp := &side_chain_manager.ChainidParam{Chainid: rc.chain[0], Address: v.Addr}
			s2 := common.NewZeroCopySink(nil)
			cp.Serialization(s2)
			txs = append(txs, polyenv.Tx(utils.SideChainManagerContractAddress, side_chain_manager.APPROVE_UPDATE_SIDE_CHAIN, s2.Bytes(), nonce+1000+uint32(j)*10, polyenv.Single(v)))
		}
		rc.multi[u.e] = txs
		rc.evs = append(rc.evs, u.e)
	}
}

// preflight: harness sanity on a fresh base state.
func (rc *routerCase) preflight(sim *hsenv.Sim, base polyenv.Dump) {
	for _, e := range append([]string(nil), rc.evs...) {
		if e[0] != 'i' {
			continue
		}
		sim.Load(base)
		res := sim.Exec(rc.txs[e], execHeight, execTime)
		stored := len(diffKeys(base, sim.Dump())) > 0
		if res.OK && stored {
			continue
		}
		if e[2] == 'z' && rc.gzOptional {
			rc.gzNote = fmt.Sprintf("none: the handler does not accept the candidate (%s): ok=%v err=%v", rc.gzNote, res.OK, res.Err)
			rc.gz = nil
			rc.prepare()
			continue
		}
		r.HarnessError("router %s: %s (first installation on a fresh chain): ok=%v stored=%v err=%v — genesis synthesis is wrong", rc.name, e, res.OK, stored, res.Err)
	}
	hdrOK := func(inst, h string) (bool, string) {
		sim.Load(base)
		sim.Exec(rc.txs[inst], execHeight, execTime)
		mid := sim.Dump()
		res := sim.Exec(rc.txs[h], execHeight, execTime)
		n := len(diffKeys(mid, sim.Dump()))
		return res.OK && n > 0, fmt.Sprintf("router %s: header event %s after %s: ok=%v err=%v changed=%d", rc.name, h, inst, res.OK, res.Err, n)
	}
	if rc.hdr != nil {
		if ok, msg := hdrOK("iA1", "hA"); !ok {
			if !rc.hdrOptional {
				r.HarnessError("%s — header synthesis is wrong", msg)
			}
			rc.hdr = nil
			rc.hdrNote = "no header event: " + msg
			rc.prepare()
		}
	}
	if rc.txs["hA0"] != nil {
		if ok, msg := hdrOK("iA0", "hA0"); !ok {
			r.HarnessError("%s — header synthesis is wrong", msg)
		}
	}
}

func (rc *routerCase) explore(base polyenv.Dump, depth int) (rs routerStats) {
	t0 := time.Now()
	defer func() { rs.WallS = float64(time.Since(t0).Milliseconds()) / 1000 }()
	sim := hsenv.NewSim()
	defer sim.Close()
	rc.preflight(sim, base)
	hsPrefix := hsenv.HSContractPrefix()
	pat := [2][]byte{le8(rc.chain[0]), le8(rc.chain[1])}
	init := &state{d: base}
	init.key = dumpKey(base, init.inst)
	cfg := mc.Config[*state]{
		Init:     []*state{init},
		MaxDepth: depth,
		Workers:  1,
		Stop:     r.Expired,
		Key:      func(s *state) string { return s.key },
		Events: func(s *state, depth int) []string {
			if !s.inst[0] || rc.gz == nil {
				return rc.evs
			}
			out := make([]string, 0, len(rc.evs)) // Gz is offered only as the first root of chain A
			for _, e := range rc.evs {
				if e != "iAz" {
					out = append(out, e)
				}
			}
			return out
		},
		Step: func(s *state, e string) (*state, bool) {
			sim.Load(s.d)
			var res polyenv.Result
			if m := rc.multi[e]; m != nil {
				res = sim.Exec(m[0], execHeight, execTime)
				if res.OK {
					for _, tx := range m[1:] {
						sim.Exec(tx, execHeight, execTime) // approvals; those after the quorum fail harmlessly
					}
				}
			} else {
				res = sim.Exec(rc.txs[e], execHeight, execTime)
			}
			nd := sim.Dump()
			n := &state{d: nd, inst: s.inst, last: &outcome{ok: res.OK, changed: diffKeys(s.d, nd)}}
			if res.Err != nil {
				n.last.err = res.Err.Error()
			}
			if len(n.last.changed) == 0 {
				n.d = s.d // share the snapshot
			}
			if e[0] == 'i' && res.OK {
				n.inst[e[1]-'A'] = true
			}
			n.upd = s.upd || (e[0] == 'u' && len(n.last.changed) > 0)
			n.key = dumpKey(n.d, n.inst)
			return n, true
		},
		Check: func(prev *state, e string, next *state, path []string) {
			r.Eval()
			o := next.last
			x := int(e[1] - 'A') // chain the transaction addresses
			detail := func() map[string]any {
				return map[string]any{"router": rc.name, "router_id": rc.router, "event": e, "tx_ok": o.ok, "tx_err": o.err,
					"changed_keys": hexKeys(o.changed), "legend": rc.opDesc()}
			}
			if !o.ok && len(o.changed) > 0 {
				flag("failed-tx-changes-state:"+rc.name, path, detail())
			}
			for _, k := range o.changed {
				if bytes.Contains([]byte(k), pat[1-x]) || (strings.HasPrefix(k, hsPrefix) && !bytes.Contains([]byte(k), pat[x])) {
					flag("cross-chain-write:"+rc.name, path, detail())
					break
				}
			}
			switch e[0] {
			case 'u':
				if o.ok && len(o.changed) > 0 {
					r.Class("sidechain-registration-updated")
					r.Case(fmt.Sprintf("%s/%s/updated", rc.name, e))
				} else {
					r.Class("sidechain-update-noop")
				}
			case 'i':
				if !prev.inst[x] {
					if o.ok {
						rs.Accepted++
						r.Class("install-accepted")
						r.Case(fmt.Sprintf("%s/first-install/%s/accepted", rc.name, e))
					} else if prev.upd && x == 0 {
						r.Class("first-install-refused-under-updated-registration")
					} else {
						r.Class("first-install-rejected")
						flag("first-install-rejected:"+rc.name, path, detail())
					}
					return
				}
				if !o.ok {
					rs.Rejected++
					r.Class("reinstall-rejected")
					r.Case(fmt.Sprintf("%s/re-install/%s/rejected", rc.name, e))
					return
				}
				rs.ReinstallOK++
				if len(o.changed) > 0 {
					r.Class("reinstall-overwrote")
					r.Case(fmt.Sprintf("%s/re-install/%s/overwrote", rc.name, e))
					flag("second-install-overwrites:"+rc.name, path, detail())
				} else {
					r.Class("reinstall-succeeded-silently")
					r.Case(fmt.Sprintf("%s/re-install/%s/silent-success", rc.name, e))
					flag("second-install-succeeds:"+rc.name, path, detail())
				}
			case 'h':
				if o.ok {
					rs.HdrOK++
					r.Class("header-accepted")
					r.Case(fmt.Sprintf("%s/header/accepted/changed=%v", rc.name, len(o.changed) > 0))
				} else {
					rs.HdrRejected++
					r.Class("header-rejected")
					r.Case(rc.name + "/header/rejected")
				}
			}
		},
	}
	if replayOps != nil { // --replay: run exactly the recorded operation list through the same step + oracle
		cur, path := init, []string(nil)
		for _, e := range replayOps {
			if rc.txs[e] == nil {
				r.HarnessError("replay: router %s has no event %q", rc.name, e)
			}
			n, _ := cfg.Step(cur, e)
			path = append(path, e)
			cfg.Check(cur, e, n, path)
			fmt.Printf("replay %-3s ok=%-5v changed=%d err=%s\n", e, n.last.ok, len(n.last.changed), n.last.err)
			cur = n
		}
		rs.States, rs.Transitions, rs.MaxDepth = len(replayOps)+1, len(replayOps), len(replayOps)
		return
	}
	st := mc.BFS(cfg)
	rs.States, rs.Transitions, rs.MaxDepth, rs.Truncated = st.States, st.Transitions, st.MaxDepth, st.Truncated
	rs.Fixpoint = !st.Truncated && !st.DepthCapped
	return
}

func main() {
	r = ev.Start("C19", "model_checking")
	verifhook.SkipSealFlag = true
	debug.SetGCPercent(200)
	debug.SetMemoryLimit(6 << 30)
	env = hsenv.Setup(0)
	depth := r.QT(3, 5)                             // design bound 3 / 4; 5 shows the fixpoint of the routers that keep the property (16 states)
	if v := os.Getenv("VERIF_C19_DEPTH"); v != "" { // development aid
		fmt.Sscan(v, &depth)
	}

	hm := genHeimdall()
	hm.chain = chainIDs(hm.router)
	cases := []*routerCase{genEth(), genBsc(), genHeco(), genHsc(), genMsc(), genBytom(), genPixie(), genBor(hm.chain[0]), hm,
		genCosmos(), genOkex(), genOnt(), genNeo(), genNeo3(), genNeo3Legacy(), genBtc(), genQuorum(),
		genZil("zilliqa", utils.ZILLIQA_ROUTER), genZil("zilliqalegacy", utils.ZILLIQA_LEGACY_ROUTER), genStarcoin()}
	only := os.Getenv("VERIF_C19_ONLY") // development aid: restrict to one router
	if r.ReplayPath != "" {
		var rep struct {
			Router string   `json:"router"`
			Ops    []string `json:"ops"`
		}
		if err := r.LoadReplay(&rep); err != nil || len(rep.Ops) == 0 {
			r.HarnessError("cannot load replay %s: %v", r.ReplayPath, err)
		}
		only, replayOps = rep.Router, rep.Ops
	}

	// base world: genesis + two side chains per router through the real side_chain_manager transactions
	w := env.NewWorld()
	var nonce uint32 = 190000
	for _, rc := range cases {
		rc.chain = chainIDs(rc.router)
		if rc.skip != "" {
			continue
		}
		for i, id := range rc.chain {
			if err := registerSideChain(w, id, rc.router, fmt.Sprintf("%s-%c", rc.name, 'A'+i), rc.ccmc, rc.extra, &nonce); err != nil {
				r.HarnessError("%v", err)
			}
		}
		rc.prepare()
	}
	base := w.Dump()
	w.Close()
	for _, kv := range base { // chain-id patterns must not occur in any header_sync key of the base state
		if strings.HasPrefix(kv.K, hsenv.HSContractPrefix()) {
			r.HarnessError("base state already has header_sync storage: %x", kv.K)
		}
	}

	routers := map[string]any{"harmony": "out of reach: the harmony router is stubbed out in this sandbox (cgo BLS library missing)"}
	stats := map[string]routerStats{}
	var mu sync.Mutex
	var wg sync.WaitGroup
	sem := make(chan struct{}, 6)
	t0 := time.Now()
	for _, rc := range cases {
		if rc.skip != "" {
			routers[rc.name] = "not synthesisable: " + rc.skip
			continue
		}
		if only != "" && only != rc.name {
			continue
		}
		wg.Add(1)
		go func(rc *routerCase) {
			defer wg.Done()
			sem <- struct{}{}
			defer func() { <-sem }()
			rs := rc.explore(base, depth)
			mu.Lock()
			stats[rc.name] = rs
			mu.Unlock()
		}(rc)
	}
	wg.Wait()

	var names []string
	for n := range stats {
		names = append(names, n)
	}
	sort.Strings(names)
	var states, trans, maxDepth int
	perRouter := map[string]any{}
	variants := map[string]any{}
	byName := map[string]*routerCase{}
	for _, rc := range cases {
		byName[rc.name] = rc
	}
	for _, n := range names {
		rs, rc := stats[n], byName[n]
		states += rs.States
		trans += rs.Transitions
		if rs.MaxDepth > maxDepth {
			maxDepth = rs.MaxDepth
		}
		if rs.Truncated {
			r.Capped("deadline inside the BFS of router " + n)
		}
		hdr := "header event: " + rc.hdrNote
		if rc.hdr == nil {
			hdr = rc.hdrNote
		}
		routers[n] = "covered (router id " + fmt.Sprint(rc.router) + "); " + hdr
		gv := map[string]string{"G0": rc.g0Note, "Gz": rc.gzNote, "H0": rc.hdr0Note, "events": strings.Join(rc.evs, " ")}
		if rc.gz != nil {
			gv["Gz"] = "present: " + rc.gzNote
		}
		variants[n] = gv
		perRouter[n] = rs
		fmt.Printf("router=%-16s id=%-2d states=%-4d transitions=%-5d first-install-accepted=%-4d reinstall-rejected=%-4d reinstall-ok(!)=%-4d header-ok=%-4d header-rejected=%-4d header-event=%v fixpoint=%v wall=%.1fs\n",
			n, rc.router, rs.States, rs.Transitions, rs.Accepted, rs.Rejected, rs.ReinstallOK, rs.HdrOK, rs.HdrRejected, rc.hdr != nil, rs.Fixpoint, rs.WallS)
		r.Sample(map[string]any{"router": n, "states": rs.States, "transitions": rs.Transitions, "first_install_accepted": rs.Accepted,
			"reinstall_rejected": rs.Rejected, "reinstall_reported_success": rs.ReinstallOK})
	}
	fmt.Printf("C19: routers=%d depth=%d states=%d transitions=%d explore_wall=%.1fs\n", len(names), depth, states, trans, time.Since(t0).Seconds())

	var fkeys []string
	for k := range findings {
		fkeys = append(fkeys, k)
	}
	sort.Strings(fkeys)
	minOps := map[string]any{}
	for _, k := range fkeys {
		r.Violation(k, findings[k].detail)
		minOps[k] = strings.Join(findings[k].path, " ")
	}
	fmt.Printf("C19: violation-keys(%d)=%s\n", len(fkeys), strings.Join(fkeys, ","))
	if replayOps == nil && only == "" {
		r.Require("install-accepted", "reinstall-rejected")
	}
	r.Assume("ETH: the ethash seal check is skipped by the verif hook (synthetic headers); every other rule of every router is the real code",
		"block execution derives witnesses from the listed public keys (no signature verification at this layer): the operator witness is the m-of-n entry of the 4 genesis validators",
		"header timestamps are in the past, so the wall-clock future-block tests are constant",
		"zilliqa / zilliqalegacy genesis + header are the repo's own recorded main-net vectors (test_genesis, first record of test_blocks)")
	r.Finish(map[string]any{
		"rule":                          "per router: all sequences over {install G0|G1|G2|Gz on chain A, G0|G1 on chain B, sync header H on A|B, H0 on A} up to the depth bound, BFS over full store dumps; after a successful syncGenesisHeader for a chain every later one must fail and leave the dump byte-identical; first installs accepted; no write to the sibling chain; failed tx changes nothing",
		"bounds":                        map[string]any{"tier": r.Tier, "max_depth": depth, "events_per_router": "installs iA0 iA1 iA2 iAz(first root only) iB0 iB1 (+ header syncs hA hB hA0 where synthesised)", "chains_per_router": 2},
		"routers":                       routers,
		"per_router":                    perRouter,
		"genesis_variants":              variants,
		"violation_min_ops":             minOps,
		"states":                        states,
		"transitions":                   trans,
		"traces_validated_against_impl": trans,
		"max_depth":                     maxDepth,
	})
}
