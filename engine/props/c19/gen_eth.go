package main

// Trust-root / header synthesis for the go-ethereum-shaped routers: eth (PoW, seal skipped by the verif hook),
// bsc / bytom (parlia), heco / hsc / pixiechain (congress), msc (clique), quorum (istanbul), polygon bor.
// Everything is signed with deterministic secp256k1 keys; header timestamps are in the past.

import (
	"crypto/ecdsa"
	"crypto/sha256"
	"encoding/json"
	"fmt"
	"math/big"

	ecommon "github.com/ethereum/go-ethereum/common"
	"github.com/ethereum/go-ethereum/consensus/clique"
	"github.com/ethereum/go-ethereum/core/types"
	"github.com/ethereum/go-ethereum/crypto"
	"github.com/ethereum/go-ethereum/rlp"
	"github.com/polynetwork/poly/common/config"
	"github.com/polynetwork/poly/native/service/header_sync/bsc"
	"github.com/polynetwork/poly/native/service/header_sync/bytom"
	"github.com/polynetwork/poly/native/service/header_sync/eth"
	"github.com/polynetwork/poly/native/service/header_sync/heco"
	"github.com/polynetwork/poly/native/service/header_sync/hsc"
	"github.com/polynetwork/poly/native/service/header_sync/msc"
	"github.com/polynetwork/poly/native/service/header_sync/pixiechain"
	"github.com/polynetwork/poly/native/service/header_sync/polygon"
	"github.com/polynetwork/poly/native/service/header_sync/quorum"
	"github.com/polynetwork/poly/native/service/utils"
)

type ethKey struct {
	priv *ecdsa.PrivateKey
	addr ecommon.Address
}

func ethKeyOf(i int) ethKey {
	h := sha256.Sum256([]byte(fmt.Sprintf("c19-secp-key-%d", i)))
	k, err := crypto.ToECDSA(h[:])
	if err != nil {
		panic(err)
	}
	return ethKey{k, crypto.PubkeyToAddress(k.PublicKey)}
}

func mustJSON(v any) []byte {
	b, err := json.Marshal(v)
	if err != nil {
		panic(err)
	}
	return b
}

const pastTime = 1_600_000_000

// ---------------------------------------------------------------------------------------------
// eth (PoW)

func ethRoot(number uint64, label string) *eth.Header {
	g := &eth.Header{UncleHash: types.EmptyUncleHash, TxHash: types.EmptyRootHash, ReceiptHash: types.EmptyRootHash,
		Difficulty: new(big.Int).Lsh(big.NewInt(1), 40), Number: new(big.Int).SetUint64(number), GasLimit: 15_000_000,
		GasUsed: 7_500_000, Time: pastTime, Extra: []byte(label)}
	if number >= config.GetEth1559Height(config.DefConfig.P2PNode.NetworkId) {
		g.GasLimit, g.GasUsed = 30_000_000, 15_000_000
		g.BaseFee = big.NewInt(eth.InitialBaseFee)
	}
	return g
}

// ethChild satisfies every rule of ETHHandler.SyncBlockHeader w.r.t. p (the ethash seal is skipped by the hook).
func ethChild(p *eth.Header, dt uint64, label string) *eth.Header {
	h := &eth.Header{ParentHash: p.Hash(), UncleHash: types.EmptyUncleHash, TxHash: types.EmptyRootHash, ReceiptHash: types.EmptyRootHash,
		Number: new(big.Int).Add(p.Number, big.NewInt(1)), GasLimit: p.GasLimit, Time: p.Time + dt, Extra: []byte(label)}
	if h.Number.Uint64() >= config.GetEth1559Height(config.DefConfig.P2PNode.NetworkId) {
		if !eth.VerifIsLondon(p) {
			h.GasLimit = p.GasLimit * eth.ElasticityMultiplier
		}
		h.BaseFee = eth.CalcBaseFee(p)
	}
	h.GasUsed = h.GasLimit / 2
	switch {
	case eth.VerifIsArrowGlacier(h):
		h.Difficulty = eth.VerifDiffWithDelay(big.NewInt(10_700_000), h.Time, p)
	case eth.VerifIsLondon(h):
		h.Difficulty = eth.VerifDiffWithDelay(big.NewInt(9_700_000), h.Time, p)
	default:
		h.Difficulty = eth.VerifDiffPreLondon(new(big.Int).SetUint64(h.Time), p)
	}
	return h
}

func genEth() *routerCase {
	g1 := ethRoot(5_000_000, "c19-root-1")
	g2 := ethRoot(5_000_100, "c19-root-2")
	h := ethChild(g1, 10, "c19-child")
	g0 := ethRoot(0, "c19-root-0")
	h0 := ethChild(g0, 10, "c19-child-0")
	return &routerCase{name: "eth", router: utils.ETH_ROUTER, ccmc: []byte{1, 2, 3},
		g1: mustJSON(*g1), g2: mustJSON(*g2), hdr: [][]byte{mustJSON(*h)},
		g0: mustJSON(*g0), g0Note: "Number 0", hdr0: [][]byte{mustJSON(*h0)}, hdr0Note: "block 1 on top of G0",
		gzNote:  "none: every JSON field of an eth header is required; G0 is the boundary genesis",
		hdrNote: "child of G1 obeying every ETH header rule (ethash seal skipped by verifhook.SkipSealFlag)"}
}

// ---------------------------------------------------------------------------------------------
// parlia / congress family

const (
	vanity = 32
	seal   = 65
)

func posaExtra(vals []ecommon.Address) []byte {
	e := make([]byte, vanity, vanity+20*len(vals)+seal)
	copy(e, "c19")
	for _, v := range vals {
		e = append(e, v[:]...)
	}
	return append(e, make([]byte, seal)...)
}

func signInto(extra []byte, sealHash ecommon.Hash, k ethKey) {
	sig, err := crypto.Sign(sealHash.Bytes(), k.priv)
	if err != nil {
		panic(err)
	}
	copy(extra[len(extra)-seal:], sig)
}

var uncleHash = types.CalcUncleHash(nil)

// types.Header based (bsc, bytom)
func posaRootT(number uint64, val ethKey) types.Header {
	return types.Header{UncleHash: uncleHash, TxHash: types.EmptyRootHash, ReceiptHash: types.EmptyRootHash, Coinbase: ethKeyOf(90).addr,
		Difficulty: big.NewInt(2), Number: new(big.Int).SetUint64(number), GasLimit: 30_000_000, GasUsed: 1_000_000,
		Time: pastTime, Extra: posaExtra([]ecommon.Address{val.addr})}
}

func posaChildT(p *types.Header, val ethKey, sealHash func(*types.Header) ecommon.Hash) types.Header {
	h := types.Header{ParentHash: p.Hash(), UncleHash: uncleHash, TxHash: types.EmptyRootHash, ReceiptHash: types.EmptyRootHash,
		Coinbase: val.addr, Difficulty: big.NewInt(2), Number: new(big.Int).Add(p.Number, big.NewInt(1)), GasLimit: p.GasLimit,
		GasUsed: 1_000_000, Time: p.Time + 3, Extra: posaExtra(nil)}
	signInto(h.Extra, sealHash(&h), val)
	return h
}

// eth.Header based (heco, hsc, pixiechain)
func posaRootE(number uint64, val ethKey) eth.Header {
	return eth.Header{UncleHash: uncleHash, TxHash: types.EmptyRootHash, ReceiptHash: types.EmptyRootHash, Coinbase: ethKeyOf(90).addr,
		Difficulty: big.NewInt(2), Number: new(big.Int).SetUint64(number), GasLimit: 30_000_000, GasUsed: 1_000_000,
		Time: pastTime, Extra: posaExtra([]ecommon.Address{val.addr})}
}

func posaChildE(p *eth.Header, val ethKey, sealHash func(*eth.Header) ecommon.Hash) eth.Header {
	h := eth.Header{ParentHash: p.Hash(), UncleHash: uncleHash, TxHash: types.EmptyRootHash, ReceiptHash: types.EmptyRootHash,
		Coinbase: val.addr, Difficulty: big.NewInt(2), Number: new(big.Int).Add(p.Number, big.NewInt(1)), GasLimit: p.GasLimit,
		GasUsed: 1_000_000, Time: p.Time + 3, Extra: posaExtra(nil)}
	signInto(h.Extra, sealHash(&h), val)
	return h
}

const posaG0Note = "Number 0 (the handler only requires PrevValidators[0].Height < Number: -1)"
const posaGzNote = "none: the handler rejects an empty validator list; G0 is the boundary genesis"
const posaNote = "child of G1 signed (real secp256k1 seal) by the single in-turn validator of G1"

func genBsc() *routerCase {
	v1, v2 := ethKeyOf(1), ethKeyOf(2)
	cid := big.NewInt(56)
	r1, r2 := posaRootT(1000, v1), posaRootT(2000, v2)
	g1 := bsc.GenesisHeader{Header: r1, PrevValidators: []bsc.HeightAndValidators{{Height: big.NewInt(800), Validators: []ecommon.Address{v1.addr}}}}
	g2 := bsc.GenesisHeader{Header: r2, PrevValidators: []bsc.HeightAndValidators{{Height: big.NewInt(1800), Validators: []ecommon.Address{v2.addr}}}}
	h := posaChildT(&r1, v1, func(x *types.Header) ecommon.Hash { return bsc.SealHash(x, cid) })
	v0 := ethKeyOf(101)
	r0 := posaRootT(0, v0)
	g0 := bsc.GenesisHeader{Header: r0, PrevValidators: []bsc.HeightAndValidators{{Height: big.NewInt(-1), Validators: []ecommon.Address{v0.addr}}}}
	h0 := posaChildT(&r0, v0, func(x *types.Header) ecommon.Hash { return bsc.SealHash(x, cid) })
	return &routerCase{name: "bsc", router: utils.BSC_ROUTER, ccmc: []byte{1, 2, 3}, extra: mustJSON(bsc.ExtraInfo{ChainID: cid}),
		g1: mustJSON(g1), g2: mustJSON(g2), hdr: [][]byte{mustJSON(h)}, hdrNote: posaNote,
		g0: mustJSON(g0), g0Note: posaG0Note, hdr0: [][]byte{mustJSON(h0)}, hdr0Note: "block 1 sealed by G0's validator", gzNote: posaGzNote}
}

func genBytom() *routerCase {
	v1, v2 := ethKeyOf(3), ethKeyOf(4)
	cid := big.NewInt(188)
	r1, r2 := posaRootT(1000, v1), posaRootT(2000, v2)
	g1 := bytom.GenesisHeader{Header: r1, PrevValidators: []bytom.HeightAndValidators{{Height: big.NewInt(800), Validators: []ecommon.Address{v1.addr}}}}
	g2 := bytom.GenesisHeader{Header: r2, PrevValidators: []bytom.HeightAndValidators{{Height: big.NewInt(1800), Validators: []ecommon.Address{v2.addr}}}}
	h := posaChildT(&r1, v1, func(x *types.Header) ecommon.Hash { return bytom.SealHash(x, cid) })
	v0 := ethKeyOf(103)
	r0 := posaRootT(0, v0)
	g0 := bytom.GenesisHeader{Header: r0, PrevValidators: []bytom.HeightAndValidators{{Height: big.NewInt(-1), Validators: []ecommon.Address{v0.addr}}}}
	h0 := posaChildT(&r0, v0, func(x *types.Header) ecommon.Hash { return bytom.SealHash(x, cid) })
	return &routerCase{name: "bytom", router: utils.BYTOM_ROUTER, ccmc: []byte{1, 2, 3}, extra: mustJSON(bytom.ExtraInfo{ChainID: cid}),
		g1: mustJSON(g1), g2: mustJSON(g2), hdr: [][]byte{mustJSON(h)}, hdrNote: posaNote,
		g0: mustJSON(g0), g0Note: posaG0Note, hdr0: [][]byte{mustJSON(h0)}, hdr0Note: "block 1 sealed by G0's validator", gzNote: posaGzNote}
}

func genHeco() *routerCase {
	v1, v2 := ethKeyOf(5), ethKeyOf(6)
	cid := big.NewInt(128)
	r1, r2 := posaRootE(1000, v1), posaRootE(2000, v2)
	g1 := heco.GenesisHeader{Header: r1, PrevValidators: []heco.HeightAndValidators{{Height: big.NewInt(800), Validators: []ecommon.Address{v1.addr}}}}
	g2 := heco.GenesisHeader{Header: r2, PrevValidators: []heco.HeightAndValidators{{Height: big.NewInt(1800), Validators: []ecommon.Address{v2.addr}}}}
	h := posaChildE(&r1, v1, func(x *eth.Header) ecommon.Hash { return heco.SealHash(x, cid) })
	v0 := ethKeyOf(105)
	r0 := posaRootE(0, v0)
	g0 := heco.GenesisHeader{Header: r0, PrevValidators: []heco.HeightAndValidators{{Height: big.NewInt(-1), Validators: []ecommon.Address{v0.addr}}}}
	h0 := posaChildE(&r0, v0, func(x *eth.Header) ecommon.Hash { return heco.SealHash(x, cid) })
	return &routerCase{name: "heco", router: utils.HECO_ROUTER, ccmc: []byte{1, 2, 3}, extra: mustJSON(heco.ExtraInfo{ChainID: cid, Period: 3}),
		g1: mustJSON(g1), g2: mustJSON(g2), hdr: [][]byte{mustJSON(h)}, hdrNote: posaNote,
		g0: mustJSON(g0), g0Note: posaG0Note, hdr0: [][]byte{mustJSON(h0)}, hdr0Note: "block 1 sealed by G0's validator", gzNote: posaGzNote}
}

func genHsc() *routerCase {
	v1, v2 := ethKeyOf(7), ethKeyOf(8)
	cid := big.NewInt(70)
	r1, r2 := posaRootE(1000, v1), posaRootE(2000, v2)
	g1 := hsc.GenesisHeader{Header: r1, PrevValidators: []hsc.HeightAndValidators{{Height: big.NewInt(800), Validators: []ecommon.Address{v1.addr}}}}
	g2 := hsc.GenesisHeader{Header: r2, PrevValidators: []hsc.HeightAndValidators{{Height: big.NewInt(1800), Validators: []ecommon.Address{v2.addr}}}}
	h := posaChildE(&r1, v1, func(x *eth.Header) ecommon.Hash { return hsc.SealHash(x, cid) })
	v0 := ethKeyOf(107)
	r0 := posaRootE(0, v0)
	g0 := hsc.GenesisHeader{Header: r0, PrevValidators: []hsc.HeightAndValidators{{Height: big.NewInt(-1), Validators: []ecommon.Address{v0.addr}}}}
	h0 := posaChildE(&r0, v0, func(x *eth.Header) ecommon.Hash { return hsc.SealHash(x, cid) })
	return &routerCase{name: "hsc", router: utils.HSC_ROUTER, ccmc: []byte{1, 2, 3}, extra: mustJSON(hsc.ExtraInfo{ChainID: cid, Period: 3}),
		g1: mustJSON(g1), g2: mustJSON(g2), hdr: [][]byte{mustJSON(h)}, hdrNote: posaNote,
		g0: mustJSON(g0), g0Note: posaG0Note, hdr0: [][]byte{mustJSON(h0)}, hdr0Note: "block 1 sealed by G0's validator", gzNote: posaGzNote}
}

func genPixie() *routerCase {
	v1, v2 := ethKeyOf(9), ethKeyOf(10)
	cid := big.NewInt(6626)
	r1, r2 := posaRootE(1000, v1), posaRootE(2000, v2)
	g1 := pixiechain.GenesisHeader{Header: r1, PrevValidators: []pixiechain.HeightAndValidators{{Height: big.NewInt(800), Validators: []ecommon.Address{v1.addr}}}}
	g2 := pixiechain.GenesisHeader{Header: r2, PrevValidators: []pixiechain.HeightAndValidators{{Height: big.NewInt(1800), Validators: []ecommon.Address{v2.addr}}}}
	h := posaChildE(&r1, v1, func(x *eth.Header) ecommon.Hash { return pixiechain.SealHash(x, cid) })
	v0 := ethKeyOf(109)
	r0 := posaRootE(0, v0)
	g0 := pixiechain.GenesisHeader{Header: r0, PrevValidators: []pixiechain.HeightAndValidators{{Height: big.NewInt(-1), Validators: []ecommon.Address{v0.addr}}}}
	h0 := posaChildE(&r0, v0, func(x *eth.Header) ecommon.Hash { return pixiechain.SealHash(x, cid) })
	return &routerCase{name: "pixiechain", router: utils.PIXIECHAIN_ROUTER, ccmc: []byte{1, 2, 3}, extra: mustJSON(pixiechain.ExtraInfo{ChainID: cid, Period: 3}),
		g1: mustJSON(g1), g2: mustJSON(g2), hdr: [][]byte{mustJSON(h)}, hdrNote: posaNote,
		g0: mustJSON(g0), g0Note: posaG0Note, hdr0: [][]byte{mustJSON(h0)}, hdr0Note: "block 1 sealed by G0's validator", gzNote: posaGzNote}
}

// ---------------------------------------------------------------------------------------------
// msc (clique): the trust root is an epoch header carrying the signer list; it must itself carry a recoverable
// seal because the snapshot code ecrecovers it when the first child is verified.

func genMsc() *routerCase {
	const epoch = 100
	mk := func(number uint64, v ethKey) types.Header {
		h := types.Header{UncleHash: uncleHash, TxHash: types.EmptyRootHash, ReceiptHash: types.EmptyRootHash, Difficulty: big.NewInt(2),
			Number: new(big.Int).SetUint64(number), GasLimit: 30_000_000, Time: pastTime, Extra: posaExtra([]ecommon.Address{v.addr})}
		signInto(h.Extra, clique.SealHash(&h), v)
		return h
	}
	v1, v2 := ethKeyOf(11), ethKeyOf(12)
	g1, g2 := mk(2*epoch, v1), mk(5*epoch, v2)
	h := types.Header{ParentHash: g1.Hash(), UncleHash: uncleHash, TxHash: types.EmptyRootHash, ReceiptHash: types.EmptyRootHash,
		Difficulty: big.NewInt(2), Number: big.NewInt(2*epoch + 1), GasLimit: g1.GasLimit, Time: g1.Time + 3, Extra: posaExtra(nil)}
	signInto(h.Extra, clique.SealHash(&h), v1)
	v0 := ethKeyOf(111)
	g0 := mk(0, v0)
	h0 := types.Header{ParentHash: g0.Hash(), UncleHash: uncleHash, TxHash: types.EmptyRootHash, ReceiptHash: types.EmptyRootHash,
		Difficulty: big.NewInt(2), Number: big.NewInt(1), GasLimit: g0.GasLimit, Time: g0.Time + 3, Extra: posaExtra(nil)}
	signInto(h0.Extra, clique.SealHash(&h0), v0)
	return &routerCase{name: "msc", router: utils.MSC_ROUTER, ccmc: []byte{1, 2, 3},
		extra:  mustJSON(msc.ExtraInfo{ChainID: big.NewInt(77), Period: 3, Epoch: epoch}),
		extraX: mustJSON(msc.ExtraInfo{ChainID: big.NewInt(77), Period: 3, Epoch: 3 * epoch}), // 300: divides neither 200 nor 500, divides 0
		extraY: mustJSON(msc.ExtraInfo{ChainID: big.NewInt(78), Period: 5, Epoch: epoch / 2}), // 50: divides every installed height
		g1:     mustJSON(g1), g2: mustJSON(g2), hdr: [][]byte{mustJSON(h)},
		hdrNote: "child of the epoch header G1 with a real clique seal of G1's single signer",
		g0:      mustJSON(g0), g0Note: "Number 0 (0 % Epoch == 0)", hdr0: [][]byte{mustJSON(h0)}, hdr0Note: "block 1 with a clique seal of G0's signer",
		gzNote: "none: the handler rejects an empty signer list; G0 is the boundary genesis"}
}

// ---------------------------------------------------------------------------------------------
// quorum (istanbul): trust root = validator list in the istanbul extra; a later header must add/remove exactly one
// validator and carry the proposer seal + committed seals of the NEW set.

func istanbulHeader(number uint64, vals []ecommon.Address) *types.Header {
	h := &types.Header{UncleHash: uncleHash, TxHash: types.EmptyRootHash, ReceiptHash: types.EmptyRootHash, Difficulty: big.NewInt(1),
		Number: new(big.Int).SetUint64(number), GasLimit: 30_000_000, Time: pastTime + number, MixDigest: quorum.IstanbulDigest}
	setIstanbul(h, &quorum.IstanbulExtra{Validators: vals, Seal: []byte{}, CommittedSeal: [][]byte{}})
	return h
}

func setIstanbul(h *types.Header, x *quorum.IstanbulExtra) {
	p, err := rlp.EncodeToBytes(x)
	if err != nil {
		panic(err)
	}
	h.Extra = append(make([]byte, quorum.IstanbulExtraVanity), p...)
}

// istanbulEpoch: header `number` on top of parent whose validator list is `keys` (one more than the parent's),
// proposer seal of keys[0] and committed seals of every key.
func istanbulEpoch(parent *types.Header, number uint64, keys []ethKey) *types.Header {
	var vals []ecommon.Address
	for _, k := range keys {
		vals = append(vals, k.addr)
	}
	h := istanbulHeader(number, vals)
	h.ParentHash = parent.Hash()
	x := &quorum.IstanbulExtra{Validators: vals, Seal: []byte{}, CommittedSeal: [][]byte{}}
	// proposer seal over sigHash (header with empty seal and committed seals)
	fb, err := rlp.EncodeToBytes(quorum.IstanbulFilteredHeader(h, false))
	if err != nil {
		panic(err)
	}
	ps, err := crypto.Sign(crypto.Keccak256(crypto.Keccak256(fb)), keys[0].priv)
	if err != nil {
		panic(err)
	}
	x.Seal = ps
	setIstanbul(h, x)
	hash := quorum.GetQuorumHeaderHash(h)
	for _, k := range keys {
		cs, err := crypto.Sign(crypto.Keccak256(quorum.PrepareCommittedSeal(hash)), k.priv)
		if err != nil {
			panic(err)
		}
		x.CommittedSeal = append(x.CommittedSeal, cs)
	}
	setIstanbul(h, x)
	return h
}

func genQuorum() *routerCase {
	ks := []ethKey{ethKeyOf(20), ethKeyOf(21), ethKeyOf(22), ethKeyOf(23), ethKeyOf(24)}
	k0 := []ethKey{ethKeyOf(120), ethKeyOf(121), ethKeyOf(122), ethKeyOf(123), ethKeyOf(124)}
	addrs := func(from []ethKey, idx ...int) []ecommon.Address {
		var o []ecommon.Address
		for _, i := range idx {
			o = append(o, from[i].addr)
		}
		return o
	}
	g1 := istanbulHeader(100, addrs(ks, 0, 1, 2, 3))
	g2 := istanbulHeader(200, addrs(ks, 1, 2, 3, 4))
	// epoch header: validator 4 appended (the handler requires the set length to change by exactly one), sealed by the new set
	h := istanbulEpoch(g1, 101, ks)
	g0 := istanbulHeader(0, addrs(k0, 0, 1, 2, 3))
	h0 := istanbulEpoch(g0, 1, k0)
	gz := istanbulHeader(300, nil)
	return &routerCase{name: "quorum", router: utils.QUORUM_ROUTER, ccmc: []byte{1, 2, 3},
		g1: mustJSON(g1), g2: mustJSON(g2), hdr: [][]byte{mustJSON(h)},
		hdrNote: "istanbul epoch header adding a fifth validator to G1's four, proposer seal + 5 committed seals of the new set",
		g0:      mustJSON(g0), g0Note: "Number 0", hdr0: [][]byte{mustJSON(h0)}, hdr0Note: "epoch header number 1 adding a fifth validator to G0's four",
		gz: mustJSON(gz), gzNote: "EMPTY validator list at number 300 (accepted by the handler: stores a zero-length validator set)"}
}

// ---------------------------------------------------------------------------------------------
// polygon bor: trust root = header + validator-set snapshot. A bor header additionally needs a heimdall span proof;
// not synthesised here.

func genBor(heimdallChain uint64) *routerCase {
	mk := func(number uint64, v ethKey) polygon.HeaderWithOptionalSnap {
		hd := posaRootE(number, v)
		val := &polygon.Validator{ID: 1, Address: v.addr, VotingPower: 10}
		return polygon.HeaderWithOptionalSnap{Header: hd, Snapshot: &polygon.Snapshot{Hash: hd.Hash(),
			ValidatorSet: &polygon.ValidatorSet{Validators: []*polygon.Validator{val}, Proposer: val}}}
	}
	g1, g2 := mk(6400, ethKeyOf(30)), mk(12800, ethKeyOf(31))
	g0 := mk(0, ethKeyOf(130))
	return &routerCase{name: "polygon-bor", router: utils.POLYGON_BOR_ROUTER, ccmc: []byte{1, 2, 3},
		extra: mustJSON(polygon.ExtraInfo{Sprint: 64, Period: 2, ProducerDelay: 6, BackupMultiplier: 2, HeimdallPolyChainID: heimdallChain}),
		g1:    mustJSON(g1), g2: mustJSON(g2),
		g0: mustJSON(g0), g0Note: "Number 0", hdr0Note: "none (no bor header event at all)", gzNote: "none: G0 is the boundary genesis",
		hdrNote: "no header event: a bor header at a sprint end needs a heimdall span + merkle proof against a synced heimdall header"}
}
