// C11 phase E — volume: the digest / write set of a block whose transactions push the MemDB buffers of the tx layer
// (CacheDB, production 16 KiB arena) and of the block layer (OverlayDB) through their growth / "full" boundaries.
//
// A block is executed the way executeBlock does: one OverlayDB, one CacheDB; per tx cache.Reset(), the writes,
// cache.Commit() (a failing tx: no Commit). The volume tx P is every ordered tuple of 1..3 distinct (key, size) writes,
// key in {a, ab, b}, size in {0 (= delete), 1, 100, 1000, 5000}, repeated r in {1, 8, 41, 200} times round-robin and
// in blocks (quick: 3-tuples only over three distinct keys, r = 200 only for single writes), every write with fresh position-dependent content.
// Block shapes: [P, F], [F, P], [P failing, F], thorough also [P, reverse(P)]; F = a small fixed tx on overlapping keys.
// Block-layer arena: 1 KiB (so commits of 1000/5000-byte values cross its boundaries) and, thorough only, the
// production 4 MiB arena with a block of ~1000 txs that exceeds it.
//
// Oracle after every tx of the block (every prefix is a block): GetWriteSet dump == reference net write set (final
// value per key, tombstones included) and ChangeHash == ChangeHash of a fresh overlay into which that net write set
// is written once, in key order, without any buffer pressure (same net write set => same digest).
package main

import (
	"bytes"
	"fmt"
	"sort"
	"sync"
	"sync/atomic"

	"github.com/polynetwork/poly/common"
	"github.com/polynetwork/poly/core/store/overlaydb"
	"github.com/polynetwork/poly/native/storage"
	"verif.local/engine/ev"
)

type vwrite struct {
	k    string
	size int
}

type vtx struct {
	ws   []vwrite
	fail bool
}

var (
	volKeys  = []string{"a", "ab", "b"}
	volSizes = []int{0, 1, 100, 1000, 5000}
	volReps  = []int{1, 8, 41, 200}
)

func volTuples() [][]vwrite {
	var pairs []vwrite
	for _, k := range volKeys {
		for _, s := range volSizes {
			pairs = append(pairs, vwrite{k, s})
		}
	}
	var out [][]vwrite
	var rec func(cur []vwrite)
	rec = func(cur []vwrite) {
		if len(cur) > 0 {
			out = append(out, append([]vwrite{}, cur...))
		}
		if len(cur) == 3 {
			return
		}
	next:
		for _, p := range pairs {
			for _, c := range cur {
				if c == p {
					continue next
				}
			}
			rec(append(cur, p))
		}
	}
	rec(nil)
	return out
}

func volSchedule(t []vwrite, r int, blocks bool) []vwrite {
	var out []vwrite
	if blocks {
		for _, w := range t {
			for i := 0; i < r; i++ {
				out = append(out, w)
			}
		}
		return out
	}
	for i := 0; i < r; i++ {
		out = append(out, t...)
	}
	return out
}

func fillValue(buf []byte, counter, size int) []byte {
	if cap(buf) < size {
		buf = make([]byte, size)
	}
	buf = buf[:size]
	for j := range buf {
		buf[j] = byte(counter*131 + j*7 + 1)
	}
	return buf
}

func volValue(counter, size int) []byte { return fillValue(nil, counter, size) }

func sortedKeys(net map[string][]byte) []string {
	ks := make([]string, 0, len(net))
	for k := range net {
		ks = append(ks, k)
	}
	sort.Strings(ks)
	return ks
}

func head(b []byte) []byte {
	if len(b) > 6 {
		return b[:6]
	}
	return b
}

// wsDiff compares the overlay's write set with the reference net write set entry by entry (exact bytes).
func wsDiff(ov *overlaydb.OverlayDB, net map[string][]byte, ks []string) string {
	i, bad := 0, ""
	ov.GetWriteSet().ForEach(func(k, v []byte) {
		if bad != "" {
			return
		}
		if i >= len(ks) || string(k) != ks[i] || !bytes.Equal(v, net[ks[i]]) {
			bad = fmt.Sprintf("entry %d: key %q len=%d head=%x", i, k, len(v), head(v))
			if i < len(ks) {
				bad += fmt.Sprintf("; want key %q len=%d head=%x", ks[i], len(net[ks[i]]), head(net[ks[i]]))
			} else {
				bad += "; want no further entry"
			}
		}
		i++
	})
	if bad == "" && i != len(ks) {
		bad = fmt.Sprintf("%d entries, want %d", i, len(ks))
	}
	return bad
}

// runVolumeBlock executes the block on real objects and checks digest / write set after every tx.
func runVolumeBlock(ov *overlaydb.OverlayDB, txs []vtx, desc map[string]any) (ops int) {
	cache := storage.NewCacheDB(ov)
	net := map[string][]byte{}
	counter := 0
	broken := false
	var scratch []byte
	for ti, tx := range txs {
		cache.Reset()
		pending := map[string][2]int{} // raw key -> (counter, size) of its last write in this tx
		for _, w := range tx.ws {
			scratch = fillValue(scratch, counter, w.size) // MemDB.Put copies its arguments
			if w.size == 0 && counter%2 == 0 {
				cache.Delete([]byte(w.k))
			} else {
				cache.Put([]byte(w.k), scratch)
			}
			pending[pfx+w.k] = [2]int{counter, w.size}
			counter++
		}
		ops += len(tx.ws)
		if !tx.fail {
			cache.Commit()
			for k, cs := range pending {
				net[k] = volValue(cs[0], cs[1])
			}
		}
		ks := sortedKeys(net)
		if d := wsDiff(ov, net, ks); d != "" {
			d2 := map[string]any{"after_tx": ti + 1, "difference": d}
			for k, v := range desc {
				d2[k] = v
			}
			r.Violation("volume:writeset:differs-from-net-write-set", d2)
			broken = true
		}
		need := 16
		for _, k := range ks {
			need += len(k) + len(net[k])
		}
		ref := overlaydb.VerifNewOverlayDBCap(sharedStore, need, 4) // exactly large enough: no buffer pressure
		for _, k := range ks {
			ref.Put([]byte(k), net[k])
		}
		if a, b := ov.ChangeHash(), ref.ChangeHash(); a != b {
			desc["after_tx"], desc["digest"], desc["digest_of_same_net_write_set_written_once"] = ti+1, a.ToHexString(), b.ToHexString()
			r.Violation("volume:digest:differs-for-same-net-write-set", desc)
			return
		}
		if broken {
			return
		}
	}
	return
}

func volumePhase(workers int) map[string]any {
	tuples := volTuples()
	fixed := vtx{ws: []vwrite{{"a", 1}, {"ab", 0}}}
	type job struct {
		t      []vwrite
		r      int
		blocks bool
	}
	jobs := make(chan job, 256)
	var blocksRun, ops, cut atomic.Int64
	var wg sync.WaitGroup
	for w := 0; w < workers; w++ {
		wg.Add(1)
		go func() {
			defer wg.Done()
			for j := range jobs {
				if r.Expired() {
					cut.Add(1)
					continue
				}
				p := vtx{ws: volSchedule(j.t, j.r, j.blocks)}
				rev := make([]vwrite, len(j.t))
				for i, w := range j.t {
					rev[len(j.t)-1-i] = w
				}
				pr := vtx{ws: volSchedule(rev, j.r, j.blocks)}
				pf := vtx{ws: p.ws, fail: true}
				// every prefix of a block is checked, so [P] is covered by [P,F]
				shapes := map[string][]vtx{"[P,F]": {p, fixed}, "[F,P]": {fixed, p}, "[P failing,F]": {pf, fixed}}
				if r.Thorough() {
					shapes["[P,reverse(P)]"] = []vtx{p, pr}
				}
				for name, txs := range shapes {
					desc := map[string]any{"tuple": fmt.Sprint(j.t), "repeat": j.r, "in_blocks": j.blocks, "block_shape": name, "overlay_arena": 1024}
					if rec, pn := ev.Guard(func() {
						ops.Add(int64(runVolumeBlock(overlaydb.VerifNewOverlayDBCap(sharedStore, 1024, 2), txs, desc)))
					}); pn {
						desc["panic"] = fmt.Sprint(rec)
						r.Violation("volume:panic", desc)
					}
					blocksRun.Add(1)
				}
			}
		}()
	}
	for _, t := range tuples {
		for _, rep := range volReps {
			if r.Quick() && (rep == 200 && len(t) > 1 || len(t) == 3 && (t[0].k == t[1].k || t[0].k == t[2].k || t[1].k == t[2].k)) {
				continue // quick: r = 200 for single writes only; 3-tuples over three distinct keys
			}
			if rep == 200 && len(t) == 3 && (t[0].k == t[1].k || t[0].k == t[2].k || t[1].k == t[2].k) {
				continue // thorough: r = 200 for 3-tuples only over three distinct keys (600 x up to 5000 bytes per tx)
			}
			for _, bl := range []bool{false, true} {
				if bl && len(t) == 1 {
					continue
				}
				jobs <- job{t, rep, bl}
			}
		}
	}
	close(jobs)
	wg.Wait()
	big := 0
	if r.Thorough() {
		// a block that exceeds the production 4 MiB overlay arena: 1000 txs x 5000-byte values on rotating keys,
		// keys first seen in descending resp. ascending order, every 7th tx failing, every 5th a delete
		for _, order := range [][]string{{"b", "ab", "a"}, {"a", "ab", "b"}} {
			var txs []vtx
			for i := 0; i < 1000; i++ {
				size := 5000
				if i%5 == 4 {
					size = 0
				}
				txs = append(txs, vtx{ws: []vwrite{{order[i%3], size}, {order[(i+1)%3], 100}}, fail: i%7 == 6})
			}
			desc := map[string]any{"block_shape": "1000 txs x 5000 bytes", "key_order": fmt.Sprint(order), "overlay_arena": "production 4 MiB"}
			if rec, pn := ev.Guard(func() { ops.Add(int64(runVolumeBlock(overlaydb.NewOverlayDB(sharedStore), txs, desc))) }); pn {
				desc["panic"] = fmt.Sprint(rec)
				r.Violation("volume:panic", desc)
			}
			big++
			blocksRun.Add(1)
		}
	}
	if cut.Load() > 0 {
		r.Capped("phase E volume sweep cut by deadline")
	}
	if blocksRun.Load() > 0 {
		r.Class("volume_blocks")
	}
	evalCnt.Add(blocksRun.Load())
	return map[string]any{"tuples": len(tuples), "sizes": volSizes, "repeats": volReps, "block_shapes": r.QT(3, 4), "tx_arena": "production NewCacheDB (16 KiB)",
		"blocks_executed": blocksRun.Load(), "writes": ops.Load(), "blocks_exceeding_4MiB_overlay": big}
}

var _ = common.Uint256{}
