// C11 — the block state-change digest / write set depend only on the net write set.
//
// Real objects: overlaydb.OverlayDB (block layer; ChangeHash, GetWriteSet), native/storage.CacheDB (tx layer; Commit
// / Reset), ledgerstore.StateStore (AddStateMerkleTreeRoot / GetStateMerkleRootWithNewHash).
// Reference: Go map raw-key -> final value ("" = deleted, i.e. tombstone: a deleted key IS part of the net write
// set — "the final value of each written key").
//
//	phase A  mc.BFS to the fixpoint over (block-layer net write set, tx-layer pending writes); every successor is
//	         produced by replaying its whole op path on fresh objects.
//	phase B  every op sequence (no dedup) up to a length: block-layer ops only (deeper) and mixed block/tx-layer
//	         ops incl. Commit/Reset; every prefix is evaluated.
//	phase C  per net write set: state root through a real StateStore with 0..2 prior blocks.
//
// Oracle (exactly the property): all histories with the same net write set give the same ChangeHash and the same
// GetWriteSet dump; different net write sets give different dumps; the dump is the net write set. The numeric value
// of the digest is NOT prescribed (a different framing of the hash input would be property-preserving), and
// digest collisions between DIFFERENT net write sets are only counted (the property does not claim injectivity).
package main

import (
	"fmt"
	"os"
	"runtime"
	"runtime/debug"
	"runtime/pprof"
	"sort"
	"strings"
	"sync"
	"sync/atomic"
	"time"

	"github.com/polynetwork/poly/common"
	"github.com/polynetwork/poly/core/store/ledgerstore"
	"github.com/polynetwork/poly/core/store/leveldbstore"
	"github.com/polynetwork/poly/core/store/overlaydb"
	"github.com/polynetwork/poly/native/storage"
	"verif.local/engine/ev"
	"verif.local/engine/mc"
)

const pfx = "\x05" // common.ST_STORAGE, what CacheDB prepends

var ckeys = []string{"a", "ab", "b"} // contract keys; raw key = pfx+key
// "bx" on purpose: "\x05a"+"bx" == "\x05ab"+"x", so unframed concatenation of distinct write sets can coincide.
var vals = []string{"x", "bx"}

type op struct {
	layer string // "blk" | "tx"
	kind  string // put del commit reset
	key   string // contract key
	val   string
}

func (o op) String() string {
	switch o.kind {
	case "put":
		return fmt.Sprintf("%s.Put(%q,%q)", o.layer, o.key, o.val)
	case "del":
		return fmt.Sprintf("%s.Delete(%q)", o.layer, o.key)
	}
	return o.layer + "." + strings.Title(o.kind) + "()"
}

var opTab = map[string]op{}

func menu(layers ...string) []op {
	var out []op
	for _, l := range layers {
		for _, k := range ckeys {
			for _, v := range vals {
				out = append(out, op{l, "put", k, v})
			}
			out = append(out, op{l, "put", k, ""}, op{l, "del", k, ""})
		}
		if l == "tx" {
			out = append(out, op{l, "commit", "", ""}, op{l, "reset", "", ""})
		}
	}
	for _, o := range out {
		opTab[o.String()] = o
	}
	return out
}

// ---------------------------------------------------------------- reference model

type model struct{ blk, tx map[string]string }

func newModel() *model { return &model{map[string]string{}, map[string]string{}} }

func cp(m map[string]string) map[string]string {
	c := make(map[string]string, len(m))
	for k, v := range m {
		c[k] = v
	}
	return c
}
func (m *model) clone() *model { return &model{cp(m.blk), cp(m.tx)} }

func (m *model) do(o op) {
	t := m.blk
	if o.layer == "tx" {
		t = m.tx
	}
	switch o.kind {
	case "put":
		t[pfx+o.key] = o.val
	case "del":
		t[pfx+o.key] = ""
	case "commit":
		for k, v := range m.tx {
			m.blk[k] = v
		}
	case "reset":
		m.tx = map[string]string{}
	}
}

func canon(m map[string]string) string {
	ks := make([]string, 0, len(m))
	for k := range m {
		ks = append(ks, k)
	}
	sort.Strings(ks)
	var b strings.Builder
	for _, k := range ks {
		fmt.Fprintf(&b, "%q=%q;", k, m[k])
	}
	return b.String()
}

// ---------------------------------------------------------------- real objects

var sharedStore *leveldbstore.LevelDBStore // never read or written by the operations under test

type obs struct {
	digest common.Uint256
	dump   string
}

func runReal(path []op, withTx bool) obs {
	ov := overlaydb.VerifNewOverlayDBCap(sharedStore, 64, 2)
	var tx *storage.CacheDB
	if withTx {
		tx = storage.NewCacheDB(ov)
	}
	for _, o := range path {
		switch {
		case o.layer == "blk" && o.kind == "put":
			ov.Put([]byte(pfx+o.key), []byte(o.val))
		case o.layer == "blk" && o.kind == "del":
			ov.Delete([]byte(pfx + o.key))
		case o.kind == "put":
			tx.Put([]byte(o.key), []byte(o.val))
		case o.kind == "del":
			tx.Delete([]byte(o.key))
		case o.kind == "commit":
			tx.Commit()
		case o.kind == "reset":
			tx.Reset()
		}
	}
	var b strings.Builder
	ov.GetWriteSet().ForEach(func(k, v []byte) { fmt.Fprintf(&b, "%q=%q;", k, v) })
	return obs{ov.ChangeHash(), b.String()}
}

// ---------------------------------------------------------------- oracle bookkeeping

type classRec struct {
	mu          sync.Mutex
	digest      common.Uint256
	dump        string
	first, last []op
	members     int64
}

var (
	r          *ev.Run
	classes    sync.Map // canon(net write set) -> *classRec
	dumpOwner  sync.Map // dump -> class
	digOwner   sync.Map // digest -> class
	collisions atomic.Int64
	collEx     sync.Map
	evalCnt    atomic.Int64
	workers    int
)

func names(p []op) []string {
	out := make([]string, len(p))
	for i, o := range p {
		out[i] = o.String()
	}
	return out
}

func evaluate(path []op, m *model, withTx bool) {
	var o obs
	if rec, p := ev.Guard(func() { o = runReal(path, withTx) }); p {
		r.Violation("panic", map[string]any{"ops": names(path), "panic": fmt.Sprint(rec)})
		return
	}
	evalCnt.Add(1)
	cls := canon(m.blk)
	if o.dump != cls {
		r.Violation("writeset:not-the-net-write-set", map[string]any{"ops": names(path), "got": o.dump, "net": cls})
	}
	v, loaded := classes.LoadOrStore(cls, &classRec{digest: o.digest, dump: o.dump, first: path, last: path, members: 1})
	c := v.(*classRec)
	if loaded {
		c.mu.Lock()
		c.members++
		c.last = path
		c.mu.Unlock()
		if c.digest != o.digest {
			r.Violation("digest:differs-within-net-write-set", map[string]any{"net": cls,
				"ops_a": names(c.first), "digest_a": c.digest.ToHexString(), "ops_b": names(path), "digest_b": o.digest.ToHexString()})
		}
		if c.dump != o.dump {
			r.Violation("writeset:differs-within-net-write-set", map[string]any{"net": cls,
				"ops_a": names(c.first), "dump_a": c.dump, "ops_b": names(path), "dump_b": o.dump})
		}
	}
	if w, l := dumpOwner.LoadOrStore(o.dump, cls); l && w.(string) != cls {
		r.Violation("writeset:same-for-different-net-write-sets", map[string]any{"dump": o.dump, "net_a": w, "net_b": cls, "ops_b": names(path)})
	}
	if w, l := digOwner.LoadOrStore(o.digest, cls); l && w.(string) != cls {
		if _, dup := collEx.LoadOrStore(w.(string)+" <> "+cls, true); !dup {
			collisions.Add(1)
		}
	}
}

type state struct {
	m    *model
	path []op
}

func main() {
	r = ev.Start("C11", "model_checking")
	if f := os.Getenv("VERIF_CPUPROF"); f != "" {
		fh, _ := os.Create(f)
		_ = pprof.StartCPUProfile(fh)
		defer pprof.StopCPUProfile()
	}
	var err error
	if sharedStore, err = leveldbstore.NewMemLevelDBStore(); err != nil {
		r.HarnessError("mem store: %v", err)
	}
	// resource bounds: thorough <= 8 workers; memory is O(#net write sets) + the 4096-state phase-A frontier (< 200 MB)
	workers = runtime.NumCPU()
	if r.Thorough() && workers > 8 {
		workers = 8
	}
	debug.SetMemoryLimit(int64(r.QT(2, 4)) << 30)
	r.Require("same_net_different_history", "tombstone_in_net_write_set", "via_tx_commit", "tx_reset_discards", "delete_then_put", "redundant_overwrite", "ledger_runs", "volume_blocks")
	phaseTimes := map[string]float64{}
	t0 := time.Now()
	lap := func(name string) { phaseTimes[name] = time.Since(t0).Seconds(); t0 = time.Now() }
	all := menu("blk", "tx")
	blkOnly := menu("blk")

	// ---------------- phase A: fixpoint BFS over (block net write set, tx pending writes)
	st := mc.BFS(mc.Config[state]{
		Init: []state{{newModel(), nil}},
		Events: func(s state, d int) []string {
			out := make([]string, len(all))
			for i, o := range all {
				out[i] = o.String()
			}
			return out
		},
		Step: func(s state, e string) (state, bool) {
			o := opTab[e]
			nm := s.m.clone()
			nm.do(o)
			path := append(append(make([]op, 0, len(s.path)+1), s.path...), o)
			evaluate(path, nm, true)
			// outcome classes
			t := s.m.blk
			if o.layer == "tx" {
				t = s.m.tx
			}
			if old, had := t[pfx+o.key]; had && o.kind == "put" && o.val != "" {
				if old == "" {
					r.Class("delete_then_put")
				} else {
					r.Class("redundant_overwrite")
				}
			}
			if o.kind == "commit" && len(s.m.tx) > 0 {
				r.Class("via_tx_commit")
			}
			if o.kind == "reset" && len(s.m.tx) > 0 {
				r.Class("tx_reset_discards")
			}
			return state{nm, path}, true
		},
		Key:     func(s state) string { return canon(s.m.blk) + "|" + canon(s.m.tx) },
		Workers: workers,
		Stop:    r.Expired,
		Inv: func(s state, path []string) {
			r.Case(canon(s.m.blk) + "|" + canon(s.m.tx))
			if len(path) > 0 && len(path) <= 2 {
				r.Sample(map[string]any{"ops": path, "net_write_set": canon(s.m.blk), "tx_pending": canon(s.m.tx)})
			}
		},
	})
	if st.Truncated {
		r.Capped("phase A BFS cut by deadline")
	}

	lap("A")
	// ---------------- phase B: every sequence, no dedup
	var seqs atomic.Int64
	sweep := func(ops []op, depth int, withTx bool, tag string) {
		type item struct {
			path []op
			m    *model
		}
		var work []item
		for _, a := range ops {
			ma := newModel()
			ma.do(a)
			evaluate([]op{a}, ma, withTx)
			seqs.Add(1)
			if depth < 2 {
				continue
			}
			for _, b := range ops {
				mb := ma.clone()
				mb.do(b)
				work = append(work, item{[]op{a, b}, mb})
			}
		}
		var rec func(path []op, m *model)
		rec = func(path []op, m *model) {
			evaluate(path, m, withTx)
			seqs.Add(1)
			if len(path) >= depth {
				return
			}
			for _, o := range ops {
				nm := m.clone()
				nm.do(o)
				rec(append(append(make([]op, 0, len(path)+1), path...), o), nm)
			}
		}
		var wg sync.WaitGroup
		ch := make(chan item)
		var cut atomic.Bool
		for w := 0; w < workers; w++ {
			wg.Add(1)
			go func() {
				defer wg.Done()
				for it := range ch {
					if r.Expired() {
						cut.Store(true)
						continue
					}
					rec(it.path, it.m)
				}
			}()
		}
		for _, it := range work {
			ch <- it
		}
		close(ch)
		wg.Wait()
		if cut.Load() {
			r.Capped("phase B " + tag + " cut by deadline")
		}
	}
	dBlk, dMix := r.QT(5, 7), r.QT(4, 5)
	sweep(blkOnly, dBlk, false, "block-layer")
	sweep(all, dMix, true, "mixed")

	lap("B")
	// ---------------- phase C: state root through a real StateStore, per net write set, two different histories
	nClasses, multi, tomb := 0, 0, 0
	prior := []common.Uint256{{1}, {2}}
	classes.Range(func(k, v any) bool {
		c := v.(*classRec)
		nClasses++
		if c.members > 1 {
			multi++
			r.Class("same_net_different_history")
		}
		if strings.Contains(k.(string), `="";`) {
			tomb++
			r.Class("tombstone_in_net_write_set")
		}
		for np := 0; np <= len(prior); np++ {
			var roots []common.Uint256
			for _, hist := range [][]op{c.first, c.last} {
				d := runReal(hist, true).digest
				ss := ledgerstore.NewMemStateStore(0)
				for h := 0; h < np; h++ {
					ss.NewBatch()
					if err := ss.AddStateMerkleTreeRoot(uint32(h), prior[h]); err != nil {
						r.HarnessError("prior root: %v", err)
					}
					if err := ss.CommitTo(); err != nil {
						r.HarnessError("commit: %v", err)
					}
				}
				pred := ss.GetStateMerkleRootWithNewHash(d) // what executeBlock reports as result.MerkleRoot
				ss.NewBatch()
				if err := ss.AddStateMerkleTreeRoot(uint32(np), d); err != nil {
					r.HarnessError("add root: %v", err)
				}
				if err := ss.CommitTo(); err != nil {
					r.HarnessError("commit: %v", err)
				}
				got, err := ss.GetStateMerkleRoot(uint32(np))
				r.Eval()
				if err != nil || got != pred {
					r.Violation("stateroot:stored-differs-from-predicted", map[string]any{"ops": names(hist), "prior_blocks": np,
						"stored": got.ToHexString(), "predicted": pred.ToHexString(), "err": fmt.Sprint(err)})
				}
				roots = append(roots, got)
				// (a mem StateStore has no hash file: Close() would dereference nil; the store is simply dropped)
			}
			if roots[0] != roots[1] {
				r.Violation("stateroot:differs-within-net-write-set", map[string]any{"net": k, "prior_blocks": np,
					"ops_a": names(c.first), "ops_b": names(c.last), "root_a": roots[0].ToHexString(), "root_b": roots[1].ToHexString()})
			}
		}
		return true
	})

	lap("C")
	// ---------------- phase E: volume (see volume.go)
	r.Note("phaseE_volume", volumePhase(workers))
	lap("E")

	// ---------------- phase D: ledger level (see ledger.go)
	ledgerNote := ledgerPhase(r, workers)
	r.Note("phaseD_ledger", ledgerNote)
	lap("D")
	r.Note("phase_wall_seconds", phaseTimes)

	var ex []string
	collEx.Range(func(k, _ any) bool { ex = append(ex, k.(string)); return len(ex) < 3 })
	r.Note("digest_collisions_between_different_net_write_sets", map[string]any{"pairs": collisions.Load(), "examples": ex,
		"remark": "ChangeHash hashes key||value without framing; not a C11 violation (property claims function-of, not injectivity)"})
	r.Note("phaseA", map[string]any{"states": st.States, "transitions": st.Transitions, "max_depth": st.MaxDepth, "per_depth": st.PerDepth,
		"fixpoint": !st.Truncated && !st.DepthCapped})
	r.Note("phaseB", map[string]any{"block_layer_ops": len(blkOnly), "block_layer_depth": dBlk, "mixed_ops": len(all), "mixed_depth": dMix, "sequences": seqs.Load()})
	r.Note("net_write_sets", map[string]any{"classes": nClasses, "with_more_than_one_history": multi, "with_tombstone": tomb})
	r.Assume("the contract-level map-iteration-order part of the property is explored by C16; here: digest/write set are functions of the MemDB's net content for every insertion order / intermediate history")
	pprof.StopCPUProfile()
	r.Evals(int(evalCnt.Load()))
	r.Note("resource_bounds", map[string]any{"workers": workers, "mem_limit_gib": r.QT(2, 4)})
	r.Finish(map[string]any{
		"rule":   "same net write set (tombstones included) => same ChangeHash, same GetWriteSet dump, same state root; different net write sets => different dumps",
		"keys":   fmt.Sprintf("%q", ckeys), "values": fmt.Sprintf("%q + empty + Delete", vals),
		"states": st.States, "transitions": st.Transitions, "max_depth": st.MaxDepth,
		"traces_validated_against_impl": int64(st.Transitions) + seqs.Load(),
		"sequence_length_block_layer":   dBlk, "sequence_length_mixed": dMix,
	})
}
