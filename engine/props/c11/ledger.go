// C11 phase D — ledger level: the digest AND the write set RECORDED for a block on the real LedgerStoreImp.
//
// Two real on-disk nodes process the same short block history (txs of a probe contract registered in
// native.Contracts writing overlapping keys: overwrite, delete-then-put, put-then-delete, a failing tx, an empty
// block). Node B commits undisturbed. Node A additionally serves node-local events placed between the steps of the
// commit path; EVERY placement of <= bound events over the history is enumerated (deviation bound 2; 3 on a 2-block history in thorough):
//
//	slots : before ExecuteBlock(h) and between ExecuteBlock(h) and SubmitBlock(h) [resp. AddBlock(h)], for every h
//	events: PreExecuteContract read-only, PreExecuteContract writing, a second ExecuteBlock of the same block
//	        (result discarded), GetStorageItem reads of every key
//
// Oracle after every block, both commit paths (ExecuteBlock+SubmitBlock, and dry-run ExecuteBlock+AddBlock):
// (1) persisted contract storage of A == of B == reference model (final value per key);
// (2) ExecuteResult.Hash / MerkleRoot and the stored state root equal on both nodes;
// (3) the write set handed to SubmitBlock (ExecuteResult.WriteSet at that moment) == the block's net write set.
package main

import (
	"fmt"
	"os"
	"sort"
	"strings"
	"sync"
	"sync/atomic"

	"github.com/polynetwork/poly/common"
	"github.com/polynetwork/poly/core/states"
	"github.com/polynetwork/poly/core/types"
	"github.com/polynetwork/poly/native"
	_ "github.com/polynetwork/poly/native/service"
	"verif.local/engine/ev"
	"verif.local/engine/polyenv"
)

var probeAddr = common.Address{0xc1, 0x11, 0x70, 0x72, 0x6f, 0x62, 0x65}

type wr struct{ k, v string } // v == "" : delete
type ltx struct {
	ops  []wr
	fail bool
}

func encOps(ops []wr) []byte {
	var b []byte
	for _, o := range ops {
		b = append(b, byte(len(o.k)))
		b = append(b, o.k...)
		b = append(b, byte(len(o.v)))
		b = append(b, o.v...)
	}
	return b
}

func registerProbe() {
	apply := func(s *native.NativeService) {
		in := s.GetInput()
		for len(in) > 0 {
			kl := int(in[0])
			k := append(append([]byte{}, probeAddr[:]...), in[1:1+kl]...)
			in = in[1+kl:]
			vl := int(in[0])
			v := in[1 : 1+vl]
			in = in[1+vl:]
			if vl == 0 {
				s.GetCacheDB().Delete(k)
			} else {
				s.GetCacheDB().Put(k, v)
			}
		}
	}
	native.Contracts[probeAddr] = func(s *native.NativeService) {
		s.Register("w", func(s *native.NativeService) ([]byte, error) { apply(s); return []byte{1}, nil })
		s.Register("wfail", func(s *native.NativeService) ([]byte, error) { apply(s); return nil, fmt.Errorf("probe: failing tx") })
		s.Register("r", func(s *native.NativeService) ([]byte, error) {
			v, err := s.GetCacheDB().Get(append(append([]byte{}, probeAddr[:]...), s.GetInput()...))
			return append([]byte{0}, v...), err
		})
	}
}

var rawPfx = string(append([]byte{pfx[0]}, probeAddr[:]...))

func dumpMap(m map[string]string) string {
	ks := make([]string, 0, len(m))
	for k := range m {
		ks = append(ks, k)
	}
	sort.Strings(ks)
	var b strings.Builder
	for _, k := range ks {
		fmt.Fprintf(&b, "%q=%q;", strings.TrimPrefix(k, rawPfx), m[k])
	}
	return b.String()
}

type refBlock struct {
	raw        []byte
	hash, root common.Uint256 // ExecuteResult.Hash / MerkleRoot on the undisturbed node
	net        string         // reference net write set of the block (tombstones included)
	state      string         // reference persisted storage after the block
}

type levent struct {
	slot int // 2*(h-1) = before ExecuteBlock(h), 2*(h-1)+1 = between Execute and Submit/AddBlock
	kind string
}

func (e levent) String() string {
	w := "before ExecuteBlock"
	if e.slot%2 == 1 {
		w = "between ExecuteBlock and commit of"
	}
	return fmt.Sprintf("%s %s block %d", e.kind, w, e.slot/2+1)
}

var evKinds = []string{"preexec-read", "preexec-write", "re-execute", "get-storage"}
var ledgerNonce atomic.Uint32

func probeTx(method string, args []byte) *types.Transaction {
	return polyenv.Tx(probeAddr, method, args, 1000+ledgerNonce.Add(1))
}

// reference model of a history
func modelHistory(h [][]ltx) (nets, statesAfter []string) {
	state := map[string]string{}
	for _, blk := range h {
		net := map[string]string{}
		for _, tx := range blk {
			if tx.fail {
				continue
			}
			for _, o := range tx.ops {
				net[rawPfx+o.k] = o.v
			}
		}
		for k, v := range net {
			if v == "" {
				delete(state, k)
			} else {
				state[k] = v
			}
		}
		nets = append(nets, dumpMap(net))
		statesAfter = append(statesAfter, dumpMap(state))
	}
	return
}

func openNode(r *ev.Run, vals []*polyenv.Acct) *polyenv.Chain {
	ch, err := polyenv.OpenChain(polyenv.TmpDir("c11-"), vals)
	if err != nil {
		r.HarnessError("open chain: %v", err)
	}
	return ch
}

func closeNode(ch *polyenv.Chain) { ch.Close(); os.RemoveAll(ch.Dir) }

func writeSetDump(ws interface{ ForEach(func(k, v []byte)) }) string {
	m := map[string]string{}
	ws.ForEach(func(k, v []byte) {
		if strings.HasPrefix(string(k), rawPfx) {
			m[string(k)] = string(v)
		}
	})
	return dumpMap(m)
}

// buildReference commits the history on an undisturbed node and checks that node against the model.
func buildReference(r *ev.Run, vals []*polyenv.Acct, hid string, h [][]ltx, sync bool) []refBlock {
	nets, sts := modelHistory(h)
	ch := openNode(r, vals)
	defer closeNode(ch)
	var out []refBlock
	for i, blk := range h {
		var txs []*types.Transaction
		for _, t := range blk {
			m := "w"
			if t.fail {
				m = "wfail"
			}
			txs = append(txs, probeTx(m, encOps(t.ops)))
		}
		b := ch.NextBlock(txs, nil)
		res, err := ch.L.ExecuteBlock(b)
		if err != nil {
			r.HarnessError("reference ExecuteBlock: %v", err)
		}
		rb := refBlock{raw: b.ToArray(), hash: res.Hash, root: res.MerkleRoot, net: nets[i], state: sts[i]}
		if got := writeSetDump(res.WriteSet); got != rb.net {
			r.Violation("ledger:undisturbed-node:writeset:differs-from-net-write-set", map[string]any{"history": hid, "block": i + 1, "got": got, "want": rb.net})
		}
		if sync {
			err = ch.L.AddBlock(b, res.MerkleRoot)
		} else {
			err = ch.L.SubmitBlock(b, res)
		}
		if err != nil {
			r.HarnessError("reference commit of block %d: %v", i+1, err)
		}
		if got := dumpMap(ch.L.VerifC11RawState([]byte(rawPfx))); got != rb.state {
			r.Violation("ledger:undisturbed-node:persisted-state:differs-from-model", map[string]any{"history": hid, "block": i + 1, "sync": sync, "got": got, "want": rb.state})
		}
		out = append(out, rb)
	}
	return out
}

// runNode commits the reference blocks on a fresh node with the interleaved events.
func runNode(r *ev.Run, vals []*polyenv.Acct, hid string, ref []refBlock, evs []levent, sync bool) {
	path := "submit"
	if sync {
		path = "addblock"
	}
	var names []string
	for _, e := range evs {
		names = append(names, e.String())
	}
	detail := func(h int, got, want string) map[string]any {
		return map[string]any{"history": hid, "commit_path": path, "node_local_events": names, "block": h, "got": got, "want": want}
	}
	ch := openNode(r, vals)
	defer closeNode(ch)
	for i, rb := range ref {
		h := i + 1
		blk, err := types.BlockFromRawBytes(rb.raw)
		if err != nil {
			r.HarnessError("decode block: %v", err)
		}
		fire := func(slot int) {
			for _, e := range evs {
				if e.slot != slot {
					continue
				}
				switch e.kind {
				case "preexec-read":
					if _, err := ch.L.PreExecuteContract(probeTx("r", []byte("a"))); err != nil {
						r.Violation("ledger:"+path+":preexec-read:error", detail(h, err.Error(), ""))
					}
				case "preexec-write":
					if _, err := ch.L.PreExecuteContract(probeTx("w", encOps([]wr{{"a", "PRE"}, {"b", ""}, {"zz", "PRE"}}))); err != nil {
						r.Violation("ledger:"+path+":preexec-write:error", detail(h, err.Error(), ""))
					}
				case "re-execute":
					b2, _ := types.BlockFromRawBytes(rb.raw)
					res2, err := ch.L.ExecuteBlock(b2)
					if err != nil || res2.Hash != rb.hash || res2.MerkleRoot != rb.root {
						r.Violation("ledger:"+path+":re-execute:digest-differs-between-nodes", detail(h, fmt.Sprint(res2.Hash.ToHexString(), " ", err), rb.hash.ToHexString()))
					}
				case "get-storage":
					for _, k := range []string{"a", "ab", "b"} {
						_, _ = ch.L.GetStorageItem(&states.StorageKey{ContractAddress: probeAddr, Key: []byte(k)})
					}
				}
			}
		}
		fire(2 * i)
		res, err := ch.L.ExecuteBlock(blk)
		if err != nil {
			r.Violation("ledger:"+path+":ExecuteBlock:error", detail(h, err.Error(), ""))
			return
		}
		fire(2*i + 1)
		if res.Hash != rb.hash {
			r.Violation("ledger:"+path+":digest:differs-between-nodes", detail(h, res.Hash.ToHexString(), rb.hash.ToHexString()))
		}
		if res.MerkleRoot != rb.root {
			r.Violation("ledger:"+path+":stateroot:differs-between-nodes", detail(h, res.MerkleRoot.ToHexString(), rb.root.ToHexString()))
		}
		if sync {
			err = ch.L.AddBlock(blk, res.MerkleRoot)
		} else {
			if got := writeSetDump(res.WriteSet); got != rb.net {
				r.Violation("ledger:submit:writeset-at-submit:differs-from-net-write-set", detail(h, got, rb.net))
			}
			err = ch.L.SubmitBlock(blk, res)
		}
		if err != nil || ch.L.GetCurrentBlockHeight() != uint32(h) {
			r.Violation("ledger:"+path+":commit:error", detail(h, fmt.Sprint(err, " height=", ch.L.GetCurrentBlockHeight()), ""))
			return
		}
		if got := dumpMap(ch.L.VerifC11RawState([]byte(rawPfx))); got != rb.state {
			r.Violation("ledger:"+path+":persisted-state:differs-from-model", detail(h, got, rb.state))
		}
		if root, err := ch.L.GetStateMerkleRoot(uint32(h)); err != nil || root != rb.root {
			r.Violation("ledger:"+path+":stored-stateroot:differs-between-nodes", detail(h, fmt.Sprint(root.ToHexString(), " ", err), rb.root.ToHexString()))
		}
	}
}

// placements: every sequence of <= bound events with non-decreasing slot (both orders inside a slot).
func placements(slots, bound int) [][]levent {
	out := [][]levent{nil}
	var rec func(cur []levent)
	rec = func(cur []levent) {
		if len(cur) == bound {
			return
		}
		from := 0
		if len(cur) > 0 {
			from = cur[len(cur)-1].slot
		}
		for s := from; s < slots; s++ {
			for _, k := range evKinds {
				nx := append(append([]levent{}, cur...), levent{s, k})
				out = append(out, nx)
				rec(nx)
			}
		}
	}
	rec(nil)
	return out
}

func ledgerPhase(r *ev.Run, workers int) map[string]any {
	vals := polyenv.Keys(4)
	polyenv.Setup(0, vals)
	registerProbe()
	histories := map[string][][]ltx{
		"H1-overlap": {
			{{ops: []wr{{"a", "x"}, {"ab", "bx"}}}, {ops: []wr{{"a", ""}, {"b", "x"}}}},
			{{ops: []wr{{"a", "bx"}}}, {ops: []wr{{"b", "zz"}}, fail: true}, {ops: []wr{{"ab", ""}}}},
			{{ops: []wr{{"b", ""}, {"ab", "x"}}}, {ops: []wr{{"ab", "x"}, {"zz", ""}}}},
		},
		"H2-empty-block": {
			{{ops: []wr{{"a", "x"}}}},
			{},
			{{ops: []wr{{"a", ""}}}, {ops: []wr{{"a", "yy"}, {"b", "x"}}}},
		},
	}
	// explored configurations: (history, commit path, deviation bound). Every node run allocates ~8-10 x 4 MiB
	// (three leveldb write buffers at open, one overlay arena per ExecuteBlock / PreExecuteContract), which is what
	// bounds the quick tier: 2-block prefix of H1, bound 2 on the consensus path, bound 1 on the sync path.
	type cfg struct {
		hid    string
		blocks int
		sync   bool
		bound  int
	}
	var cfgs []cfg
	if r.Quick() {
		cfgs = []cfg{{"H1-overlap", 2, false, 2}, {"H1-overlap", 2, true, 1}}
	} else {
		cfgs = []cfg{{"H1-overlap", 3, false, 2}, {"H1-overlap", 3, true, 2}, {"H2-empty-block", 3, false, 2}, {"H2-empty-block", 3, true, 2},
			{"H1-overlap", 2, false, 3}}
	}
	var runs, cut atomic.Int64
	type job struct {
		hid  string
		ref  []refBlock
		evs  []levent
		sync bool
	}
	jobs := make(chan job)
	var wg sync.WaitGroup
	for w := 0; w < workers; w++ {
		wg.Add(1)
		go func() {
			defer wg.Done()
			for j := range jobs {
				if r.Expired() {
					cut.Add(1)
					continue
				}
				if rec, p := ev.Guard(func() { runNode(r, vals, j.hid, j.ref, j.evs, j.sync) }); p {
					r.Violation("ledger:panic", map[string]any{"history": j.hid, "events": fmt.Sprint(j.evs), "panic": fmt.Sprint(rec)})
				}
				runs.Add(1)
				evalCnt.Add(1)
			}
		}()
	}
	var cfgNotes []map[string]any
	for _, c := range cfgs {
		h := histories[c.hid][:c.blocks]
		ref := buildReference(r, vals, c.hid, h, c.sync)
		pl := placements(2*len(h), c.bound)
		for _, evs := range pl {
			jobs <- job{c.hid, ref, evs, c.sync}
		}
		path := "ExecuteBlock+SubmitBlock"
		if c.sync {
			path = "ExecuteBlock(dry run)+AddBlock"
		}
		cfgNotes = append(cfgNotes, map[string]any{"history": c.hid, "blocks": c.blocks, "commit_path": path, "slots": 2 * len(h),
			"deviation_bound": c.bound, "placements": len(pl)})
	}
	close(jobs)
	wg.Wait()
	if cut.Load() > 0 {
		r.Capped("phase D (ledger) cut by deadline")
	}
	r.Class("ledger_runs")
	return map[string]any{"configurations": cfgNotes, "event_kinds": evKinds, "node_runs": runs.Load(),
		"slots": "before ExecuteBlock(h); between ExecuteBlock(h) and SubmitBlock/AddBlock(h)"}
}
