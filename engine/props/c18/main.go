// C18 — privileged native operations require the right witness (model_checking: exhaustive signer-set enumeration).
//
//  1. The table of privileged methods is extracted from the code (scan.go); a row that is neither in the scenario table
//     below nor in the documented out-of-reach list aborts the run (HarnessError), so a newly added privileged method cannot
//     silently escape.
//  2. One seeded world holds, for every scenario, a state in which the call WOULD succeed with the right witness (shown:
//     the canonical signer set succeeds, else HarnessError).
//  3. For every scenario: every signer subset (size <= 3) of {operator m-of-n entry, operator keys with a wrong m, a strict
//     subset of the validators as m'-of-n', the named owner, a validator single key, an unrelated key} and the empty set.
//     Every transaction carries REAL signatures, first passes core/validation.VerifyTransaction (pool admission), is then
//     executed (a) as the verified object and (b) re-decoded from its bytes (what a node executing a block sees).
//     Oracle (implication): success => required address in the set of addresses derived, independently, from the signer
//     entries the driver put into the transaction (or the required address is the immediately calling contract).
//  4. Invalid-signature variants of the canonical transaction must die in VerifyTransaction.
//  5. Calling-contract rule: two probe contracts registered in native.Contracts relay NativeCall; a witness check may pass for
//     the IMMEDIATE caller only, never for an outer caller, the callee itself or the empty address.
//  6. commitDpos escape hatch on both sides of MaxBlockChangeView; operator scenarios again after an epoch change (the
//     stale operator entry must fail).
package main

import (
	"encoding/hex"
	"fmt"
	"math/big"
	"os"
	"sort"
	"strings"

	"github.com/polynetwork/poly/common"
	"github.com/polynetwork/poly/core/types"
	"github.com/polynetwork/poly/core/validation"
	ontErrors "github.com/polynetwork/poly/errors"
	_ "github.com/polynetwork/poly/native/service"
	ccmcom "github.com/polynetwork/poly/native/service/cross_chain_manager/common"
	"github.com/polynetwork/poly/native/service/governance/neo3_state_manager"
	"github.com/polynetwork/poly/native/service/governance/node_manager"
	"github.com/polynetwork/poly/native/service/governance/relayer_manager"
	"github.com/polynetwork/poly/native/service/governance/side_chain_manager"
	"github.com/polynetwork/poly/native/service/governance/signature_manager"
	hscommon "github.com/polynetwork/poly/native/service/header_sync/common"
	"github.com/polynetwork/poly/native/service/utils"
	"verif.local/engine/ev"
	"verif.local/engine/lib/mapworld"
	"verif.local/engine/polyenv"
)

const ts = 1000

func ser(f func(*common.ZeroCopySink)) []byte {
	s := common.NewZeroCopySink(nil)
	f(s)
	return s.Bytes()
}

// scenario: one privileged call in the seeded world.
type scenario struct {
	ID       string // scan row id (+ "#variant")
	Contract common.Address
	Method   string
	Kind     string                            // "operator" | "owner" | "open" (no witness required: escape hatch past the boundary)
	Owner    string                            // owner kind: which account is the named owner: "O1" (free) or "V1" (must be a consensus validator) or a fixed account name
	Free     bool                              // the named owner may be ANY address (then the calling-contract cases are run too)
	Args     func(owner common.Address) []byte // call arguments naming `owner` where the method names one
	Height   uint32
}

type env struct {
	r         *ev.Run
	vals      []*polyenv.Acct
	accts     map[string]*polyenv.Acct
	base      polyenv.Dump // seeded world, consensus = genesis validators
	epoch2    polyenv.Dump // same after an epoch change: consensus = validators + C5
	cons2     []*polyenv.Acct
	nonce     uint32
	routes    []routerSpec
	epoch2Err error
}

// quorum: number of consensus votes CheckConsensusSigns needs (seeding only).
func (e *env) quorum() int { return (2*len(e.vals) + 2) / 3 }

func (e *env) tx(contract common.Address, method string, args []byte, signers ...polyenv.Signer) *types.Transaction {
	e.nonce++
	return polyenv.Tx(contract, method, args, e.nonce, signers...)
}

// must: seed-world transactions have to succeed (harness error otherwise).
func (e *env) must(w *mapworld.World, what string, h uint32, t *types.Transaction) {
	if res := w.Exec(t, h, ts); !res.OK {
		e.r.HarnessError("seeding the world failed at %q: %v", what, res.Err)
	}
}

const (
	chPending = 901 // registration requested, not approved
	chUpdate  = 902 // registered (owner O1): updateSideChain
	chUpdReq  = 903 // registered + update requested: approveUpdateSideChain
	chQuit    = 904 // registered (owner O1): quitSideChain
	chQuitReq = 905 // registered + quit requested: approveQuitSideChain
	chNew     = 906 // unused id: registerSideChain
	chVote    = 950 // router 0 (consensus vote)
	chRipple  = 951 // router 23 (ripple), ExtraInfo.Operator = O1
	chFee     = 952 // plain chain for updateFee / black / white
)

func (e *env) sideChainArgs(owner common.Address, id, router uint64, extra []byte) []byte {
	p := &side_chain_manager.RegisterSideChainParam{Address: owner, ChainId: id, Router: router, Name: fmt.Sprintf("chain%d", id),
		BlocksToWait: 1, CCMCAddress: []byte{0xcc, byte(id)}, ExtraInfo: extra}
	s := common.NewZeroCopySink(nil)
	if err := p.Serialization(s); err != nil {
		panic(err)
	}
	return s.Bytes()
}

func chainidArgs(id uint64, a common.Address) []byte {
	return ser(func(s *common.ZeroCopySink) {
		(&side_chain_manager.ChainidParam{Chainid: id, Address: a}).Serialization(s)
	})
}

func peerArgs(key string, a common.Address) []byte {
	return ser(func(s *common.ZeroCopySink) { (&node_manager.PeerParam{PeerPubkey: key, Address: a}).Serialization(s) })
}

func (e *env) registerChain(w *mapworld.World, id, router uint64, extra []byte) {
	SCM := utils.SideChainManagerContractAddress
	o1 := e.accts["O1"]
	e.must(w, fmt.Sprintf("registerSideChain %d", id), 1, e.tx(SCM, side_chain_manager.REGISTER_SIDE_CHAIN, e.sideChainArgs(o1.Addr, id, router, extra), polyenv.Single(o1)))
	for _, v := range e.vals[:e.quorum()] {
		e.must(w, fmt.Sprintf("approveRegisterSideChain %d", id), 1, e.tx(SCM, side_chain_manager.APPROVE_REGISTER_SIDE_CHAIN, chainidArgs(id, v.Addr), polyenv.Single(v)))
	}
}

// seed builds the world in which every scenario's call would succeed with the right witness.
func (e *env) seed() {
	w := mapworld.New()
	w.Genesis(e.vals)
	NM, SCM, RM, SVM := utils.NodeManagerContractAddress, utils.SideChainManagerContractAddress, utils.RelayerManagerContractAddress, utils.Neo3StateManagerContractAddress
	o1 := e.accts["O1"]
	// side chains: one per header-sync router, plus the governance scenarios
	for _, rs := range e.routes {
		e.registerChain(w, rs.ChainID, rs.Router, rs.ExtraInfo)
	}
	for _, id := range []uint64{chUpdate, chUpdReq, chQuit, chQuitReq, chFee} {
		e.registerChain(w, id, utils.ETH_ROUTER, nil)
	}
	e.registerChain(w, chVote, utils.VOTE_ROUTER, nil)
	e.registerChain(w, chRipple, utils.RIPPLE_ROUTER, ser(func(s *common.ZeroCopySink) {
		(&side_chain_manager.RippleExtraInfo{Operator: o1.Addr, Sequence: 1, Quorum: 1, SignerNum: 1, Pks: [][]byte{{2}}, ReserveAmount: big.NewInt(1)}).Serialization(s)
	}))
	e.must(w, "registerSideChain pending", 1, e.tx(SCM, side_chain_manager.REGISTER_SIDE_CHAIN, e.sideChainArgs(o1.Addr, chPending, utils.ETH_ROUTER, nil), polyenv.Single(o1)))
	e.must(w, "updateSideChain request", 1, e.tx(SCM, side_chain_manager.UPDATE_SIDE_CHAIN, e.sideChainArgs(o1.Addr, chUpdReq, utils.ETH_ROUTER, []byte{1}), polyenv.Single(o1)))
	e.must(w, "quitSideChain request", 1, e.tx(SCM, side_chain_manager.QUIT_SIDE_CHAIN, chainidArgs(chQuitReq, o1.Addr), polyenv.Single(o1)))
	// node manager: C2 applied; C3 candidate in the pool (owner C3); C4 in the pool and black-listed
	reg := func(c *polyenv.Acct) {
		e.must(w, "registerCandidate", 1, e.tx(NM, node_manager.REGISTER_CANDIDATE, ser(func(s *common.ZeroCopySink) {
			(&node_manager.RegisterPeerParam{PeerPubkey: c.PubHex, Address: c.Addr}).Serialization(s)
		}), polyenv.Single(c)))
	}
	appr := func(c *polyenv.Acct) {
		for _, v := range e.vals[:e.quorum()] {
			e.must(w, "approveCandidate", 1, e.tx(NM, node_manager.APPROVE_CANDIDATE, peerArgs(c.PubHex, v.Addr), polyenv.Single(v)))
		}
	}
	reg(e.accts["C2"])
	reg(e.accts["C3"])
	appr(e.accts["C3"])
	reg(e.accts["C4"])
	appr(e.accts["C4"])
	for _, v := range e.vals[:e.quorum()] {
		e.must(w, "blackNode C4", 1, e.tx(NM, node_manager.BLACK_NODE, ser(func(s *common.ZeroCopySink) {
			(&node_manager.PeerListParam{PeerPubkeyList: []string{e.accts["C4"].PubHex}, Address: v.Addr}).Serialization(s)
		}), polyenv.Single(v)))
	}
	// relayers: request 0 pending; R2 registered and removal request 0 pending
	rl := func(list []common.Address, a common.Address) []byte {
		return ser(func(s *common.ZeroCopySink) {
			(&relayer_manager.RelayerListParam{AddressList: list, Address: a}).Serialization(s)
		})
	}
	e.must(w, "registerRelayer", 1, e.tx(RM, relayer_manager.REGISTER_RELAYER, rl([]common.Address{e.accts["R1"].Addr}, o1.Addr), polyenv.Single(o1)))
	e.must(w, "removeRelayer", 1, e.tx(RM, relayer_manager.REMOVE_RELAYER, rl([]common.Address{e.accts["R1"].Addr}, o1.Addr), polyenv.Single(o1)))
	// neo3 state validators: request 0 pending, removal request 0 pending
	svl := func(a common.Address) []byte {
		return ser(func(s *common.ZeroCopySink) {
			(&neo3_state_manager.StateValidatorListParam{StateValidators: []string{"02" + strings.Repeat("11", 32)}, Address: a}).Serialization(s)
		})
	}
	e.must(w, "registerStateValidator", 1, e.tx(SVM, neo3_state_manager.REGISTER_STATE_VALIDATOR, svl(o1.Addr), polyenv.Single(o1)))
	e.must(w, "removeStateValidator", 1, e.tx(SVM, neo3_state_manager.REMOVE_STATE_VALIDATOR, svl(o1.Addr), polyenv.Single(o1)))
	e.base = w.Dump()
	// epoch 2: C5 becomes a consensus member -> the operator address changes
	c5 := e.accts["C5"]
	reg(c5)
	appr(c5)
	if res := w.Exec(e.tx(NM, node_manager.COMMIT_DPOS, nil, polyenv.Multi(e.vals)), 5, ts); !res.OK {
		// the operator entry of the genesis validators was refused: either the harness is wrong or the code derives the operator
		// from something else — decided at the end (a violation found on the epoch-1 world explains it, else harness error)
		e.epoch2Err = res.Err
		return
	}
	e.epoch2 = w.Dump()
	e.cons2 = append(append([]*polyenv.Acct{}, e.vals...), e.accts["C3"], c5)
}

func (e *env) scenarios() []scenario {
	NM, SCM, RM, SVM := utils.NodeManagerContractAddress, utils.SideChainManagerContractAddress, utils.RelayerManagerContractAddress, utils.Neo3StateManagerContractAddress
	SM, CCM, HS := utils.SignatureManagerContractAddress, utils.CrossChainManagerContractAddress, utils.HeaderSyncContractAddress
	A := e.accts
	var out []scenario
	add := func(id string, c common.Address, m, kind, owner string, free bool, args func(common.Address) []byte) {
		out = append(out, scenario{ID: id, Contract: c, Method: m, Kind: kind, Owner: owner, Free: free, Args: args, Height: 10})
	}
	fixed := func(b []byte) func(common.Address) []byte { return func(common.Address) []byte { return b } }
	// ---- node_manager
	add("NodeManagerContractAddress.registerCandidate", NM, node_manager.REGISTER_CANDIDATE, "owner", "O1", true, func(o common.Address) []byte {
		return ser(func(s *common.ZeroCopySink) {
			(&node_manager.RegisterPeerParam{PeerPubkey: A["C1"].PubHex, Address: o}).Serialization(s)
		})
	})
	add("NodeManagerContractAddress.unRegisterCandidate", NM, node_manager.UNREGISTER_CANDIDATE, "owner", "C2", false, func(o common.Address) []byte { return peerArgs(A["C2"].PubHex, o) })
	add("NodeManagerContractAddress.approveCandidate", NM, node_manager.APPROVE_CANDIDATE, "owner", "O1", true, func(o common.Address) []byte { return peerArgs(A["C2"].PubHex, o) })
	add("NodeManagerContractAddress.quitNode", NM, node_manager.QUIT_NODE, "owner", "C3", false, func(o common.Address) []byte { return peerArgs(A["C3"].PubHex, o) })
	add("NodeManagerContractAddress.blackNode", NM, node_manager.BLACK_NODE, "owner", "O1", true, func(o common.Address) []byte {
		return ser(func(s *common.ZeroCopySink) {
			(&node_manager.PeerListParam{PeerPubkeyList: []string{A["C3"].PubHex}, Address: o}).Serialization(s)
		})
	})
	add("NodeManagerContractAddress.whiteNode", NM, node_manager.WHITE_NODE, "owner", "O1", true, func(o common.Address) []byte { return peerArgs(A["C4"].PubHex, o) })
	add("NodeManagerContractAddress.updateConfig", NM, node_manager.UPDATE_CONFIG, "operator", "", false, fixed(ser(func(s *common.ZeroCopySink) {
		(&node_manager.UpdateConfigParam{Configuration: &node_manager.Configuration{BlockMsgDelay: 6000, HashMsgDelay: 6000, PeerHandshakeTimeout: 11, MaxBlockChangeView: 20000}}).Serialization(s)
	})))
	// commitDpos: genesis view height 0, MaxBlockChangeView 1000 -> due at height 1000
	for _, c := range []struct {
		tag  string
		h    uint32
		kind string
	}{{"early", 10, "operator"}, {"boundary-1", 999, "operator"}, {"boundary", 1000, "open"}, {"boundary+1", 1001, "open"}} {
		out = append(out, scenario{ID: "NodeManagerContractAddress.commitDpos#" + c.tag, Contract: NM, Method: node_manager.COMMIT_DPOS, Kind: c.kind, Args: fixed(nil), Height: c.h})
	}
	// ---- side_chain_manager
	add("SideChainManagerContractAddress.registerSideChain", SCM, side_chain_manager.REGISTER_SIDE_CHAIN, "owner", "O1", true, func(o common.Address) []byte { return e.sideChainArgs(o, chNew, utils.ETH_ROUTER, nil) })
	add("SideChainManagerContractAddress.approveRegisterSideChain", SCM, side_chain_manager.APPROVE_REGISTER_SIDE_CHAIN, "owner", "O1", true, func(o common.Address) []byte { return chainidArgs(chPending, o) })
	add("SideChainManagerContractAddress.updateSideChain", SCM, side_chain_manager.UPDATE_SIDE_CHAIN, "owner", "O1", false, func(o common.Address) []byte { return e.sideChainArgs(o, chUpdate, utils.ETH_ROUTER, []byte{2}) })
	add("SideChainManagerContractAddress.approveUpdateSideChain", SCM, side_chain_manager.APPROVE_UPDATE_SIDE_CHAIN, "owner", "O1", true, func(o common.Address) []byte { return chainidArgs(chUpdReq, o) })
	add("SideChainManagerContractAddress.quitSideChain", SCM, side_chain_manager.QUIT_SIDE_CHAIN, "owner", "O1", false, func(o common.Address) []byte { return chainidArgs(chQuit, o) })
	add("SideChainManagerContractAddress.approveQuitSideChain", SCM, side_chain_manager.APPROVE_QUIT_SIDE_CHAIN, "owner", "O1", true, func(o common.Address) []byte { return chainidArgs(chQuitReq, o) })
	add("SideChainManagerContractAddress.registerAsset", SCM, side_chain_manager.REGISTER_ASSET, "owner", "O1", false, func(o common.Address) []byte {
		return ser(func(s *common.ZeroCopySink) {
			(&side_chain_manager.RegisterAssetParam{OperatorAddress: o, ChainId: chRipple, AssetMap: map[uint64][]byte{chFee: {1}}, LockProxyMap: map[uint64][]byte{chFee: {2}}}).Serialization(s)
		})
	})
	add("SideChainManagerContractAddress.updateFee", SCM, side_chain_manager.UPDATE_FEE, "owner", "V1", false, func(o common.Address) []byte {
		return ser(func(s *common.ZeroCopySink) {
			(&side_chain_manager.UpdateFeeParam{Address: o, ChainId: chFee, View: 0, Fee: big.NewInt(7)}).Serialization(s)
		})
	})
	// ---- relayer_manager
	rl := func(o common.Address) []byte {
		return ser(func(s *common.ZeroCopySink) {
			(&relayer_manager.RelayerListParam{AddressList: []common.Address{A["R2"].Addr}, Address: o}).Serialization(s)
		})
	}
	ap := func(o common.Address) []byte {
		return ser(func(s *common.ZeroCopySink) {
			(&relayer_manager.ApproveRelayerParam{ID: 0, Address: o}).Serialization(s)
		})
	}
	add("RelayerManagerContractAddress.registerRelayer", RM, relayer_manager.REGISTER_RELAYER, "owner", "O1", true, rl)
	add("RelayerManagerContractAddress.RemoveRelayer", RM, relayer_manager.REMOVE_RELAYER, "owner", "O1", true, rl)
	add("RelayerManagerContractAddress.approveRegisterRelayer", RM, relayer_manager.APPROVE_REGISTER_RELAYER, "owner", "O1", true, ap)
	add("RelayerManagerContractAddress.approveRemoveRelayer", RM, relayer_manager.APPROVE_REMOVE_RELAYER, "owner", "O1", true, ap)
	// ---- neo3_state_manager
	svl := func(o common.Address) []byte {
		return ser(func(s *common.ZeroCopySink) {
			(&neo3_state_manager.StateValidatorListParam{StateValidators: []string{"03" + strings.Repeat("22", 32)}, Address: o}).Serialization(s)
		})
	}
	sva := func(o common.Address) []byte {
		return ser(func(s *common.ZeroCopySink) {
			(&neo3_state_manager.ApproveStateValidatorParam{ID: 0, Address: o}).Serialization(s)
		})
	}
	add("Neo3StateManagerContractAddress.registerStateValidator", SVM, neo3_state_manager.REGISTER_STATE_VALIDATOR, "owner", "O1", true, svl)
	add("Neo3StateManagerContractAddress.removeStateValidator", SVM, neo3_state_manager.REMOVE_STATE_VALIDATOR, "owner", "O1", true, svl)
	add("Neo3StateManagerContractAddress.approveRegisterStateValidator", SVM, neo3_state_manager.APPROVE_REGISTER_STATE_VALIDATOR, "owner", "O1", true, sva)
	add("Neo3StateManagerContractAddress.approveRemoveStateValidator", SVM, neo3_state_manager.APPROVE_REMOVE_STATE_VALIDATOR, "owner", "O1", true, sva)
	// ---- signature_manager
	add("SignatureManagerContractAddress.addSignature", SM, signature_manager.ADD_SIGNATURE, "owner", "V1", false, func(o common.Address) []byte {
		return ser(func(s *common.ZeroCopySink) {
			(&signature_manager.AddSignatureParam{Address: o, SideChainID: chFee, Subject: []byte("subject"), Signature: []byte{1, 2}}).Serialization(s)
		})
	})
	// ---- cross_chain_manager
	bc := fixed(ser(func(s *common.ZeroCopySink) { (&ccmcom.BlackChainParam{ChainID: chFee}).Serialization(s) }))
	add("CrossChainManagerContractAddress.BlackChain", CCM, ccmcom.BLACK_CHAIN, "operator", "", false, bc)
	add("CrossChainManagerContractAddress.WhiteChain", CCM, ccmcom.WHITE_CHAIN, "operator", "", false, bc)
	imp := func(chain uint64) func(common.Address) []byte {
		return func(o common.Address) []byte {
			return ser(func(s *common.ZeroCopySink) {
				(&ccmcom.EntranceParam{SourceChainID: chain, Height: 1, RelayerAddress: o[:], Extra: []byte{1, 2, 3}}).Serialization(s)
			})
		}
	}
	add("CrossChainManagerContractAddress.ImportOuterTransfer@consensus_vote", CCM, ccmcom.IMPORT_OUTER_TRANSFER_NAME, "owner", "V1", false, imp(chVote))
	add("CrossChainManagerContractAddress.ImportOuterTransfer@ripple", CCM, ccmcom.IMPORT_OUTER_TRANSFER_NAME, "owner", "V1", false, imp(chRipple))
	// ---- header_sync: SyncGenesisHeader of every router
	for _, rs := range e.routes {
		if rs.Genesis == nil {
			continue
		}
		g := rs.Genesis()
		id := rs.ChainID
		add("HeaderSyncContractAddress.syncGenesisHeader@"+rs.Name, HS, hscommon.SYNC_GENESIS_HEADER, "operator", "", false, fixed(ser(func(s *common.ZeroCopySink) {
			(&hscommon.SyncGenesisHeaderParam{ChainID: id, GenesisHeader: g}).Serialization(s)
		})))
	}
	return out
}

// ---------------------------------------------------------------------------------------------------------------
// signer atoms

type atom struct {
	Name   string
	Signer polyenv.Signer
	Addr   common.Address // derived here, independently of the transaction code: what this entry witnesses
}

func entryAddr(s polyenv.Signer) common.Address {
	if len(s.Keys) == 1 {
		return types.AddressFromPubKey(s.Keys[0].Pub)
	}
	a, err := types.AddressFromMultiPubKeys(polyenv.Pubs(s.Keys), int(s.M))
	if err != nil {
		panic(err)
	}
	return a
}

func mkAtom(name string, s polyenv.Signer) atom {
	s.Sign = true
	return atom{name, s, entryAddr(s)}
}

func subsets(n, max int) [][]int {
	var out [][]int
	var rec func(start int, cur []int)
	rec = func(start int, cur []int) {
		out = append(out, append([]int{}, cur...))
		if len(cur) == max {
			return
		}
		for i := start; i < n; i++ {
			rec(i+1, append(cur, i))
		}
	}
	rec(0, nil)
	return out
}

func rejectedByWitness(err error) bool {
	if err == nil {
		return false
	}
	s := err.Error()
	return strings.Contains(s, "checkWitness") || strings.Contains(s, "authentication") || strings.Contains(s, "validateOwner")
}

type runner struct {
	e             *env
	r             *ev.Run
	perRouter     map[string]map[string]any
	perScen       map[string]map[string]int
	maxSubset     int
	execs, adm    int
	n             int
	replaySigners []string
}

func (x *runner) count(id, class string) {
	if x.perScen[id] == nil {
		x.perScen[id] = map[string]int{}
	}
	x.perScen[id][class]++
}

// execBoth: admission check, then execution of the verified object and of the re-decoded transaction on two copies of the
// snapshot. Returns (admitted, ok, err).
func (x *runner) execBoth(d polyenv.Dump, tx *types.Transaction, h uint32, what string) (bool, bool, error) {
	x.adm++
	if code := validation.VerifyTransaction(tx); code != ontErrors.ErrNoError {
		return false, false, fmt.Errorf("VerifyTransaction: %v", code)
	}
	w1 := mapworld.NewFrom(d)
	r1 := w1.Exec(tx, h, ts)
	sink := common.NewZeroCopySink(nil)
	if err := tx.Serialization(sink); err != nil {
		panic(err)
	}
	tx2, err := types.TransactionFromRawBytes(sink.Bytes())
	if err != nil {
		panic(err)
	}
	w2 := mapworld.NewFrom(d)
	r2 := w2.Exec(tx2, h, ts)
	x.execs += 2
	x.r.Eval()
	if r1.Panic != nil || r2.Panic != nil {
		x.r.Class("panic")
	}
	if r1.OK != r2.OK || w1.Dump().String() != w2.Dump().String() {
		x.r.Violation("witness:verified-object-and-redecoded-transaction-disagree", map[string]any{"case": what, "verified_object": fmt.Sprint(r1.Err), "redecoded": fmt.Sprint(r2.Err)})
	}
	return true, r2.OK, r2.Err
}

func names(as []atom, idx []int) []string {
	out := []string{}
	for _, i := range idx {
		out = append(out, as[i].Name)
	}
	return out
}

// runScenario enumerates the signer subsets for one scenario on snapshot d with the given operator (consensus) set.
func (x *runner) runScenario(sc scenario, d polyenv.Dump, cons []*polyenv.Acct, world string, stale *polyenv.Signer) {
	e, r := x.e, x.r
	owner := e.accts["O1"]
	if sc.Owner != "" {
		owner = e.accts[sc.Owner]
	}
	val := e.vals[0]
	if owner == val {
		val = e.vals[2]
	}
	atoms := []atom{
		mkAtom("operator", polyenv.Multi(cons)),
		mkAtom("operator-keys-m=1", polyenv.Signer{Keys: cons, M: 1}),
		mkAtom("validator-subset", polyenv.Multi(cons[:len(cons)-1])),
		mkAtom("owner", polyenv.Single(owner)),
		mkAtom("validator", polyenv.Single(val)),
		mkAtom("unrelated", polyenv.Single(e.accts["U"])),
	}
	if x.maxSubset > 3 { // thorough: one more wrong-m variant and a second validator
		atoms = append(atoms, mkAtom("operator-keys-m=n", polyenv.Signer{Keys: cons, M: uint16(len(cons))}), mkAtom("validator2", polyenv.Single(e.vals[3])))
	}
	if stale != nil {
		atoms = append(atoms, mkAtom("stale-operator", *stale))
	}
	if sc.Kind == "operator" && world == "epoch1" {
		// a plausible WRONG operator: the m-of-n entry over all ACTIVE pool members (the seeded pool holds candidate C3)
		atoms = append(atoms, mkAtom("all-active-members", polyenv.Multi(append(append([]*polyenv.Acct{}, cons...), e.accts["C3"]))))
	}
	var required common.Address
	reqName := ""
	switch sc.Kind {
	case "operator":
		required, reqName = atoms[0].Addr, "operator"
	case "owner":
		required, reqName = owner.Addr, "owner"
	}
	args := sc.Args(owner.Addr)
	id := sc.ID + "|" + world
	canonicalOK := false
	var canonErr error
	violated := false
	for _, sub := range subsets(len(atoms), x.maxSubset) {
		if x.replaySigners != nil && strings.Join(names(atoms, sub), ",") != strings.Join(x.replaySigners, ",") {
			continue
		}
		var signers []polyenv.Signer
		addrs := map[common.Address]bool{}
		for _, i := range sub {
			signers = append(signers, atoms[i].Signer)
			addrs[atoms[i].Addr] = true
		}
		tx := e.tx(sc.Contract, sc.Method, args, signers...)
		what := fmt.Sprintf("%s signers=%v", id, names(atoms, sub))
		admitted, ok, err := x.execBoth(d, tx, sc.Height, what)
		if !admitted {
			r.HarnessError("validly signed transaction not admitted: %s: %v", what, err)
		}
		has := sc.Kind == "open" || addrs[required]
		if len(sub) == 2 && (sub[0] == 0 || sub[0] == 3) && sub[1] == 5 && world == "epoch1" {
			r.Sample(map[string]any{"scenario": sc.ID, "signers": names(atoms, sub), "required": reqName, "accepted": ok, "error": short(err)})
		}
		r.Case(fmt.Sprintf("%s/%s/has=%v/ok=%v", sc.Kind, sc.Method, has, ok))
		switch {
		case ok && !has:
			violated = true
			r.Class("VIOLATING-accept")
			x.count(id, "accepted_without_witness")
			r.Violation(sc.ID+":accepted-without-"+reqName+"-witness", map[string]any{"scenario": sc.ID, "world": world, "contract": sc.Contract.ToHexString(),
				"method": sc.Method, "args_hex": hex.EncodeToString(args), "height": sc.Height, "validators": x.n, "signers": names(atoms, sub), "required": reqName,
				"required_address": required.ToBase58()})
		case ok:
			r.Class("accept_with_witness")
			x.count(id, "accepted_with_witness")
			if len(sub) == 1 || sc.Kind == "open" {
				canonicalOK = true
			}
		case has:
			if len(sub) == 1 {
				canonErr = err
			}
			r.Class("reject_although_witnessed") // allowed by the implication (never expected here: the world is seeded)
			x.count(id, "rejected_although_witnessed")
			r.Note("stricter:"+id, fmt.Sprintf("signers=%v: %v", names(atoms, sub), err))
		default:
			if rejectedByWitness(err) {
				r.Class("reject_by_witness_check")
				x.count(id, "rejected_by_witness_check")
			} else {
				r.Class("reject_other")
				x.count(id, "rejected_other:"+short(err))
			}
		}
		if sc.Kind == "open" && len(sub) == 1 && atoms[sub[0]].Name == "unrelated" && ok {
			r.Class("commit_open_after_timeout")
		}
	}
	if !canonicalOK && !violated && x.replaySigners == nil { // (with a violation in this scenario the verdict is the violation)
		r.HarnessError("scenario %s: the canonical signer set (%s alone) does not succeed — the seeded state is wrong: %v", id, reqName, canonErr)
	}
	r.Class("scenario_done")
}

func short(err error) string {
	if err == nil {
		return "ok"
	}
	s := err.Error()
	s = strings.TrimPrefix(s, "[Invoke] Native serivce function execute error:")
	if len(s) > 70 {
		s = s[:70]
	}
	return s
}

// invalidSignatures: variants of the canonical transaction whose signatures do not verify must die at admission.
func (x *runner) invalidSignatures(sc scenario, cons []*polyenv.Acct) {
	e, r := x.e, x.r
	owner := e.accts["O1"]
	if sc.Owner != "" {
		owner = e.accts[sc.Owner]
	}
	u, u2 := e.accts["U"], e.accts["U2"]
	op := polyenv.Multi(cons)
	m := int(op.M)
	var variants []struct {
		name string
		s    polyenv.Signer
	}
	add := func(n string, s polyenv.Signer) {
		variants = append(variants, struct {
			name string
			s    polyenv.Signer
		}{n, s})
	}
	if sc.Kind == "operator" {
		others := []*polyenv.Acct{u, u2, e.accts["O1"], e.accts["C1"], e.accts["C2"]}
		add("operator-entry-signed-by-outsiders", polyenv.Signer{Keys: cons, M: op.M, SignWith: others[:m]})
		add("operator-entry-with-m-1-signatures", polyenv.Signer{Keys: cons, M: op.M, SignWith: cons[:m-1]})
		dup := make([]*polyenv.Acct, m)
		for i := range dup {
			dup[i] = cons[0]
		}
		add("operator-entry-one-validator-signing-m-times", polyenv.Signer{Keys: cons, M: op.M, SignWith: dup})
		add("operator-entry-without-signatures", polyenv.Signer{Keys: cons, M: op.M, SignWith: []*polyenv.Acct{}})
	} else {
		add("owner-entry-signed-by-other-key", polyenv.Signer{Keys: []*polyenv.Acct{owner}, M: 1, SignWith: []*polyenv.Acct{u}})
		add("owner-entry-without-signature", polyenv.Signer{Keys: []*polyenv.Acct{owner}, M: 1, SignWith: []*polyenv.Acct{}})
	}
	args := sc.Args(owner.Addr)
	check := func(name string, tx *types.Transaction) {
		x.adm++
		r.Eval()
		if code := validation.VerifyTransaction(tx); code == ontErrors.ErrNoError {
			r.Violation("admission:invalid-signature-variant-admitted:"+name, map[string]any{"scenario": sc.ID, "variant": name})
			r.Class("VIOLATING-admitted")
		} else {
			r.Class("died_at_verify")
		}
	}
	for _, v := range variants {
		check(v.name, e.tx(sc.Contract, sc.Method, args, v.s))
	}
	// signatures of ANOTHER transaction (same signer entry, different nonce) transplanted
	canon := polyenv.Single(owner)
	if sc.Kind == "operator" {
		canon = op
	}
	canon.Sign = true
	a := e.tx(sc.Contract, sc.Method, args, canon)
	b := e.tx(sc.Contract, sc.Method, args, canon)
	t := &types.Transaction{Version: b.Version, TxType: b.TxType, Nonce: b.Nonce, ChainID: b.ChainID, Payload: b.Payload, Attributes: b.Attributes, Sigs: a.Sigs}
	sink := common.NewZeroCopySink(nil)
	if err := t.Serialization(sink); err != nil {
		panic(err)
	}
	t2, err := types.TransactionFromRawBytes(sink.Bytes())
	if err != nil {
		panic(err)
	}
	check("signatures-of-another-transaction", t2)
}

func main() {
	r := ev.Start("C18", "model_checking")
	var replay struct {
		Scenario string   `json:"scenario"`
		World    string   `json:"world"`
		Signers  []string `json:"signers"`
		N        int      `json:"validators"`
	}
	if r.ReplayPath != "" {
		if err := r.LoadReplay(&replay); err != nil {
			r.HarnessError("cannot read replay: %v", err)
		}
		if replay.N == 0 {
			replay.N = 4
		}
	} else {
		r.Require("accept_with_witness", "reject_by_witness_check", "died_at_verify", "scenario_done", "calling_contract_accepted",
			"calling_contract_rejected", "commit_open_after_timeout", "due_rejected_before_due", "due_operator", "shape_accept_operator", "shape_reject")
	}
	installProbes()

	// ---- 1. static table
	rows, hsRouters := scanPrivileged()
	if len(rows) < 40 {
		r.HarnessError("static scan implausible: %d rows", len(rows))
	}
	r.Note("header_sync_routers", hsRouters)
	ns := []int{4}
	if r.Thorough() {
		ns = []int{4, 7}
	}
	if r.ReplayPath != "" {
		ns = []int{replay.N}
	}
	execs, adm, nscen, maxSubset := 0, 0, 0, 0
	for _, n := range ns {
		vals := polyenv.Keys(n)
		polyenv.Setup(0, vals)
		polyenv.InstallHeightLedger()
		e := &env{r: r, vals: vals, accts: map[string]*polyenv.Acct{}, routes: routerSpecs()}
		for i, nm := range []string{"C1", "C2", "C3", "C4", "C5"} {
			e.accts[nm] = polyenv.Key(20 + i)
		}
		for i, nm := range []string{"O1", "U", "U2", "R1", "R2"} {
			e.accts[nm] = polyenv.Key(40 + i)
		}
		for i, v := range vals {
			e.accts[fmt.Sprintf("V%d", i)] = v
		}
		e.seed()
		scens := e.scenarios()
		tag := fmt.Sprintf("_%dvalidators", n)
		if n == 4 {
			tag = ""
			checkTable(r, e, rows, scens)
		}
		x := &runner{e: e, r: r, perScen: map[string]map[string]int{}, maxSubset: r.QT(3, 4), n: n}
		if msg := selfCheck(e); msg != "" {
			r.HarnessError("mapworld differs from polyenv.World: %s", msg)
		}
		if r.ReplayPath != "" {
			x.replaySigners = replay.Signers
		}
		stale := polyenv.Multi(e.vals)
		for _, sc := range scens {
			if r.ReplayPath != "" && sc.ID != replay.Scenario {
				continue
			}
			if r.Expired() {
				r.Capped("scenarios after " + sc.ID)
				break
			}
			if replay.World == "" || replay.World == "epoch1" {
				x.runScenario(sc, e.base, e.vals, "epoch1", nil)
			}
			if sc.Kind == "operator" && !strings.Contains(sc.ID, "commitDpos") && e.epoch2 != nil && (replay.World == "" || replay.World == "epoch2") {
				x.runScenario(sc, e.epoch2, e.cons2, "epoch2", &stale)
			}
			if r.ReplayPath != "" {
				continue
			}
			if sc.Kind != "open" {
				x.invalidSignatures(sc, e.vals)
				x.shapeDimension(sc)
			}
			if sc.Kind == "owner" {
				x.callingContract(sc)
			}
		}
		if r.ReplayPath != "" {
			fmt.Printf("replayed %s on world %s with signers %v\n", replay.Scenario, replay.World, replay.Signers)
			continue
		}
		x.emptyAddress(scens)
		x.latentContextLeak()
		x.dueDimension()
		if e.epoch2 == nil && r.NViolations() == 0 {
			r.HarnessError("seeding the second epoch failed: commitDpos signed by the genesis operator entry was refused: %v", e.epoch2Err)
		}
		// per-router summary
		var routerRows []map[string]any
		for _, rs := range e.routes {
			id := "HeaderSyncContractAddress.syncGenesisHeader@" + rs.Name + "|epoch1"
			row := map[string]any{"router": rs.Name, "router_id": rs.Router}
			if rs.Genesis == nil {
				row["status"] = "out of reach: " + rs.Note
			} else {
				c := x.perScen[id]
				row["accepted_with_operator"] = c["accepted_with_witness"]
				row["rejected_by_witness_check"] = c["rejected_by_witness_check"]
				row["accepted_without_operator"] = c["accepted_without_witness"]
				row["witness_check_reached"] = c["rejected_by_witness_check"] > 0
				row["succeeds_with_operator_alone"] = c["accepted_with_witness"] > 0
			}
			routerRows = append(routerRows, row)
		}
		r.Note("syncGenesisHeader_per_router"+tag, routerRows)
		keys := make([]string, 0, len(x.perScen))
		for k := range x.perScen {
			keys = append(keys, k)
		}
		sort.Strings(keys)
		ps := map[string]any{}
		for _, k := range keys {
			ps[k] = x.perScen[k]
		}
		r.Note("per_scenario"+tag, ps)
		if os.Getenv("C18_VERBOSE") != "" {
			for _, k := range keys {
				fmt.Println(n, k, x.perScen[k])
			}
		}
		execs, adm, nscen, maxSubset = execs+x.execs, adm+x.adm, len(scens), x.maxSubset
	}
	r.Assume("a transaction reaches execution only after core/validation.VerifyTransaction accepted it (pool admission / block verification); block execution itself derives the witness addresses from the listed public keys",
		"seeded worlds: 4 genesis validators (thorough: also 7); after the epoch change the consensus set is validators + C3 + C5; the named owner is O1, a fixed record owner, or validator V1 where the method requires a consensus member")
	r.Finish(map[string]any{
		"rule":                          "for every privileged method found in the code, every signer subset (<= bound) of the atom set: success => required address (operator of the current consensus set / named owner) is among the addresses of the signer entries, or is the immediately calling contract",
		"scenarios":                     nscen,
		"validator_counts":              ns,
		"max_signer_subset":             maxSubset,
		"states":                        2 * len(ns),
		"transitions":                   execs,
		"traces_validated_against_impl": execs,
		"admission_checks":              adm,
		"max_depth":                     1,
	})
}

// checkTable: every privileged row found in the code must be covered by a scenario or be documented as out of reach.
func checkTable(r *ev.Run, e *env, rows []scanRow, scens []scenario) {
	covered := map[string]bool{}
	for _, s := range scens {
		covered[strings.SplitN(s.ID, "#", 2)[0]] = true
	}
	outOfReach := map[string]string{}
	for _, rs := range e.routes {
		if rs.Genesis == nil {
			outOfReach["HeaderSyncContractAddress.syncGenesisHeader@"+rs.Name] = rs.Note
		}
	}
	var table []map[string]any
	rowIDs := map[string]bool{}
	for _, row := range rows {
		rowIDs[row.ID()] = true
		st := "covered"
		if !covered[row.ID()] {
			if why, ok := outOfReach[row.ID()]; ok {
				st = "out_of_reach: " + why
			} else {
				r.HarnessError("privileged method found in the code but not in the scenario table: %s (handler %s, witness calls %v)", row.ID(), row.Handler, row.Sinks)
			}
		}
		table = append(table, map[string]any{"id": row.ID(), "handler": row.Handler, "witness_calls_found": row.Sinks, "status": st})
	}
	// a scenario without a row: the static scan no longer finds a witness call in that handler. Not a harness error — the
	// dynamic enumeration below decides (it reports accepted-without-witness if the check is really gone).
	var lost []string
	for id := range covered {
		if !rowIDs[id] {
			lost = append(lost, id)
		}
	}
	sort.Strings(lost)
	r.Note("privileged_methods_from_code", table)
	r.Note("scenarios_without_static_witness_call", lost)
}
