package main

import (
	"fmt"
)

func main() {
	rows, routers := scanPrivileged()
	for _, r := range rows {
		fmt.Println(r.ID(), r.Sinks)
	}
	fmt.Println(routers)
}
