package main

// The C18 probe contracts: two extra native contracts registered from the driver (native.Contracts is an exported map).
// Their single method "relay" forwards to NativeService.NativeCall(target, method, args) — nothing else — so that a
// privileged method can be reached with a non-empty calling context: tx -> P1 -> target, tx -> P2 -> P1 -> target.

import (
	"fmt"

	"github.com/polynetwork/poly/common"
	"github.com/polynetwork/poly/core/types"
	"github.com/polynetwork/poly/native"
	"github.com/polynetwork/poly/native/service/governance/node_manager"
	"github.com/polynetwork/poly/native/service/governance/side_chain_manager"
	hscommon "github.com/polynetwork/poly/native/service/header_sync/common"
	"github.com/polynetwork/poly/native/service/utils"
	"verif.local/engine/lib/mapworld"
	"verif.local/engine/polyenv"
)

var (
	probe1 = common.Address{0xC1, 0x8F, 'v', 'e', 'r', 'i', 'f', '-', 'c', '1', '8', '-', 'p', '1', 0, 0, 0, 0, 0, 0x01}
	probe2 = common.Address{0xC1, 0x8F, 'v', 'e', 'r', 'i', 'f', '-', 'c', '1', '8', '-', 'p', '2', 0, 0, 0, 0, 0, 0x02}
)

const relayMethod = "relay"

func relayArgs(target common.Address, method string, args []byte) []byte {
	s := common.NewZeroCopySink(nil)
	s.WriteAddress(target)
	s.WriteString(method)
	s.WriteVarBytes(args)
	return s.Bytes()
}

func relay(ns *native.NativeService) ([]byte, error) {
	src := common.NewZeroCopySource(ns.GetInput())
	target, eof := src.NextAddress()
	method, eof2 := src.NextString()
	args, eof3 := src.NextVarBytes()
	if eof || eof2 || eof3 {
		return utils.BYTE_FALSE, fmt.Errorf("probe relay: bad input")
	}
	if _, err := ns.NativeCall(target, method, args); err != nil {
		return utils.BYTE_FALSE, err
	}
	return utils.BYTE_TRUE, nil
}

// tryRelay: NativeCall(first) with its error SWALLOWED, then NativeCall(second). Only used for the latent-behaviour note
// (no contract in the tree calls NativeCall at all, let alone continues after a failed call).
func tryRelay(ns *native.NativeService) ([]byte, error) {
	src := common.NewZeroCopySource(ns.GetInput())
	first, _ := src.NextVarBytes()
	second, eof := src.NextVarBytes()
	if eof {
		return utils.BYTE_FALSE, fmt.Errorf("probe tryRelay: bad input")
	}
	call := func(b []byte) error {
		s := common.NewZeroCopySource(b)
		target, _ := s.NextAddress()
		method, _ := s.NextString()
		args, eof := s.NextVarBytes()
		if eof {
			return fmt.Errorf("probe tryRelay: bad call")
		}
		_, err := ns.NativeCall(target, method, args)
		return err
	}
	_ = call(first)
	if err := call(second); err != nil {
		return utils.BYTE_FALSE, err
	}
	return utils.BYTE_TRUE, nil
}

func installProbes() {
	reg := func(ns *native.NativeService) { ns.Register(relayMethod, relay); ns.Register("tryRelay", tryRelay) }
	native.Contracts[probe1] = reg
	native.Contracts[probe2] = reg
}

// callingContract: the calling-contract cases for one owner-kind scenario.
// Oracle: success => named owner in signer addresses, or named owner == immediately calling contract.
func (x *runner) callingContract(sc scenario) {
	e, r := x.e, x.r
	u, o1 := e.accts["U"], e.accts["O1"]
	type cs struct {
		name    string
		chain   []common.Address // probes between the transaction and the target (outermost first)
		owner   common.Address
		signer  *polyenv.Acct
		violKey string // key if it succeeds although it must not
	}
	cases := []cs{
		{"direct,owner=P1", nil, probe1, u, "context:contract-address-accepted-on-direct-call"},
		{"P1->T,owner=P1", []common.Address{probe1}, probe1, u, ""},
		{"P2->P1->T,owner=P2", []common.Address{probe2, probe1}, probe2, u, "context:outer-caller-accepted"},
		{"P2->P1->T,owner=P1", []common.Address{probe2, probe1}, probe1, u, ""},
		{"P1->T,owner=T", []common.Address{probe1}, sc.Contract, u, "context:callee-itself-accepted"},
		{"direct,owner=T", nil, sc.Contract, u, "context:callee-itself-accepted"},
		{"P1->T,owner=O1,signed-by-O1", []common.Address{probe1}, o1.Addr, o1, ""},
		{"P1->T,owner=O1,signed-by-U", []common.Address{probe1}, o1.Addr, u, "context:unwitnessed-owner-accepted-behind-a-contract"},
	}
	for _, c := range cases {
		args := sc.Args(c.owner)
		contract, method := sc.Contract, sc.Method
		for i := len(c.chain) - 1; i >= 0; i-- {
			args = relayArgs(contract, method, args)
			contract, method = c.chain[i], relayMethod
		}
		s := polyenv.Single(c.signer)
		s.Sign = true
		tx := e.tx(contract, method, args, s)
		what := sc.ID + " " + c.name
		admitted, ok, err := x.execBoth(e.base, tx, sc.Height, what)
		if !admitted {
			r.HarnessError("probe transaction not admitted: %s: %v", what, err)
		}
		var immediate common.Address
		if len(c.chain) > 0 {
			immediate = c.chain[len(c.chain)-1]
		}
		legit := c.owner == c.signer.Addr || (immediate != common.ADDRESS_EMPTY && c.owner == immediate)
		r.Case(fmt.Sprintf("context/%s/ok=%v", c.name, ok))
		switch {
		case ok && !legit:
			r.Class("VIOLATING-accept")
			r.Violation(c.violKey, map[string]any{"scenario": sc.ID, "case": c.name, "method": sc.Method, "named_owner": c.owner.ToHexString(),
				"signer": "unrelated key", "call_chain": fmt.Sprint(c.chain)})
		case ok && immediate != common.ADDRESS_EMPTY && c.owner == immediate:
			r.Class("calling_contract_accepted")
		case ok:
			r.Class("accept_with_witness")
		case !legit && rejectedByWitness(err):
			r.Class("calling_contract_rejected")
		case legit && sc.Free:
			// the named owner is free, the witness is legitimate: the seeded call has to go through
			r.HarnessError("legitimate nested call rejected: %s: %v", what, err)
		default:
			r.Class("reject_other")
		}
	}
}

// emptyAddress: nobody can witness the empty address (on a direct call the calling context IS the empty address).
func (x *runner) emptyAddress(scens []scenario) {
	e, r := x.e, x.r
	for _, sc := range scens {
		if sc.Kind != "owner" {
			continue
		}
		for _, via := range [][]common.Address{nil, {probe1}} {
			for _, signer := range []*polyenv.Signer{nil, {Keys: []*polyenv.Acct{e.accts["U"]}, M: 1, Sign: true}, {Keys: e.vals, M: 3, Sign: true}} {
				args := sc.Args(common.ADDRESS_EMPTY)
				contract, method := sc.Contract, sc.Method
				for i := len(via) - 1; i >= 0; i-- {
					args = relayArgs(contract, method, args)
					contract, method = via[i], relayMethod
				}
				var tx *types.Transaction
				if signer == nil {
					tx = e.tx(contract, method, args)
				} else {
					tx = e.tx(contract, method, args, *signer)
				}
				what := fmt.Sprintf("%s owner=empty-address via=%d", sc.ID, len(via))
				admitted, ok, err := x.execBoth(e.base, tx, sc.Height, what)
				if !admitted {
					r.HarnessError("not admitted: %s: %v", what, err)
				}
				if ok {
					r.Class("VIOLATING-accept")
					r.Violation("context:empty-address-accepted", map[string]any{"scenario": sc.ID, "method": sc.Method, "via_probe": len(via) > 0, "signed": signer != nil})
				} else if rejectedByWitness(err) {
					r.Class("empty_address_rejected")
				} else {
					r.Class("reject_other")
				}
				r.Case(fmt.Sprintf("empty-address/%s/ok=%v", sc.Method, ok))
			}
		}
	}
}

// selfCheck: the map-backed world behaves like the leveldb-backed polyenv.World on a governance + header-sync scenario.
func selfCheck(e *env) string {
	o1 := e.accts["O1"]
	var ops []mapworld.Op
	add := func(h uint32, tx *types.Transaction) { ops = append(ops, mapworld.Op{Tx: tx, Height: h}) }
	SCM := utils.SideChainManagerContractAddress
	add(1, e.tx(SCM, side_chain_manager.REGISTER_SIDE_CHAIN, e.sideChainArgs(o1.Addr, 102, utils.ETH_ROUTER, nil), polyenv.Single(o1)))
	add(1, e.tx(SCM, side_chain_manager.REGISTER_SIDE_CHAIN, e.sideChainArgs(o1.Addr, 103, utils.ETH_ROUTER, nil), polyenv.Single(e.accts["U"])))
	for _, v := range e.vals[:3] {
		add(1, e.tx(SCM, side_chain_manager.APPROVE_REGISTER_SIDE_CHAIN, chainidArgs(102, v.Addr), polyenv.Single(v)))
	}
	var g []byte
	for _, rs := range e.routes {
		if rs.Name == "eth" {
			g = rs.Genesis()
		}
	}
	p := ser(func(s *common.ZeroCopySink) {
		(&hscommon.SyncGenesisHeaderParam{ChainID: 102, GenesisHeader: g}).Serialization(s)
	})
	add(2, e.tx(utils.HeaderSyncContractAddress, hscommon.SYNC_GENESIS_HEADER, p, polyenv.Single(e.accts["U"])))
	add(2, e.tx(utils.HeaderSyncContractAddress, hscommon.SYNC_GENESIS_HEADER, p, polyenv.Multi(e.vals)))
	add(3, e.tx(utils.NodeManagerContractAddress, node_manager.COMMIT_DPOS, nil, polyenv.Multi(e.vals)))
	add(3, e.tx(probe1, relayMethod, relayArgs(utils.NodeManagerContractAddress, node_manager.COMMIT_DPOS, nil), polyenv.Single(o1)))
	return mapworld.SelfCheck(e.vals, ops, ts)
}

// latentContextLeak: NativeService.Invoke does not pop the callee's context when the callee fails. A caller that swallowed
// the error and calls on would present the FAILED callee as calling context. Unreachable with the contracts in the tree
// (nothing calls NativeCall); reported as a note, not as a violation.
func (x *runner) latentContextLeak() {
	e := x.e
	RM := utils.RelayerManagerContractAddress
	NM := utils.NodeManagerContractAddress
	// first call: node_manager.registerCandidate with garbage -> fails inside node_manager (context NM stays on the stack)
	first := relayArgs(NM, node_manager.REGISTER_CANDIDATE, []byte{0xff})
	var second []byte
	for _, sc := range e.scenarios() {
		if sc.ID == "RelayerManagerContractAddress.registerRelayer" {
			second = relayArgs(RM, sc.Method, sc.Args(NM)) // named owner = node_manager's address
		}
	}
	s := common.NewZeroCopySink(nil)
	s.WriteVarBytes(first)
	s.WriteVarBytes(second)
	u := polyenv.Single(e.accts["U"])
	u.Sign = true
	tx := e.tx(probe1, "tryRelay", s.Bytes(), u)
	_, ok, err := x.execBoth(e.base, tx, 10, "latent context leak")
	x.r.Note("latent_context_leak_after_swallowed_callee_error", map[string]any{
		"what":     "tx(unrelated key) -> P1.tryRelay{ NativeCall(node_manager, fails) ignored; NativeCall(relayer_manager.registerRelayer, owner = node_manager address) }",
		"accepted": ok, "error": fmt.Sprint(err),
		"meaning": "accepted=true: the witness check passed for a contract that is not the immediate caller, because Invoke() leaves the failed callee on the context stack; not reachable in the tree (no contract uses NativeCall)"})
}
