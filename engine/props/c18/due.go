package main

// "Forcing an epoch change before it is due" as a configuration dimension.
//
// World = real genesis (consensus = the validators, no candidates, so the operator entry never changes), then
//   * MaxBlockChangeView installed through the REAL updateConfig signed by the operator
//     (genesis default 1000; 10000 = smallest accepted; 60000; 2^31; 2^32-1-k for k in {5,2,1}; 2^32-1),
//   * governance view height: 0 (genesis), small (> 0, after one real operator commitDpos at height 7), large
//     (operator commitDpos at 3e9, at 2^32-1-20000 and at 2^32-3),
//   * current height h = viewHeight + d for d in {0, 1, 2, M-1, M, M+1} and h = 2^32-1, wherever representable in uint32
//     (block heights never go back, so h >= viewHeight); this includes every case in which viewHeight + M does not fit
//     into uint32 ("small heights after a wrapped sum" relative to the wrapped due height),
//   * callers: nobody (no signer entry), a stranger, one validator, the operator m-of-n entry.
// Oracle (wide integers): a commitDpos that is NOT witnessed by the operator succeeds only if
// uint64(h) - uint64(viewHeight) >= uint64(M). The operator entry must succeed whenever d > 0 (else harness error), and a
// non-operator must succeed when the epoch IS due (counted; part of the vacuity guard).

import (
	"fmt"
	"sort"

	"github.com/polynetwork/poly/common"
	"github.com/polynetwork/poly/native/service/governance/node_manager"
	"github.com/polynetwork/poly/native/service/utils"
	"verif.local/engine/lib/mapworld"
	"verif.local/engine/polyenv"
)

const maxU32 = uint64(1<<32 - 1)

func (x *runner) dueDimension() {
	e, r := x.e, x.r
	NM := utils.NodeManagerContractAddress
	op := polyenv.Multi(e.vals)
	mbcvs := []uint64{0 /* genesis default, no updateConfig */, 10000, 60000, 1 << 31, maxU32 - 5, maxU32 - 2, maxU32 - 1, maxU32}
	views := []uint64{0, 7, 3000000000, maxU32 - 20000, maxU32 - 2}
	callers := []struct {
		name    string
		signers []polyenv.Signer
		isOp    bool
	}{
		{"nobody", nil, false},
		{"stranger", []polyenv.Signer{polyenv.Single(e.accts["U"])}, false},
		{"validator", []polyenv.Signer{polyenv.Single(e.vals[0])}, false},
		{"operator", []polyenv.Signer{op}, true},
	}
	for i := range callers {
		for j := range callers[i].signers {
			callers[i].signers[j].Sign = true
		}
	}
	worlds, cases := 0, 0
	for _, m := range mbcvs {
		for _, vh := range views {
			if r.Expired() {
				r.Capped("commitDpos configuration dimension")
				return
			}
			w := mapworld.New()
			w.Genesis(e.vals)
			M := uint64(1000) // polyenv genesis configuration
			if m != 0 {
				M = m
				cfg := ser(func(s *common.ZeroCopySink) {
					(&node_manager.UpdateConfigParam{Configuration: &node_manager.Configuration{BlockMsgDelay: 6000, HashMsgDelay: 6000,
						PeerHandshakeTimeout: 11, MaxBlockChangeView: uint32(m)}}).Serialization(s)
				})
				e.must(w, fmt.Sprintf("updateConfig MaxBlockChangeView=%d", m), 1, e.tx(NM, node_manager.UPDATE_CONFIG, cfg, op))
			}
			if vh != 0 {
				e.must(w, fmt.Sprintf("operator commitDpos at %d", vh), uint32(vh), e.tx(NM, node_manager.COMMIT_DPOS, nil, op))
			}
			d := w.Dump()
			worlds++
			hs := map[uint64]bool{}
			for _, dd := range []uint64{0, 1, 2, M - 1, M, M + 1} {
				if vh+dd <= maxU32 {
					hs[vh+dd] = true
				}
			}
			hs[maxU32] = true
			var hl []uint64
			for h := range hs {
				hl = append(hl, h)
			}
			sort.Slice(hl, func(i, j int) bool { return hl[i] < hl[j] })
			for _, h := range hl {
				due := h-vh >= M // uint64 arithmetic, h >= vh by construction
				wraps := vh+M > maxU32
				for _, c := range callers {
					tx := e.tx(NM, node_manager.COMMIT_DPOS, nil, c.signers...)
					what := fmt.Sprintf("commitDpos M=%d viewHeight=%d height=%d caller=%s", M, vh, h, c.name)
					admitted, ok, err := x.execBoth(d, tx, uint32(h), what)
					if !admitted {
						r.HarnessError("not admitted: %s: %v", what, err)
					}
					cases++
					r.Case(fmt.Sprintf("due/%s/due=%v/wraps=%v/same-block=%v/ok=%v", c.name, due, wraps, h == vh, ok))
					switch {
					case c.isOp:
						if !ok && h != vh {
							r.HarnessError("operator commitDpos rejected: %s: %v", what, err)
						}
						r.Class("due_operator")
					case ok && !due:
						r.Class("VIOLATING-accept")
						key := "NodeManagerContractAddress.commitDpos#config-dimension:non-operator-accepted-before-due"
						r.Violation(key, map[string]any{"MaxBlockChangeView": M, "view_height": vh, "height": h, "height_minus_view_height": h - vh,
							"caller": c.name, "view_height_plus_max_overflows_uint32": wraps,
							"setup": "genesis(4 validators); updateConfig(MaxBlockChangeView) by the operator at height 1; operator commitDpos at view_height (if > 0); then commitDpos by caller at height"})
					case ok:
						r.Class("commit_open_after_timeout")
					case due && h != vh:
						r.Class("reject_although_due")
						r.Note("stricter:commitDpos-due", what+": "+short(err))
					default:
						r.Class("due_rejected_before_due")
					}
				}
			}
		}
	}
	r.Note("commitDpos_configuration_dimension", map[string]any{"MaxBlockChangeView": mbcvs, "view_heights": views, "worlds": worlds, "cases": cases,
		"height_offsets": "0,1,2,M-1,M,M+1 and height 2^32-1 where representable", "callers": []string{"nobody", "stranger", "validator", "operator"}})
}
