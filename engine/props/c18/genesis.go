package main

// Synthesised SyncGenesisHeader parameters, one builder per header_sync router. Each builds the smallest genesis parameter
// that the router's SyncGenesisHeader ACCEPTS when the operator witness is present (so that "the call would succeed with the
// right witness" is demonstrated per router), using the router package's own exported types and encoders. No property logic.

import (
	"encoding/binary"
	"encoding/json"
	"fmt"
	"go/ast"
	"go/parser"
	"go/token"
	"math/big"
	"strconv"
	"strings"

	zcore "github.com/Zilliqa/gozilliqa-sdk/core"
	"github.com/btcsuite/btcd/chaincfg"
	"github.com/btcsuite/btcd/wire"
	ecommon "github.com/ethereum/go-ethereum/common"
	etypes "github.com/ethereum/go-ethereum/core/types"
	"github.com/ethereum/go-ethereum/rlp"
	neoblock "github.com/joeqian10/neo-gogogo/block"
	neotx "github.com/joeqian10/neo-gogogo/tx"
	neo3legacyblock "github.com/joeqian10/neo3-gogogo-legacy/block"
	neo3block "github.com/joeqian10/neo3-gogogo/block"
	ocommon "github.com/ontio/ontology/common"
	otypes "github.com/ontio/ontology/core/types"
	polycommon "github.com/polynetwork/poly/common"
	"github.com/polynetwork/poly/native/service/header_sync/bsc"
	"github.com/polynetwork/poly/native/service/header_sync/bytom"
	"github.com/polynetwork/poly/native/service/header_sync/cosmos"
	"github.com/polynetwork/poly/native/service/header_sync/eth"
	"github.com/polynetwork/poly/native/service/header_sync/heco"
	"github.com/polynetwork/poly/native/service/header_sync/hsc"
	"github.com/polynetwork/poly/native/service/header_sync/msc"
	"github.com/polynetwork/poly/native/service/header_sync/neo"
	"github.com/polynetwork/poly/native/service/header_sync/neo3"
	"github.com/polynetwork/poly/native/service/header_sync/neo3legacy"
	"github.com/polynetwork/poly/native/service/header_sync/okex"
	"github.com/polynetwork/poly/native/service/header_sync/pixiechain"
	"github.com/polynetwork/poly/native/service/header_sync/polygon"
	polygonTypes "github.com/polynetwork/poly/native/service/header_sync/polygon/types"
	"github.com/polynetwork/poly/native/service/header_sync/quorum"
	"github.com/polynetwork/poly/native/service/header_sync/zilliqa"
	"github.com/polynetwork/poly/native/service/header_sync/zilliqalegacy"
	"github.com/polynetwork/poly/native/service/utils"
	zlcore "github.com/renlulu/gozilliqa-sdklegacy/core"
	stc "github.com/starcoinorg/starcoin-go/client"
	tmtypes "github.com/tendermint/tendermint/types"
	"verif.local/engine/lib/src"
)

type routerSpec struct {
	Name      string // scan row router name
	Router    uint64
	ChainID   uint64
	ExtraInfo []byte        // side chain ExtraInfo needed by the router (msc, bor)
	Genesis   func() []byte // nil: cannot be synthesised (reason in Note)
	Note      string
}

func mustJSON(v any) []byte {
	b, err := json.Marshal(v)
	if err != nil {
		panic(err)
	}
	return b
}

// parliaHeader: go-ethereum header at height `number` whose extra data carries one validator address between the 32-byte
// vanity and the 65-byte seal (the clique / parlia layout checked by bsc, heco, hsc, pixiechain, bytom, msc).
func parliaHeader(number int64) etypes.Header {
	extra := make([]byte, 32+20+65)
	extra[32] = 0x11
	return etypes.Header{Number: big.NewInt(number), Difficulty: big.NewInt(2), Extra: extra, Time: 1600000000}
}

// same layout with the eth router's own header type (heco, hsc, pixiechain use it)
func parliaEthHeader(number int64) eth.Header {
	extra := make([]byte, 32+20+65)
	extra[32] = 0x11
	return eth.Header{Number: big.NewInt(number), Difficulty: big.NewInt(2), Extra: extra, Time: 1600000000}
}

func prevVals(number int64) (*big.Int, []ecommon.Address) {
	return big.NewInt(number - 200), []ecommon.Address{{0x11}}
}

func routerSpecs() []routerSpec {
	const n = 400
	specs := []routerSpec{
		{Name: "btc", Router: utils.BTC_ROUTER, Genesis: func() []byte {
			var b []byte
			w := &sliceWriter{&b}
			h := chaincfg.RegressionNetParams.GenesisBlock.Header
			if err := h.BtcEncode(w, wire.ProtocolVersion, wire.LatestEncoding); err != nil {
				panic(err)
			}
			var hb [4]byte
			binary.BigEndian.PutUint32(hb[:], 0)
			return append(b, hb[:]...)
		}},
		{Name: "eth", Router: utils.ETH_ROUTER, Genesis: func() []byte {
			return mustJSON(&eth.Header{Number: big.NewInt(n), Difficulty: big.NewInt(1000), Time: 1600000000, Extra: []byte{}})
		}},
		{Name: "ont", Router: utils.ONT_ROUTER, Genesis: func() []byte {
			h := &otypes.Header{Version: 0, Height: 10, ConsensusPayload: []byte("{}")}
			s := ocommon.NewZeroCopySink(nil)
			h.Serialization(s)
			return s.Bytes()
		}},
		{Name: "neo", Router: utils.NEO_ROUTER, Genesis: func() []byte {
			h := &neo.NeoBlockHeader{BlockHeader: &neoblock.BlockHeader{Index: 10, Witness: &neotx.Witness{InvocationScript: []byte{1}, VerificationScript: []byte{2}}}}
			s := polycommon.NewZeroCopySink(nil)
			if err := h.Serialization(s); err != nil {
				panic(err)
			}
			return s.Bytes()
		}},
		{Name: "cosmos", Router: utils.COSMOS_ROUTER, Genesis: func() []byte {
			b, err := cosmos.Cdc.MarshalBinaryBare(cosmos.CosmosHeader{Header: tmtypes.Header{ChainID: "verif", Height: 5}})
			if err != nil {
				panic(err)
			}
			return b
		}},
		{Name: "bsc", Router: utils.BSC_ROUTER, Genesis: func() []byte {
			h, v := prevVals(n)
			return mustJSON(&bsc.GenesisHeader{Header: parliaHeader(n), PrevValidators: []bsc.HeightAndValidators{{Height: h, Validators: v}}})
		}},
		{Name: "heco", Router: utils.HECO_ROUTER, Genesis: func() []byte {
			h, v := prevVals(n)
			return mustJSON(&heco.GenesisHeader{Header: parliaEthHeader(n), PrevValidators: []heco.HeightAndValidators{{Height: h, Validators: v}}})
		}},
		{Name: "quorum", Router: utils.QUORUM_ROUTER, Genesis: func() []byte {
			payload, err := rlp.EncodeToBytes(&quorum.IstanbulExtra{Validators: []ecommon.Address{{0x11}}, Seal: []byte{}, CommittedSeal: [][]byte{}})
			if err != nil {
				panic(err)
			}
			h := etypes.Header{Number: big.NewInt(n), Difficulty: big.NewInt(1), Extra: append(make([]byte, 32), payload...)}
			return mustJSON(&h)
		}},
		{Name: "zilliqalegacy", Router: utils.ZILLIQA_LEGACY_ROUTER, Genesis: func() []byte {
			return mustJSON(&zilliqalegacy.TxBlockAndDsComm{TxBlock: &zlcore.TxBlock{BlockHeader: &zlcore.TxBlockHeader{BlockNum: 10, DSBlockNum: 2}},
				DsBlock: &zlcore.DsBlock{BlockHeader: &zlcore.DsBlockHeader{BlockNum: 2}}, DsComm: []zlcore.PairOfNode{}})
		}},
		{Name: "msc", Router: utils.MSC_ROUTER, ExtraInfo: mustJSON(&msc.ExtraInfo{ChainID: big.NewInt(7), Period: 3, Epoch: 200}), Genesis: func() []byte {
			h := parliaHeader(n)
			return mustJSON(&h)
		}},
		{Name: "neo3legacy", Router: utils.NEO3_LEGACY_ROUTER, Genesis: func() []byte {
			h := &neo3legacy.NeoBlockHeader{Header: neo3legacyblock.NewBlockHeader()}
			s := polycommon.NewZeroCopySink(nil)
			if err := h.Serialization(s); err != nil {
				panic(err)
			}
			return s.Bytes()
		}},
		{Name: "okex", Router: utils.OKEX_ROUTER, Genesis: func() []byte {
			b, err := okex.NewCDC().MarshalBinaryBare(okex.CosmosHeader{Header: tmtypes.Header{ChainID: "verif", Height: 5}})
			if err != nil {
				panic(err)
			}
			return b
		}},
		{Name: "neo3", Router: utils.NEO3_ROUTER, Genesis: func() []byte {
			h := &neo3.NeoBlockHeader{Header: neo3block.NewBlockHeader()}
			s := polycommon.NewZeroCopySink(nil)
			if err := h.Serialization(s); err != nil {
				panic(err)
			}
			return s.Bytes()
		}},
		{Name: "polygon/HeimdallHandler", Router: utils.POLYGON_HEIMDALL_ROUTER, Genesis: func() []byte {
			b, err := polygonTypes.NewCDC().MarshalBinaryBare(polygon.CosmosHeader{Header: polygonTypes.Header{ChainID: "verif", Height: 5}})
			if err != nil {
				panic(err)
			}
			return b
		}},
		{Name: "polygon/BorHandler", Router: utils.POLYGON_BOR_ROUTER,
			ExtraInfo: mustJSON(&polygon.ExtraInfo{Sprint: 64, Period: 2, ProducerDelay: 6, BackupMultiplier: 2, HeimdallPolyChainID: 115}),
			Genesis: func() []byte {
				return mustJSON(&polygon.HeaderWithOptionalSnap{
					Header:   eth.Header{Number: big.NewInt(n), Difficulty: big.NewInt(1), Time: 1600000000, Extra: make([]byte, 32+65)},
					Snapshot: &polygon.Snapshot{ValidatorSet: &polygon.ValidatorSet{}}})
			}},
		{Name: "zilliqa", Router: utils.ZILLIQA_ROUTER, Genesis: func() []byte {
			return mustJSON(&zilliqa.TxBlockAndDsComm{TxBlock: zilTxBlock(), DsBlock: zilDsBlock(), DsComm: []zcore.PairOfNode{}})
		}},
		{Name: "starcoin", Router: utils.STARCOIN_ROUTER, Genesis: func() []byte {
			return stcGenesis()
		}},
		{Name: "pixiechain", Router: utils.PIXIECHAIN_ROUTER, Genesis: func() []byte {
			h, v := prevVals(n)
			return mustJSON(&pixiechain.GenesisHeader{Header: parliaEthHeader(n), PrevValidators: []pixiechain.HeightAndValidators{{Height: h, Validators: v}}})
		}},
		{Name: "hsc", Router: utils.HSC_ROUTER, Genesis: func() []byte {
			h, v := prevVals(n)
			return mustJSON(&hsc.GenesisHeader{Header: parliaEthHeader(n), PrevValidators: []hsc.HeightAndValidators{{Height: h, Validators: v}}})
		}},
		{Name: "harmony", Router: utils.HARMONY_ROUTER, Note: "router package needs cgo libbls (absent offline): the sandbox build replaces it by a stub whose methods return an error"},
		{Name: "bytom", Router: utils.BYTOM_ROUTER, Genesis: func() []byte {
			h, v := prevVals(n)
			return mustJSON(&bytom.GenesisHeader{Header: parliaHeader(n), PrevValidators: []bytom.HeightAndValidators{{Height: h, Validators: v}}})
		}},
	}
	for i := range specs {
		specs[i].ChainID = 100 + specs[i].Router
	}
	return specs
}

type sliceWriter struct{ b *[]byte }

func (w *sliceWriter) Write(p []byte) (int, error) { *w.b = append(*w.b, p...); return len(p), nil }

func zilTxBlock() *zcore.TxBlock {
	return &zcore.TxBlock{BlockHeader: &zcore.TxBlockHeader{BlockNum: 10, DSBlockNum: 2}}
}

func zilDsBlock() *zcore.DsBlock {
	return &zcore.DsBlock{BlockHeader: &zcore.DsBlockHeader{BlockNum: 2}}
}

// stcGenesis: the starcoin router needs a fully populated header + block info in the starcoin JSON-RPC shape; the repo's own
// test fixture (main-net header 2810118, native/service/header_sync/starcoin/header_sync_test.go) is read through lib/src.
func stcGenesis() []byte {
	fset := token.NewFileSet()
	f, err := parser.ParseFile(fset, src.Path("native/service/header_sync/starcoin/header_sync_test.go"), nil, 0)
	if err != nil {
		panic(err)
	}
	for _, d := range f.Decls {
		g, ok := d.(*ast.GenDecl)
		if !ok || g.Tok != token.CONST {
			continue
		}
		for _, sp := range g.Specs {
			vs := sp.(*ast.ValueSpec)
			if vs.Names[0].Name == "Header2810118" {
				v, err := strconv.Unquote(vs.Values[0].(*ast.BasicLit).Value)
				if err != nil {
					panic(err)
				}
				// the vendored starcoin client wants num_leaves / num_nodes as strings (the fixture has numbers)
				var m map[string]any
				dec := json.NewDecoder(strings.NewReader(v))
				dec.UseNumber()
				if err := dec.Decode(&m); err != nil {
					panic(err)
				}
				for _, k := range []string{"txn_accumulator_info", "block_accumulator_info"} {
					ai := m["block_info"].(map[string]any)[k].(map[string]any)
					for _, f := range []string{"num_leaves", "num_nodes"} {
						ai[f] = fmt.Sprint(ai[f])
					}
				}
				out := mustJSON(m)
				var chk stc.BlockHeaderAndBlockInfo
				if err := json.Unmarshal(out, &chk); err != nil {
					panic(err)
				}
				return out
			}
		}
	}
	panic("starcoin fixture Header2810118 not found")
}
