package main

// The SHAPE of the signature entries as a dimension (not only "which accounts signed").
//
// For every privileged scenario, over the validator key set K (N validators, quorum q = N-(N-1)/3):
//   key list  in {K, K minus one validator, K plus an outsider, K reversed}
//   M         in {1, 2, q, N}                          (M <= number of listed keys)
//   #SigData  in {M, M+1, q, N}  (>= M)
//   padding of the entries beyond the first M: the first signer's signature repeated / valid signatures of further
//   validators / junk bytes. The first M signatures are valid signatures of the first M listed keys, so the transaction is
//   admissible; what varies is how many signature blobs ride along and what the entry claims.
// plus transactions with two entries. Each transaction goes through the real VerifyTransaction; the SAME object is executed,
// and a re-decoded copy is executed (execBoth).
// Oracles:
//   (a) after VerifyTransaction, tx.SignedAddr == the addresses derived HERE from (key list, M) of every entry;
//   (b) an operator-only operation succeeds only if the keys that validly signed (every signature blob checked here against
//       every listed key with signature.Verify) include >= q distinct validators of the current consensus set, and the
//       operator address is the address of one of the entries as derived here;
//   (c) an owner-only operation never succeeds (no entry is the named owner's).

import (
	"encoding/hex"
	"fmt"
	"sort"

	"github.com/ontio/ontology-crypto/keypair"
	"github.com/polynetwork/poly/common"
	"github.com/polynetwork/poly/core/signature"
	"github.com/polynetwork/poly/core/types"
	"github.com/polynetwork/poly/core/validation"
	ontErrors "github.com/polynetwork/poly/errors"
	"verif.local/engine/lib/mapworld"
	"verif.local/engine/polyenv"
)

type sigEntry struct {
	keys []*polyenv.Acct
	m    int
	sigs []string // who produced the i-th SigData blob: account name, or "junk"
}

type shape struct {
	name    string
	entries []sigEntry
}

func (e *env) nameOf(a *polyenv.Acct) string {
	for n, x := range e.accts {
		if x == a && n[0] == 'V' {
			return n
		}
	}
	for n, x := range e.accts {
		if x == a {
			return n
		}
	}
	return "?"
}

func (e *env) shapes(full bool) []shape {
	K := e.vals
	n := len(K)
	q := n - (n-1)/3
	rev := make([]*polyenv.Acct, n)
	for i := range K {
		rev[n-1-i] = K[i]
	}
	lists := []struct {
		name string
		keys []*polyenv.Acct
	}{{"K", K}, {"K-minus-one", K[:n-1]}, {"K-plus-outsider", append(append([]*polyenv.Acct{}, K...), e.accts["U"])}, {"K-reversed", rev}}
	uniq := func(v []int) []int {
		sort.Ints(v)
		var out []int
		for i, x := range v {
			if i == 0 || x != v[i-1] {
				out = append(out, x)
			}
		}
		return out
	}
	var out []shape
	for _, l := range lists {
		for _, m := range uniq([]int{1, 2, q, n}) {
			if m > len(l.keys) {
				continue
			}
			for _, sn := range uniq([]int{m, m + 1, q, n}) {
				if sn < m {
					continue
				}
				pads := []string{"none"}
				if sn > m {
					pads = []string{"own-repeated", "other-validators", "junk"}
				}
				for _, pad := range pads {
					en := sigEntry{keys: l.keys, m: m}
					for i := 0; i < m; i++ {
						en.sigs = append(en.sigs, e.nameOf(l.keys[i]))
					}
					for i := m; i < sn; i++ {
						switch pad {
						case "own-repeated":
							en.sigs = append(en.sigs, e.nameOf(l.keys[0]))
						case "other-validators":
							en.sigs = append(en.sigs, e.nameOf(K[i%n]))
						case "junk":
							en.sigs = append(en.sigs, "junk")
						}
					}
					out = append(out, shape{fmt.Sprintf("%s/M=%d/sigs=%d/pad=%s", l.name, m, sn, pad), []sigEntry{en}})
				}
			}
		}
	}
	v := func(i int) string { return e.nameOf(K[i]) }
	one := func(keys []*polyenv.Acct, m int, who ...string) sigEntry {
		return sigEntry{keys: keys, m: m, sigs: who}
	}
	out = append(out,
		shape{"two:K/M=1/3xV0 + U", []sigEntry{one(K, 1, v(0), v(0), v(0)), one([]*polyenv.Acct{e.accts["U"]}, 1, "U")}},
		shape{"two:K/M=1/V0 + K/M=1/V1", []sigEntry{one(K, 1, v(0)), one(K, 1, v(1))}},
		shape{"two:K/M=2/3sigs + K-minus-one/M=q-1", []sigEntry{one(K, 2, v(0), v(1), v(2)), one(K[:n-1], q-1, namesN(e, K, q-1)...)}},
		shape{"two:K/M=1/qxV0 + V0", []sigEntry{one(K, 1, repeatN(v(0), q)...), one(K[:1], 1, v(0))}},
		shape{"two:operator + K/M=1/3xV1", []sigEntry{one(K, q, namesN(e, K, q)...), one(K, 1, v(1), v(1), v(1))}},
		shape{"two:K-minus-one/M=q-1 + K-plus-outsider/M=1/q sigs", []sigEntry{one(K[:n-1], q-1, namesN(e, K, q-1)...),
			one(append(append([]*polyenv.Acct{}, K...), e.accts["U"]), 1, namesN(e, K, q)...)}},
	)
	if !full { // owner-only scenarios: the shapes that claim most with least
		var few []shape
		for _, s := range out {
			if len(s.entries) == 2 || (s.entries[0].m == 1 && len(s.entries[0].sigs) >= q && len(s.entries[0].keys) == n) {
				few = append(few, s)
			}
		}
		return few
	}
	return out
}

func namesN(e *env, k []*polyenv.Acct, n int) []string {
	var out []string
	for _, a := range k[:n] {
		out = append(out, e.nameOf(a))
	}
	return out
}

func repeatN(s string, n int) []string {
	out := make([]string, n)
	for i := range out {
		out[i] = s
	}
	return out
}

// shapedTx builds the transaction with exactly these signature entries (real signatures over the real hash).
func (e *env) shapedTx(contract common.Address, method string, args []byte, entries []sigEntry) *types.Transaction {
	base := e.tx(contract, method, args) // unsigned: fixes nonce, payload and hash
	h := base.Hash()
	t := &types.Transaction{Version: base.Version, TxType: base.TxType, Nonce: base.Nonce, ChainID: base.ChainID, Payload: base.Payload, Attributes: base.Attributes}
	for _, en := range entries {
		sg := types.Sig{M: uint16(en.m), PubKeys: polyenv.Pubs(en.keys)}
		for _, who := range en.sigs {
			if who == "junk" {
				sg.SigData = append(sg.SigData, []byte{0x01, 0xde, 0xad, 0xbe, 0xef})
				continue
			}
			sd, err := signature.Sign(e.accts[who], h[:])
			if err != nil {
				panic(err)
			}
			sg.SigData = append(sg.SigData, sd)
		}
		t.Sigs = append(t.Sigs, sg)
	}
	sink := common.NewZeroCopySink(nil)
	if err := t.Serialization(sink); err != nil {
		panic(err)
	}
	out, err := types.TransactionFromRawBytes(sink.Bytes())
	if err != nil {
		panic(err)
	}
	if out.Hash() != h {
		panic("shapedTx: hash changed")
	}
	return out
}

// validSigners: public keys (hex) listed in some entry for which some signature blob of that entry verifies — checked here
// blob by blob with signature.Verify, independently of VerifyMultiSignature and of tx.SignedAddr.
func validSigners(tx *types.Transaction) map[string]bool {
	h := tx.Hash()
	out := map[string]bool{}
	for _, sg := range tx.Sigs {
		for _, k := range sg.PubKeys {
			for _, sd := range sg.SigData {
				if signature.Verify(k, h[:], sd) == nil {
					out[hex.EncodeToString(keypair.SerializePublicKey(k))] = true
					break
				}
			}
		}
	}
	return out
}

func (x *runner) shapeDimension(sc scenario) {
	e, r := x.e, x.r
	K := e.vals
	n := len(K)
	q := n - (n-1)/3
	owner := e.accts["O1"]
	if sc.Owner != "" {
		owner = e.accts[sc.Owner]
	}
	args := sc.Args(owner.Addr)
	operator := entryAddr(polyenv.Multi(K))
	consensus := map[string]bool{}
	for _, v := range K {
		consensus[v.PubHex] = true
	}
	for _, sh := range e.shapes(sc.Kind == "operator") {
		tx := e.shapedTx(sc.Contract, sc.Method, args, sh.entries)
		what := fmt.Sprintf("%s shape=%s", sc.ID, sh.name)
		// independent derivations
		derived := map[common.Address]bool{}
		for _, en := range sh.entries {
			derived[entryAddr(polyenv.Signer{Keys: en.keys, M: uint16(en.m)})] = true
		}
		vs := validSigners(tx)
		nval := 0
		for k := range vs {
			if consensus[k] {
				nval++
			}
		}
		// (a) admission + cached addresses
		x.adm++
		if code := validation.VerifyTransaction(tx); code != ontErrors.ErrNoError {
			r.Class("shape_died_at_verify")
			r.Case("shape/died/" + sh.name)
			continue
		}
		cached := map[common.Address]bool{}
		for _, a := range tx.SignedAddr {
			cached[a] = true
		}
		same := len(cached) == len(derived)
		for a := range derived {
			same = same && cached[a]
		}
		if !same {
			r.Class("VIOLATING-cached-address")
			r.Violation("admission:cached-signer-address-not-derived-from-keys-and-m", map[string]any{"scenario": sc.ID, "shape": sh.name, "entries": describe(e, sh),
				"cached": addrList(cached), "derived_from_keys_and_m": addrList(derived)})
		}
		// (b)/(c) execution of the SAME object and of the re-decoded transaction
		w1 := mapworld.NewFrom(e.base)
		r1 := w1.Exec(tx, sc.Height, ts)
		sink := common.NewZeroCopySink(nil)
		if err := tx.Serialization(sink); err != nil {
			panic(err)
		}
		tx2, err := types.TransactionFromRawBytes(sink.Bytes())
		if err != nil {
			panic(err)
		}
		w2 := mapworld.NewFrom(e.base)
		r2 := w2.Exec(tx2, sc.Height, ts)
		x.execs += 2
		r.Eval()
		if r1.OK != r2.OK {
			r.Violation("witness:verified-object-and-redecoded-transaction-disagree", map[string]any{"case": what, "verified_object": fmt.Sprint(r1.Err), "redecoded": fmt.Sprint(r2.Err)})
		}
		ok := r1.OK || r2.OK
		legit := false
		switch sc.Kind {
		case "operator":
			legit = nval >= q && derived[operator]
		case "owner":
			legit = derived[owner.Addr]
		}
		r.Case(fmt.Sprintf("shape/%s/%s/ok=%v", sc.Kind, sh.name, ok))
		switch {
		case ok && !legit:
			r.Class("VIOLATING-accept")
			r.Violation(sc.ID+":accepted-for-signature-entry-shape-without-"+sc.Kind+"-witness", map[string]any{"scenario": sc.ID, "method": sc.Method, "shape": sh.name,
				"entries": describe(e, sh), "distinct_validators_that_validly_signed": nval, "quorum": q,
				"accepted_as_verified_object": r1.OK, "accepted_redecoded": r2.OK, "args_hex": hex.EncodeToString(args), "height": sc.Height})
		case ok:
			r.Class("shape_accept_operator")
		default:
			r.Class("shape_reject")
		}
	}
}

func describe(e *env, sh shape) []string {
	var out []string
	for _, en := range sh.entries {
		var ks []string
		for _, k := range en.keys {
			ks = append(ks, e.nameOf(k))
		}
		out = append(out, fmt.Sprintf("Sig{PubKeys:%v M:%d SigData by:%v}", ks, en.m, en.sigs))
	}
	return out
}

func addrList(m map[common.Address]bool) []string {
	var out []string
	for a := range m {
		out = append(out, a.ToBase58())
	}
	sort.Strings(out)
	return out
}
