package main

// Static part of C18: the table of privileged native methods is extracted FROM THE CODE (go/ast over native/service/**, read
// through lib/src so that a killdemo mutant is what gets scanned):
//   * every handler registered with NativeService.Register whose body — transitively through functions / methods of its own
//     package — reaches utils.ValidateOwner, NativeService.CheckWitness or node_manager.GetCurConOperator;
//   * for the two entrance contracts that dispatch to per-chain router packages (header_sync, cross_chain_manager): every
//     router implementation of an interface method the handler calls, analysed the same way inside the router package;
//     SyncGenesisHeader of EVERY router returned by header_sync.GetChainHandler is a row whether or not a witness call was
//     found (the property demands the operator for all of them; "witness call found: no" is reported).
// The driver fails (HarnessError) when a row is neither in its scenario table nor in the documented out-of-reach list.

import (
	"fmt"
	"go/ast"
	"go/parser"
	"go/token"
	"os"
	"path/filepath"
	"sort"
	"strconv"
	"strings"

	"verif.local/engine/lib/src"
)

const modPath = "github.com/polynetwork/poly/"

var sinks = map[string]bool{"ValidateOwner": true, "CheckWitness": true, "GetCurConOperator": true}

type pkgInfo struct {
	rel     string // repo-relative dir
	files   []*ast.File
	funcs   map[string]*ast.FuncDecl   // plain functions
	methods map[string][]*ast.FuncDecl // methods by name (any receiver)
	consts  map[string]string          // string constants
}

type scanRow struct {
	Contract string   `json:"contract"` // name of the utils.*ContractAddress variable
	Method   string   `json:"method"`   // registered method name
	Router   string   `json:"router,omitempty"`
	Handler  string   `json:"handler"`
	Sinks    []string `json:"witness_calls"` // sink calls found (function -> sink)
}

func (r scanRow) ID() string {
	if r.Router != "" {
		return r.Contract + "." + r.Method + "@" + r.Router
	}
	return r.Contract + "." + r.Method
}

type scanner struct {
	fset *token.FileSet
	pkgs map[string]*pkgInfo // by repo-relative dir
}

func (s *scanner) load(rel string) *pkgInfo {
	if p, ok := s.pkgs[rel]; ok {
		return p
	}
	p := &pkgInfo{rel: rel, funcs: map[string]*ast.FuncDecl{}, methods: map[string][]*ast.FuncDecl{}, consts: map[string]string{}}
	s.pkgs[rel] = p
	ents, err := os.ReadDir(filepath.Join(src.Repo, rel))
	if err != nil {
		return p
	}
	for _, e := range ents {
		n := e.Name()
		if e.IsDir() || !strings.HasSuffix(n, ".go") || strings.HasSuffix(n, "_test.go") {
			continue
		}
		path := src.Path(filepath.Join(rel, n))
		if path == "" { // deleted by the build overlay (harmony cgo files)
			continue
		}
		f, err := parser.ParseFile(s.fset, path, nil, 0)
		if err != nil {
			panic(fmt.Sprintf("parse %s: %v", path, err))
		}
		p.files = append(p.files, f)
		for _, d := range f.Decls {
			switch d := d.(type) {
			case *ast.FuncDecl:
				if d.Recv == nil {
					p.funcs[d.Name.Name] = d
				} else {
					p.methods[d.Name.Name] = append(p.methods[d.Name.Name], d)
				}
			case *ast.GenDecl:
				if d.Tok != token.CONST {
					continue
				}
				for _, sp := range d.Specs {
					vs := sp.(*ast.ValueSpec)
					for i, nm := range vs.Names {
						if i < len(vs.Values) {
							if bl, ok := vs.Values[i].(*ast.BasicLit); ok && bl.Kind == token.STRING {
								v, _ := strconv.Unquote(bl.Value)
								p.consts[nm.Name] = v
							}
						}
					}
				}
			}
		}
	}
	return p
}

func imports(f *ast.File) map[string]string { // alias -> repo-relative dir ("" if outside the module)
	m := map[string]string{}
	for _, im := range f.Imports {
		path, _ := strconv.Unquote(im.Path.Value)
		alias := path[strings.LastIndex(path, "/")+1:]
		if im.Name != nil {
			alias = im.Name.Name
		}
		if strings.HasPrefix(path, modPath) {
			m[alias] = strings.TrimPrefix(path, modPath)
		} else {
			m[alias] = ""
		}
	}
	return m
}

func fileOf(p *pkgInfo, d *ast.FuncDecl) *ast.File {
	for _, f := range p.files {
		if f.Pos() <= d.Pos() && d.End() <= f.End() {
			return f
		}
	}
	return nil
}

// reach: functions/methods of package p reachable from root through same-package calls; returns the sink calls met and the
// selector-call method names met (for interface dispatch into router packages).
func (s *scanner) reach(p *pkgInfo, roots []*ast.FuncDecl) (sinkCalls []string, selCalls map[string]bool) {
	selCalls = map[string]bool{}
	seen := map[*ast.FuncDecl]bool{}
	var visit func(d *ast.FuncDecl)
	visit = func(d *ast.FuncDecl) {
		if d == nil || d.Body == nil || seen[d] {
			return
		}
		seen[d] = true
		ast.Inspect(d.Body, func(n ast.Node) bool {
			c, ok := n.(*ast.CallExpr)
			if !ok {
				return true
			}
			switch f := c.Fun.(type) {
			case *ast.Ident:
				if sinks[f.Name] {
					sinkCalls = append(sinkCalls, d.Name.Name+"->"+f.Name)
				}
				visit(p.funcs[f.Name])
			case *ast.SelectorExpr:
				if sinks[f.Sel.Name] {
					sinkCalls = append(sinkCalls, d.Name.Name+"->"+f.Sel.Name)
				}
				selCalls[f.Sel.Name] = true
				for _, m := range p.methods[f.Sel.Name] { // method of this package called on some receiver (over-approximation)
					visit(m)
				}
			}
			return true
		})
	}
	for _, r := range roots {
		visit(r)
	}
	sort.Strings(sinkCalls)
	return
}

// scanPrivileged builds the table.
func scanPrivileged() (rows []scanRow, routersOfHeaderSync []string) {
	s := &scanner{fset: token.NewFileSet(), pkgs: map[string]*pkgInfo{}}
	initPkg := s.load("native/service")
	type contract struct{ addrVar, rel, regFunc string }
	var contracts []contract
	for _, f := range initPkg.files {
		imp := imports(f)
		ast.Inspect(f, func(n ast.Node) bool {
			as, ok := n.(*ast.AssignStmt)
			if !ok || len(as.Lhs) != 1 || len(as.Rhs) != 1 {
				return true
			}
			ix, ok := as.Lhs[0].(*ast.IndexExpr)
			if !ok {
				return true
			}
			if sel, ok := ix.X.(*ast.SelectorExpr); !ok || sel.Sel.Name != "Contracts" {
				return true
			}
			key, ok1 := ix.Index.(*ast.SelectorExpr)
			val, ok2 := as.Rhs[0].(*ast.SelectorExpr)
			if !ok1 || !ok2 {
				panic("native/service/init.go: unexpected shape of a native.Contracts assignment")
			}
			contracts = append(contracts, contract{key.Sel.Name, imp[val.X.(*ast.Ident).Name], val.Sel.Name})
			return true
		})
	}
	if len(contracts) < 8 {
		panic(fmt.Sprintf("scan: only %d native.Contracts assignments found", len(contracts)))
	}
	for _, c := range contracts {
		p := s.load(c.rel)
		reg := p.funcs[c.regFunc]
		if reg == nil {
			panic("scan: register function not found: " + c.regFunc)
		}
		imp := imports(fileOf(p, reg))
		// router packages of this contract: GetChainHandler's `return pkg.NewX()` cases
		routers := map[string]string{} // alias -> rel
		if g := p.funcs["GetChainHandler"]; g != nil {
			gimp := imports(fileOf(p, g))
			ast.Inspect(g.Body, func(n ast.Node) bool {
				if c, ok := n.(*ast.CallExpr); ok {
					if sel, ok := c.Fun.(*ast.SelectorExpr); ok {
						if id, ok := sel.X.(*ast.Ident); ok && gimp[id.Name] != "" && strings.HasPrefix(sel.Sel.Name, "New") {
							routers[id.Name] = gimp[id.Name]
						}
					}
				}
				return true
			})
		}
		ast.Inspect(reg.Body, func(n ast.Node) bool {
			call, ok := n.(*ast.CallExpr)
			if !ok {
				return true
			}
			sel, ok := call.Fun.(*ast.SelectorExpr)
			if !ok || sel.Sel.Name != "Register" || len(call.Args) != 2 {
				return true
			}
			h, ok := call.Args[1].(*ast.Ident)
			if !ok {
				panic("scan: handler argument of Register is not an identifier in " + c.rel)
			}
			var method string
			switch a := call.Args[0].(type) {
			case *ast.BasicLit:
				method, _ = strconv.Unquote(a.Value)
			case *ast.Ident:
				method, ok = p.consts[a.Name]
			case *ast.SelectorExpr:
				method, ok = s.load(imp[a.X.(*ast.Ident).Name]).consts[a.Sel.Name]
			}
			if method == "" {
				panic(fmt.Sprintf("scan: cannot resolve method name constant of handler %s in %s", h.Name, c.rel))
			}
			hd := p.funcs[h.Name]
			if hd == nil {
				panic("scan: handler not found: " + h.Name)
			}
			sk, selCalls := s.reach(p, []*ast.FuncDecl{hd})
			if len(sk) > 0 {
				rows = append(rows, scanRow{Contract: c.addrVar, Method: method, Handler: c.rel + "." + h.Name, Sinks: sk})
			}
			// dispatch into router packages
			var als []string
			for a := range routers {
				als = append(als, a)
			}
			sort.Strings(als)
			for _, a := range als {
				rp := s.load(routers[a])
				for m := range selCalls {
					decls := rp.methods[m]
					if len(decls) == 0 {
						continue
					}
					rsk, _ := s.reach(rp, decls)
					always := c.addrVar == "HeaderSyncContractAddress" && m == "SyncGenesisHeader"
					if len(rsk) > 0 || always {
						rows = append(rows, scanRow{Contract: c.addrVar, Method: method, Router: filepath.Base(routers[a]),
							Handler: routers[a] + "." + m, Sinks: rsk})
					}
				}
			}
			return true
		})
		if c.addrVar == "HeaderSyncContractAddress" {
			for _, rel := range routers {
				routersOfHeaderSync = append(routersOfHeaderSync, filepath.Base(rel))
			}
			sort.Strings(routersOfHeaderSync)
		}
	}
	// a package with several handler types implementing the same method (polygon: bor + heimdall) yields one row per receiver
	rows = splitMultiReceiver(s, rows)
	sort.Slice(rows, func(i, j int) bool { return rows[i].ID() < rows[j].ID() })
	return
}

func recvName(d *ast.FuncDecl) string {
	t := d.Recv.List[0].Type
	if st, ok := t.(*ast.StarExpr); ok {
		t = st.X
	}
	if id, ok := t.(*ast.Ident); ok {
		return id.Name
	}
	return "?"
}

func splitMultiReceiver(s *scanner, rows []scanRow) []scanRow {
	var out []scanRow
	for _, r := range rows {
		if r.Router == "" {
			out = append(out, r)
			continue
		}
		i := strings.LastIndex(r.Handler, ".")
		rp, m := s.load(r.Handler[:i]), r.Handler[i+1:]
		decls := rp.methods[m]
		if len(decls) <= 1 {
			out = append(out, r)
			continue
		}
		for _, d := range decls {
			sk, _ := s.reach(rp, []*ast.FuncDecl{d})
			if len(sk) == 0 && !(r.Contract == "HeaderSyncContractAddress" && m == "SyncGenesisHeader") {
				continue
			}
			rr := r
			rr.Router = r.Router + "/" + recvName(d)
			rr.Sinks = sk
			out = append(out, rr)
		}
	}
	return out
}
