// C36 — only registered relayers (or permitted consensus addresses) can submit transactions.
//
// Code under test: TxActor.handleTransaction / isValidSender / updatePermittedAddrMap (txnpool/proc/txnpool_actor.go),
// bactor.UpdatePermittedAddrMap / GetStorageItem (http/base/actor), with ledger.DefLedger = a real on-disk ledger whose
// relayer registry and consensus peer pool are changed by real governance transactions committed in real blocks.
//
// Explored space (explicit-state, exhaustive):
//
//	state      = (history point i of the governance history, content C of the permitted-address cache)
//	events     = "next block" (i -> i+1, cache kept) and "submission" of one transaction of the signer alphabet from the
//	             peer or the RPC sender type with the cache stamp either fresh (no refresh: wall clock seam lastTime = now)
//	             or expired (lastTime = now-2min: refresh from the ledger) -> (i, C')
//	alphabet   = every signer set of size <= 2 (both orders) over {r1, r2 (never registered), validator v0, operator multisig,
//	             outsider} + single signers {r3, candidate c1, quitting validator v4, later operators} + forged entries
//
// Oracle: admitted => some signing address is a registered relayer NOW or a member of the consensus peer pool NOW (or the
// operator multisig address of that pool); in particular a relayer whose removal reached quorum is refused from the very
// next submission. Registry / pool "now" come from the driver's declared expectations per history step, cross-checked
// against the ledger.
package main

import (
	"fmt"
	"os"
	"sort"
	"strings"
	"time"

	"github.com/polynetwork/poly/common"
	"github.com/polynetwork/poly/core/ledger"
	"github.com/polynetwork/poly/core/states"
	"github.com/polynetwork/poly/core/types"
	"github.com/polynetwork/poly/core/validation"
	"github.com/polynetwork/poly/errors"
	_ "github.com/polynetwork/poly/native/service"
	"github.com/polynetwork/poly/native/service/governance/node_manager"
	"github.com/polynetwork/poly/native/service/governance/relayer_manager"
	nutils "github.com/polynetwork/poly/native/service/utils"
	tc "github.com/polynetwork/poly/txnpool/common"
	"github.com/polynetwork/poly/txnpool/proc"
	"verif.local/engine/ev"
	"verif.local/engine/lib/gov"
	"verif.local/engine/polyenv"
)

type step struct {
	name     string
	tx       func() *types.Transaction
	relayers []string // expected registry after the step
	pool     []string // expected members of the current view's peer pool after the step
	oper     []string // expected consensus-status members (operator multisig) after the step
}

type probe struct {
	name    string
	tx      *types.Transaction
	signers []string // names of the signing entries (addresses)
	validly bool     // every entry carries valid signatures
}

func main() {
	r := ev.Start("C36", "model_checking")
	vals := polyenv.Keys(5)
	polyenv.Setup(0, vals)
	var ch *polyenv.Chain // the real ledger of the history being explored (one fresh chain per history)
	openChain := func() func() {
		dir := polyenv.TmpDir("c36chain")
		c, err := polyenv.OpenChain(dir, vals)
		if err != nil {
			os.RemoveAll(dir)
			r.HarnessError("open chain: %v", err)
		}
		ch = c
		ledger.DefLedger = ledger.VerifNewLedger(ch.L)
		return func() { c.Close(); os.RemoveAll(dir) }
	}

	// ------------------------------------------------------------------ accounts and addresses
	acct := map[string]*polyenv.Acct{"r1": polyenv.Key(40), "r2": polyenv.Key(41), "r3": polyenv.Key(42), "out": polyenv.Key(50), "c1": polyenv.Key(20)}
	for i, v := range vals {
		acct[fmt.Sprintf("v%d", i)] = v
	}
	group := map[string][]*polyenv.Acct{
		"op5":   vals,                                                       // operator of the genesis epoch
		"op6":   append(append([]*polyenv.Acct{}, vals...), acct["c1"]),     // after c1 became a consensus node
		"opNew": append(append([]*polyenv.Acct{}, vals[:4]...), acct["c1"]), // after v4 quit
		"op4":   vals[:4],                                                   // history B: after v4 was blacklisted
	}
	addr := map[string]common.Address{}
	for n, a := range acct {
		addr[n] = a.Addr
	}
	for n, g := range group {
		addr[n] = polyenv.OperatorAddr(g)
	}
	nameOf := map[common.Address]string{}
	for n, a := range addr {
		nameOf[a] = n
	}
	entry := func(n string) polyenv.Signer {
		if g, ok := group[n]; ok {
			s := polyenv.Multi(g)
			s.Sign = true
			return s
		}
		s := polyenv.Single(acct[n])
		s.Sign = true
		return s
	}

	// ------------------------------------------------------------------ probes (the signer alphabet)
	var probes []probe
	nonce := uint32(1000)
	add := func(name string, validly bool, names []string, ents ...polyenv.Signer) {
		nonce++
		probes = append(probes, probe{name: name, signers: names, validly: validly,
			tx: polyenv.Tx(nutils.RelayerManagerContractAddress, "probe", []byte(name), nonce, ents...)})
	}
	base := []string{"r1", "r2", "v0", "op5", "out"}
	for _, a := range base {
		add(a, true, []string{a}, entry(a))
	}
	for _, a := range base {
		for _, b := range base {
			if a != b {
				add(a+"+"+b, true, []string{a, b}, entry(a), entry(b))
			}
		}
	}
	for _, a := range []string{"r3", "c1", "v4", "op6", "opNew", "op4"} {
		add(a, true, []string{a}, entry(a))
	}
	// forged entries: the listed key is a relayer's / validator's / the operator's, the signature is not theirs
	add("r1~signed-by-outsider", false, []string{"r1"}, polyenv.Signer{Keys: []*polyenv.Acct{acct["r1"]}, M: 1, SignWith: []*polyenv.Acct{acct["out"]}})
	add("v0~signed-by-outsider", false, []string{"v0"}, polyenv.Signer{Keys: []*polyenv.Acct{acct["v0"]}, M: 1, SignWith: []*polyenv.Acct{acct["out"]}})
	add("op5~one-signature", false, []string{"op5"}, polyenv.Signer{Keys: vals, M: polyenv.Multi(vals).M, SignWith: []*polyenv.Acct{vals[0]}})
	add("out+r1~signed-by-outsider", false, []string{"out", "r1"}, entry("out"), polyenv.Signer{Keys: []*polyenv.Acct{acct["r1"]}, M: 1, SignWith: []*polyenv.Acct{acct["out"]}})
	for _, p := range probes { // harness sanity: the stateless validator agrees with what the driver thinks it built
		if ok := validation.VerifyTransaction(p.tx) == errors.ErrNoError; ok != p.validly {
			r.HarnessError("probe %s: stateless validation says %v, built as %v", p.name, ok, p.validly)
		}
	}

	// ------------------------------------------------------------------ governance history (one real tx per real block)
	gnonce := uint32(0)
	call := func(contract common.Address, method string, args []byte, signer string) func() *types.Transaction {
		return func() *types.Transaction {
			gnonce++
			return polyenv.Tx(contract, method, args, gnonce, entry(signer))
		}
	}
	addrs := func(ns ...string) []common.Address {
		var l []common.Address
		for _, n := range ns {
			l = append(l, addr[n])
		}
		return l
	}
	V := []string{"v0", "v1", "v2", "v3", "v4"}
	var hist []step
	var cur struct{ rel, pool, oper []string }
	push := func(name string, tx func() *types.Transaction) {
		hist = append(hist, step{name: name, tx: tx, relayers: append([]string{}, cur.rel...), pool: append([]string{}, cur.pool...), oper: append([]string{}, cur.oper...)})
	}
	quorum := func(method string, id uint64, approvers []string, then func()) {
		for i, v := range approvers {
			if i == len(approvers)-1 {
				then() // applied by the last approval of the list
			}
			push(fmt.Sprintf("%s(%d) by %s", method, id, v), call(gov.RM, method, gov.ApproveRelayer(id, addr[v]), v))
		}
	}
	start := func() {
		hist = nil
		cur.rel, cur.pool, cur.oper = nil, V, V
		push("genesis", nil)
	}
	// History A: register+approve r1, remove+approve r1, re-add (with r3), remove r3 only; then the consensus set changes:
	// c1 joins (candidate, then consensus node), v4 quits. N=5 consensus nodes: quorum is 4 approvals.
	historyA := func() []step {
		start()
		push("registerRelayer([r1]) by r1 -> apply 0", call(gov.RM, relayer_manager.REGISTER_RELAYER, gov.RelayerList(addrs("r1"), addr["r1"]), "r1"))
		quorum(relayer_manager.APPROVE_REGISTER_RELAYER, 0, V[:4], func() { cur.rel = []string{"r1"} })
		push("removeRelayer([r1]) by out -> remove 0", call(gov.RM, relayer_manager.REMOVE_RELAYER, gov.RelayerList(addrs("r1"), addr["out"]), "out"))
		quorum(relayer_manager.APPROVE_REMOVE_RELAYER, 0, V[:4], func() { cur.rel = nil })
		push("registerRelayer([r1,r3]) by r3 -> apply 1", call(gov.RM, relayer_manager.REGISTER_RELAYER, gov.RelayerList(addrs("r1", "r3"), addr["r3"]), "r3"))
		quorum(relayer_manager.APPROVE_REGISTER_RELAYER, 1, V[1:], func() { cur.rel = []string{"r1", "r3"} })
		push("removeRelayer([r3]) by v0 -> remove 1", call(gov.RM, relayer_manager.REMOVE_RELAYER, gov.RelayerList(addrs("r3"), addr["v0"]), "v0"))
		quorum(relayer_manager.APPROVE_REMOVE_RELAYER, 1, V[:4], func() { cur.rel = []string{"r1"} })
		push("registerCandidate(c1)", call(gov.NM, node_manager.REGISTER_CANDIDATE, gov.RegisterPeer(acct["c1"].PubHex, addr["c1"]), "c1"))
		for i, v := range V[:4] {
			if i == 3 {
				cur.pool = append(append([]string{}, V...), "c1") // candidate status: in the peer pool, not yet an operator key
			}
			push("approveCandidate(c1) by "+v, call(gov.NM, node_manager.APPROVE_CANDIDATE, gov.Peer(acct["c1"].PubHex, addr[v]), v))
		}
		cur.oper = append(append([]string{}, V...), "c1")
		push("commitDpos by op5", call(gov.NM, node_manager.COMMIT_DPOS, nil, "op5"))
		cur.oper = []string{"v0", "v1", "v2", "v3", "c1"} // v4 quitting: still in the pool of this view
		push("quitNode(v4)", call(gov.NM, node_manager.QUIT_NODE, gov.Peer(acct["v4"].PubHex, addr["v4"]), "v4"))
		cur.pool = []string{"v0", "v1", "v2", "v3", "c1"}
		push("commitDpos by opNew", call(gov.NM, node_manager.COMMIT_DPOS, nil, "opNew"))
		push("empty block", func() *types.Transaction { return nil })
		return hist
	}
	// History B: a removal request approved while the registration is still short of quorum, the registration completing
	// afterwards, both relayers removed by one request; then v4 is blacklisted (blackNode of a consensus node switches
	// the view at once).
	historyB := func() []step {
		start()
		push("registerRelayer([r1,r3]) by out -> apply 0", call(gov.RM, relayer_manager.REGISTER_RELAYER, gov.RelayerList(addrs("r1", "r3"), addr["out"]), "out"))
		quorum(relayer_manager.APPROVE_REGISTER_RELAYER, 0, []string{"v4", "v3", "v2"}, func() {})
		push("removeRelayer([r1]) by r2 -> remove 0", call(gov.RM, relayer_manager.REMOVE_RELAYER, gov.RelayerList(addrs("r1"), addr["r2"]), "r2"))
		quorum(relayer_manager.APPROVE_REMOVE_RELAYER, 0, V[:4], func() {})
		quorum(relayer_manager.APPROVE_REGISTER_RELAYER, 0, []string{"v1"}, func() { cur.rel = []string{"r1", "r3"} })
		push("removeRelayer([r1,r3]) by v0 -> remove 1", call(gov.RM, relayer_manager.REMOVE_RELAYER, gov.RelayerList(addrs("r1", "r3"), addr["v0"]), "v0"))
		quorum(relayer_manager.APPROVE_REMOVE_RELAYER, 1, V[1:], func() { cur.rel = nil })
		for i, v := range V[:4] {
			if i == 3 {
				cur.pool, cur.oper = V[:4], V[:4]
			}
			push("blackNode([v4]) by "+v, call(gov.NM, node_manager.BLACK_NODE, gov.PeerList([]string{acct["v4"].PubHex}, addr[v]), v))
		}
		push("empty block", func() *types.Transaction { return nil })
		return hist
	}

	// ------------------------------------------------------------------ ledger-side cross-check of the expectations
	readRegistry := func() []string {
		var l []string
		for n, a := range addr {
			v, err := ch.L.GetStorageItem(stKey(gov.RM, append([]byte(relayer_manager.RELAYER), a[:]...)))
			if err == nil && v != nil && len(v.Value) > 0 {
				l = append(l, n)
			}
		}
		sort.Strings(l)
		return l
	}
	readPool := func() (pool, oper []string) {
		gv, err := ch.L.GetStorageItem(stKey(gov.NM, []byte(node_manager.GOVERNANCE_VIEW)))
		if err != nil {
			r.HarnessError("governance view: %v", err)
		}
		g := new(node_manager.GovernanceView)
		if err := g.Deserialization(common.NewZeroCopySource(gv.Value)); err != nil {
			r.HarnessError("governance view: %v", err)
		}
		pv, err := ch.L.GetStorageItem(stKey(gov.NM, append([]byte(node_manager.PEER_POOL), nutils.GetUint32Bytes(g.View)...)))
		if err != nil {
			r.HarnessError("peer pool: %v", err)
		}
		m := &node_manager.PeerPoolMap{PeerPoolMap: map[string]*node_manager.PeerPoolItem{}}
		if err := m.Deserialization(common.NewZeroCopySource(pv.Value)); err != nil {
			r.HarnessError("peer pool: %v", err)
		}
		for k, it := range m.PeerPoolMap {
			n := "?" + k[:8]
			for an, a := range acct {
				if a.PubHex == k {
					n = an
				}
			}
			pool = append(pool, n)
			if it.Status == node_manager.ConsensusStatus {
				oper = append(oper, n)
			}
		}
		sort.Strings(pool)
		sort.Strings(oper)
		return
	}
	sorted := func(l []string) []string { c := append([]string{}, l...); sort.Strings(c); return c }
	eqs := func(a, b []string) bool { return strings.Join(sorted(a), ",") == strings.Join(sorted(b), ",") }

	// ------------------------------------------------------------------ exploration
	r.Require("admitted:relayer", "admitted:consensus-node", "admitted:operator", "refused:outsider", "refused:never-registered",
		"refused:removed-relayer", "refused:relayer-with-pending-approval", "admitted:forged-claim(later refused by the stateless validator)",
		"cache:refreshed", "cache:kept")
	type cacheState = string // sorted address names, "" = cold (empty map)
	keyOf := func(as []common.Address) cacheState {
		var l []string
		for _, a := range as {
			if n, ok := nameOf[a]; ok {
				l = append(l, n)
			} else {
				l = append(l, "?"+a.ToHexString()[:8])
			}
		}
		sort.Strings(l)
		return strings.Join(l, ",")
	}
	unkey := func(c cacheState) []common.Address {
		if c == "" {
			return nil
		}
		var l []common.Address
		for _, n := range strings.Split(c, ",") {
			a, ok := addr[n]
			if !ok {
				r.HarnessError("cache holds an address the driver cannot name: %s", n)
			}
			l = append(l, a)
		}
		return l
	}
	states, transitions, points := 0, 0, 0
	stricter := map[string]bool{} // admission stricter than the property needs (implication direction): reported, not alarmed
	var perPoint []map[string]any
	for _, hb := range []struct {
		name  string
		build func() []step
	}{{"A", historyA}, {"B", historyB}} {
		hist := hb.build()
		closeChain := openChain()
		points += len(hist)
		reach := map[cacheState]bool{"": true} // cache contents reachable at the current history point
		relayerAt := []map[string]bool{}
		for i, st := range hist {
			if r.Expired() {
				r.Capped(fmt.Sprintf("history cut at point %d of %d", i, len(hist)))
				break
			}
			if st.tx != nil {
				var txs []*types.Transaction
				if t := st.tx(); t != nil {
					txs = append(txs, t)
				}
				if _, err := ch.Commit(ch.NextBlock(txs, nil)); err != nil {
					r.HarnessError("commit of history step %d (%s): %v", i, st.name, err)
				}
				transitions += len(reach) // the "next block" event from every cache state
			}
			pool, oper := readPool()
			if reg := readRegistry(); !eqs(reg, st.relayers) || !eqs(pool, st.pool) || !eqs(oper, st.oper) {
				r.HarnessError("history step %d (%s): ledger has relayers=%v pool=%v consensus=%v, driver expected %v %v %v", i, st.name, reg, pool, oper, st.relayers, st.pool, st.oper)
			}
			// the reference sets of this point
			registered := map[string]bool{}
			for _, n := range st.relayers {
				registered[n] = true
			}
			relayerAt = append(relayerAt, registered)
			permitted := map[string]bool{}
			for _, n := range st.pool {
				permitted[n] = true
			}
			for g, members := range group { // operator multisig of the pool / of its consensus-status members
				var mn []string
				for _, m := range members {
					mn = append(mn, nameOf[m.Addr])
				}
				if eqs(mn, st.pool) || eqs(mn, st.oper) {
					permitted[g] = true
				}
			}
			everRelayer := func(n string) bool {
				for _, m := range relayerAt {
					if m[n] {
						return true
					}
				}
				return false
			}
			pendingApproval := func(n string) bool { // requested, quorum not reached (only r1/r3 in this history)
				return !registered[n] && (n == "r1" || n == "r3") && strings.Contains(st.name, "egisterRelayer")
			}

			work := sortedKeys(reach)
			seen := map[cacheState]bool{}
			for len(work) > 0 {
				c := work[0]
				work = work[1:]
				if seen[c] {
					continue
				}
				seen[c] = true
				states++
				for _, clock := range []string{"fresh", "expired"} {
					for _, p := range probes {
						for _, snd := range []tc.SenderType{tc.NetSender, tc.HttpSender} {
							stamp := time.Now().Unix() - 1 // "fresh": refreshed a second ago
							if clock == "expired" {
								stamp -= 120
							}
							proc.VerifC36SetCache(unkey(c), stamp)
							s := proc.VerifC36NewServer()
							var reply *tc.TxResult
							rcv0 := s.VerifC36Stats()[tc.RcvStats-1]
							if snd == tc.HttpSender {
								chn := make(chan *tc.TxResult, 1)
								s.VerifC36Submit(snd, p.tx, chn)
								select {
								case reply = <-chn:
								default:
								}
							} else {
								s.VerifC36Submit(snd, p.tx, nil)
							}
							admitted := s.VerifC36Tracked(p.tx.Hash())
							passedGate := s.VerifC36Stats()[tc.RcvStats-1] == rcv0+1
							after, last := proc.VerifC36Cache()
							c2 := keyOf(after)
							refreshed := last != stamp
							r.Eval()
							transitions++
							if admitted != passedGate {
								r.HarnessError("admission observation inconsistent for %s: tracked=%v passed-gate=%v", p.name, admitted, passedGate)
							}
							if refreshed {
								r.Class("cache:refreshed")
							} else {
								r.Class("cache:kept")
							}
							if refreshed != (clock == "expired" || c == "") {
								r.HarnessError("clock seam: cache %q clock %s refreshed=%v", c, clock, refreshed)
							}
							if !seen[c2] {
								work = append(work, c2)
							}
							// ---- oracle
							why := ""
							for _, sn := range p.signers {
								if registered[sn] {
									why = "relayer"
								} else if permitted[sn] && why == "" {
									if _, isGroup := group[sn]; isGroup {
										why = "operator"
									} else {
										why = "consensus-node"
									}
								}
							}
							sndName := map[tc.SenderType]string{tc.NetSender: "peer", tc.HttpSender: "rpc"}[snd]
							detail := map[string]any{"history_name": hb.name, "history_point": i, "after_step": st.name, "history": names(hist[:i+1]), "tx_signers": p.signers, "probe": p.name,
								"sender": sndName, "cache_before": c, "cache_after": c2, "clock": clock, "registered_now": st.relayers, "peer_pool_now": st.pool}
							switch {
							case admitted && why != "":
								if p.validly {
									r.Class("admitted:" + why)
								} else {
									// the gate looks at the listed keys only; the pool itself is protected by the stateless validator
									r.Class("admitted:forged-claim(later refused by the stateless validator)")
								}
								r.Case(fmt.Sprintf("admitted/%s/%s", p.name, why))
							case admitted:
								// no signer is a relayer now or a consensus address now
								staleCons, removedRel := "", ""
								for _, sn := range p.signers {
									if strings.Contains(","+c2+",", ","+sn+",") && !permitted[sn] {
										staleCons = sn
									}
									if everRelayer(sn) && !registered[sn] {
										removedRel = sn
									}
								}
								switch {
								case staleCons != "" && clock == "expired":
									kind := "departed-consensus-node"
									if _, g := group[staleCons]; g {
										kind = "former-operator-multisig"
									}
									r.Violation("admission:"+kind+"-admitted-after-cache-refresh", detail)
									r.Class("admitted:stale-consensus-address-after-refresh")
								case staleCons != "":
									// explained by a cache entry, and the 60 s cache has not been refreshed yet: documented
									// staleness, counted, not alarmed
									r.Class("admitted:stale-consensus-address-within-60s-cache-window")
								case removedRel != "":
									// no cache entry explains it: the removed relayer itself was accepted
									r.Violation("removal:removed-relayer-still-admitted:"+clockKey(clock)+":"+sndName, detail)
								default:
									r.Violation("admission:no-signer-registered-or-permitted:"+sndName, detail)
								}
							default:
								switch {
								case why != "" && len(p.signers) == 1 && p.validly && why == "relayer":
									// the canonical case must be accepted
									r.HarnessError("registered relayer %s refused at %s (cache %q, %s, %s)", p.name, st.name, c, clock, sndName)
								case why != "":
									r.Class("refused:although-permitted")
								stricter[fmt.Sprintf("history %s after %q: %s (%s) refused, cache %q clock %s", hb.name, st.name, p.name, why, c, clock)] = true
									r.Case(fmt.Sprintf("refused-although-permitted/%s/%s/cold=%v", p.name, why, c == ""))
								case len(p.signers) == 1 && everRelayer(p.signers[0]):
									r.Class("refused:removed-relayer")
								case len(p.signers) == 1 && pendingApproval(p.signers[0]):
									r.Class("refused:relayer-with-pending-approval")
								case p.name == "out":
									r.Class("refused:outsider")
								case p.name == "r2":
									r.Class("refused:never-registered")
								default:
									r.Class("refused:other")
								}
								if snd == tc.HttpSender && reply != nil && reply.Err != errors.ErrNoError {
									r.Class("refused:rpc-answered-with-error")
								}
							}
						}
					}
				}
			}
			reach = seen
			perPoint = append(perPoint, map[string]any{"history": hb.name, "point": i, "step": st.name, "registered": st.relayers, "peer_pool": st.pool, "cache_states": sortedKeys(seen)})
			if i < 3 {
				r.Sample(perPoint[len(perPoint)-1])
			}
		}
		closeChain()
	}
	r.Note("history_points", perPoint)
	r.Note("refused_although_permitted", sortedKeys(stricter))
	r.Note("probes", probeNames(probes))
	r.Assume("the registry / peer pool 'now' are the driver's declared expectations per governance step, cross-checked against the ledger after every block (governance correctness itself is C32/C33)",
		"a stale consensus address admitted while the 60 s cache has not been refreshed is counted, not alarmed; admitted after a refresh it is a violation",
		"admission looks at the listed public keys only (signatures are checked by the stateless validator before pooling): forged claims are counted")
	r.Finish(map[string]any{
		"rule":        fmt.Sprintf("2 governance histories (%d points) on real ledgers (A: register+approve r1, remove+approve, re-add r1+r3, remove r3, candidate joins, commitDpos, validator quits, commitDpos; B: removal approved before the registration reaches quorum, registration completes, both removed, validator blacklisted) x every reachable content of the permitted-address cache x clock {fresh, expired} x %d signer sets (all subsets <=2 of {r1,r2,validator,operator,outsider} in both orders + r3,c1,v4,later operators + 4 forged) x sender {peer, rpc}; oracle admitted => some signer registered now or in the peer pool now", points, len(probes)),
		"states":      states,
		"transitions": transitions, "traces_validated_against_impl": transitions,
		"max_depth": points,
	})
}

func stKey(c common.Address, key []byte) *states.StorageKey {
	return &states.StorageKey{ContractAddress: c, Key: key}
}

func clockKey(c string) string {
	if c == "expired" {
		return "after-cache-refresh"
	}
	return "without-cache-refresh"
}

func names(h []step) []string {
	var l []string
	for _, s := range h {
		l = append(l, s.name)
	}
	return l
}

func probeNames(p []probe) []string {
	var l []string
	for _, x := range p {
		l = append(l, x.name)
	}
	return l
}

func sortedKeys(m map[string]bool) []string {
	var l []string
	for k := range m {
		l = append(l, k)
	}
	sort.Strings(l)
	return l
}
