// C36 — only registered relayers (or permitted consensus addresses) can submit transactions.
//
// Code under test: TxActor.handleTransaction / isValidSender / updatePermittedAddrMap (txnpool/proc/txnpool_actor.go),
// bactor.UpdatePermittedAddrMap / GetStorageItem (http/base/actor), with ledger.DefLedger = a real on-disk ledger whose
// relayer registry and consensus peer pool are changed by real governance transactions committed in real blocks.
//
// The node is a LIVE PROCESS: one run = one child process of this driver (pristine package state in txnpool/proc and
// http/base/actor, whatever caches they keep) that replays the governance history on its own ledger up to a start point
// s, and from s on submits, at EVERY history point, a transaction for every signer set of the alphabet from the peer and
// the RPC sender type. The driver never resets or inspects package variables; the only seam it owns is the wall clock of
// the 60 s refresh (`lastTime`): a submission is made either with the stamp fresh (no refresh) or expired (refresh).
//
//	run        = (history, start point s, refresh points R): cold start at s (the first submission refreshes), at every
//	             point one round of submissions without refresh, at the points of R additionally a round with a refresh
//	             before every submission followed by another round without refresh
//	explored   = all (s, R) with R = {} or {k}, k >= s (quick: k ranges over the points where the registry / peer pool
//	             changes; thorough: every k, plus every pair of change points)
//	alphabet   = every signer set of size <= 2 (both orders) over {r1, r2 (never registered), validator v0, operator multisig,
//	             outsider} + single signers {r3, candidate c1, leaving validator v4, later operators} + forged entries
//
// Oracle: admitted => some signing address is a registered relayer NOW or a member of the consensus peer pool NOW (or the
// operator multisig address of that pool); in particular a relayer whose removal reached quorum is refused from the very
// next submission, whatever this process did before. Registry / pool "now" are the driver's declared expectations per
// history step, cross-checked against the ledger after every block.
package main

import (
	"encoding/json"
	"fmt"
	"os"
	"os/exec"
	"sort"
	"strconv"
	"strings"
	"sync"
	"time"

	"github.com/polynetwork/poly/common"
	"github.com/polynetwork/poly/core/ledger"
	"github.com/polynetwork/poly/core/states"
	"github.com/polynetwork/poly/core/types"
	"github.com/polynetwork/poly/core/validation"
	"github.com/polynetwork/poly/errors"
	_ "github.com/polynetwork/poly/native/service"
	"github.com/polynetwork/poly/native/service/governance/node_manager"
	"github.com/polynetwork/poly/native/service/governance/relayer_manager"
	nutils "github.com/polynetwork/poly/native/service/utils"
	tc "github.com/polynetwork/poly/txnpool/common"
	"github.com/polynetwork/poly/txnpool/proc"
	"verif.local/engine/ev"
	"verif.local/engine/lib/gov"
	"verif.local/engine/polyenv"
)

type step struct {
	name     string
	tx       func() *types.Transaction
	more     []func() *types.Transaction // further transactions of the same block
	relayers []string                    // expected registry after the step
	pool     []string                    // expected members of the current view's peer pool after the step
	oper     []string                    // expected consensus-status members (operator multisig) after the step
}

type probe struct {
	name    string
	signers []string // names of the signing entries (addresses)
	ents    []polyenv.Signer
	validly bool // every entry carries valid signatures
	mini    bool // also used in the short list-shape histories
}

// env = accounts, signer alphabet and the two governance histories (built identically in the parent and in every child).
type env struct {
	vals   []*polyenv.Acct
	acct   map[string]*polyenv.Acct
	group  map[string][]*polyenv.Acct
	addr   map[string]common.Address
	probes []probe
	hists  map[string][]step
}

func setup() *env {
	e := &env{vals: polyenv.Keys(5)}
	vals := e.vals
	polyenv.Setup(0, vals)
	e.acct = map[string]*polyenv.Acct{"r1": polyenv.Key(40), "r2": polyenv.Key(41), "r3": polyenv.Key(42), "out": polyenv.Key(50), "c1": polyenv.Key(20)}
	acct := e.acct
	for i, v := range vals {
		acct[fmt.Sprintf("v%d", i)] = v
	}
	e.group = map[string][]*polyenv.Acct{
		"op5":   vals,                                                       // operator of the genesis epoch
		"op6":   append(append([]*polyenv.Acct{}, vals...), acct["c1"]),     // after c1 became a consensus node
		"opNew": append(append([]*polyenv.Acct{}, vals[:4]...), acct["c1"]), // after v4 quit
		"op4":   vals[:4],                                                   // history B: after v4 was blacklisted
	}
	e.addr = map[string]common.Address{}
	addr := e.addr
	for n, a := range acct {
		addr[n] = a.Addr
	}
	for n, g := range e.group {
		addr[n] = polyenv.OperatorAddr(g)
	}
	entry := e.entry

	// ---- probes (the signer alphabet)
	add := func(name string, validly bool, names []string, ents ...polyenv.Signer) {
		mini := map[string]bool{"r1": true, "r3": true, "r2": true, "out": true, "v0": true, "r1+out": true, "out+r1": true, "r2+r1": true}[name]
		e.probes = append(e.probes, probe{name: name, signers: names, validly: validly, ents: ents, mini: mini})
	}
	base := []string{"r1", "r2", "v0", "op5", "out"}
	for _, a := range base {
		add(a, true, []string{a}, entry(a))
	}
	for _, a := range base {
		for _, b := range base {
			if a != b {
				add(a+"+"+b, true, []string{a, b}, entry(a), entry(b))
			}
		}
	}
	for _, a := range []string{"r3", "c1", "v4", "op6", "opNew", "op4"} {
		add(a, true, []string{a}, entry(a))
	}
	add("r3+out", true, []string{"r3", "out"}, entry("r3"), entry("out"))
	add("r2+r3", true, []string{"r2", "r3"}, entry("r2"), entry("r3"))
	for i := range e.probes {
		if e.probes[i].name == "r3+out" || e.probes[i].name == "r2+r3" {
			e.probes[i].mini = true
		}
	}
	// forged entries: the listed key is a relayer's / validator's / the operator's, the signature is not theirs
	add("r1~signed-by-outsider", false, []string{"r1"}, polyenv.Signer{Keys: []*polyenv.Acct{acct["r1"]}, M: 1, SignWith: []*polyenv.Acct{acct["out"]}})
	add("v0~signed-by-outsider", false, []string{"v0"}, polyenv.Signer{Keys: []*polyenv.Acct{acct["v0"]}, M: 1, SignWith: []*polyenv.Acct{acct["out"]}})
	add("op5~one-signature", false, []string{"op5"}, polyenv.Signer{Keys: vals, M: polyenv.Multi(vals).M, SignWith: []*polyenv.Acct{vals[0]}})
	add("out+r1~signed-by-outsider", false, []string{"out", "r1"}, entry("out"), polyenv.Signer{Keys: []*polyenv.Acct{acct["r1"]}, M: 1, SignWith: []*polyenv.Acct{acct["out"]}})

	// ---- governance histories (one real tx per real block)
	gnonce := uint32(0)
	call := func(contract common.Address, method string, args []byte, signer string) func() *types.Transaction {
		return func() *types.Transaction {
			gnonce++
			return polyenv.Tx(contract, method, args, gnonce, entry(signer))
		}
	}
	addrs := func(ns ...string) []common.Address {
		var l []common.Address
		for _, n := range ns {
			l = append(l, addr[n])
		}
		return l
	}
	V := []string{"v0", "v1", "v2", "v3", "v4"}
	var hist []step
	var cur struct{ rel, pool, oper []string }
	push := func(name string, tx func() *types.Transaction) {
		hist = append(hist, step{name: name, tx: tx, relayers: append([]string{}, cur.rel...), pool: append([]string{}, cur.pool...), oper: append([]string{}, cur.oper...)})
	}
	quorum := func(method string, id uint64, approvers []string, then func()) {
		for i, v := range approvers {
			if i == len(approvers)-1 {
				then() // applied by the last approval of the list
			}
			push(fmt.Sprintf("%s(%d) by %s", method, id, v), call(gov.RM, method, gov.ApproveRelayer(id, addr[v]), v))
		}
	}
	start := func() {
		hist = nil
		cur.rel, cur.pool, cur.oper = nil, V, V
		push("genesis", nil)
	}
	e.hists = map[string][]step{}
	// History A: register+approve r1, remove+approve r1, re-add (with r3), remove r3 only; then the consensus set changes:
	// c1 joins (candidate, then consensus node), v4 quits. N=5 consensus nodes: quorum is 4 approvals.
	start()
	push("registerRelayer([r1]) by r1 -> apply 0", call(gov.RM, relayer_manager.REGISTER_RELAYER, gov.RelayerList(addrs("r1"), addr["r1"]), "r1"))
	quorum(relayer_manager.APPROVE_REGISTER_RELAYER, 0, V[:4], func() { cur.rel = []string{"r1"} })
	push("removeRelayer([r1]) by out -> remove 0", call(gov.RM, relayer_manager.REMOVE_RELAYER, gov.RelayerList(addrs("r1"), addr["out"]), "out"))
	quorum(relayer_manager.APPROVE_REMOVE_RELAYER, 0, V[:4], func() { cur.rel = nil })
	push("registerRelayer([r1,r3]) by r3 -> apply 1", call(gov.RM, relayer_manager.REGISTER_RELAYER, gov.RelayerList(addrs("r1", "r3"), addr["r3"]), "r3"))
	quorum(relayer_manager.APPROVE_REGISTER_RELAYER, 1, V[1:], func() { cur.rel = []string{"r1", "r3"} })
	push("removeRelayer([r3]) by v0 -> remove 1", call(gov.RM, relayer_manager.REMOVE_RELAYER, gov.RelayerList(addrs("r3"), addr["v0"]), "v0"))
	quorum(relayer_manager.APPROVE_REMOVE_RELAYER, 1, V[:4], func() { cur.rel = []string{"r1"} })
	push("registerCandidate(c1)", call(gov.NM, node_manager.REGISTER_CANDIDATE, gov.RegisterPeer(acct["c1"].PubHex, addr["c1"]), "c1"))
	for i, v := range V[:4] {
		if i == 3 {
			cur.pool = append(append([]string{}, V...), "c1") // candidate status: in the peer pool, not yet an operator key
		}
		push("approveCandidate(c1) by "+v, call(gov.NM, node_manager.APPROVE_CANDIDATE, gov.Peer(acct["c1"].PubHex, addr[v]), v))
	}
	cur.oper = append(append([]string{}, V...), "c1")
	push("commitDpos by op5", call(gov.NM, node_manager.COMMIT_DPOS, nil, "op5"))
	cur.oper = []string{"v0", "v1", "v2", "v3", "c1"} // v4 quitting: still in the pool of this view
	push("quitNode(v4)", call(gov.NM, node_manager.QUIT_NODE, gov.Peer(acct["v4"].PubHex, addr["v4"]), "v4"))
	cur.pool = []string{"v0", "v1", "v2", "v3", "c1"}
	push("commitDpos by opNew", call(gov.NM, node_manager.COMMIT_DPOS, nil, "opNew"))
	push("empty block", func() *types.Transaction { return nil })
	e.hists["A"] = hist
	// History B: a removal request approved while the registration is still short of quorum, the registration completing
	// afterwards, both relayers removed by one request; then v4 is blacklisted (blackNode of a consensus node switches
	// the view at once).
	start()
	push("registerRelayer([r1,r3]) by out -> apply 0", call(gov.RM, relayer_manager.REGISTER_RELAYER, gov.RelayerList(addrs("r1", "r3"), addr["out"]), "out"))
	quorum(relayer_manager.APPROVE_REGISTER_RELAYER, 0, []string{"v4", "v3", "v2"}, func() {})
	push("removeRelayer([r1]) by r2 -> remove 0", call(gov.RM, relayer_manager.REMOVE_RELAYER, gov.RelayerList(addrs("r1"), addr["r2"]), "r2"))
	quorum(relayer_manager.APPROVE_REMOVE_RELAYER, 0, V[:4], func() {})
	quorum(relayer_manager.APPROVE_REGISTER_RELAYER, 0, []string{"v1"}, func() { cur.rel = []string{"r1", "r3"} })
	push("removeRelayer([r1,r3]) by v0 -> remove 1", call(gov.RM, relayer_manager.REMOVE_RELAYER, gov.RelayerList(addrs("r1", "r3"), addr["v0"]), "v0"))
	quorum(relayer_manager.APPROVE_REMOVE_RELAYER, 1, V[1:], func() { cur.rel = nil })
	for i, v := range V[:4] {
		if i == 3 {
			cur.pool, cur.oper = V[:4], V[:4]
		}
		push("blackNode([v4]) by "+v, call(gov.NM, node_manager.BLACK_NODE, gov.PeerList([]string{acct["v4"].PubHex}, addr[v]), v))
	}
	push("empty block", func() *types.Transaction { return nil })
	e.hists["B"] = hist
	// List-shape histories (short, one per request list): a removal / registration request whose address list mixes
	// registered, already removed, never registered (r2) and duplicated addresses in every order: all lists of length
	// 1..3 over {r1, r3, r2}. The registry after the approved request is the driver's model of the request (every listed
	// address removed / registered), NOT what the ledger says.
	var lists [][]string
	var gen func(l []string)
	gen = func(l []string) {
		if len(l) > 0 {
			lists = append(lists, append([]string{}, l...))
		}
		if len(l) == 3 {
			return
		}
		for _, x := range []string{"r1", "r3", "r2"} {
			gen(append(l, x))
		}
	}
	gen(nil)
	minus := func(a, b []string) []string {
		var o []string
		for _, x := range a {
			keep := true
			for _, y := range b {
				if x == y {
					keep = false
				}
			}
			if keep {
				o = append(o, x)
			}
		}
		return o
	}
	union := func(a, b []string) []string {
		o := append([]string{}, a...)
		for _, y := range b {
			if len(minus([]string{y}, o)) == 1 {
				o = append(o, y)
			}
		}
		return o
	}
	// one request = 2 blocks here: the request, then the four approvals together (the intermediate approval counts are
	// probed by histories A and B)
	request := func(method, approve string, id *uint64, l []string, then func()) {
		ls := strings.Join(l, ",")
		push(fmt.Sprintf("%s([%s]) by out -> id %d", method, ls, *id), call(gov.RM, method, gov.RelayerList(addrs(l...), addr["out"]), "out"))
		then()
		push(fmt.Sprintf("%s(%d) by v0..v3 (one block)", approve, *id), call(gov.RM, approve, gov.ApproveRelayer(*id, addr["v0"]), "v0"))
		for _, v := range V[1:4] {
			hist[len(hist)-1].more = append(hist[len(hist)-1].more, call(gov.RM, approve, gov.ApproveRelayer(*id, addr[v]), v))
		}
		*id++
	}
	const chunks = 4
	for c := 0; c < chunks; c++ {
		start()
		var applyID, removeID uint64
		reg := func(l []string) {
			request(relayer_manager.REGISTER_RELAYER, relayer_manager.APPROVE_REGISTER_RELAYER, &applyID, l, func() { cur.rel = union(cur.rel, l) })
		}
		rm := func(l []string) {
			request(relayer_manager.REMOVE_RELAYER, relayer_manager.APPROVE_REMOVE_RELAYER, &removeID, l, func() { cur.rel = minus(cur.rel, l) })
		}
		all := []string{"r2", "r1", "r3"}
		for li, l := range lists {
			if li%chunks != c {
				continue
			}
			reg(l) // registration list, nobody registered
			rm(all)
			reg([]string{"r1"})
			reg(l) // registration list, r1 registered already
			rm(all)
			reg([]string{"r1", "r3"})
			rm(l) // removal list, r1 and r3 registered
			rm(all)
			reg([]string{"r3", "r1"})
			rm([]string{"r1"})
			rm(l) // removal list, r1 already removed, r3 registered
			rm(all)
		}
		e.hists[fmt.Sprintf("L%d", c)] = hist
	}
	return e
}

func isMini(hname string) bool { return hname != "A" && hname != "B" }

func (e *env) entry(n string) polyenv.Signer {
	if g, ok := e.group[n]; ok {
		s := polyenv.Multi(g)
		s.Sign = true
		return s
	}
	s := polyenv.Single(e.acct[n])
	s.Sign = true
	return s
}

// permittedAt = the reference "permitted consensus addresses" of a history point: the members of the peer pool plus
// the operator multisig of the pool / of its consensus-status members.
func (e *env) permittedAt(st step) map[string]bool {
	p := map[string]bool{}
	for _, n := range st.pool {
		p[n] = true
	}
	for g, members := range e.group {
		var mn []string
		for _, m := range members {
			for an, a := range e.acct {
				if a == m {
					mn = append(mn, an)
				}
			}
		}
		if eqs(mn, st.pool) || eqs(mn, st.oper) {
			p[g] = true
		}
	}
	return p
}

func sorted(l []string) []string { c := append([]string{}, l...); sort.Strings(c); return c }
func eqs(a, b []string) bool     { return strings.Join(sorted(a), ",") == strings.Join(sorted(b), ",") }

// changePoints = the points whose registry / pool / operator differ from the previous point.
func changePoints(h []step) []int {
	var c []int
	for i := 1; i < len(h); i++ {
		if !eqs(h[i].relayers, h[i-1].relayers) || !eqs(h[i].pool, h[i-1].pool) || !eqs(h[i].oper, h[i-1].oper) {
			c = append(c, i)
		}
	}
	return c
}

// ---------------------------------------------------------------------------------------------- one run (child process)

type violation struct {
	Key    string         `json:"key"`
	Detail map[string]any `json:"detail"`
}

type runResult struct {
	Hist        string           `json:"hist"`
	Start       int              `json:"start"`
	Refresh     []int            `json:"refresh"`
	Classes     map[string]int64 `json:"classes"`
	Cases       []string         `json:"cases"`
	Stricter    []string         `json:"stricter"`
	Violations  []violation      `json:"violations"`
	Submissions int              `json:"submissions"`
	States      int              `json:"states"` // (point, round) process states visited
	Blocks      int              `json:"blocks"`
	HarnessErr  string           `json:"harness_error,omitempty"`
}

func runChild(hname string, s int, refresh []int) (res runResult) {
	res = runResult{Hist: hname, Start: s, Refresh: refresh, Classes: map[string]int64{}}
	fail := func(format string, a ...any) runResult {
		res.HarnessErr = fmt.Sprintf(format, a...)
		return res
	}
	e := setup()
	hist := e.hists[hname]
	dir := polyenv.TmpDir("c36chain")
	defer os.RemoveAll(dir)
	ch, err := polyenv.OpenChain(dir, e.vals)
	if err != nil {
		return fail("open chain: %v", err)
	}
	defer ch.Close()
	ledger.DefLedger = ledger.VerifNewLedger(ch.L)
	srv := proc.VerifC36NewServer() // the node's pool server: one for the whole life of the process

	readRegistry := func() []string {
		var l []string
		for n, a := range e.addr {
			v, err := ch.L.GetStorageItem(stKey(gov.RM, append([]byte(relayer_manager.RELAYER), a[:]...)))
			if err == nil && v != nil && len(v.Value) > 0 {
				l = append(l, n)
			}
		}
		return l
	}
	readPool := func() (pool, oper []string, err error) {
		gv, err := ch.L.GetStorageItem(stKey(gov.NM, []byte(node_manager.GOVERNANCE_VIEW)))
		if err != nil {
			return nil, nil, err
		}
		g := new(node_manager.GovernanceView)
		if err := g.Deserialization(common.NewZeroCopySource(gv.Value)); err != nil {
			return nil, nil, err
		}
		pv, err := ch.L.GetStorageItem(stKey(gov.NM, append([]byte(node_manager.PEER_POOL), nutils.GetUint32Bytes(g.View)...)))
		if err != nil {
			return nil, nil, err
		}
		m := &node_manager.PeerPoolMap{PeerPoolMap: map[string]*node_manager.PeerPoolItem{}}
		if err := m.Deserialization(common.NewZeroCopySource(pv.Value)); err != nil {
			return nil, nil, err
		}
		for k, it := range m.PeerPoolMap {
			n := "?" + k[:8]
			for an, a := range e.acct {
				if a.PubHex == k {
					n = an
				}
			}
			pool = append(pool, n)
			if it.Status == node_manager.ConsensusStatus {
				oper = append(oper, n)
			}
		}
		return pool, oper, nil
	}
	isRefresh := map[int]bool{}
	for _, k := range refresh {
		isRefresh[k] = true
	}
	cases, stricter := map[string]bool{}, map[string]bool{}
	viol := map[string]bool{}
	nonce := uint32(100000)
	relayerAt := []map[string]bool{}
	// reference record of what this process can legitimately still hold: the permitted sets of its refresh points
	var lastRefreshed map[string]bool // permitted set at the latest refresh
	earlier := map[string]bool{}      // union of the permitted sets of all earlier refreshes
	var refreshedAt []int             // for the replay artefact
	for i, st := range hist {
		if st.tx != nil {
			var txs []*types.Transaction
			if t := st.tx(); t != nil {
				txs = append(txs, t)
			}
			for _, m := range st.more {
				txs = append(txs, m())
			}
			if _, err := ch.Commit(ch.NextBlock(txs, nil)); err != nil {
				return fail("commit of history step %d (%s): %v", i, st.name, err)
			}
			res.Blocks++
		}
		pool, oper, err := readPool()
		if err != nil {
			return fail("peer pool at step %d: %v", i, err)
		}
		if !eqs(pool, st.pool) || !eqs(oper, st.oper) {
			return fail("history %s step %d (%s): ledger has pool=%v consensus=%v, driver expected %v %v", hname, i, st.name, sorted(pool), sorted(oper), st.pool, st.oper)
		}
		// the registry reference is the driver's model of the approved requests; a ledger that disagrees is not a harness
		// matter: it shows up as a wrong admission below (or as a stricter refusal, which is counted)
		ledgerReg := map[string]bool{}
		for _, n := range readRegistry() {
			ledgerReg[n] = true
		}
		if !eqs(sortedKeys(ledgerReg), st.relayers) {
			res.Classes["note:ledger-registry-differs-from-approved-requests"]++
		}
		registered := map[string]bool{}
		for _, n := range st.relayers {
			registered[n] = true
		}
		relayerAt = append(relayerAt, registered)
		if i < s {
			continue // the node is not running yet
		}
		permitted := e.permittedAt(st)
		everRelayer := func(n string) bool {
			for _, m := range relayerAt {
				if m[n] {
					return true
				}
			}
			return false
		}
		pendingApproval := func(n string) bool { // requested, quorum not reached (only r1/r3 in these histories)
			return !registered[n] && (n == "r1" || n == "r3") && strings.Contains(st.name, "egisterRelayer")
		}
		rounds := []string{"fresh"}
		switch {
		case i == s:
			rounds = []string{"expired", "fresh"} // cold start: the very first submission refreshes whatever the stamp says
		case isRefresh[i]:
			rounds = []string{"fresh", "expired", "fresh"}
		}
		for ri, clock := range rounds {
			res.States++
			for _, p := range e.probes {
				if isMini(hname) && !p.mini {
					continue
				}
				for _, snd := range []tc.SenderType{tc.NetSender, tc.HttpSender} {
					nonce++
					t := polyenv.Tx(nutils.RelayerManagerContractAddress, "probe", []byte(p.name), nonce, p.ents...)
					if res.Submissions < len(e.probes)*2 && !isMini(hname) { // harness sanity (first round): the stateless validator agrees with how the probe was built
						if ok := validation.VerifyTransaction(t) == errors.ErrNoError; ok != p.validly {
							return fail("probe %s: stateless validation says %v, built as %v", p.name, ok, p.validly)
						}
					}
					cold := res.Submissions == 0
					stamp := time.Now().Unix() - 1 // "fresh": refreshed a second ago
					if clock == "expired" {
						stamp -= 120
					}
					if !cold {
						proc.VerifC36SetStamp(stamp)
					} else {
						stamp = proc.VerifC36Stamp()
					}
					rcv0 := srv.VerifC36Stats()[tc.RcvStats-1]
					var reply *tc.TxResult
					if snd == tc.HttpSender {
						chn := make(chan *tc.TxResult, 1)
						srv.VerifC36Submit(snd, t, chn)
						select {
						case reply = <-chn:
						default:
						}
					} else {
						srv.VerifC36Submit(snd, t, nil)
					}
					res.Submissions++
					admitted := srv.VerifC36Tracked(t.Hash())
					passedGate := srv.VerifC36Stats()[tc.RcvStats-1] == rcv0+1
					if admitted != passedGate {
						return fail("admission observation inconsistent for %s: tracked=%v passed-gate=%v", p.name, admitted, passedGate)
					}
					refreshed := proc.VerifC36Stamp() != stamp
					if refreshed != (clock == "expired") {
						return fail("clock seam: point %d round %s: refreshed=%v", i, clock, refreshed)
					}
					if refreshed {
						res.Classes["clock:refreshed"]++
						if lastRefreshed != nil {
							for n := range lastRefreshed {
								earlier[n] = true
							}
						}
						lastRefreshed = permitted
						if len(refreshedAt) == 0 || refreshedAt[len(refreshedAt)-1] != i {
							refreshedAt = append(refreshedAt, i)
						}
					} else {
						res.Classes["clock:kept"]++
					}
					// ---- oracle
					why := ""
					for _, sn := range p.signers {
						if registered[sn] {
							why = "relayer"
						} else if permitted[sn] && why == "" {
							if _, isGroup := e.group[sn]; isGroup {
								why = "operator"
							} else {
								why = "consensus-node"
							}
						}
					}
					sndName := map[tc.SenderType]string{tc.NetSender: "peer", tc.HttpSender: "rpc"}[snd]
					detail := func() map[string]any {
						return map[string]any{"history_name": hname, "node_started_at_point": s, "refresh_points": refresh, "refreshes_so_far_at_points": refreshedAt,
							"history_point": i, "after_step": st.name, "history": names(hist[:i+1]), "round": fmt.Sprintf("%d/%s", ri, clock),
							"tx_signers": p.signers, "probe": p.name, "sender": sndName, "registered_now": st.relayers, "peer_pool_now": st.pool,
							"note": "the node process submitted every probe at every point since its start; nothing of its state was reset"}
					}
					report := func(key string) {
						if !viol[key] {
							viol[key] = true
							res.Violations = append(res.Violations, violation{key, detail()})
						}
					}
					switch {
					case admitted && why != "":
						if p.validly {
							res.Classes["admitted:"+why]++
						} else {
							// the gate looks at the listed keys only; the pool itself is protected by the stateless validator
							res.Classes["admitted:forged-claim(later refused by the stateless validator)"]++
						}
						cases[fmt.Sprintf("admitted/%s/%s", p.name, why)] = true
					case admitted:
						// no signer is a relayer now or a consensus address now
						staleWindow, staleOld, removedRel := "", "", ""
						for _, sn := range p.signers {
							if lastRefreshed[sn] && !permitted[sn] {
								staleWindow = sn // permitted when this process last refreshed
							}
							if earlier[sn] && !lastRefreshed[sn] && !permitted[sn] {
								staleOld = sn // permitted only at a refresh before the latest one
							}
							if everRelayer(sn) && !registered[sn] {
								removedRel = sn
							}
						}
						switch {
						case staleWindow != "":
							// explained by the permitted set of the latest refresh, which is less than 60 s old by the node's
							// clock: documented staleness of the consensus-address cache, counted, not alarmed
							res.Classes["admitted:stale-consensus-address-within-60s-cache-window"]++
						case staleOld != "":
							kind := "departed-consensus-node"
							if _, g := e.group[staleOld]; g {
								kind = "former-operator-multisig"
							}
							report("admission:" + kind + "-admitted-after-cache-refresh")
							res.Classes["admitted:stale-consensus-address-after-refresh"]++
						case removedRel != "":
							report("removal:removed-relayer-still-admitted:" + clockKey(clock) + ":" + sndName)
						default:
							report("admission:no-signer-registered-or-permitted:" + sndName)
						}
					default:
						switch {
						case why == "relayer" && len(p.signers) == 1 && p.validly && !ledgerReg[p.signers[0]]:
							res.Classes["refused:registered-by-approved-request-but-absent-from-ledger"]++
						case why == "relayer" && len(p.signers) == 1 && p.validly:
							return fail("registered relayer %s refused at %s (start %d, refresh %v, %s, %s)", p.name, st.name, s, refresh, clock, sndName)
						case why != "":
							res.Classes["refused:although-permitted"]++
							stricter[fmt.Sprintf("history %s after %q: %s (%s) refused", hname, st.name, p.name, why)] = true
						case len(p.signers) == 1 && everRelayer(p.signers[0]):
							res.Classes["refused:removed-relayer"]++
						case len(p.signers) == 1 && pendingApproval(p.signers[0]):
							res.Classes["refused:relayer-with-pending-approval"]++
						case p.name == "out":
							res.Classes["refused:outsider"]++
						case p.name == "r2":
							res.Classes["refused:never-registered"]++
						default:
							res.Classes["refused:other"]++
						}
						if snd == tc.HttpSender && reply != nil && reply.Err != errors.ErrNoError {
							res.Classes["refused:rpc-answered-with-error"]++
						}
					}
				}
			}
		}
	}
	for k := range cases {
		res.Cases = append(res.Cases, k)
	}
	for k := range stricter {
		res.Stricter = append(res.Stricter, k)
	}
	return res
}

// ---------------------------------------------------------------------------------------------- parent

type runSpec struct {
	hist    string
	s       int
	refresh []int
}

func main() {
	if len(os.Args) > 1 && os.Args[1] == "--child" { // --child <hist> <s> <k,k,...|->
		s, _ := strconv.Atoi(os.Args[3])
		var refresh []int
		if os.Args[4] != "-" {
			for _, x := range strings.Split(os.Args[4], ",") {
				k, _ := strconv.Atoi(x)
				refresh = append(refresh, k)
			}
		}
		b, _ := json.Marshal(runChild(os.Args[2], s, refresh))
		os.Stdout.Write(b)
		return
	}
	r := ev.Start("C36", "model_checking")
	e := setup()
	var specs []runSpec
	points := 0
	for _, hn := range []string{"A", "B"} {
		h := e.hists[hn]
		points += len(h)
		cps := changePoints(h)
		ks := cps
		if r.Thorough() {
			ks = nil
			for k := 1; k < len(h); k++ {
				ks = append(ks, k)
			}
		}
		near := map[int]bool{0: true} // quick: later refreshes only for nodes started at genesis or right before a change
		for _, c := range cps {
			near[c-1] = true
		}
		at := map[int]bool{}
		for _, c := range cps {
			at[c] = true
		}
		for s := 0; s < len(h); s++ {
			if r.Thorough() || near[s] || at[s] {
				specs = append(specs, runSpec{hn, s, nil})
			}
			first := true
			for _, k := range ks {
				// quick: only the next change after s and the last change of the history
				if k > s && (r.Thorough() || (near[s] && (first || k == cps[len(cps)-1]))) {
					specs = append(specs, runSpec{hn, s, []int{k}})
					first = false
				}
			}
			if r.Thorough() {
				for x, k1 := range cps {
					for _, k2 := range cps[x+1:] {
						if k1 > s {
							specs = append(specs, runSpec{hn, s, []int{k1, k2}})
						}
					}
				}
			}
		}
	}
	var miniNames []string
	for hn := range e.hists {
		if isMini(hn) {
			miniNames = append(miniNames, hn)
		}
	}
	sort.Strings(miniNames)
	for _, hn := range miniNames {
		h := e.hists[hn]
		points += len(h)
		specs = append(specs, runSpec{hn, 0, nil}) // the node runs from genesis, no refresh after its start
		if r.Thorough() {
			specs = append(specs, runSpec{hn, 0, changePoints(h)}) // ... and refreshing at every registry change
		}
	}
	r.Note("list_shape_histories", len(miniNames))
	r.Require("admitted:relayer", "admitted:consensus-node", "admitted:operator", "refused:outsider", "refused:never-registered",
		"refused:removed-relayer", "refused:relayer-with-pending-approval", "admitted:forged-claim(later refused by the stateless validator)",
		"clock:refreshed", "clock:kept", "admitted:stale-consensus-address-within-60s-cache-window")
	var mu sync.Mutex
	states, transitions, done := 0, 0, 0
	stricter := map[string]bool{}
	jobs := make(chan runSpec)
	var wg sync.WaitGroup
	for w := 0; w < 8; w++ {
		wg.Add(1)
		go func() {
			defer wg.Done()
			for sp := range jobs {
				ks := "-"
				if len(sp.refresh) > 0 {
					var l []string
					for _, k := range sp.refresh {
						l = append(l, strconv.Itoa(k))
					}
					ks = strings.Join(l, ",")
				}
				cmd := exec.Command(os.Args[0], "--child", sp.hist, strconv.Itoa(sp.s), ks)
				cmd.Env = append(os.Environ(), "GOMAXPROCS=2")
				out, err := cmd.Output()
				var res runResult
				if err != nil || json.Unmarshal(out, &res) != nil {
					r.HarnessError("run %+v failed: %v: %s", sp, err, tail(string(out), 400))
				}
				if res.HarnessErr != "" {
					r.HarnessError("run %+v: %s", sp, res.HarnessErr)
				}
				mu.Lock()
				states += res.States
				transitions += res.Submissions + res.Blocks
				done++
				for k := range res.Stricter {
					stricter[res.Stricter[k]] = true
				}
				mu.Unlock()
				r.Evals(res.Submissions)
				for c, n := range res.Classes {
					for i := int64(0); i < n; i++ {
						r.Class(c)
					}
				}
				for _, c := range res.Cases {
					r.Case(c)
				}
				for _, v := range res.Violations {
					r.Violation(v.Key, v.Detail)
				}
				if sp.s == 0 && len(sp.refresh) == 0 {
					r.Sample(map[string]any{"run": fmt.Sprintf("history %s, node started at point %d, no later refresh", sp.hist, sp.s), "submissions": res.Submissions, "process_states": res.States})
				}
			}
		}()
	}
	capped := false
	for _, sp := range specs {
		if r.Expired() {
			capped = true
			break
		}
		jobs <- sp
	}
	close(jobs)
	wg.Wait()
	if capped {
		r.Capped(fmt.Sprintf("%d of %d runs done at the deadline", done, len(specs)))
	}
	var hp []map[string]any
	for _, hn := range []string{"A", "B"} {
		for i, st := range e.hists[hn] {
			hp = append(hp, map[string]any{"history": hn, "point": i, "step": st.name, "registered": st.relayers, "peer_pool": st.pool})
		}
		r.Note("change_points_"+hn, changePoints(e.hists[hn]))
	}
	r.Note("history_points", hp)
	r.Note("runs", done)
	r.Note("refused_although_permitted", sortedKeys(stricter))
	r.Note("probes", probeNames(e.probes))
	r.Assume("the registry / peer pool 'now' are the driver's declared expectations per governance step, cross-checked against the ledger after every block (governance correctness itself is C32/C33)",
		"a consensus address that was permitted when the node last refreshed (< 60 s ago by its clock) and has left since is counted, not alarmed; one that survives a refresh is a violation; relayers get no such grace",
		"admission looks at the listed public keys only (signatures are checked by the stateless validator before pooling): forged claims are counted",
		"the only state the driver touches is the refresh stamp lastTime (the wall-clock seam); every run is a fresh child process carried across the whole history")
	r.Finish(map[string]any{
		"rule":        fmt.Sprintf("%d runs, each a fresh node process carried over a governance history on its own real ledger (2 long histories + %d list-shape histories [together: every removal / registration request list of length 1..3 over {r1,r3,r2=never registered} in every order, duplicates included, each with nobody / r1 registered (registration) and r1,r3 registered / r1 already removed (removal); registry reference = model of the approved requests], %d points in all: A register+approve r1, remove+approve, re-add r1+r3, remove r3, candidate joins, commitDpos, validator quits, commitDpos; B removal approved before the registration reaches quorum, registration completes, both removed, validator blacklisted): (start point s, refresh points R) with R={} or {k>s}: quick s in {0, right before / at each registry or pool change} and k in {next change after s, last change}; thorough all s, all k and all pairs of change points; at every point >= s the process submits %d signer sets (all subsets <=2 of {r1,r2,validator,operator,outsider} in both orders + r3,c1,v4,later operators + 4 forged) x sender {peer, rpc} without refresh, at s and at the points of R also with a refresh before every submission; oracle admitted => some signer registered now or in the peer pool now", done, len(miniNames), points, len(e.probes)),
		"states":      states,
		"transitions": transitions, "traces_validated_against_impl": done,
		"max_depth": points,
	})
}

func tail(s string, n int) string {
	if len(s) > n {
		return s[len(s)-n:]
	}
	return s
}

func stKey(c common.Address, key []byte) *states.StorageKey {
	return &states.StorageKey{ContractAddress: c, Key: key}
}

func clockKey(c string) string {
	if c == "expired" {
		return "after-cache-refresh"
	}
	return "without-cache-refresh"
}

func names(h []step) []string {
	var l []string
	for _, s := range h {
		l = append(l, s.name)
	}
	return l
}

func probeNames(p []probe) []string {
	var l []string
	for _, x := range p {
		l = append(l, x.name)
	}
	return l
}

func sortedKeys(m map[string]bool) []string {
	var l []string
	for k := range m {
		l = append(l, k)
	}
	sort.Strings(l)
	return l
}
