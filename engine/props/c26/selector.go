package main

// C26 (a) — selector level: every sorted UTXO sequence of size <= N over a boundary value alphabet x script
// kind per position, every (target, min-change, fee-rate) combination, through CoinSelector.Select and each of
// the strategies it composes (SimpleBnbSearch, SortedSearch), configured exactly as chooseUtxos configures it.

import (
	"bytes"
	"crypto/sha256"
	"fmt"
	"sort"
	"sync"

	"github.com/btcsuite/btcd/btcec"
	"github.com/btcsuite/btcd/chaincfg"
	"github.com/btcsuite/btcd/txscript"
	"github.com/btcsuite/btcd/wire"
	"github.com/btcsuite/btcutil"
	"github.com/polynetwork/poly/native/service/cross_chain_manager/btc"
	"verif.local/engine/ev"
)

// ---------------------------------------------------------------------------------------------
// deterministic BTC material (regtest): 2-of-3 redeem script, its P2SH / P2WSH lock scripts, a payee

type vault struct {
	Keys      []*btcec.PrivateKey
	Redeem    []byte
	RK        []byte // hash160(redeem) = utxo key
	P2SH      []byte
	P2WSH     []byte
	Payee     string // P2PKH regtest address (string form, as MakeTransaction args carry it)
	VaultAddr string // the vault's own P2WSH address (a withdrawal to it returns payment and change to the vault)
	PayeeS    []byte // its pkScript
}

func newVault() *vault {
	v := &vault{}
	b := txscript.NewScriptBuilder().AddOp(txscript.OP_2)
	for i := 0; i < 3; i++ {
		seed := sha256.Sum256([]byte(fmt.Sprintf("c26-redeem-key-%d", i)))
		priv, pub := btcec.PrivKeyFromBytes(btcec.S256(), seed[:])
		v.Keys = append(v.Keys, priv)
		b.AddData(pub.SerializeCompressed())
	}
	var err error
	v.Redeem, err = b.AddOp(txscript.OP_3).AddOp(txscript.OP_CHECKMULTISIG).Script()
	must(err)
	v.RK = btcutil.Hash160(v.Redeem)
	net := &chaincfg.RegressionNetParams
	a1, err := btcutil.NewAddressScriptHash(v.Redeem, net)
	must(err)
	v.P2SH, err = txscript.PayToAddrScript(a1)
	must(err)
	wh := sha256.Sum256(v.Redeem)
	a2, err := btcutil.NewAddressWitnessScriptHash(wh[:], net)
	must(err)
	v.P2WSH, err = txscript.PayToAddrScript(a2)
	must(err)
	v.VaultAddr = a2.EncodeAddress()
	ps := sha256.Sum256([]byte("c26-payee"))
	_, ppub := btcec.PrivKeyFromBytes(btcec.S256(), ps[:])
	pa, err := btcutil.NewAddressPubKeyHash(btcutil.Hash160(ppub.SerializeCompressed()), net)
	must(err)
	v.Payee = pa.EncodeAddress()
	v.PayeeS, err = txscript.PayToAddrScript(pa)
	must(err)
	return v
}

func must(err error) {
	if err != nil {
		panic(err)
	}
}

func (v *vault) script(kind byte) []byte {
	if kind == 'W' {
		return v.P2WSH
	}
	return v.P2SH
}

// outs as makeBtcTx hands them to chooseUtxos: the payee output followed by the (still zero) change output.
func (v *vault) outs(amount uint64) []*wire.TxOut {
	return []*wire.TxOut{wire.NewTxOut(int64(amount), v.PayeeS), wire.NewTxOut(0, v.P2WSH)}
}

// ---------------------------------------------------------------------------------------------

type coin struct {
	V    uint64 `json:"value"`
	Kind string `json:"script"`             // "P2SH" | "P2WSH"
	Op   string `json:"outpoint,omitempty"` // selector level: "<txid tag>:<index>" (same tag = outputs of one BTC transaction)
}

type selCase struct {
	Coins   []coin `json:"utxos_sorted_as_chooseUtxos_sorts"`
	Target  uint64 `json:"target"`
	MC      uint64 `json:"min_change"`
	FeeRate uint64 `json:"fee_rate"`
	M, N    int
}

type selViolation struct {
	Strategy string   `json:"strategy"`
	Input    selCase  `json:"input"`
	Selected []string `json:"selected"` // "pos:value:kind"
	Reported uint64   `json:"reported_total"`
	RealSum  uint64   `json:"sum_of_selected_values"`
	Fee      uint64   `json:"reported_fee"`
	FeeOfSel uint64   `json:"estimator_on_returned_selection"`
	What     string   `json:"what"`
	rank     [3]int
}

func valueAlphabet(t uint64) []uint64 {
	// descending: t*4+1, 1.4t, 1.3t, t+1, t, t-1, t/2, t/4
	return []uint64{4*t + 1, t * 14 / 10, t * 13 / 10, t + 1, t, t - 1, t / 2, t / 4}
}

func opHash(pos int) []byte {
	h := make([]byte, 32)
	h[31] = byte(0xF0 - pos) // chainhash strings are byte-reversed; Less compares raw bytes: make byte 0 decide too
	h[0] = byte(0xF0 - pos)
	h[1] = 0xc2
	h[2] = 0x6a
	return h
}

// mkUtxos: variant 0 = every UTXO from its own transaction; 1 = positions (0,1), (2,3), ... are sibling outputs (index 0/1) of one
// transaction; 2 = all are outputs 0..n-1 of ONE transaction. Less() ignores the index, so equal-valued siblings compare equal.
func mkUtxos(v *vault, coins []coin, variant int) []*btc.Utxo {
	out := make([]*btc.Utxo, len(coins))
	for i := range coins {
		c := &coins[i]
		k := byte('S')
		if c.Kind == "P2WSH" {
			k = 'W'
		}
		tx, idx := i, 0
		switch variant {
		case 1:
			tx, idx = i-i%2, 1-i%2
		case 2:
			tx, idx = 0, len(coins)-1-i
		}
		// indexes fall with the position: the descending production sort keeps the enumerated order whether Less treats equal-valued
		// siblings as equal (stable for these sizes) or breaks the tie by index
		c.Op = fmt.Sprintf("T%d:%d", tx, idx)
		out[i] = &btc.Utxo{Op: &btc.OutPoint{Hash: opHash(tx), Index: uint32(idx)}, AtHeight: 1, Value: c.V, ScriptPubkey: v.script(k)}
	}
	return out
}

type selStats struct {
	evals, returned, none, exact, withChange, unsolved, noneInfeasible int64
	byStrategy                                                         map[string]int64
	cases                                                              map[string]int64
	viols                                                              map[string]*selViolation
}

func (s *selStats) viol(key string, v *selViolation) {
	if o, ok := s.viols[key]; ok {
		for i := 0; i < 3; i++ {
			if o.rank[i] != v.rank[i] {
				if o.rank[i] < v.rank[i] {
					return
				}
				break
			}
		}
	}
	s.viols[key] = v
}

// feasible: does ANY non-empty subset satisfy the property's acceptance (total == target or >= target+mc)
// with a fee below the payment? (observation only: the property does not promise completeness)
func feasible(sel *btc.CoinSelector, us []*btc.Utxo, target, mc uint64) bool {
	n := len(us)
	for mask := 1; mask < 1<<n; mask++ {
		var sum uint64
		var sub []*btc.Utxo
		for i := 0; i < n; i++ {
			if mask>>i&1 == 1 {
				sum += us[i].Value
				sub = append(sub, us[i])
			}
		}
		if (sum == target || sum >= target+mc) && float64(sel.VerifC26Fee(sub))/float64(target) < sel.VerifC26MaxP() {
			return true
		}
	}
	return false
}

var strategies = []string{"Select", "SimpleBnbSearch", "SortedSearch"}

func runStrategy(name string, cs *btc.CoinSelector) ([]*btc.Utxo, uint64, uint64) {
	switch name {
	case "Select":
		return cs.Select()
	case "SimpleBnbSearch":
		return cs.SimpleBnbSearch(0, make([]*btc.Utxo, 0), 0)
	default:
		return cs.SortedSearch()
	}
}

// checkSelection is the selector-level oracle on one returned selection.
func checkSelection(st *selStats, strategy string, c selCase, rank [3]int, cs *btc.CoinSelector, given []*btc.Utxo,
	res []*btc.Utxo, sum, fee uint64) {
	pos := map[string]int{}
	for i, u := range given {
		pos[u.Op.String()] = i
	}
	v := &selViolation{Strategy: strategy, Input: c, Reported: sum, Fee: fee, rank: rank}
	seen := map[string]bool{}
	dup, foreign := false, false
	var real uint64
	for _, u := range res {
		k := u.Op.String()
		p, ok := pos[k]
		if !ok || given[p].Value != u.Value || !bytes.Equal(given[p].ScriptPubkey, u.ScriptPubkey) {
			foreign = true
			p = -1
		}
		if seen[k] {
			dup = true
		}
		seen[k] = true
		real += u.Value
		kind := "P2SH"
		if txscript.GetScriptClass(u.ScriptPubkey) == txscript.WitnessV0ScriptHashTy {
			kind = "P2WSH"
		}
		v.Selected = append(v.Selected, fmt.Sprintf("pos%d:%d:%s", p, u.Value, kind))
	}
	v.RealSum = real
	v.FeeOfSel = cs.VerifC26Fee(res)
	report := func(key, what string) {
		w := *v
		w.What = what
		st.viol("selector/"+strategy+"/"+key, &w)
	}
	if len(res) == 0 {
		report("empty-selection-returned", "a non-nil empty selection was returned for a positive payment")
		return
	}
	if dup {
		report("duplicate-input", "the same outpoint is selected twice")
	}
	if foreign {
		report("input-not-in-unspent-set", "a selected input is not an element of the given unspent set")
	}
	// shape of a discrepancy, from inputs and outputs only: does the reported total count UTXOs that are not selected?
	shape := "other"
	if sum > real {
		var rest []uint64
		for _, u := range given {
			if !seen[u.Op.String()] {
				rest = append(rest, u.Value)
			}
		}
		for mask := 1; mask < 1<<len(rest); mask++ {
			var x uint64
			for i := range rest {
				if mask>>i&1 == 1 {
					x += rest[i]
				}
			}
			if x == sum-real {
				shape = "total-includes-unselected-utxos"
				break
			}
		}
	}
	if real != sum {
		report("reported-total-ne-sum-of-inputs:"+shape, "reported input total differs from the sum of the selected values")
	}
	if !(sum == c.Target || sum >= c.Target+c.MC) {
		report("reported-total-neither-payment-nor-payment-plus-min-change", "payment < reported total < payment + min-change (or total < payment)")
	}
	if real == sum || (real == c.Target || real >= c.Target+c.MC) {
		// consistent, or at least the real total is acceptable
	} else {
		report("real-total-neither-payment-nor-payment-plus-min-change:"+shape, "the SELECTED inputs add up to a total that is neither the payment nor >= payment + min-change")
	}
	if fee != v.FeeOfSel {
		report("fee-ne-estimator-of-returned-selection", "reported fee is not the size estimator applied to the returned selection")
	}
	if sum == c.Target {
		st.exact++
	} else {
		st.withChange++
	}
}

func selectorLevel(r *ev.Run, v *vault) map[string]any {
	maxN := r.QT(5, 6)
	sibMaxN := r.QT(4, 6)              // sibling-outpoint variants (same txid, different index) for sequences up to this size
	targets := []uint64{15000, 100000} // small: one P2SH input at fee rate 50 costs more than the payment; mid
	feeRates := []uint64{1, 50}
	type job struct {
		n      int
		vidx   []int // non-decreasing indices into the (descending) value alphabet
		serial int
	}
	var jobs []job
	serial := 0
	var gen func(n int, cur []int, from int)
	gen = func(n int, cur []int, from int) {
		if len(cur) == n {
			jobs = append(jobs, job{n, append([]int(nil), cur...), serial})
			serial++
			return
		}
		for i := from; i < 8; i++ {
			gen(n, append(cur, i), i)
		}
	}
	for n := 1; n <= maxN; n++ {
		gen(n, nil, 0)
	}
	workers := 8
	stats := make([]*selStats, workers)
	var wg sync.WaitGroup
	var mu sync.Mutex
	next := 0
	completedN := make([]int64, maxN+1)
	capped := false
	for w := 0; w < workers; w++ {
		st := &selStats{byStrategy: map[string]int64{}, cases: map[string]int64{}, viols: map[string]*selViolation{}}
		stats[w] = st
		wg.Add(1)
		go func() {
			defer wg.Done()
			for {
				mu.Lock()
				if next >= len(jobs) || capped {
					mu.Unlock()
					return
				}
				if next%256 == 0 && r.Expired() {
					capped = true
					mu.Unlock()
					return
				}
				j := jobs[next]
				next++
				mu.Unlock()
				nv := 1
				if j.n >= 2 && j.n <= sibMaxN {
					nv = 3
				}
				for kv := 0; kv < nv<<j.n; kv++ {
					kinds, variant := kv&(1<<j.n-1), kv>>j.n
					for ti, t := range targets {
						alpha := valueAlphabet(t)
						coins := make([]coin, j.n)
						for p := 0; p < j.n; p++ {
							coins[p].V = alpha[j.vidx[p]]
							coins[p].Kind = "P2SH"
							if kinds>>p&1 == 1 {
								coins[p].Kind = "P2WSH"
							}
						}
						given := mkUtxos(v, coins, variant)
						// production sort (chooseUtxos) on a rotated copy must reproduce the intended order (siblings of equal value
						// compare equal under Less, their order is the storage order: no rotation then)
						rot := append(append([]*btc.Utxo{}, given[j.n/2:]...), given[:j.n/2]...)
						if variant != 0 {
							rot = append([]*btc.Utxo{}, given...)
						}
						sorted := &btc.Utxos{Utxos: rot}
						sort.Sort(sort.Reverse(sorted))
						for p := range given {
							if sorted.Utxos[p] != given[p] {
								r.HarnessError("sorted order differs from the enumerated sequence: %+v", coins)
							}
						}
						for mi, mc := range []uint64{2000, t / 2, t * 5 / 2} {
							for fi, fr := range feeRates {
								c := selCase{Coins: coins, Target: t, MC: mc, FeeRate: fr, M: 2, N: 3}
								rank := [3]int{j.n, j.serial, variant<<16 | kinds<<8 | ti<<6 | mi<<3 | fi}
								var selectNone bool
								for _, s := range strategies {
									us := &btc.Utxos{Utxos: append([]*btc.Utxo{}, given...)}
									cs := btc.VerifC26Selector(us, t, mc, fr, v.outs(t), 2, 3)
									var res []*btc.Utxo
									var sum, fee uint64
									rec, panicked := ev.Guard(func() { res, sum, fee = runStrategy(s, cs) })
									st.evals++
									if panicked {
										st.viol("selector/"+s+"/panic", &selViolation{Strategy: s, Input: c, What: fmt.Sprint(rec), rank: rank})
										continue
									}
									for p := range given {
										if us.Utxos[p] != given[p] {
											st.viol("selector/"+s+"/unspent-list-mutated", &selViolation{Strategy: s, Input: c, What: "the selector reordered or rewrote the unspent list it was given", rank: rank})
											break
										}
									}
									if res == nil {
										st.byStrategy[s+":none"]++
										if s == "Select" {
											selectNone = true
										}
										continue
									}
									st.byStrategy[s+":returned"]++
									st.cases[fmt.Sprintf("%s/n%d/k%d/%v", s, j.n, len(res), sum == t)]++
									checkSelection(st, s, c, rank, cs, given, res, sum, fee)
								}
								if selectNone {
									st.none++
									cs := btc.VerifC26Selector(&btc.Utxos{Utxos: given}, t, mc, fr, v.outs(t), 2, 3)
									if feasible(cs, given, t, mc) {
										st.unsolved++
									} else {
										st.noneInfeasible++
									}
								} else {
									st.returned++
								}
							}
						}
					}
				}
				mu.Lock()
				completedN[j.n]++
				mu.Unlock()
			}
		}()
	}
	wg.Wait()
	if capped {
		r.Capped("selector level: deadline hit before all sequences were evaluated")
	}
	tot := &selStats{byStrategy: map[string]int64{}, cases: map[string]int64{}, viols: map[string]*selViolation{}}
	for _, st := range stats {
		tot.evals += st.evals
		tot.returned += st.returned
		tot.none += st.none
		tot.exact += st.exact
		tot.withChange += st.withChange
		tot.unsolved += st.unsolved
		tot.noneInfeasible += st.noneInfeasible
		for k, n := range st.byStrategy {
			tot.byStrategy[k] += n
		}
		for k, n := range st.cases {
			tot.cases[k] += n
		}
		for k, x := range st.viols {
			tot.viol(k, x)
		}
	}
	r.Evals(int(tot.evals))
	r.Sample(map[string]any{"level": "selector", "value_alphabet_small": valueAlphabet(targets[0]), "value_alphabet_mid": valueAlphabet(targets[1]),
		"targets": targets, "min_change": "2000 | target/2 | 2.5*target", "fee_rates": feeRates, "m_of_n": "2 of 3", "strategies": strategies})
	for k := range tot.cases {
		r.Case("sel:" + k)
	}
	classN := func(name string, n int64) {
		if n > 0 {
			r.Class(name)
		}
		r.Note("count:"+name, n)
	}
	classN("selector:select-returned", tot.returned)
	classN("selector:select-none", tot.none)
	classN("selector:total-exact", tot.exact)
	classN("selector:total-with-change", tot.withChange)
	for k, n := range tot.byStrategy {
		classN("selector:"+k, n)
	}
	keys := make([]string, 0, len(tot.viols))
	for k := range tot.viols {
		keys = append(keys, k)
	}
	sort.Strings(keys)
	for _, k := range keys {
		r.Violation(k, tot.viols[k])
	}
	// directed: the repro recorded in DESIGN section 6 (F2), through Select as chooseUtxos configures it
	{
		coins := []coin{{V: 140000, Kind: "P2SH"}, {V: 140000, Kind: "P2SH"}, {V: 140000, Kind: "P2SH"}, {V: 130000, Kind: "P2SH"}}
		given := mkUtxos(v, coins, 0)
		cs := btc.VerifC26Selector(&btc.Utxos{Utxos: given}, 100000, 250000, 1, v.outs(100000), 2, 3)
		res, sum, fee := cs.Select()
		var real uint64
		var vals []uint64
		for _, u := range res {
			real += u.Value
			vals = append(vals, u.Value)
		}
		r.Note("directed_F2_repro", map[string]any{"utxos": coins, "target": 100000, "min_change": 250000, "fee_rate": 1,
			"selected_values": vals, "reported_total": sum, "sum_of_selected_values": real, "fee": fee})
	}
	seqs := 0
	for n := 1; n <= maxN; n++ {
		k := 1
		if n >= 2 && n <= sibMaxN {
			k = 3
		}
		seqs += k * int(completedN[n]) << n
	}
	return map[string]any{
		"selector_max_utxos": maxN, "selector_sibling_outpoint_variants_up_to_size": sibMaxN, "selector_sorted_sequences_with_kinds": seqs, "selector_configs_per_sequence": 12,
		"selector_calls": tot.evals, "selector_select_none_but_a_feasible_subset_exists": tot.unsolved,
		"selector_select_none_and_infeasible": tot.noneInfeasible,
	}
}
