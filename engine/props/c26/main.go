// C26 — BTC coin selection conserves UTXO value (model_checking).
package main

import (
	"verif.local/engine/ev"
)

func main() {
	r := ev.Start("C26", "model_checking")
	v := newVault()
	cov := selectorLevel(r, v)
	cov["rule"] = "tbd"
	r.Finish(cov)
}
