// C26 — BTC coin selection conserves UTXO value (model_checking).
//
// (a) selector.go: bounded-exhaustive over sorted UTXO sequences x script kinds x (target, min-change, fee rate) through
//
//	CoinSelector.Select / SimpleBnbSearch / SortedSearch.
//
// (b) handler.go: mc.BFS over histories of <= 3 withdrawals on the production path (ImportOuterTransfer -> BTCHandler.
//
//	MakeTransaction -> makeBtcTx -> chooseUtxos) in a world seeded through the production BTC deposit path.
package main

import (
	"os"
	"runtime/debug"

	_ "github.com/polynetwork/poly/native/service"
	"verif.local/engine/ev"
)

func main() {
	debug.SetGCPercent(300)
	debug.SetMemoryLimit(5 << 30)
	r := ev.Start("C26", "model_checking")
	v := newVault()
	cov := map[string]any{}
	only := os.Getenv("VERIF_C26_ONLY")
	if only != "handler" {
		for k, x := range selectorLevel(r, v) {
			cov[k] = x
		}
	}
	if only != "selector" {
		for k, x := range handlerLevel(r, v) {
			cov[k] = x
		}
	}
	cov["rule"] = "selected inputs pairwise distinct, all in the unspent set of the redeem script, sum(values) == reported total, " +
		"total == payment or total >= payment + min-change, fee == estimator(returned selection); per withdrawal: unspent' = unspent - selection, " +
		"spent' = spent + selection (full outpoints txid:index), no outpoint selected twice in a history or both unspent and spent, change output == sum(inputs) - payment, outputs <= inputs, no panic"
	r.Assume("the vote router's quorum logic (C25) delivers the X->BTC message unchanged to BTCHandler.MakeTransaction",
		"regtest proof of work and a one-transaction merkle block stand in for real Bitcoin blocks on the deposit path",
		"MultiSign is explored only as the two-signature completion of the oldest pending withdrawal, and only in the sibling-outpoint worlds",
		"sibling outpoints with index 2 (three vault outputs of one BTC transaction) cannot arise from the contract's own transactions: those worlds' unspent record is written directly with the record's exported codec")
	if r.NViolations() == 0 && only == "" {
		r.Require("selector:select-returned", "selector:select-none", "selector:total-exact", "selector:total-with-change",
			"handler:withdrawal-ok", "handler:withdrawal-rejected", "handler:total-exact", "handler:total-with-change",
			"handler:multisign-completed", "handler:states-with-sibling-outpoints", "handler:sibling-worlds-with-equal-values-through-real-path",
			"handler:selected-a-sibling-leaving-a-not-lower-valued-one")
	}
	r.Finish(cov)
}
