package main

// C26 (b) — handler level: histories of <= 3 withdrawals X -> BTC on the production transaction path
//   ImportOuterTransfer (vote-router source chain, quorum of validator votes) -> btc.BTCHandler.MakeTransaction
//   -> makeBtcTx -> chooseUtxos -> CoinSelector.Select
// over a world whose UTXO set was created by the production BTC -> X import path (regtest headers with real proof of
// work synced through header_sync, SPV merkle-block proof, MakeDepositProposal -> addUtxos). Side chains, redeem
// script / contract binding and BtcTxParam are registered through the real side_chain_manager transactions
// (RegisterRedeem / SetBtcTxParam signed by the redeem keys).

import (
	"bytes"
	"crypto/sha256"
	"encoding/binary"
	"encoding/hex"
	"fmt"
	"sort"
	"strconv"
	"strings"
	"sync"
	"time"

	"github.com/btcsuite/btcd/blockchain"
	"github.com/btcsuite/btcd/btcec"
	"github.com/btcsuite/btcd/chaincfg"
	"github.com/btcsuite/btcd/chaincfg/chainhash"
	"github.com/btcsuite/btcd/txscript"
	"github.com/btcsuite/btcd/wire"
	"github.com/btcsuite/btcutil"
	bchhash "github.com/gcash/bchd/chaincfg/chainhash"
	wire_bch "github.com/gcash/bchd/wire"
	"github.com/polynetwork/poly/common"
	cstates "github.com/polynetwork/poly/core/states"
	"github.com/polynetwork/poly/core/types"
	"github.com/polynetwork/poly/native/service/cross_chain_manager/btc"
	scom "github.com/polynetwork/poly/native/service/cross_chain_manager/common"
	"github.com/polynetwork/poly/native/service/governance/side_chain_manager"
	"github.com/polynetwork/poly/native/service/utils"
	"verif.local/engine/ev"
	"verif.local/engine/lib/ccm"
	"verif.local/engine/lib/hsenv"
	"verif.local/engine/mc"
	"verif.local/engine/polyenv"
)

const (
	btcChain = uint64(1)
	srcChain = uint64(2)
	rootH    = uint32(100)
)

var fromContract = []byte{0xc2, 0x6c, 0x0c, 0x4b, 0x1d, 0x01, 0x02, 0x03, 0x04, 0x05, 0x06, 0x07, 0x08, 0x09, 0x0a, 0x0b, 0x0c, 0x0d, 0x0e, 0x0f}

type hparam struct {
	FeeRate, MC uint64
}

type henv struct {
	v     *vault
	env   *hsenv.Env
	nonce uint32
	mu    sync.Mutex
}

func (e *henv) nn() uint32 {
	e.mu.Lock()
	defer e.mu.Unlock()
	e.nonce++
	return e.nonce
}

func sinkBytes(f func(s *common.ZeroCopySink)) []byte {
	s := common.NewZeroCopySink(nil)
	f(s)
	return s.Bytes()
}

func (e *henv) sign2(hash []byte) [][]byte {
	var out [][]byte
	for _, k := range e.v.Keys[:2] {
		sig, err := k.Sign(hash)
		must(err)
		out = append(out, sig.Serialize())
	}
	return out
}

func mustOK(what string, r polyenv.Result) {
	if !r.OK {
		panic(fmt.Sprintf("%s failed: %v", what, r.Err))
	}
}

func ser80(h *wire.BlockHeader) []byte {
	var b bytes.Buffer
	must(h.Serialize(&b))
	return b.Bytes()
}

func mineHeader(h *wire.BlockHeader) {
	target := blockchain.CompactToBig(h.Bits)
	for n := uint32(0); ; n++ {
		h.Nonce = n
		bh := h.BlockHash()
		if blockchain.HashToBig(&bh).Cmp(target) <= 0 {
			return
		}
	}
}

// buildBase: genesis, two side chains (BTC regtest = 1, vote-router chain = 2), redeem binding, BtcTxParam, BTC genesis header.
func (e *henv) buildBase(sim *hsenv.Sim, p hparam) polyenv.Dump {
	sim.Load(nil)
	g := polyenv.GenesisBlock(e.env.Vals)
	for _, tx := range g.Transactions {
		mustOK("genesis", sim.Exec(tx, 0, g.Header.Timestamp))
	}
	owner := polyenv.Key(900)
	for _, sc := range []ccm.SC{
		{ID: btcChain, Router: utils.BTC_ROUTER, Wait: 1, Name: "btc-regtest", CCMC: ccm.LE64(uint64(utils.TyRegtest))},
		{ID: srcChain, Router: utils.VOTE_ROUTER, Wait: 1, Name: "vote-src", CCMC: []byte{2}},
	} {
		mustOK("registerSideChain", sim.Exec(ccm.RegisterTx(sc, owner, e.nn()), 1, 1000))
		for i := 0; i < ccm.Quorum(len(e.env.Vals)); i++ {
			mustOK("approveRegisterSideChain", sim.Exec(ccm.ApproveTx(sc.ID, e.env.Vals[i], e.nn()), 1, 1000))
		}
	}
	v := e.v
	// RegisterRedeem: message = hash160(redeem ++ redeemChain ++ contract ++ contractChain ++ version), signed by 2 of the 3 redeem keys
	rr := &side_chain_manager.RegisterRedeemParam{RedeemChainID: btcChain, ContractChainID: srcChain, Redeem: v.Redeem, CVersion: 0, ContractAddress: fromContract}
	msg := append(append(append(append(append([]byte{}, v.Redeem...), utils.GetUint64Bytes(btcChain)...), fromContract...),
		utils.GetUint64Bytes(srcChain)...), utils.GetUint64Bytes(0)...)
	rr.Signs = e.sign2(btcutil.Hash160(msg))
	mustOK("registerRedeem", sim.Exec(polyenv.Tx(utils.SideChainManagerContractAddress, side_chain_manager.REGISTER_REDEEM,
		sinkBytes(rr.Serialization), e.nn(), polyenv.Single(owner)), 1, 1000))
	bp := &side_chain_manager.BtcTxParam{Redeem: v.Redeem, RedeemChainId: btcChain, Detial: &side_chain_manager.BtcTxParamDetial{PVersion: 0, FeeRate: p.FeeRate, MinChange: p.MC}}
	msg = append(append(append(append(append([]byte{}, v.Redeem...), utils.GetUint64Bytes(btcChain)...), utils.GetUint64Bytes(p.FeeRate)...),
		utils.GetUint64Bytes(p.MC)...), utils.GetUint64Bytes(0)...)
	bp.Sigs = e.sign2(btcutil.Hash160(msg))
	mustOK("setBtcTxParam", sim.Exec(polyenv.Tx(utils.SideChainManagerContractAddress, side_chain_manager.SET_BTC_TX_PARAM,
		sinkBytes(bp.Serialization), e.nn(), polyenv.Single(owner)), 1, 1000))
	gh := chaincfg.RegressionNetParams.GenesisBlock.Header
	var hb [4]byte
	binary.BigEndian.PutUint32(hb[:], rootH)
	mustOK("syncGenesisHeader(btc)", sim.Exec(e.env.GenesisTx(btcChain, append(ser80(&gh), hb[:]...)), 1, 1000))
	return sim.Dump()
}

// deposit: one BTC -> chain 2 lock transaction paying `value` to the vault (P2SH or P2WSH of the redeem script), confirmed in
// its own regtest block on top of prev; returns the new tip and the outpoint the handler must record.
func (e *henv) deposit(sim *hsenv.Sim, prev *wire.BlockHeader, height uint32, serial int, c coin) (*wire.BlockHeader, string) {
	v := e.v
	mtx := wire.NewMsgTx(wire.TxVersion)
	ph := sha256.Sum256([]byte(fmt.Sprintf("c26-funding-%d-%d-%s", serial, c.V, c.Kind)))
	prevOut, _ := chainhash.NewHash(ph[:])
	mtx.AddTxIn(wire.NewTxIn(wire.NewOutPoint(prevOut, 0), nil, nil))
	k := byte('S')
	if c.Kind == "P2WSH" {
		k = 'W'
	}
	mtx.AddTxOut(wire.NewTxOut(int64(c.V), v.script(k)))
	args := &btc.Args{ToChainID: srcChain, Fee: 0, Address: bytes.Repeat([]byte{0xab}, 20)}
	data := append([]byte{btc.OP_RETURN_SCRIPT_FLAG}, sinkBytes(args.Serialization)...)
	opret, err := txscript.NewScriptBuilder().AddOp(txscript.OP_RETURN).AddData(data).Script()
	must(err)
	mtx.AddTxOut(wire.NewTxOut(0, opret))
	var raw bytes.Buffer
	must(mtx.BtcEncode(&raw, wire.ProtocolVersion, wire.LatestEncoding))
	txid := mtx.TxHash()
	h := &wire.BlockHeader{Version: 1, PrevBlock: prev.BlockHash(), MerkleRoot: txid,
		Timestamp: time.Unix(1_600_000_000+int64(height), 0), Bits: chaincfg.RegressionNetParams.PowLimitBits}
	mineHeader(h)
	mustOK("syncBlockHeader(btc)", sim.Exec(hsenv.HeadersTx(btcChain, ser80(h)), 2, 1000))
	// SPV proof: merkle block of a one-transaction block
	var bh wire_bch.BlockHeader
	must(bh.Deserialize(bytes.NewReader(ser80(h))))
	th, _ := bchhash.NewHash(txid[:])
	mb := wire_bch.MsgMerkleBlock{Header: bh, Transactions: 1, Hashes: []*bchhash.Hash{th}, Flags: []byte{1}}
	var proof bytes.Buffer
	must(mb.BchEncode(&proof, wire_bch.ProtocolVersion, wire_bch.LatestEncoding))
	relayer := polyenv.Key(30)
	ep := &scom.EntranceParam{SourceChainID: btcChain, Height: height, Proof: proof.Bytes(), RelayerAddress: relayer.Addr[:], Extra: raw.Bytes()}
	mustOK("ImportOuterTransfer(btc deposit)", sim.Exec(ccm.ImportTx(ep, e.nn(), polyenv.Single(relayer)), 2, 1000))
	return h, opKey(txid[:], 0)
}

func opKey(hash []byte, idx uint32) string {
	return hex.EncodeToString(hash) + ":" + strconv.Itoa(int(idx))
}

// ---------------------------------------------------------------------------------------------
// reading the contract storage (exported codec of the stored record, raw store key built here)

type txo struct {
	Op     string
	Value  uint64
	Script string
}

func txoKey(prefix string, rk []byte) string {
	return polyenv.StorageKey(utils.ConcatKey(utils.CrossChainManagerContractAddress, []byte(prefix), utils.GetUint64Bytes(btcChain),
		[]byte(hex.EncodeToString(rk))))
}

func readTxos(raw string) []txo {
	if raw == "" {
		return nil
	}
	val, err := cstates.GetValueFromRawStorageItem([]byte(raw))
	must(err)
	us := &btc.Utxos{}
	must(us.Deserialization(common.NewZeroCopySource(val)))
	out := make([]txo, 0, len(us.Utxos))
	for _, u := range us.Utxos {
		out = append(out, txo{opKey(u.Op.Hash, u.Op.Index), u.Value, hex.EncodeToString(u.ScriptPubkey)})
	}
	return out
}

func dumpGet(d polyenv.Dump, k string) string {
	i := sort.Search(len(d), func(i int) bool { return d[i].K >= k })
	if i < len(d) && d[i].K == k {
		return d[i].V
	}
	return ""
}

// ---------------------------------------------------------------------------------------------

type hstate struct {
	d     polyenv.Dump
	path  string          // withdrawal history so far (ids are derived from it)
	spent map[string]bool // reference model: outpoints selected by any earlier withdrawal
	last  *stepObs        // observation of the transition that produced this state
}

type stepObs struct {
	Amount   uint64
	OK       bool
	Err      string
	Panic    string
	RawTx    string
	Amts     []uint64
	VoteErrs []string
}

type hviol struct {
	Seed    []coin   `json:"deposits_in_order"`
	FeeRate uint64   `json:"fee_rate"`
	MC      uint64   `json:"min_change"`
	History []string `json:"withdrawal_amounts"`
	What    string   `json:"what"`
	Detail  any      `json:"detail"`
	rank    [3]int
}

type hstats struct {
	mu                                                 sync.Mutex
	states, transitions, maxDepth                      int
	ok, fail, exact, change, configs, deposits, panics int64
	failWhy                                            map[string]int64
	cases                                              map[string]bool
	viols                                              map[string]*hviol
	samples                                            []any
	panicSample                                        []*hviol
}

func (s *hstats) viol(key string, v *hviol) {
	s.mu.Lock()
	defer s.mu.Unlock()
	if o, ok := s.viols[key]; ok {
		for i := 0; i < 3; i++ {
			if o.rank[i] != v.rank[i] {
				if o.rank[i] < v.rank[i] {
					return
				}
				break
			}
		}
		if o.rank == v.rank {
			return
		}
	}
	s.viols[key] = v
}

func (e *henv) withdrawTxs(path string, amount uint64) []*types.Transaction {
	id := sha256.Sum256([]byte("c26-withdraw/" + path))
	args := sinkBytes(func(s *common.ZeroCopySink) {
		s.WriteVarBytes([]byte(e.v.Payee))
		s.WriteUint64(amount)
		s.WriteVarBytes(e.v.Redeem)
	})
	extra := ccm.MsgBytes(ccm.Msg(id[:], id[:], fromContract, btcChain, []byte("btc"), "unlock", args))
	var txs []*types.Transaction
	for i := 0; i < ccm.Quorum(len(e.env.Vals)); i++ {
		txs = append(txs, ccm.VoteImport(srcChain, 500, extra, e.env.Vals[i], e.nn()))
	}
	return txs
}

// runConfig explores every history of <= depth withdrawals (amount alphabet) from one seeded world.
func (e *henv) runConfig(r *ev.Run, st *hstats, sim *hsenv.Sim, base polyenv.Dump, p hparam, seed []coin, cfgRank int, amounts []uint64, depth int) {
	sim.Load(base)
	gh := chaincfg.RegressionNetParams.GenesisBlock.Header
	tip := &gh
	model := map[string]txo{} // reference: what the deposits must have created
	var order []string
	for i, c := range seed {
		var op string
		tip, op = e.deposit(sim, tip, rootH+1+uint32(i), i, c)
		k := byte('S')
		if c.Kind == "P2WSH" {
			k = 'W'
		}
		model[op] = txo{op, c.V, hex.EncodeToString(e.v.script(k))}
		order = append(order, op)
	}
	init := sim.Dump()
	uKey, sKey := txoKey(btc.UTXOS, e.v.RK), txoKey(btc.STXOS, e.v.RK)
	mk := func(hist []string, what string, detail any) *hviol {
		return &hviol{Seed: seed, FeeRate: p.FeeRate, MC: p.MC, History: append([]string{}, hist...), What: what, Detail: detail,
			rank: [3]int{len(hist), len(seed), cfgRank}}
	}
	// the import path must have recorded exactly the deposits (in order)
	got := readTxos(dumpGet(init, uKey))
	if len(got) != len(seed) {
		r.HarnessError("deposit path recorded %d utxos, expected %d", len(got), len(seed))
	}
	for i, g := range got {
		if g != model[order[i]] {
			r.HarnessError("deposit %d recorded as %+v, expected %+v", i, g, model[order[i]])
		}
	}
	if len(readTxos(dumpGet(init, sKey))) != 0 {
		r.HarnessError("stxo record not empty after deposits")
	}
	changeScript := hex.EncodeToString(e.v.P2WSH)
	payeeScript := hex.EncodeToString(e.v.PayeeS)

	cfg := mc.Config[*hstate]{
		Init:     []*hstate{{d: init, spent: map[string]bool{}}},
		MaxDepth: depth, Workers: 1,
		Events: func(s *hstate, d int) []string {
			out := make([]string, len(amounts))
			for i, a := range amounts {
				out[i] = strconv.FormatUint(a, 10)
			}
			return out
		},
		Key: func(s *hstate) string {
			return dumpGet(s.d, uKey) + "|" + dumpGet(s.d, sKey)
		},
		Step: func(s *hstate, evn string) (*hstate, bool) {
			amount, _ := strconv.ParseUint(evn, 10, 64)
			sim.Load(s.d)
			np := s.path + "/" + evn
			obs := &stepObs{Amount: amount}
			txs := e.withdrawTxs(np, amount)
			var res polyenv.Result
			for i, tx := range txs {
				res = sim.Exec(tx, 3, 1000)
				if i < len(txs)-1 && !res.OK {
					obs.VoteErrs = append(obs.VoteErrs, fmt.Sprint(res.Err))
				}
			}
			obs.OK = res.OK
			if res.Err != nil {
				obs.Err = res.Err.Error()
			}
			if res.Panic != nil {
				obs.Panic = fmt.Sprint(res.Panic)
			}
			if res.OK && res.Notify != nil {
				for _, n := range res.Notify.Notify {
					sts, ok := n.States.([]interface{})
					if !ok || len(sts) < 4 || sts[0] != "makeBtcTx" {
						continue
					}
					obs.RawTx, _ = sts[2].(string)
					obs.Amts, _ = sts[3].([]uint64)
				}
			}
			nx := &hstate{d: sim.Dump(), path: np, spent: s.spent, last: obs}
			return nx, true
		},
		Check: func(prev *hstate, evn string, next *hstate, path []string) {
			obs := next.last
			st.mu.Lock()
			st.transitions++
			if len(path) > st.maxDepth {
				st.maxDepth = len(path)
			}
			st.mu.Unlock()
			ub, sb := readTxos(dumpGet(prev.d, uKey)), readTxos(dumpGet(prev.d, sKey))
			ua, sa := readTxos(dumpGet(next.d, uKey)), readTxos(dumpGet(next.d, sKey))
			if len(obs.VoteErrs) > 0 {
				r.HarnessError("a non-deciding vote failed: %v", obs.VoteErrs)
			}
			if obs.Panic != "" {
				st.mu.Lock()
				st.panics++
				// the property does not state panic-freedom: counted and reported as an observation only
				if len(st.panicSample) < 3 {
					st.panicSample = append(st.panicSample, mk(path, "panic inside the withdrawal transaction", obs.Panic))
				}
				st.mu.Unlock()
				return
			}
			if !obs.OK {
				why := "other"
				switch {
				case strings.Contains(obs.Err, "current utxo is not enough"):
					why = "utxo-not-enough"
				}
				st.mu.Lock()
				st.fail++
				st.failWhy[why]++
				st.cases[fmt.Sprintf("h/fail/%s/left%d", why, len(ub))] = true
				st.mu.Unlock()
				if why == "other" {
					r.HarnessError("withdrawal failed for an unexpected reason: %s", obs.Err)
				}
				if fmt.Sprint(ub) != fmt.Sprint(ua) || fmt.Sprint(sb) != fmt.Sprint(sa) {
					st.viol("handler/failed-withdrawal-changed-utxo-or-stxo-record", mk(path, "a rejected withdrawal left a trace in the unspent / spent records", map[string]any{"utxo_before": ub, "utxo_after": ua, "stxo_before": sb, "stxo_after": sa}))
				}
				return
			}
			// ---- successful withdrawal: decode the raw BTC transaction the contract produced
			rawb, err := hex.DecodeString(obs.RawTx)
			mtx := wire.NewMsgTx(wire.TxVersion)
			if err != nil || obs.RawTx == "" || mtx.BtcDecode(bytes.NewReader(rawb), wire.ProtocolVersion, wire.LatestEncoding) != nil {
				r.HarnessError("makeBtcTx event without a decodable raw transaction: %q", obs.RawTx)
			}
			before := map[string]txo{}
			for _, u := range ub {
				before[u.Op] = u
			}
			detail := map[string]any{"amount": obs.Amount, "utxo_before": ub, "utxo_after": ua, "stxo_before": sb, "stxo_after": sa, "raw_tx": obs.RawTx}
			var sel []txo
			seen := map[string]bool{}
			var sum uint64
			bad := false
			nspent := map[string]bool{}
			for k := range prev.spent {
				nspent[k] = true
			}
			for i, in := range mtx.TxIn {
				k := opKey(in.PreviousOutPoint.Hash[:], in.PreviousOutPoint.Index)
				if seen[k] {
					st.viol("handler/input-selected-twice-in-one-transaction", mk(path, "the produced transaction spends the same outpoint twice", detail))
					bad = true
				}
				seen[k] = true
				if prev.spent[k] {
					st.viol("handler/outpoint-selected-again-in-a-later-withdrawal", mk(path, "an outpoint selected by an earlier withdrawal is selected again", detail))
					bad = true
				}
				nspent[k] = true
				u, ok := before[k]
				if !ok {
					st.viol("handler/input-not-in-unspent-set", mk(path, "an input of the produced transaction is not in the unspent record of the redeem script", detail))
					bad = true
					continue
				}
				if m, ok := model[k]; !ok || m != u {
					st.viol("handler/unspent-record-differs-from-deposits", mk(path, "unspent record entry differs from what was deposited", detail))
					bad = true
				}
				if i < len(obs.Amts) && obs.Amts[i] != u.Value || len(obs.Amts) != len(mtx.TxIn) {
					st.viol("handler/notified-input-amounts-differ-from-unspent-values", mk(path, "the makeBtcTx event reports input amounts that differ from the recorded values", detail))
				}
				// the unsigned tx carries the spent output's lock script in the signature-script slot (consumed by MultiSign)
				if hex.EncodeToString(in.SignatureScript) != u.Script {
					st.viol("handler/input-script-differs-from-unspent-record", mk(path, "input lock script differs from the recorded one", detail))
				}
				sel = append(sel, u)
				sum += u.Value
			}
			next.spent = nspent
			if len(mtx.TxIn) == 0 {
				st.viol("handler/transaction-without-inputs", mk(path, "a withdrawal transaction without inputs was produced", detail))
				return
			}
			detail["selected"] = sel
			detail["sum_of_selected_values"] = sum
			// unspent' == unspent - selection ; spent' == spent + selection (as multisets)
			wantU := []string{}
			for _, u := range ub {
				if !seen[u.Op] {
					wantU = append(wantU, fmt.Sprint(u))
				}
			}
			gotU := []string{}
			for _, u := range ua {
				gotU = append(gotU, fmt.Sprint(u))
			}
			sort.Strings(wantU)
			sort.Strings(gotU)
			if strings.Join(wantU, ";") != strings.Join(gotU, ";") {
				st.viol("handler/unspent-set-not-reduced-by-exactly-the-selection", mk(path, "unspent record after != unspent record before minus the transaction inputs", detail))
			}
			wantS, gotS := []string{}, []string{}
			for _, u := range sb {
				wantS = append(wantS, fmt.Sprint(u))
			}
			for _, u := range sel {
				wantS = append(wantS, fmt.Sprint(u))
			}
			for _, u := range sa {
				gotS = append(gotS, fmt.Sprint(u))
			}
			sort.Strings(wantS)
			sort.Strings(gotS)
			if strings.Join(wantS, ";") != strings.Join(gotS, ";") {
				st.viol("handler/spent-record-not-extended-by-exactly-the-selection", mk(path, "spent record after != spent record before plus the transaction inputs", detail))
			}
			if bad {
				return
			}
			// outputs: payee (amount minus the fee share), optional change back to the vault (P2WSH of the redeem script)
			var payee, change int64
			nPayee, nChange := 0, 0
			for _, o := range mtx.TxOut {
				switch hex.EncodeToString(o.PkScript) {
				case payeeScript:
					payee += o.Value
					nPayee++
				case changeScript:
					change += o.Value
					nChange++
				default:
					st.viol("handler/unexpected-output", mk(path, "output to an unknown script", detail))
				}
			}
			detail["payee_output"], detail["change_output"] = payee, change
			detail["implied_miner_fee"] = int64(sum) - payee - change
			if nPayee != 1 || nChange > 1 {
				st.viol("handler/unexpected-output-count", mk(path, "expected one payee output and at most one change output", detail))
			}
			// the total the contract worked with is visible as payment + change; if it differs from the real input sum: does it
			// count unspent outputs that are not inputs of the transaction?
			shape := ""
			if reported := int64(obs.Amount) + change; reported != int64(sum) {
				shape = ":other"
				if reported < int64(sum) {
					shape = ":total-below-inputs"
				}
				var rest []uint64
				for _, u := range ub {
					if !seen[u.Op] {
						rest = append(rest, u.Value)
					}
				}
				for mask := 1; mask < 1<<len(rest) && reported > int64(sum); mask++ {
					var x uint64
					for i := range rest {
						if mask>>i&1 == 1 {
							x += rest[i]
						}
					}
					if x == uint64(reported)-sum {
						shape = ":total-includes-unselected-utxos"
						break
					}
				}
			}
			if !(sum == obs.Amount || sum >= obs.Amount+p.MC) {
				st.viol("handler/input-total-neither-payment-nor-payment-plus-min-change"+shape, mk(path, "sum of the selected inputs is neither the payment nor >= payment + min-change", detail))
			}
			if change != int64(sum)-int64(obs.Amount) {
				st.viol("handler/change-output-ne-inputs-minus-payment"+shape, mk(path, "change output != sum of the selected inputs - payment", detail))
			}
			if payee <= 0 || payee > int64(obs.Amount) {
				st.viol("handler/payee-output-outside-0-payment", mk(path, "payee output is not in (0, payment]", detail))
			}
			if int64(sum)-payee-change < 0 {
				st.viol("handler/outputs-exceed-inputs"+shape, mk(path, "the produced transaction pays out more than its inputs carry (invalid on Bitcoin)", detail))
			}
			st.mu.Lock()
			st.ok++
			kind := "change"
			if sum == obs.Amount {
				st.exact++
				kind = "exact"
			} else {
				st.change++
			}
			st.cases[fmt.Sprintf("h/ok/d%d/in%d/%s/left%d", len(path), len(sel), kind, len(ua))] = true
			if len(st.samples) < 3 && len(path) == 2 {
				st.samples = append(st.samples, map[string]any{"deposits": seed, "fee_rate": p.FeeRate, "min_change": p.MC, "history": append([]string{}, path...), "selected": sel, "payee": payee, "change": change})
			}
			st.mu.Unlock()
		},
		Stop: r.Expired,
	}
	res := mc.BFS(cfg)
	st.mu.Lock()
	st.states += res.States
	st.configs++
	st.deposits += int64(len(seed))
	st.mu.Unlock()
}

func handlerLevel(r *ev.Run, v *vault) map[string]any {
	// one validator: the vote router then needs exactly one ImportOuterTransfer per withdrawal (quorum logic is C25's subject)
	vals := polyenv.Keys(1)
	polyenv.Setup(0, vals)
	polyenv.InstallHeightLedger()
	e := &henv{v: v, env: &hsenv.Env{Vals: vals}, nonce: 5000}
	polyenv.GlobalHeight = 1
	const t = 100000
	values := []uint64{t / 2, t, t * 13 / 10, t * 14 / 10}
	amounts := []uint64{t / 2, t*8/10 + 1, t, t * 13 / 10, 2 * t, t * 27 / 10} // 130000-80001 = min-change 50000 - 1
	maxSeed := r.QT(4, 5)
	depth := 3
	if r.Thorough() {
		values = append(values, 4*t+1)
		amounts = append(amounts, t*4/10)
	}
	// fee rate 300 makes a one-P2SH-input transaction cost more than a payment of t (the "loss ratio" rejection regime)
	params := []hparam{}
	for _, fr := range []uint64{1, 300} {
		for _, mcv := range []uint64{2000, t / 2, t * 5 / 2} {
			params = append(params, hparam{fr, mcv})
		}
	}
	var types []coin
	for _, val := range values {
		types = append(types, coin{val, "P2SH"}, coin{val, "P2WSH"})
	}
	var seeds [][]coin
	var gen func(n int, cur []coin, from int)
	gen = func(n int, cur []coin, from int) {
		if len(cur) == n {
			seeds = append(seeds, append([]coin(nil), cur...))
			return
		}
		for i := from; i < len(types); i++ {
			gen(n, append(cur, types[i]), i)
		}
	}
	for n := 1; n <= maxSeed; n++ {
		gen(n, nil, 0)
	}
	st := &hstats{failWhy: map[string]int64{}, cases: map[string]bool{}, viols: map[string]*hviol{}}
	type job struct {
		p    hparam
		seed []coin
		rank int
	}
	var jobs []job
	for si, s := range seeds {
		for pi, p := range params {
			jobs = append(jobs, job{p, s, si*len(params) + pi})
		}
	}
	workers := 8
	var wg sync.WaitGroup
	var mu sync.Mutex
	next, done := 0, 0
	capped := false
	for w := 0; w < workers; w++ {
		wg.Add(1)
		go func() {
			defer wg.Done()
			sim := hsenv.NewSim()
			defer sim.Close()
			bases := map[hparam]polyenv.Dump{}
			for {
				mu.Lock()
				if next >= len(jobs) || capped {
					mu.Unlock()
					return
				}
				if r.Expired() {
					capped = true
					mu.Unlock()
					return
				}
				j := jobs[next]
				next++
				mu.Unlock()
				b, ok := bases[j.p]
				if !ok {
					b = e.buildBase(sim, j.p)
					bases[j.p] = b
				}
				e.runConfig(r, st, sim, b, j.p, j.seed, j.rank, amounts, depth)
				mu.Lock()
				done++
				mu.Unlock()
			}
		}()
	}
	wg.Wait()
	if capped {
		r.Capped(fmt.Sprintf("handler level: deadline hit after %d of %d configurations", done, len(jobs)))
	}
	r.Evals(st.transitions)
	for k := range st.cases {
		r.Case(k)
	}
	note := func(name string, n int64) {
		if n > 0 {
			r.Class(name)
		}
		r.Note("count:"+name, n)
	}
	note("handler:withdrawal-ok", st.ok)
	note("handler:withdrawal-rejected", st.fail)
	note("handler:total-exact", st.exact)
	note("handler:total-with-change", st.change)
	for k, n := range st.failWhy {
		note("handler:rejected:"+k, n)
	}
	note("handler:panic", st.panics)
	if len(st.panicSample) > 0 {
		r.Note("handler_panics_observed", st.panicSample)
	}
	for _, s := range st.samples {
		r.Sample(s)
	}
	keys := make([]string, 0, len(st.viols))
	for k := range st.viols {
		keys = append(keys, k)
	}
	sort.Strings(keys)
	for _, k := range keys {
		r.Violation(k, st.viols[k])
	}
	return map[string]any{
		"states": st.states, "transitions": st.transitions, "traces_validated_against_impl": st.transitions, "max_depth": st.maxDepth,
		"handler_configurations": st.configs, "handler_deposits_through_spv_import": st.deposits,
		"handler_seed_sets": len(seeds), "handler_params": params, "handler_amount_alphabet": amounts, "handler_seed_values": values,
		"handler_max_seed_utxos": maxSeed,
	}
}

var _ = btcec.S256
