package main

// C26 (b) — handler level: histories of <= 3 withdrawals X -> BTC on the production transaction path
//   ImportOuterTransfer (vote-router source chain, quorum of validator votes) -> btc.BTCHandler.MakeTransaction
//   -> makeBtcTx -> chooseUtxos -> CoinSelector.Select
// over a world whose UTXO set was created by the production BTC -> X import path (regtest headers with real proof of
// work synced through header_sync, SPV merkle-block proof, MakeDepositProposal -> addUtxos). Side chains, redeem
// script / contract binding and BtcTxParam are registered through the real side_chain_manager transactions
// (RegisterRedeem / SetBtcTxParam signed by the redeem keys).

import (
	"bytes"
	"crypto/sha256"
	"encoding/binary"
	"encoding/hex"
	"fmt"
	"sort"
	"strconv"
	"sync"
	"time"

	"github.com/btcsuite/btcd/blockchain"
	"github.com/btcsuite/btcd/chaincfg"
	"github.com/btcsuite/btcd/chaincfg/chainhash"
	"github.com/btcsuite/btcd/txscript"
	"github.com/btcsuite/btcd/wire"
	"github.com/btcsuite/btcutil"
	bchhash "github.com/gcash/bchd/chaincfg/chainhash"
	wire_bch "github.com/gcash/bchd/wire"
	"github.com/polynetwork/poly/common"
	cstates "github.com/polynetwork/poly/core/states"
	"github.com/polynetwork/poly/native/service/cross_chain_manager/btc"
	scom "github.com/polynetwork/poly/native/service/cross_chain_manager/common"
	"github.com/polynetwork/poly/native/service/governance/side_chain_manager"
	"github.com/polynetwork/poly/native/service/utils"
	"verif.local/engine/lib/ccm"
	"verif.local/engine/lib/hsenv"
	"verif.local/engine/polyenv"
)

const (
	btcChain = uint64(1)
	srcChain = uint64(2)
	rootH    = uint32(100)
)

var fromContract = []byte{0xc2, 0x6c, 0x0c, 0x4b, 0x1d, 0x01, 0x02, 0x03, 0x04, 0x05, 0x06, 0x07, 0x08, 0x09, 0x0a, 0x0b, 0x0c, 0x0d, 0x0e, 0x0f}

type hparam struct {
	FeeRate, MC uint64
}

type henv struct {
	v     *vault
	env   *hsenv.Env
	nonce uint32
	mu    sync.Mutex
}

func (e *henv) nn() uint32 {
	e.mu.Lock()
	defer e.mu.Unlock()
	e.nonce++
	return e.nonce
}

func sinkBytes(f func(s *common.ZeroCopySink)) []byte {
	s := common.NewZeroCopySink(nil)
	f(s)
	return s.Bytes()
}

func (e *henv) sign2(hash []byte) [][]byte {
	var out [][]byte
	for _, k := range e.v.Keys[:2] {
		sig, err := k.Sign(hash)
		must(err)
		out = append(out, sig.Serialize())
	}
	return out
}

func mustOK(what string, r polyenv.Result) {
	if !r.OK {
		panic(fmt.Sprintf("%s failed: %v", what, r.Err))
	}
}

func ser80(h *wire.BlockHeader) []byte {
	var b bytes.Buffer
	must(h.Serialize(&b))
	return b.Bytes()
}

func mineHeader(h *wire.BlockHeader) {
	target := blockchain.CompactToBig(h.Bits)
	for n := uint32(0); ; n++ {
		h.Nonce = n
		bh := h.BlockHash()
		if blockchain.HashToBig(&bh).Cmp(target) <= 0 {
			return
		}
	}
}

// buildBase: genesis, two side chains (BTC regtest = 1, vote-router chain = 2), redeem binding, BtcTxParam, BTC genesis header.
func (e *henv) buildBase(sim *hsenv.Sim, p hparam) polyenv.Dump {
	sim.Load(nil)
	g := polyenv.GenesisBlock(e.env.Vals)
	for _, tx := range g.Transactions {
		mustOK("genesis", sim.Exec(tx, 0, g.Header.Timestamp))
	}
	owner := polyenv.Key(900)
	for _, sc := range []ccm.SC{
		{ID: btcChain, Router: utils.BTC_ROUTER, Wait: 1, Name: "btc-regtest", CCMC: ccm.LE64(uint64(utils.TyRegtest))},
		{ID: srcChain, Router: utils.VOTE_ROUTER, Wait: 1, Name: "vote-src", CCMC: []byte{2}},
	} {
		mustOK("registerSideChain", sim.Exec(ccm.RegisterTx(sc, owner, e.nn()), 1, 1000))
		for i := 0; i < ccm.Quorum(len(e.env.Vals)); i++ {
			mustOK("approveRegisterSideChain", sim.Exec(ccm.ApproveTx(sc.ID, e.env.Vals[i], e.nn()), 1, 1000))
		}
	}
	v := e.v
	// RegisterRedeem: message = hash160(redeem ++ redeemChain ++ contract ++ contractChain ++ version), signed by 2 of the 3 redeem keys
	rr := &side_chain_manager.RegisterRedeemParam{RedeemChainID: btcChain, ContractChainID: srcChain, Redeem: v.Redeem, CVersion: 0, ContractAddress: fromContract}
	msg := append(append(append(append(append([]byte{}, v.Redeem...), utils.GetUint64Bytes(btcChain)...), fromContract...),
		utils.GetUint64Bytes(srcChain)...), utils.GetUint64Bytes(0)...)
	rr.Signs = e.sign2(btcutil.Hash160(msg))
	mustOK("registerRedeem", sim.Exec(polyenv.Tx(utils.SideChainManagerContractAddress, side_chain_manager.REGISTER_REDEEM,
		sinkBytes(rr.Serialization), e.nn(), polyenv.Single(owner)), 1, 1000))
	bp := &side_chain_manager.BtcTxParam{Redeem: v.Redeem, RedeemChainId: btcChain, Detial: &side_chain_manager.BtcTxParamDetial{PVersion: 0, FeeRate: p.FeeRate, MinChange: p.MC}}
	msg = append(append(append(append(append([]byte{}, v.Redeem...), utils.GetUint64Bytes(btcChain)...), utils.GetUint64Bytes(p.FeeRate)...),
		utils.GetUint64Bytes(p.MC)...), utils.GetUint64Bytes(0)...)
	bp.Sigs = e.sign2(btcutil.Hash160(msg))
	mustOK("setBtcTxParam", sim.Exec(polyenv.Tx(utils.SideChainManagerContractAddress, side_chain_manager.SET_BTC_TX_PARAM,
		sinkBytes(bp.Serialization), e.nn(), polyenv.Single(owner)), 1, 1000))
	gh := chaincfg.RegressionNetParams.GenesisBlock.Header
	var hb [4]byte
	binary.BigEndian.PutUint32(hb[:], rootH)
	mustOK("syncGenesisHeader(btc)", sim.Exec(e.env.GenesisTx(btcChain, append(ser80(&gh), hb[:]...)), 1, 1000))
	return sim.Dump()
}

// deposit: one BTC -> chain 2 lock transaction paying `value` to the vault (P2SH or P2WSH of the redeem script), confirmed in
// its own regtest block on top of prev; returns the new tip and the outpoint the handler must record.
func (e *henv) deposit(sim *hsenv.Sim, prev *wire.BlockHeader, height uint32, serial int, c coin) (*wire.BlockHeader, string) {
	v := e.v
	mtx := wire.NewMsgTx(wire.TxVersion)
	ph := sha256.Sum256([]byte(fmt.Sprintf("c26-funding-%d-%d-%s", serial, c.V, c.Kind)))
	prevOut, _ := chainhash.NewHash(ph[:])
	mtx.AddTxIn(wire.NewTxIn(wire.NewOutPoint(prevOut, 0), nil, nil))
	k := byte('S')
	if c.Kind == "P2WSH" {
		k = 'W'
	}
	mtx.AddTxOut(wire.NewTxOut(int64(c.V), v.script(k)))
	args := &btc.Args{ToChainID: srcChain, Fee: 0, Address: bytes.Repeat([]byte{0xab}, 20)}
	data := append([]byte{btc.OP_RETURN_SCRIPT_FLAG}, sinkBytes(args.Serialization)...)
	opret, err := txscript.NewScriptBuilder().AddOp(txscript.OP_RETURN).AddData(data).Script()
	must(err)
	mtx.AddTxOut(wire.NewTxOut(0, opret))
	var raw bytes.Buffer
	must(mtx.BtcEncode(&raw, wire.ProtocolVersion, wire.LatestEncoding))
	txid := mtx.TxHash()
	h := &wire.BlockHeader{Version: 1, PrevBlock: prev.BlockHash(), MerkleRoot: txid,
		Timestamp: time.Unix(1_600_000_000+int64(height), 0), Bits: chaincfg.RegressionNetParams.PowLimitBits}
	mineHeader(h)
	mustOK("syncBlockHeader(btc)", sim.Exec(hsenv.HeadersTx(btcChain, ser80(h)), 2, 1000))
	// SPV proof: merkle block of a one-transaction block
	var bh wire_bch.BlockHeader
	must(bh.Deserialize(bytes.NewReader(ser80(h))))
	th, _ := bchhash.NewHash(txid[:])
	mb := wire_bch.MsgMerkleBlock{Header: bh, Transactions: 1, Hashes: []*bchhash.Hash{th}, Flags: []byte{1}}
	var proof bytes.Buffer
	must(mb.BchEncode(&proof, wire_bch.ProtocolVersion, wire_bch.LatestEncoding))
	relayer := polyenv.Key(30)
	ep := &scom.EntranceParam{SourceChainID: btcChain, Height: height, Proof: proof.Bytes(), RelayerAddress: relayer.Addr[:], Extra: raw.Bytes()}
	mustOK("ImportOuterTransfer(btc deposit)", sim.Exec(ccm.ImportTx(ep, e.nn(), polyenv.Single(relayer)), 2, 1000))
	return h, opKey(txid[:], 0)
}

func opKey(hash []byte, idx uint32) string {
	return hex.EncodeToString(hash) + ":" + strconv.Itoa(int(idx))
}

// ---------------------------------------------------------------------------------------------
// reading the contract storage (exported codec of the stored record, raw store key built here)

type txo struct {
	Op     string
	Value  uint64
	Script string
}

func txoKey(prefix string, rk []byte) string {
	return polyenv.StorageKey(utils.ConcatKey(utils.CrossChainManagerContractAddress, []byte(prefix), utils.GetUint64Bytes(btcChain),
		[]byte(hex.EncodeToString(rk))))
}

func readTxos(raw string) []txo {
	if raw == "" {
		return nil
	}
	val, err := cstates.GetValueFromRawStorageItem([]byte(raw))
	must(err)
	us := &btc.Utxos{}
	must(us.Deserialization(common.NewZeroCopySource(val)))
	out := make([]txo, 0, len(us.Utxos))
	for _, u := range us.Utxos {
		out = append(out, txo{opKey(u.Op.Hash, u.Op.Index), u.Value, hex.EncodeToString(u.ScriptPubkey)})
	}
	return out
}

func dumpGet(d polyenv.Dump, k string) string {
	i := sort.Search(len(d), func(i int) bool { return d[i].K >= k })
	if i < len(d) && d[i].K == k {
		return d[i].V
	}
	return ""
}
