package main

// C26 (b) — exploration of withdrawal histories (mc.BFS) and the per-transition oracle.
//
// Event alphabet: "<amount>" = withdrawal X -> BTC to an outside payee; "self:<amount>" = withdrawal whose recipient is the vault's
// own P2WSH address (payment AND change return to the vault: two outputs of one BTC transaction = sibling outpoints);
// "sign" = the real MultiSign transactions of two redeem keys completing the oldest pending withdrawal (its inputs leave the spent
// record, its vault-locked outputs enter the unspent set under the txid of the signed transaction).

import (
	"bytes"
	"crypto/sha256"
	"encoding/hex"
	"fmt"
	"regexp"
	"sort"
	"strconv"
	"strings"
	"sync"

	"github.com/btcsuite/btcd/chaincfg"
	"github.com/btcsuite/btcd/txscript"
	"github.com/btcsuite/btcd/wire"
	"github.com/btcsuite/btcutil"
	"github.com/polynetwork/poly/common"
	cstates "github.com/polynetwork/poly/core/states"
	"github.com/polynetwork/poly/core/types"
	"github.com/polynetwork/poly/native/service/cross_chain_manager/btc"
	scom "github.com/polynetwork/poly/native/service/cross_chain_manager/common"
	"github.com/polynetwork/poly/native/service/utils"
	"verif.local/engine/ev"
	"verif.local/engine/lib/ccm"
	"verif.local/engine/lib/hsenv"
	"verif.local/engine/mc"
	"verif.local/engine/polyenv"
)

type hstate struct {
	d       polyenv.Dump
	path    string          // history so far (ids are derived from it)
	spent   map[string]bool // reference model: outpoints selected by any earlier withdrawal
	known   map[string]txo  // reference model: every outpoint that legitimately entered the unspent set (deposits, vault outputs of completed transactions)
	pending []string        // unsigned raw transactions awaiting MultiSign, oldest first
	last    *stepObs        // observation of the transition that produced this state
}

type stepObs struct {
	Event   string
	Amount  uint64
	Self    bool
	OK      bool
	Err     string
	Panic   string
	RawTx   string
	Amts    []uint64
	Signed  string // sign: the fully signed raw transaction announced by btcTxToRelay
	SignErr []string
}

type synthUtxo struct {
	Txid  string `json:"txid_tag"` // outputs with the same tag share one BTC transaction id
	Index uint32 `json:"index"`
	Value uint64 `json:"value"`
	Kind  string `json:"script"`
}

// hconfig is one explored world.
type hconfig struct {
	Family  string      `json:"family"` // deposits | siblings-real | siblings-synthetic
	P       hparam      `json:"btc_tx_param"`
	Seed    []coin      `json:"deposits_in_order"` // through the production SPV import path
	Prefix  []string    `json:"prefix_events,omitempty"`
	Equal   bool        `json:"self_withdrawal_amount_chosen_so_that_payment_equals_change,omitempty"`
	Synth   []synthUtxo `json:"unspent_record_written_directly_in_this_storage_order,omitempty"`
	Amounts []uint64    `json:"amount_alphabet,omitempty"`
	Sign    bool        `json:"sign_event,omitempty"`
	rank    int
}

type hviol struct {
	Config  *hconfig `json:"world"`
	History []string `json:"events"`
	What    string   `json:"what"`
	Detail  any      `json:"detail"`
	rank    [3]int
}

type hstats struct {
	mu                                                 sync.Mutex
	states, transitions, maxDepth                      int
	ok, fail, exact, change, configs, deposits, panics int64
	signs, signFail, siblingStates, lowerSiblingOnly   int64
	failWhy                                            map[string]int64
	perFamily                                          map[string]int64
	cases                                              map[string]bool
	viols                                              map[string]*hviol
	samples                                            []any
	skipped                                            []string
	equalWorlds                                        int64
}

func (s *hstats) viol(key string, v *hviol) {
	s.mu.Lock()
	defer s.mu.Unlock()
	if o, ok := s.viols[key]; ok {
		for i := 0; i < 3; i++ {
			if o.rank[i] != v.rank[i] {
				if o.rank[i] < v.rank[i] {
					return
				}
				break
			}
		}
		if o.rank == v.rank {
			return
		}
	}
	s.viols[key] = v
}

func (e *henv) withdrawTxs(path string, amount uint64, recipient string) []*types.Transaction {
	id := sha256.Sum256([]byte("c26-withdraw/" + path))
	args := sinkBytes(func(s *common.ZeroCopySink) {
		s.WriteVarBytes([]byte(recipient))
		s.WriteUint64(amount)
		s.WriteVarBytes(e.v.Redeem)
	})
	extra := ccm.MsgBytes(ccm.Msg(id[:], id[:], fromContract, btcChain, []byte("btc"), "unlock", args))
	var txs []*types.Transaction
	for i := 0; i < ccm.Quorum(len(e.env.Vals)); i++ {
		txs = append(txs, ccm.VoteImport(srcChain, 500, extra, e.env.Vals[i], e.nn()))
	}
	return txs
}

// signTxs: the MultiSign transactions of redeem keys 0 and 1 for an unsigned withdrawal transaction. amounts: value per outpoint
// (needed for the BIP143 signature hash of P2WSH inputs) taken from the reference model.
func (e *henv) signTxs(rawUnsigned string, known map[string]txo) []*types.Transaction {
	rawb, err := hex.DecodeString(rawUnsigned)
	must(err)
	mtx := wire.NewMsgTx(wire.TxVersion)
	must(mtx.BtcDecode(bytes.NewReader(rawb), wire.ProtocolVersion, wire.LatestEncoding))
	txHash := mtx.TxHash()
	pk := make([][]byte, len(mtx.TxIn))
	for i, in := range mtx.TxIn {
		pk[i] = in.SignatureScript
		in.SignatureScript = nil
	}
	_, addrs, _, err := txscript.ExtractPkScriptAddrs(e.v.Redeem, &chaincfg.RegressionNetParams)
	must(err)
	var txs []*types.Transaction
	for k := 0; k < 2; k++ {
		var sigs [][]byte
		for i, in := range mtx.TxIn {
			var h []byte
			if txscript.GetScriptClass(pk[i]) == txscript.WitnessV0ScriptHashTy {
				amt := known[opKey(in.PreviousOutPoint.Hash[:], in.PreviousOutPoint.Index)].Value
				h, err = txscript.CalcWitnessSigHash(e.v.Redeem, txscript.NewTxSigHashes(mtx), txscript.SigHashAll, mtx, i, int64(amt))
			} else {
				h, err = txscript.CalcSignatureHash(e.v.Redeem, txscript.SigHashAll, mtx, i)
			}
			must(err)
			sg, err := e.v.Keys[k].Sign(h)
			must(err)
			sigs = append(sigs, append(sg.Serialize(), byte(txscript.SigHashAll)))
		}
		p := &scom.MultiSignParam{ChainID: btcChain, RedeemKey: hex.EncodeToString(e.v.RK), TxHash: txHash[:],
			Address: addrs[k].(*btcutil.AddressPubKey).EncodeAddress(), Signs: sigs}
		txs = append(txs, polyenv.Tx(utils.CrossChainManagerContractAddress, scom.MULTI_SIGN, sinkBytes(p.Serialization), e.nn(), polyenv.Single(polyenv.Key(31))))
	}
	return txs
}

var digits = regexp.MustCompile(`[0-9]+`)

func copyKnown(m map[string]txo) map[string]txo {
	o := make(map[string]txo, len(m)+2)
	for k, v := range m {
		o[k] = v
	}
	return o
}

func fmtTxos(l []txo) []string {
	out := make([]string, 0, len(l))
	for _, u := range l {
		out = append(out, fmt.Sprint(u))
	}
	sort.Strings(out)
	return out
}

// writeUnspent serialises an unspent record exactly as the package's putUtxos stores it (exported codec of btc.Utxos).
func writeUnspent(v *vault, list []txo) string {
	us := &btc.Utxos{}
	for _, u := range list {
		parts := strings.Split(u.Op, ":")
		h, err := hex.DecodeString(parts[0])
		must(err)
		idx, _ := strconv.Atoi(parts[1])
		sc, _ := hex.DecodeString(u.Script)
		us.Utxos = append(us.Utxos, &btc.Utxo{Op: &btc.OutPoint{Hash: h, Index: uint32(idx)}, Value: u.Value, ScriptPubkey: sc})
	}
	return string(cstates.GenRawStorageItem(sinkBytes(us.Serialization)))
}

func dumpSet(d polyenv.Dump, k, val string) polyenv.Dump {
	out := make(polyenv.Dump, 0, len(d)+1)
	done := false
	for _, kv := range d {
		if kv.K == k {
			out = append(out, polyenv.KV{K: k, V: val})
			done = true
			continue
		}
		out = append(out, kv)
	}
	if !done {
		out = append(out, polyenv.KV{K: k, V: val})
		sort.Slice(out, func(i, j int) bool { return out[i].K < out[j].K })
	}
	return out
}

// hasSiblings: two unspent outputs of one BTC transaction.
func hasSiblings(l []txo) bool {
	seen := map[string]bool{}
	for _, u := range l {
		h := u.Op[:64]
		if seen[h] {
			return true
		}
		seen[h] = true
	}
	return false
}

// runConfig explores every history of <= depth events from one world.
func (e *henv) runConfig(r *ev.Run, st *hstats, sim *hsenv.Sim, base polyenv.Dump, c *hconfig, depth int) {
	p := c.P
	sim.Load(base)
	gh := chaincfg.RegressionNetParams.GenesisBlock.Header
	tip := &gh
	known := map[string]txo{}
	var order []string
	for i, cn := range c.Seed {
		var op string
		tip, op = e.deposit(sim, tip, rootH+1+uint32(i), i, cn)
		k := byte('S')
		if cn.Kind == "P2WSH" {
			k = 'W'
		}
		known[op] = txo{op, cn.V, hex.EncodeToString(e.v.script(k))}
		order = append(order, op)
	}
	init := sim.Dump()
	uKey, sKey := txoKey(btc.UTXOS, e.v.RK), txoKey(btc.STXOS, e.v.RK)
	mk := func(hist []string, what string, detail any) *hviol {
		full := append(append([]string{}, c.Prefix...), hist...)
		return &hviol{Config: c, History: full, What: what, Detail: detail, rank: [3]int{len(full), len(c.Seed) + len(c.Synth), c.rank}}
	}
	// the import path must have recorded exactly the deposits (in order)
	got := readTxos(dumpGet(init, uKey))
	if len(got) != len(c.Seed) {
		r.HarnessError("deposit path recorded %d utxos, expected %d", len(got), len(c.Seed))
	}
	for i, g := range got {
		if g != known[order[i]] {
			r.HarnessError("deposit %d recorded as %+v, expected %+v", i, g, known[order[i]])
		}
	}
	if len(readTxos(dumpGet(init, sKey))) != 0 {
		r.HarnessError("stxo record not empty after deposits")
	}
	if len(c.Synth) > 0 {
		// sibling outputs with indexes the real path cannot produce (a withdrawal has one recipient, so at most two outputs return
		// to the vault): the unspent record is written directly, in the given storage order, with the record's own codec.
		var list []txo
		for _, s := range c.Synth {
			if s.Txid == "deposit" {
				list = append(list, got[s.Index])
				continue
			}
			h := sha256.Sum256([]byte("c26-synthetic-tx-" + s.Txid))
			k := byte('S')
			if s.Kind == "P2WSH" {
				k = 'W'
			}
			u := txo{opKey(h[:], s.Index), s.Value, hex.EncodeToString(e.v.script(k))}
			known[u.Op] = u
			list = append(list, u)
		}
		init = dumpSet(init, uKey, writeUnspent(e.v, list))
	}
	changeScript := hex.EncodeToString(e.v.P2WSH)
	payeeScript := hex.EncodeToString(e.v.PayeeS)
	vaultAddr := e.v.VaultAddr

	step := func(s *hstate, evn string) (*hstate, bool) {
		np := s.path + "/" + evn
		obs := &stepObs{Event: evn}
		nx := &hstate{path: np, spent: s.spent, known: s.known, pending: s.pending, last: obs}
		if evn == "sign" {
			if len(s.pending) == 0 {
				return nil, false
			}
			sim.Load(s.d)
			for _, tx := range e.signTxs(s.pending[0], s.known) {
				res := sim.Exec(tx, 3, 1000)
				if res.Panic != nil {
					obs.Panic = fmt.Sprint(res.Panic)
				}
				if !res.OK {
					obs.SignErr = append(obs.SignErr, fmt.Sprint(res.Err))
					continue
				}
				for _, n := range res.Notify.Notify {
					if sts, ok := n.States.([]interface{}); ok && len(sts) >= 4 && sts[0] == "btcTxToRelay" {
						obs.Signed, _ = sts[3].(string)
					}
				}
			}
			obs.OK = obs.Signed != ""
			obs.RawTx = s.pending[0]
			nx.pending = append([]string{}, s.pending[1:]...)
			nx.d = sim.Dump()
			return nx, true
		}
		recipient := e.v.Payee
		as := evn
		if strings.HasPrefix(evn, "self:") {
			obs.Self = true
			recipient = vaultAddr
			as = evn[5:]
		}
		amount, _ := strconv.ParseUint(as, 10, 64)
		obs.Amount = amount
		sim.Load(s.d)
		var res polyenv.Result
		for _, tx := range e.withdrawTxs(np, amount, recipient) {
			res = sim.Exec(tx, 3, 1000)
		}
		obs.OK = res.OK
		if res.Err != nil {
			obs.Err = res.Err.Error()
		}
		if res.Panic != nil {
			obs.Panic = fmt.Sprint(res.Panic)
		}
		if res.OK && res.Notify != nil {
			for _, n := range res.Notify.Notify {
				sts, ok := n.States.([]interface{})
				if !ok || len(sts) < 4 || sts[0] != "makeBtcTx" {
					continue
				}
				obs.RawTx, _ = sts[2].(string)
				obs.Amts, _ = sts[3].([]uint64)
			}
		}
		if res.OK && obs.RawTx != "" {
			nx.pending = append(append([]string{}, s.pending...), obs.RawTx)
		}
		nx.d = sim.Dump()
		return nx, true
	}

	check := func(prev *hstate, evn string, next *hstate, path []string) {
		obs := next.last
		st.mu.Lock()
		st.transitions++
		st.perFamily[c.Family]++
		if len(path) > st.maxDepth {
			st.maxDepth = len(path)
		}
		st.mu.Unlock()
		ub, sb := readTxos(dumpGet(prev.d, uKey)), readTxos(dumpGet(prev.d, sKey))
		ua, sa := readTxos(dumpGet(next.d, uKey)), readTxos(dumpGet(next.d, sKey))
		detail := map[string]any{"event": evn, "utxo_before": ub, "utxo_after": ua, "stxo_before": sb, "stxo_after": sa}
		// state invariants by FULL outpoint (txid:index)
		inU := map[string]bool{}
		for _, u := range ua {
			if inU[u.Op] {
				st.viol("handler/outpoint-twice-in-unspent-record", mk(path, "the unspent record lists one outpoint twice", detail))
			}
			inU[u.Op] = true
			if k, ok := next.known[u.Op]; ok && k != u {
				st.viol("handler/unspent-entry-differs-from-its-origin", mk(path, "value or script of an unspent entry differs from the deposit / transaction output that created it", detail))
			}
		}
		for _, u := range sa {
			if inU[u.Op] {
				st.viol("handler/outpoint-both-unspent-and-recorded-as-spent", mk(path, "an outpoint is in the unspent record and in the spent record at the same time", detail))
			}
		}
		if obs.Panic != "" {
			st.mu.Lock()
			st.panics++
			st.mu.Unlock()
			detail["panic"] = obs.Panic
			what := "withdrawal"
			if evn == "sign" {
				what = "multisign"
			}
			how := "/world-reached-through-real-transactions-only"
			if len(c.Synth) > 0 {
				how = "/unspent-record-written-directly"
			}
			st.viol("handler/"+what+"-panics/"+strings.ReplaceAll(digits.ReplaceAllString(obs.Panic, "N"), " ", "-")+how,
				mk(path, "the contract call panicked: the selected outputs neither left the unspent set nor were recorded as spent (and nothing recovers a panic on the block-execution path)", detail))
			return
		}
		if evn == "sign" {
			st.mu.Lock()
			st.signs++
			if !obs.OK {
				st.signFail++
			}
			st.mu.Unlock()
			if !obs.OK {
				// can only happen when the records were corrupted earlier (that step is what gets reported)
				st.mu.Lock()
				st.cases["h/sign/rejected"] = true
				st.mu.Unlock()
				return
			}
			rawb, _ := hex.DecodeString(obs.Signed)
			mtx := wire.NewMsgTx(wire.TxVersion)
			if mtx.BtcDecode(bytes.NewReader(rawb), wire.ProtocolVersion, wire.LatestEncoding) != nil {
				r.HarnessError("btcTxToRelay without a decodable transaction")
			}
			txid := mtx.TxHash()
			nk := copyKnown(prev.known)
			want := append([]txo{}, ub...)
			for i, o := range mtx.TxOut {
				if hex.EncodeToString(o.PkScript) == changeScript {
					u := txo{opKey(txid[:], uint32(i)), uint64(o.Value), changeScript}
					nk[u.Op] = u
					want = append(want, u)
					if prev.spent[u.Op] {
						r.HarnessError("new outpoint equals an already selected one")
					}
				}
			}
			next.known = nk
			if strings.Join(fmtTxos(want), ";") != strings.Join(fmtTxos(ua), ";") {
				st.viol("handler/sign/unspent-set-not-extended-by-exactly-the-vault-outputs", mk(path, "after the completing MultiSign the unspent record != record before + outputs of the signed transaction locked to the vault", detail))
			}
			ins := map[string]bool{}
			for _, in := range mtx.TxIn {
				ins[opKey(in.PreviousOutPoint.Hash[:], in.PreviousOutPoint.Index)] = true
			}
			var wantS []txo
			for _, u := range sb {
				if !ins[u.Op] {
					wantS = append(wantS, u)
				}
			}
			if strings.Join(fmtTxos(wantS), ";") != strings.Join(fmtTxos(sa), ";") {
				st.viol("handler/sign/spent-record-not-reduced-by-exactly-the-inputs", mk(path, "after the completing MultiSign the spent record != record before - inputs of the signed transaction", detail))
			}
			for _, u := range ua {
				if prev.spent[u.Op] {
					st.viol("handler/selected-outpoint-back-in-unspent-set", mk(path, "an outpoint selected by an earlier withdrawal is unspent again", detail))
				}
			}
			st.mu.Lock()
			st.cases[fmt.Sprintf("h/sign/ok/in%d/new%d", len(mtx.TxIn), len(want)-len(ub))] = true
			if hasSiblings(ua) {
				st.siblingStates++
			}
			st.mu.Unlock()
			return
		}
		if !obs.OK {
			why := "other"
			if strings.Contains(obs.Err, "current utxo is not enough") {
				why = "utxo-not-enough"
			}
			st.mu.Lock()
			st.fail++
			st.failWhy[why]++
			st.cases[fmt.Sprintf("h/fail/%s/left%d", why, len(ub))] = true
			st.mu.Unlock()
			if why == "other" {
				r.HarnessError("withdrawal failed for an unexpected reason: %s", obs.Err)
			}
			if fmt.Sprint(ub) != fmt.Sprint(ua) || fmt.Sprint(sb) != fmt.Sprint(sa) {
				st.viol("handler/failed-withdrawal-changed-utxo-or-stxo-record", mk(path, "a rejected withdrawal left a trace in the unspent / spent records", detail))
			}
			return
		}
		// ---- successful withdrawal: decode the raw BTC transaction the contract produced
		rawb, err := hex.DecodeString(obs.RawTx)
		mtx := wire.NewMsgTx(wire.TxVersion)
		if err != nil || obs.RawTx == "" || mtx.BtcDecode(bytes.NewReader(rawb), wire.ProtocolVersion, wire.LatestEncoding) != nil {
			r.HarnessError("makeBtcTx event without a decodable raw transaction: %q", obs.RawTx)
		}
		before := map[string]txo{}
		for _, u := range ub {
			before[u.Op] = u
		}
		detail["amount"], detail["raw_tx"] = obs.Amount, obs.RawTx
		var sel []txo
		seen := map[string]bool{}
		var sum uint64
		bad := false
		nspent := map[string]bool{}
		for k := range prev.spent {
			nspent[k] = true
		}
		for i, in := range mtx.TxIn {
			k := opKey(in.PreviousOutPoint.Hash[:], in.PreviousOutPoint.Index)
			if seen[k] {
				st.viol("handler/input-selected-twice-in-one-transaction", mk(path, "the produced transaction spends the same outpoint twice", detail))
				bad = true
			}
			seen[k] = true
			if prev.spent[k] {
				st.viol("handler/outpoint-selected-again-in-a-later-withdrawal", mk(path, "an outpoint selected by an earlier withdrawal is selected again", detail))
				bad = true
			}
			nspent[k] = true
			u, ok := before[k]
			if !ok {
				st.viol("handler/input-not-in-unspent-set", mk(path, "an input of the produced transaction is not in the unspent record of the redeem script", detail))
				bad = true
				continue
			}
			if m, ok := prev.known[k]; !ok || m != u {
				st.viol("handler/unspent-record-differs-from-deposits", mk(path, "unspent record entry differs from what was deposited / returned", detail))
				bad = true
			}
			if i < len(obs.Amts) && obs.Amts[i] != u.Value || len(obs.Amts) != len(mtx.TxIn) {
				st.viol("handler/notified-input-amounts-differ-from-unspent-values", mk(path, "the makeBtcTx event reports input amounts that differ from the recorded values", detail))
			}
			// the unsigned tx carries the spent output's lock script in the signature-script slot (consumed by MultiSign)
			if hex.EncodeToString(in.SignatureScript) != u.Script {
				st.viol("handler/input-script-differs-from-unspent-record", mk(path, "input lock script differs from the recorded one", detail))
			}
			sel = append(sel, u)
			sum += u.Value
		}
		next.spent = nspent
		if len(mtx.TxIn) == 0 {
			st.viol("handler/transaction-without-inputs", mk(path, "a withdrawal transaction without inputs was produced", detail))
			return
		}
		detail["selected"] = sel
		detail["sum_of_selected_values"] = sum
		// unspent' == unspent - selection ; spent' == spent + selection (as multisets of full outpoints)
		var wantU []txo
		for _, u := range ub {
			if !seen[u.Op] {
				wantU = append(wantU, u)
			}
		}
		if strings.Join(fmtTxos(wantU), ";") != strings.Join(fmtTxos(ua), ";") {
			st.viol("handler/unspent-set-not-reduced-by-exactly-the-selection", mk(path, "unspent record after != unspent record before minus the transaction inputs", detail))
		}
		if strings.Join(fmtTxos(append(append([]txo{}, sb...), sel...)), ";") != strings.Join(fmtTxos(sa), ";") {
			st.viol("handler/spent-record-not-extended-by-exactly-the-selection", mk(path, "spent record after != spent record before plus the transaction inputs", detail))
		}
		if bad {
			return
		}
		// outputs: recipient first (amount minus the fee share), optional change back to the vault (P2WSH of the redeem script)
		wantRecipient := payeeScript
		if obs.Self {
			wantRecipient = changeScript
		}
		var payee, change int64
		for i, o := range mtx.TxOut {
			sc := hex.EncodeToString(o.PkScript)
			switch {
			case i == 0 && sc == wantRecipient:
				payee = o.Value
			case i == 1 && sc == changeScript:
				change = o.Value
			default:
				st.viol("handler/unexpected-output", mk(path, "expected the recipient output followed by at most one change output to the vault", detail))
			}
		}
		detail["payee_output"], detail["change_output"] = payee, change
		detail["implied_miner_fee"] = int64(sum) - payee - change
		// the total the contract worked with is visible as payment + change; if it differs from the real input sum: does it
		// count unspent outputs that are not inputs of the transaction?
		shape := ""
		if reported := int64(obs.Amount) + change; reported != int64(sum) {
			shape = ":other"
			if reported < int64(sum) {
				shape = ":total-below-inputs"
			}
			var rest []uint64
			for _, u := range ub {
				if !seen[u.Op] {
					rest = append(rest, u.Value)
				}
			}
			for mask := 1; mask < 1<<len(rest) && reported > int64(sum); mask++ {
				var x uint64
				for i := range rest {
					if mask>>i&1 == 1 {
						x += rest[i]
					}
				}
				if x == uint64(reported)-sum {
					shape = ":total-includes-unselected-utxos"
					break
				}
			}
		}
		if !(sum == obs.Amount || sum >= obs.Amount+p.MC) {
			st.viol("handler/input-total-neither-payment-nor-payment-plus-min-change"+shape, mk(path, "sum of the selected inputs is neither the payment nor >= payment + min-change", detail))
		}
		if change != int64(sum)-int64(obs.Amount) {
			st.viol("handler/change-output-ne-inputs-minus-payment"+shape, mk(path, "change output != sum of the selected inputs - payment", detail))
		}
		if payee <= 0 || payee > int64(obs.Amount) {
			st.viol("handler/payee-output-outside-0-payment", mk(path, "payee output is not in (0, payment]", detail))
		}
		if int64(sum)-payee-change < 0 {
			st.viol("handler/outputs-exceed-inputs"+shape, mk(path, "the produced transaction pays out more than its inputs carry (invalid on Bitcoin)", detail))
		}
		st.mu.Lock()
		st.ok++
		kind := "change"
		if sum == obs.Amount {
			st.exact++
			kind = "exact"
		} else {
			st.change++
		}
		// did this withdrawal select some but not all unspent outputs of one BTC transaction, leaving a higher-valued sibling?
		for _, s := range sel {
			for _, u := range wantU {
				if u.Op[:64] == s.Op[:64] && u.Value >= s.Value {
					st.lowerSiblingOnly++
					st.cases["h/ok/selected-a-sibling-and-left-a-not-lower-valued-one"] = true
				}
			}
		}
		st.cases[fmt.Sprintf("h/ok/%s/d%d/in%d/%s/left%d", c.Family, len(path), len(sel), kind, len(ua))] = true
		if len(st.samples) < 3 && len(path) == 2 && c.Family == "deposits" || len(st.samples) < 5 && len(path) == 2 && c.Family == "siblings-real" && hasSiblings(ub) {
			st.samples = append(st.samples, map[string]any{"world": c, "events": append(append([]string{}, c.Prefix...), path...), "selected": sel, "payee": payee, "change": change})
		}
		st.mu.Unlock()
	}

	start := &hstate{d: init, spent: map[string]bool{}, known: known}
	// prefix events (self-withdrawal + MultiSign) run through the same step + oracle
	// set-up failures below can only be caused by a mutated contract (the clean tree must reach every sibling world: enforced at the
	// end of handlerLevel); they skip the world instead of aborting so that the violations already recorded are reported
	skip := func(why string) {
		st.mu.Lock()
		st.skipped = append(st.skipped, fmt.Sprintf("%s: %s", why, fmt.Sprint(c.Seed)))
		st.mu.Unlock()
	}
	if c.Equal {
		// choose the self-withdrawal amount a with a - fee == (selected total) - a: probe once to learn total and fee
		a0 := c.Seed[0].V / 2
		probe, _ := step(start, "self:"+strconv.FormatUint(a0, 10))
		raw, _ := hex.DecodeString(probe.last.RawTx)
		mtx := wire.NewMsgTx(wire.TxVersion)
		if !probe.last.OK || mtx.BtcDecode(bytes.NewReader(raw), wire.ProtocolVersion, wire.LatestEncoding) != nil || len(mtx.TxOut) < 1 {
			skip("equal-sibling probe failed")
			return
		}
		var total uint64
		for _, in := range mtx.TxIn {
			total += known[opKey(in.PreviousOutPoint.Hash[:], in.PreviousOutPoint.Index)].Value
		}
		fee := a0 - uint64(mtx.TxOut[0].Value)
		if (total+fee)%2 != 0 {
			skip("equal-sibling amount not integral")
			return
		}
		c.Prefix = []string{"self:" + strconv.FormatUint((total+fee)/2, 10), "sign"}
	}
	var ppath []string
	for _, evn := range c.Prefix {
		nx, ok := step(start, evn)
		if !ok {
			skip("prefix event not applicable")
			return
		}
		ppath = append(ppath, evn)
		saved := c.Prefix
		c.Prefix = nil
		check(start, evn, nx, ppath)
		c.Prefix = saved
		if !nx.last.OK {
			skip("prefix event " + evn + " failed")
			return
		}
		start = nx
	}
	amounts := c.Amounts
	if len(c.Prefix) > 0 {
		us := readTxos(dumpGet(start.d, uKey))
		if !hasSiblings(us) || len(us) < 2 {
			skip("self-withdrawal + MultiSign did not produce sibling outpoints")
			return
		}
		// amounts relative to the sibling pair (the two newest entries)
		a, b := us[len(us)-2].Value, us[len(us)-1].Value
		if c.Equal && a != b {
			skip("siblings not equal")
			return
		}
		set := map[uint64]bool{}
		for _, x := range []uint64{a, b, a / 2, b / 2, a + b, 15000} {
			if !set[x] {
				set[x] = true
				amounts = append(amounts, x)
			}
		}
		c.Amounts = amounts
		st.mu.Lock()
		st.siblingStates++
		if c.Equal {
			st.equalWorlds++
		}
		st.mu.Unlock()
	}
	evs := make([]string, len(amounts))
	for i, a := range amounts {
		evs[i] = strconv.FormatUint(a, 10)
	}
	cfg := mc.Config[*hstate]{
		Init:     []*hstate{start},
		MaxDepth: depth, Workers: 1,
		Events: func(s *hstate, d int) []string {
			if c.Sign && len(s.pending) > 0 {
				return append(append([]string{}, evs...), "sign")
			}
			return evs
		},
		Key: func(s *hstate) string {
			k := dumpGet(s.d, uKey) + "|" + dumpGet(s.d, sKey)
			if c.Sign {
				k += "|" + strings.Join(s.pending, ",")
			}
			return k
		},
		Step:  step,
		Check: check,
		Stop:  r.Expired,
	}
	res := mc.BFS(cfg)
	st.mu.Lock()
	st.states += res.States
	st.configs++
	st.perFamily["configs:"+c.Family]++
	st.deposits += int64(len(c.Seed))
	st.mu.Unlock()
}

func handlerLevel(r *ev.Run, v *vault) map[string]any {
	// one validator: the vote router then needs exactly one ImportOuterTransfer per withdrawal (quorum logic is C25's subject)
	vals := polyenv.Keys(1)
	polyenv.Setup(0, vals)
	polyenv.InstallHeightLedger()
	e := &henv{v: v, env: &hsenv.Env{Vals: vals}, nonce: 5000}
	polyenv.GlobalHeight = 1
	const t = 100000
	values := []uint64{t / 2, t, t * 13 / 10, t * 14 / 10}
	amounts := []uint64{t / 2, t*8/10 + 1, t, t * 13 / 10, 2 * t, t * 27 / 10} // 130000-80001 = min-change 50000 - 1
	maxSeed := r.QT(4, 5)
	depth := 3
	if r.Thorough() {
		values = append(values, 4*t+1)
		amounts = append(amounts, t*4/10)
	}
	// fee rate 300 makes a one-P2SH-input transaction cost more than a payment of t (the "loss ratio" rejection regime)
	params := []hparam{}
	for _, fr := range []uint64{1, 300} {
		for _, mcv := range []uint64{2000, t / 2, t * 5 / 2} {
			params = append(params, hparam{fr, mcv})
		}
	}
	var kinds []coin
	for _, val := range values {
		kinds = append(kinds, coin{V: val, Kind: "P2SH"}, coin{V: val, Kind: "P2WSH"})
	}
	var seeds [][]coin
	var gen func(n int, cur []coin, from int)
	gen = func(n int, cur []coin, from int) {
		if len(cur) == n {
			seeds = append(seeds, append([]coin(nil), cur...))
			return
		}
		for i := from; i < len(kinds); i++ {
			gen(n, append(cur, kinds[i]), i)
		}
	}
	for n := 1; n <= maxSeed; n++ {
		gen(n, nil, 0)
	}
	var jobs []*hconfig
	add := func(c *hconfig) {
		c.rank = len(jobs)
		jobs = append(jobs, c)
	}
	// family 2: sibling outpoints through the REAL path: self-withdrawal + MultiSign, then <= 3 events incl. further MultiSigns
	for _, mcv := range []uint64{2000, t / 2} {
		for _, kind := range []string{"P2WSH", "P2SH"} {
			for _, other := range [][]coin{nil, {{V: 6*t + 1, Kind: "P2WSH"}}, {{V: t * 3 / 10, Kind: "P2SH"}}} {
				// different values: payment 80000 - fee and change 60000 (+ other, if selected)
				add(&hconfig{Family: "siblings-real", P: hparam{1, mcv}, Seed: append([]coin{{V: 140000, Kind: kind}}, other...), Prefix: []string{"self:80000", "sign"}, Sign: true})
				// equal values: deposit parity chosen so that (total + fee) is even (fee 205 with a P2WSH input, 402 with a P2SH input)
				val := uint64(140205)
				if kind == "P2SH" {
					val = 140402
				}
				add(&hconfig{Family: "siblings-real", P: hparam{1, mcv}, Seed: append([]coin{{V: val, Kind: kind}}, other...), Equal: true, Sign: true})
			}
		}
	}
	// family 3: sibling outpoints with indexes 0/1/2 (not producible by the real path): unspent record written directly
	perm := func(n int) [][]int {
		var out [][]int
		var rec func(cur []int, used int)
		rec = func(cur []int, used int) {
			if len(cur) == n {
				out = append(out, append([]int(nil), cur...))
				return
			}
			for i := 0; i < n; i++ {
				if used>>i&1 == 0 {
					rec(append(cur, i), used|1<<i)
				}
			}
		}
		rec(nil, 0)
		return out
	}
	synthAmounts := []uint64{15000, 20000, 40000, 60000, 100000, 200000}
	if r.Thorough() {
		synthAmounts = append(synthAmounts, 120000, 300000)
	}
	for _, grp := range [][]uint64{{20000, 20000}, {100000, 20000}, {100000, 100000}, {20000, 20000, 20000}, {100000, 20000, 20000}, {100000, 100000, 20000}, {100000, 100000, 100000}} {
		for _, other := range [][]coin{nil, {{V: 300000, Kind: "P2WSH"}}, {{V: 50000, Kind: "P2SH"}}} {
			n := len(grp) + len(other)
			seenOrder := map[string]bool{}
			for _, pm := range perm(n) {
				var list []synthUtxo
				sig := ""
				for _, i := range pm {
					if i < len(grp) {
						list = append(list, synthUtxo{"T", uint32(i), grp[i], "P2WSH"})
					} else {
						list = append(list, synthUtxo{"deposit", 0, other[0].V, other[0].Kind})
					}
					sig += fmt.Sprintf("%d:%d,", list[len(list)-1].Value, i)
				}
				if seenOrder[sig] {
					continue
				}
				seenOrder[sig] = true
				for _, mcv := range []uint64{2000, t / 2} {
					add(&hconfig{Family: "siblings-synthetic", P: hparam{1, mcv}, Seed: other, Synth: list, Amounts: synthAmounts})
				}
			}
		}
	}
	nSib := len(jobs)
	// family 1: deposits only
	for _, s := range seeds {
		for _, p := range params {
			add(&hconfig{Family: "deposits", P: p, Seed: s, Amounts: amounts})
		}
	}
	st := &hstats{failWhy: map[string]int64{}, perFamily: map[string]int64{}, cases: map[string]bool{}, viols: map[string]*hviol{}}
	workers := 8
	var wg sync.WaitGroup
	var mu sync.Mutex
	next, done := 0, 0
	capped := false
	for w := 0; w < workers; w++ {
		wg.Add(1)
		go func() {
			defer wg.Done()
			sim := hsenv.NewSim()
			defer sim.Close()
			bases := map[hparam]polyenv.Dump{}
			for {
				mu.Lock()
				if next >= len(jobs) || capped {
					mu.Unlock()
					return
				}
				if r.Expired() {
					capped = true
					mu.Unlock()
					return
				}
				j := jobs[next]
				next++
				mu.Unlock()
				b, ok := bases[j.P]
				if !ok {
					b = e.buildBase(sim, j.P)
					bases[j.P] = b
				}
				e.runConfig(r, st, sim, b, j, depth)
				mu.Lock()
				done++
				mu.Unlock()
			}
		}()
	}
	wg.Wait()
	if capped {
		r.Capped(fmt.Sprintf("handler level: deadline hit after %d of %d configurations", done, len(jobs)))
	}
	r.Evals(st.transitions)
	for k := range st.cases {
		r.Case(k)
	}
	note := func(name string, n int64) {
		if n > 0 {
			r.Class(name)
		}
		r.Note("count:"+name, n)
	}
	note("handler:withdrawal-ok", st.ok)
	note("handler:withdrawal-rejected", st.fail)
	note("handler:total-exact", st.exact)
	note("handler:total-with-change", st.change)
	note("handler:multisign-completed", st.signs-st.signFail)
	note("handler:multisign-rejected", st.signFail)
	note("handler:states-with-sibling-outpoints", st.siblingStates)
	note("handler:selected-a-sibling-leaving-a-not-lower-valued-one", st.lowerSiblingOnly)
	note("handler:panic", st.panics)
	for k, n := range st.failWhy {
		note("handler:rejected:"+k, n)
	}
	note("handler:sibling-worlds-with-equal-values-through-real-path", st.equalWorlds)
	if len(st.skipped) > 0 {
		r.Note("handler_worlds_skipped_because_setup_failed", st.skipped)
		if len(st.viols) == 0 {
			r.HarnessError("sibling world set-up failed without any violation: %v", st.skipped)
		}
	}
	for _, s := range st.samples {
		r.Sample(s)
	}
	keys := make([]string, 0, len(st.viols))
	for k := range st.viols {
		keys = append(keys, k)
	}
	sort.Strings(keys)
	for _, k := range keys {
		r.Violation(k, st.viols[k])
	}
	return map[string]any{
		"states": st.states, "transitions": st.transitions, "traces_validated_against_impl": st.transitions, "max_depth": st.maxDepth,
		"handler_configurations": st.configs, "handler_deposits_through_spv_import": st.deposits, "handler_per_family": st.perFamily,
		"handler_seed_sets": len(seeds), "handler_params": params, "handler_amount_alphabet": amounts, "handler_seed_values": values,
		"handler_max_seed_utxos": maxSeed, "handler_sibling_configurations": nSib,
		"handler_sibling_amounts_synthetic": synthAmounts,
	}
}
