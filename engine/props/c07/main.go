// C07 — the node's Merkle proof verifiers are sound.
//
// World: for each leaf family the REAL CompactMerkleTree is grown to N leaves; its roots and its own
// proofs (InclusionProof, MerkleInclusionLeafPath, ConsistencyProof) for EVERY (index,size) /
// (old,new) pair form the valid tuples (cross-checked against the textbook recursion in
// engine/lib/rfc6962). Every valid tuple is then hit with every SINGLE mutation and every ORDERED
// PAIR of mutations from a fixed alphabet (see incMutators / consMutators / pathMutators) and fed to
// VerifyLeafHashInclusion, VerifyLeafInclusion, VerifyConsistency and MerkleProve.
//
// Oracle (soundness): a verifier may accept a tuple only if the claim it states is TRUE of the tree
// (leaf at that index of the tree of that size with that root / the two (size,root) pairs are real
// prefixes of one another / the value is a leaf under that root) AND the proof is the canonical one.
// Accepted tuples whose claim is literally false are classified, never dropped:
//   - anything a correct RFC 6962/9162 verifier could have rejected            -> VIOLATION
//   - "size alias": root is a genuine root of ANOTHER size and the untouched genuine proof folds along
//     an identical shape (RFC 6962 roots do not commit to the tree size; proof hashes are opaque, so
//     no verifier can tell) -> counted as alias_size_unbound (VERIF_C07_STRICT_SIZE=1 turns it into
//     a violation)
//   - vacuous statements (old size 0 with the real empty root; a tree compared with itself)  -> counted
//
// Encoding malleability that leaves the proven statement unchanged (MerkleProve: <33 trailing bytes,
// flag bytes >=2 read as RIGHT, non-minimal var-uint length; VerifyConsistency ignoring the proof for
// equal trees / old size 0) is measured (malleable_*), not flagged.
package main

import (
	"bytes"
	"encoding/binary"
	"encoding/hex"
	"fmt"
	"os"
	"runtime/pprof"
	"sort"
	"strings"
	"sync"
	"sync/atomic"
	"time"

	"github.com/polynetwork/poly/common"
	"github.com/polynetwork/poly/merkle"
	"verif.local/engine/ev"
	ref "verif.local/engine/lib/rfc6962"
)

type U = common.Uint256

var (
	r      *ev.Run
	ver    = merkle.NewMerkleVerifier()
	strict = os.Getenv("VERIF_C07_STRICT_SIZE") == "1"
	zeroU  U
	emptyU = U(ref.Empty())
)

// ------------------------------------------------------------------ violation bookkeeping (minimal witness per key)

type cand struct {
	weight int64
	detail map[string]any
}

var (
	vmu   sync.Mutex
	cands = map[string]*cand{}
)

func report(key string, weight int64, detail map[string]any) {
	vmu.Lock()
	if c, ok := cands[key]; !ok || weight < c.weight {
		cands[key] = &cand{weight, detail}
	}
	vmu.Unlock()
}

var (
	nmu   sync.Mutex
	notes = map[string]*cand{}
)

// witness keeps the smallest example of a measured (not flagged) class for the evidence.
func witness(class string, weight int64, detail map[string]any) {
	nmu.Lock()
	if c, ok := notes[class]; !ok || weight < c.weight {
		notes[class] = &cand{weight, detail}
	}
	nmu.Unlock()
}

func hx(u U) string { return hex.EncodeToString(u[:]) }
func hxs(p []U) []string {
	o := make([]string, len(p))
	for i := range p {
		o[i] = hx(p[i])
	}
	return o
}

// ------------------------------------------------------------------ per-job counters (ev.Run takes a global lock per call)

type ctr struct {
	evals   int64
	classes map[string]int64
	cases   map[string]bool
}

func newCtr() *ctr { return &ctr{classes: map[string]int64{}, cases: map[string]bool{}} }

func (c *ctr) Eval()          { c.evals++ }
func (c *ctr) Class(k string) { c.classes[k]++ }
func (c *ctr) Case(k string)  { c.cases[k] = true }

var (
	tmu   sync.Mutex
	total = newCtr()
)

func (c *ctr) merge() {
	tmu.Lock()
	total.evals += c.evals
	for k, v := range c.classes {
		total.classes[k] += v
	}
	for k := range c.cases {
		total.cases[k] = true
	}
	tmu.Unlock()
}

// ------------------------------------------------------------------ world

type elem struct {
	flag byte
	h    U
}

type world struct {
	fam    string
	N      int
	data   [][]byte
	lh     []U
	rlh    []ref.H
	root   []U
	inc    [][][]U    // inc[s][i]
	lelems [][][]elem // canonical MerkleProve elements [s][i]
	lpath  [][][]byte
	cons   [][][]U // cons[n][m], m>=1
	nodes  [][]ref.NodeInfo
	rootAt map[U]int
}

func shaN(tag string, i int) []byte {
	var b [8]byte
	binary.BigEndian.PutUint64(b[:], uint64(i))
	h := merkle.HashLeaf(append([]byte("c07"+tag), b[:]...)) // any fixed 32 bytes
	return h[:]
}

func leafData(fam string, i int, prev [][]byte) []byte {
	switch fam {
	case "distinct":
		return shaN("d", i)
	case "allequal":
		return shaN("e", 0)
	case "pairs": // adjacent equal leaves, a short and an empty leaf
		switch i {
		case 6:
			return []byte{}
		case 9:
			return []byte{0x01}
		}
		return shaN("p", i/2)
	case "nodeish": // real leaves whose DATA looks like an interior-node preimage
		switch {
		case i == 2 && len(prev) >= 2:
			l, rr := ref.Leaf(prev[0]), ref.Leaf(prev[1])
			return append(append([]byte{0x01}, l[:]...), rr[:]...)
		case i == 5 && len(prev) >= 5:
			l, rr := ref.Leaf(prev[3]), ref.Leaf(prev[4])
			return append(append([]byte{}, l[:]...), rr[:]...)
		case i == 7:
			return []byte{} // empty leaf
		case i == 10:
			return []byte{0x01} // one byte, the interior-node prefix
		}
		return shaN("n", i)
	}
	panic(fam)
}

func parsePath(p []byte) (val []byte, elems []elem, trailing int, canonHdr bool, ok bool) {
	if len(p) == 0 {
		return
	}
	var l uint64
	hdr := 1
	switch p[0] {
	case 0xFD:
		hdr = 3
	case 0xFE:
		hdr = 5
	case 0xFF:
		hdr = 9
	}
	if len(p) < hdr {
		return
	}
	switch hdr {
	case 1:
		l = uint64(p[0])
	case 3:
		l = uint64(binary.LittleEndian.Uint16(p[1:]))
	case 5:
		l = uint64(binary.LittleEndian.Uint32(p[1:]))
	case 9:
		l = binary.LittleEndian.Uint64(p[1:])
	}
	canonHdr = (hdr == 1) || (hdr == 3 && l >= 0xFD) || (hdr == 5 && l > 0xFFFF) || (hdr == 9 && l > 0xFFFFFFFF)
	rest := p[hdr:]
	if uint64(len(rest)) < l {
		return
	}
	val = rest[:l]
	rest = rest[l:]
	for len(rest) >= 33 {
		var e elem
		e.flag = rest[0]
		copy(e.h[:], rest[1:33])
		elems = append(elems, e)
		rest = rest[33:]
	}
	return val, elems, len(rest), canonHdr, true
}

var worldDiff, canonRejected int64

func buildWorld(fam string, N int) *world {
	w := &world{fam: fam, N: N, rootAt: map[U]int{}}
	t := merkle.NewTree(0, nil, merkle.NewMemHashStore())
	w.root = append(w.root, t.Root())
	for i := 0; i < N; i++ {
		d := leafData(fam, i, w.data)
		w.data = append(w.data, d)
		w.lh = append(w.lh, merkle.HashLeaf(d))
		w.rlh = append(w.rlh, ref.Leaf(d))
		t.Append(d)
		w.root = append(w.root, t.Root())
	}
	diff := int64(0)
	w.inc = make([][][]U, N+1)
	w.lelems = make([][][]elem, N+1)
	w.lpath = make([][][]byte, N+1)
	w.cons = make([][][]U, N+1)
	w.nodes = make([][]ref.NodeInfo, N+1)
	for s := 0; s <= N; s++ {
		w.rootAt[w.root[s]] = s
		if w.root[s] != U(ref.MTH(w.rlh[:s])) {
			diff++
		}
		w.nodes[s] = ref.Nodes(w.rlh[:s])
		w.inc[s] = make([][]U, s)
		w.lelems[s] = make([][]elem, s)
		w.lpath[s] = make([][]byte, s)
		w.cons[s] = make([][]U, s+1)
		for i := 0; i < s; i++ {
			p, err := t.InclusionProof(uint32(i), uint32(s))
			if err != nil {
				r.HarnessError("InclusionProof(%d,%d): %v", i, s, err)
			}
			w.inc[s][i] = p
			lp, err := t.MerkleInclusionLeafPath(w.data[i], uint32(i), uint32(s))
			if err != nil {
				r.HarnessError("MerkleInclusionLeafPath(%d,%d): %v", i, s, err)
			}
			w.lpath[s][i] = lp
			_, el, _, _, ok := parsePath(lp)
			if !ok {
				r.HarnessError("cannot parse honest leaf path (%d,%d)", i, s)
			}
			w.lelems[s][i] = el
			sib, right := ref.Path(i, w.rlh[:s])
			same := len(sib) == len(p) && len(sib) == len(el)
			for j := 0; same && j < len(sib); j++ {
				same = U(sib[j]) == p[j] && el[j].h == p[j] && (el[j].flag == 1) == right[j]
			}
			if !same {
				diff++
			}
		}
		for m := 1; m <= s; m++ {
			w.cons[s][m] = t.ConsistencyProof(uint32(m), uint32(s))
			rp := ref.Proof(m, w.rlh[:s])
			same := len(rp) == len(w.cons[s][m])
			for j := 0; same && j < len(rp); j++ {
				same = U(rp[j]) == w.cons[s][m][j]
			}
			if !same {
				diff++
			}
		}
	}
	if diff > 0 {
		vmu.Lock()
		worldDiff += diff
		vmu.Unlock()
	}
	return w
}

func eqU(a []U, b []U) bool {
	if len(a) != len(b) {
		return false
	}
	for i := range a {
		if a[i] != b[i] {
			return false
		}
	}
	return true
}

func eqHU(a []ref.H, b []U) bool {
	if len(a) != len(b) {
		return false
	}
	for i := range a {
		if U(a[i]) != b[i] {
			return false
		}
	}
	return true
}

// ------------------------------------------------------------------ generic single / ordered-pair driver

type mutator[T any] struct {
	name string
	f    func(t *T) bool // false: not applicable to the current tuple
}

// Mutators are copy-on-write (never write through a slice they did not allocate), so a tuple is cloned
// by plain struct copy. names is a reused buffer: eval must copy it if it keeps it.
// Pairs: every ordered pair (a,b); pairs that touch different components commute (same resulting
// tuple), so the reversed order is evaluated only when both touch the same component or one of them
// reads another component ("multi").
func explore[T any](base T, muts []mutator[T], pairs bool, eval func(t *T, names []string)) {
	var buf [2]string
	comp := make([]string, len(muts))
	for i := range muts {
		comp[i] = compOf(muts[i].name)
	}
	t0 := base
	eval(&t0, nil)
	for a := range muts {
		t := base
		if !muts[a].f(&t) {
			continue
		}
		buf[0] = muts[a].name
		t1 := t
		eval(&t1, buf[:1])
		if !pairs {
			continue
		}
		for b := range muts {
			if a == b || (a > b && comp[a] != comp[b] && comp[a] != "multi" && comp[b] != "multi") {
				continue
			}
			t2 := t
			if !muts[b].f(&t2) {
				continue
			}
			buf[1] = muts[b].name
			eval(&t2, buf[:2])
		}
	}
}

// compOf: the tuple component a mutator writes, derived from its name; "multi" = reads or writes several.
func compOf(name string) string {
	has := func(p string) bool { return strings.HasPrefix(name, p) }
	switch {
	case strings.HasSuffix(name, "=leaf"), strings.HasSuffix(name, "leafhash"), strings.HasSuffix(name, "leafhash)"), name == "appendLeaf",
		has("interior@"), name == "old_root=new_root", name == "new_root=old_root", name == "leaf=root", name == "leaf=p[0]":
		return "multi"
	case has("p["), has("drop["), has("dup["), has("swap["), has("append"), has("prepend"), has("flag["), has("h["):
		return "seq"
	case has("leaf"), has("value"):
		return "leaf"
	case has("idx="):
		return "idx"
	case has("size="):
		return "size"
	case has("root"):
		return "root"
	case has("old_size="):
		return "m"
	case has("new_size="):
		return "n"
	case has("old_root"):
		return "rold"
	case has("new_root"):
		return "rnew"
	case has("trail+"):
		return "trail"
	case has("len="):
		return "len"
	}
	panic("compOf: " + name)
}

func cp[E any](x []E) []E { return append(make([]E, 0, len(x)+1), x...) }

func proofMutators[T any](L int, get func(*T) *[]U, leaf func(*T) U) []mutator[T] {
	var ms []mutator[T]
	for j := 0; j <= L; j++ {
		j := j
		at := func(g func(p *U, t *T)) func(*T) bool {
			return func(t *T) bool {
				p := get(t)
				if j >= len(*p) {
					return false
				}
				*p = cp(*p)
				g(&(*p)[j], t)
				return true
			}
		}
		ms = append(ms,
			mutator[T]{fmt.Sprintf("p[%d]^01", j), at(func(p *U, _ *T) { p[0] ^= 1 })},
			mutator[T]{fmt.Sprintf("p[%d]^80@31", j), at(func(p *U, _ *T) { p[31] ^= 0x80 })},
			mutator[T]{fmt.Sprintf("p[%d]=0", j), at(func(p *U, _ *T) { *p = zeroU })},
			mutator[T]{fmt.Sprintf("p[%d]=leaf", j), at(func(p *U, t *T) { *p = leaf(t) })},
			mutator[T]{fmt.Sprintf("drop[%d]", j), func(t *T) bool {
				p := get(t)
				if j >= len(*p) {
					return false
				}
				*p = append(append([]U{}, (*p)[:j]...), (*p)[j+1:]...)
				return true
			}},
			mutator[T]{fmt.Sprintf("dup[%d]", j), func(t *T) bool {
				p := get(t)
				if j >= len(*p) {
					return false
				}
				n := append([]U{}, (*p)[:j+1]...)
				*p = append(n, (*p)[j:]...)
				return true
			}},
			mutator[T]{fmt.Sprintf("swap[%d,%d]", j, j+1), func(t *T) bool {
				p := get(t)
				if j+1 >= len(*p) {
					return false
				}
				*p = cp(*p)
				(*p)[j], (*p)[j+1] = (*p)[j+1], (*p)[j]
				return true
			}})
	}
	ms = append(ms,
		mutator[T]{"append0", func(t *T) bool { p := get(t); *p = append(cp(*p), zeroU); return true }},
		mutator[T]{"appendLast", func(t *T) bool {
			p := get(t)
			if len(*p) == 0 {
				return false
			}
			*p = append(cp(*p), (*p)[len(*p)-1])
			return true
		}},
		mutator[T]{"prepend0", func(t *T) bool { p := get(t); *p = append([]U{zeroU}, *p...); return true }},
		mutator[T]{"appendLeaf", func(t *T) bool { p := get(t); *p = append(cp(*p), leaf(t)); return true }})
	return ms
}

func weight(nmut int, a, b int) int64 { return int64(nmut)<<40 | int64(a)<<20 | int64(b) }

// ------------------------------------------------------------------ inclusion (hash API and data API)

type incT struct {
	lh      U
	data    []byte
	useData bool
	idx     uint32
	size    uint32
	proof   []U
	root    U
}

func (t *incT) leafHash() U {
	if t.useData {
		return merkle.HashLeaf(t.data)
	}
	return t.lh
}

func incMutators(w *world, i, s int, useData bool) []mutator[incT] {
	base := w.inc[s][i]
	L := len(base)
	ms := proofMutators[incT](L, func(t *incT) *[]U { return &t.proof }, func(t *incT) U { return t.leafHash() })
	// ancestors of leaf i in T_s (computed with the node's own hashers)
	shape := ref.Shape(i, s)
	type anc struct{ l, r, h U }
	var ancs []anc
	cur := w.lh[i]
	for j := 0; j < L; j++ {
		var a anc
		if shape[j] {
			a.l, a.r = cur, base[j]
		} else {
			a.l, a.r = base[j], cur
		}
		a.h = merkle.HashChildren(a.l, a.r)
		ancs = append(ancs, a)
		cur = a.h
	}
	setLeaf := func(name string, h func(t *incT) (U, []byte)) mutator[incT] {
		return mutator[incT]{name, func(t *incT) bool {
			u, d := h(t)
			if t.useData {
				if d == nil {
					return false
				}
				t.data = d
			} else {
				t.lh = u
			}
			return true
		}}
	}
	ms = append(ms, mutator[incT]{"leaf^01", func(t *incT) bool {
		if t.useData {
			if len(t.data) == 0 {
				t.data = []byte{0x01}
			} else {
				t.data = cp(t.data)
				t.data[0] ^= 1
			}
		} else {
			t.lh[0] ^= 1
		}
		return true
	}})
	ms = append(ms, mutator[incT]{"leaf+00", func(t *incT) bool {
		if !t.useData {
			return false
		}
		t.data = append(cp(t.data), 0)
		return true
	}})
	for _, d := range []int{-1, 1} {
		o := i + d
		if o < 0 || o >= w.N {
			continue
		}
		ms = append(ms, setLeaf(fmt.Sprintf("leaf=D[i%+d]", d), func(*incT) (U, []byte) { return w.lh[o], append([]byte{}, w.data[o]...) }))
	}
	if !useData {
		ms = append(ms, setLeaf("leaf=root", func(t *incT) (U, []byte) { return t.root, nil }))
		ms = append(ms, setLeaf("leaf=p[0]", func(t *incT) (U, []byte) {
			if len(t.proof) == 0 {
				return t.lh, nil
			}
			return t.proof[0], nil
		}))
	}
	// interior node passed off as a leaf: ancestor at level lv, proof shortened, optionally index / size shrunk to match
	for lv := 1; lv <= L; lv++ {
		lv := lv
		a := ancs[lv-1]
		encs := map[string][]byte{
			"01lr": append(append([]byte{0x01}, a.l[:]...), a.r[:]...),
			"lr":   append(append([]byte{}, a.l[:]...), a.r[:]...),
			"00lr": append(append([]byte{0x00}, a.l[:]...), a.r[:]...),
		}
		for _, shrink := range []bool{false, true} {
			shrink := shrink
			apply := func(t *incT) bool {
				if len(t.proof) < lv {
					return false
				}
				t.proof = append([]U{}, t.proof[lv:]...)
				if shrink {
					t.idx >>= uint(lv)
					if t.size > 0 {
						t.size = (t.size-1)>>uint(lv) + 1
					}
				}
				return true
			}
			if useData {
				for _, en := range []string{"01lr", "lr", "00lr"} {
					d := encs[en]
					ms = append(ms, mutator[incT]{fmt.Sprintf("interior@%d-as-leafdata:%s:shrink=%v", lv, en, shrink), func(t *incT) bool {
						if !apply(t) {
							return false
						}
						t.data = append([]byte{}, d...)
						return true
					}})
				}
			} else {
				ms = append(ms, mutator[incT]{fmt.Sprintf("interior@%d-as-leafhash:shrink=%v", lv, shrink), func(t *incT) bool {
					if !apply(t) {
						return false
					}
					t.lh = a.h
					return true
				}})
			}
		}
	}
	for v := 0; v <= w.N+1; v++ {
		v := uint32(v)
		ms = append(ms, mutator[incT]{fmt.Sprintf("idx=%d", v), func(t *incT) bool { t.idx = v; return true }})
	}
	for v := 0; v <= w.N+2; v++ {
		v := uint32(v)
		ms = append(ms, mutator[incT]{fmt.Sprintf("size=%d", v), func(t *incT) bool { t.size = v; return true }})
	}
	ms = append(ms,
		mutator[incT]{"root^01", func(t *incT) bool { t.root[0] ^= 1; return true }},
		mutator[incT]{"root=0", func(t *incT) bool { t.root = zeroU; return true }},
		mutator[incT]{"root=empty", func(t *incT) bool { t.root = emptyU; return true }},
		mutator[incT]{"root=leaf", func(t *incT) bool { t.root = t.leafHash(); return true }})
	for v := 0; v <= w.N; v++ {
		v := v
		ms = append(ms, mutator[incT]{fmt.Sprintf("root=R[%d]", v), func(t *incT) bool { t.root = w.root[v]; return true }})
	}
	return ms
}

func callInc(t *incT) (err error, rec any) {
	defer func() {
		if x := recover(); x != nil {
			rec = x
		}
	}()
	if t.useData {
		return ver.VerifyLeafInclusion(t.data, t.idx, t.proof, t.root, t.size), nil
	}
	return ver.VerifyLeafHashInclusion(t.lh, t.idx, t.proof, t.root, t.size), nil
}

func evalInc(r *ctr, w *world, t *incT, names []string) {
	api := "VerifyLeafHashInclusion"
	err, rec := callInc(t)
	pan := rec != nil
	if t.useData {
		api = "VerifyLeafInclusion"
	}
	r.Eval()
	detail := func() map[string]any {
		d := map[string]any{"family": w.fam, "mutations": append([]string{}, names...), "leaf_index": t.idx, "tree_size": t.size, "proof": hxs(t.proof), "root": hx(t.root)}
		if t.useData {
			d["leaf_data"] = hex.EncodeToString(t.data)
		} else {
			d["leaf_hash"] = hx(t.lh)
		}
		return d
	}
	wt := weight(len(names), int(t.size), int(t.idx))
	if pan {
		r.Class("panic")
		witness("panic:"+api, wt, map[string]any{"panic": fmt.Sprint(rec), "tuple": detail()})
		return
	}
	size, idx := int(t.size), int(t.idx)
	lit := size <= w.N && t.root == w.root[size] && idx < size
	if lit {
		if t.useData {
			lit = bytes.Equal(t.data, w.data[idx])
		} else {
			lit = t.lh == w.lh[idx]
		}
	}
	canon := lit && eqU(t.proof, w.inc[size][idx])
	if err != nil {
		r.Class("reject")
		if canon {
			if names == nil {
				r.Class("canonical_rejected")
				atomic.AddInt64(&canonRejected, 1)
				witness("canonical_rejected:"+api, wt, detail())
			} else {
				r.Class("true_canonical_rejected")
			}
		}
		return
	}
	if names == nil {
		r.Class("canonical_accept")
	}
	switch {
	case canon:
		r.Class("accept_true")
		if names != nil {
			r.Case(fmt.Sprintf("%s/accept_true/%s", api, w.fam))
		}
		return
	case lit:
		report(api+":noncanonical-proof-accepted", wt, detail())
		return
	}
	// accepted, claim literally false
	a, known := w.rootAt[t.root]
	if known && a == size {
		// the trusted pair (root, size) is genuine: this is the soundness game proper
		report(api+":false-leaf-or-index-accepted-under-genuine-(root,size)", wt, detail())
		return
	}
	// (root, size) is not a commitment of our tree: the only thing any verifier can check is that the
	// opaque hashes fold to the root along the shape of (index, size). The node must not accept more
	// than the textbook RFC 9162 verifier does.
	lh := ref.Leaf(t.data)
	if !t.useData {
		lh = ref.H(t.lh)
	}
	rp := make([]ref.H, len(t.proof))
	for k := range rp {
		rp[k] = ref.H(t.proof[k])
	}
	if !ref.VerifyInclusion(lh, uint64(idx), uint64(size), rp, ref.H(t.root)) {
		report(api+":accepted-where-rfc-reference-verifier-rejects", wt, detail())
		return
	}
	if !known || a == 0 {
		// a == 0: the empty-tree root sha256("") is not the hash of any node, a tuple folding to it is a
		// one-leaf tree whose leaf hash happens to be that constant.
		// a self-consistent tuple about some other tree (e.g. root := hash of the mutated leaf, size 1):
		// true of that tree; the root is the trust anchor and it is not one of ours
		r.Class("selfconsistent_foreign_root")
		r.Case(fmt.Sprintf("%s/selfconsistent_foreign_root/%s", api, w.fam))
		witness(api+":selfconsistent_foreign_root", wt, detail())
		return
	}
	shape := ref.Shape(idx, size)
	for _, p := range w.nodes[a] {
		if p.Hash != lh || !eqHU(p.Sib, t.proof) || len(p.Right) != len(shape) {
			continue
		}
		same := true
		for k := range shape {
			same = same && shape[k] == p.Right[k]
		}
		if !same {
			continue
		}
		cls := "alias_size_unbound"
		if !p.IsLeaf {
			cls = "alias_size_unbound_interior_hash_as_leaf_hash"
		}
		r.Class(cls)
		r.Case(fmt.Sprintf("%s/%s/%s", api, cls, w.fam))
		d := detail()
		d["explanation"] = fmt.Sprintf("root is the genuine root of size %d; the genuine audit path of node (leaf=%v, first leaf %d) folds along the same shape as (index %d, size %d)", a, p.IsLeaf, p.Index, idx, size)
		witness(api+":"+cls, wt, d)
		if strict {
			report(api+":size-alias-accepted", wt, d)
		}
		return
	}
	report(api+":forged-tuple-accepted", wt, detail())
}

// ------------------------------------------------------------------ consistency

type consT struct {
	m, n       uint32
	rOld, rNew U
	proof      []U
}

func consMutators(w *world, m, n int) []mutator[consT] {
	L := 0
	if m >= 1 {
		L = len(w.cons[n][m])
	}
	ms := proofMutators[consT](L, func(t *consT) *[]U { return &t.proof }, func(t *consT) U { return t.rOld })
	for v := 0; v <= w.N+2; v++ {
		v := uint32(v)
		ms = append(ms, mutator[consT]{fmt.Sprintf("old_size=%d", v), func(t *consT) bool { t.m = v; return true }},
			mutator[consT]{fmt.Sprintf("new_size=%d", v), func(t *consT) bool { t.n = v; return true }})
	}
	ms = append(ms,
		mutator[consT]{"old_root^01", func(t *consT) bool { t.rOld[0] ^= 1; return true }},
		mutator[consT]{"old_root=0", func(t *consT) bool { t.rOld = zeroU; return true }},
		mutator[consT]{"old_root=empty", func(t *consT) bool { t.rOld = emptyU; return true }},
		mutator[consT]{"old_root=new_root", func(t *consT) bool { t.rOld = t.rNew; return true }},
		mutator[consT]{"new_root^01", func(t *consT) bool { t.rNew[0] ^= 1; return true }},
		mutator[consT]{"new_root=0", func(t *consT) bool { t.rNew = zeroU; return true }},
		mutator[consT]{"new_root=empty", func(t *consT) bool { t.rNew = emptyU; return true }},
		mutator[consT]{"new_root=old_root", func(t *consT) bool { t.rNew = t.rOld; return true }})
	for v := 0; v <= w.N; v++ {
		v := v
		ms = append(ms, mutator[consT]{fmt.Sprintf("old_root=R[%d]", v), func(t *consT) bool { t.rOld = w.root[v]; return true }},
			mutator[consT]{fmt.Sprintf("new_root=R[%d]", v), func(t *consT) bool { t.rNew = w.root[v]; return true }})
	}
	return ms
}

func callCons(t *consT) (err error, rec any) {
	defer func() {
		if x := recover(); x != nil {
			rec = x
		}
	}()
	return ver.VerifyConsistency(t.m, t.n, t.rOld, t.rNew, t.proof), nil
}

func evalCons(r *ctr, w *world, t *consT, names []string) {
	const api = "VerifyConsistency"
	err, rec := callCons(t)
	pan := rec != nil
	r.Eval()
	detail := func() map[string]any {
		return map[string]any{"family": w.fam, "mutations": append([]string{}, names...), "old_size": t.m, "new_size": t.n, "old_root": hx(t.rOld), "new_root": hx(t.rNew), "proof": hxs(t.proof)}
	}
	wt := weight(len(names), int(t.n), int(t.m))
	if pan {
		r.Class("panic")
		witness("panic:"+api, wt, map[string]any{"panic": fmt.Sprint(rec), "tuple": detail()})
		return
	}
	m, n := int(t.m), int(t.n)
	lit := m <= n && n <= w.N && t.rOld == w.root[m] && t.rNew == w.root[n]
	proofIgnorable := m == 0 || m == n
	canon := lit && ((proofIgnorable && len(t.proof) == 0) || (!proofIgnorable && eqU(t.proof, w.cons[n][m])))
	if err != nil {
		r.Class("reject")
		if canon {
			if names == nil {
				r.Class("canonical_rejected")
				atomic.AddInt64(&canonRejected, 1)
				witness("canonical_rejected:"+api, wt, detail())
			} else {
				r.Class("true_canonical_rejected")
			}
		}
		return
	}
	if names == nil {
		r.Class("canonical_accept")
	}
	switch {
	case canon:
		r.Class("accept_true")
		if names != nil {
			r.Case(fmt.Sprintf("%s/accept_true/%s", api, w.fam))
		}
		return
	case lit && proofIgnorable:
		// same statement (identical trees / empty old tree), the proof is not looked at
		r.Class("malleable_consistency_proof_ignored")
		witness(api+":malleable_consistency_proof_ignored", wt, detail())
		return
	case lit:
		report(api+":noncanonical-proof-accepted", wt, detail())
		return
	}
	// accepted, claim literally false
	switch {
	case m > n:
		report(api+":old-size-greater-than-new-size-accepted", wt, detail())
	case m == 0 && n == 0 && t.rOld == emptyU:
		// both trees are claimed empty but new_root is not the empty root: checkable, and false
		report(api+":old_size=0:new_size=0:new_root-not-checked-against-empty-root", wt, detail())
	case m == 0 && t.rOld == emptyU:
		// the empty tree is a prefix of every tree; nothing binds new_root (any verifier)
		r.Class("vacuous_empty_old_tree")
		witness(api+":vacuous_empty_old_tree", wt, detail())
	case m == 0:
		w2 := wt
		if t.rOld == t.rNew {
			w2 += 1 << 50 // prefer a witness that does not also go through the equal-roots shortcut
		}
		report(api+":old_size=0:old_root-not-checked-against-empty-root", w2, detail())
	case t.rOld == t.rNew && m == n:
		// a tree compared with itself: trivially consistent whatever the (unverifiable) size
		r.Class("trivial_same_tree")
		witness(api+":trivial_same_tree", wt, detail())
	case t.rOld == t.rNew:
		report(api+":equal-roots-accepted-for-different-sizes", wt, detail())
	default:
		// 0 < m < n, different roots, at least one (size, root) pair is not a commitment of our tree.
		// The node must not accept more than the textbook RFC 9162 verifier.
		rp := make([]ref.H, len(t.proof))
		for i := range rp {
			rp[i] = ref.H(t.proof[i])
		}
		if !ref.VerifyConsistency(uint64(m), uint64(n), ref.H(t.rOld), ref.H(t.rNew), rp) {
			report(api+":accepted-where-rfc-reference-verifier-rejects", wt, detail())
			return
		}
		a, okA := w.rootAt[t.rOld]
		b, okB := w.rootAt[t.rNew]
		switch {
		case okA && okB && a >= 1 && a < b && eqU(t.proof, w.cons[b][a]):
			r.Class("alias_size_unbound")
			r.Case(fmt.Sprintf("%s/alias_size_unbound/%s", api, w.fam))
			d := detail()
			d["explanation"] = fmt.Sprintf("roots are the genuine roots of sizes %d and %d with their genuine proof; (%d,%d) folds along the same shape", a, b, m, n)
			witness(api+":alias_size_unbound", wt, d)
			if strict {
				report(api+":size-alias-accepted", wt, d)
			}
		case !okA || !okB:
			r.Class("selfconsistent_foreign_root")
			r.Case(fmt.Sprintf("%s/selfconsistent_foreign_root/%s", api, w.fam))
			witness(api+":selfconsistent_foreign_root", wt, detail())
		default:
			report(api+":forged-tuple-accepted", wt, detail())
		}
	}
}

// ------------------------------------------------------------------ MerkleProve (value + positional path, no index / size)

type pathT struct {
	value  []byte
	lenEnc int // 0 canonical, 1 = 0xFD u16, 2 = 0xFE u32, 3 = 0xFF u64
	elems  []elem
	trail  []byte
	root   []byte
	raw    []byte // byte-level mutations operate on the serialised form
}

func (t *pathT) bytes() []byte {
	if t.raw != nil {
		return t.raw
	}
	var out []byte
	l := uint64(len(t.value))
	enc := t.lenEnc
	if enc == 0 {
		switch {
		case l < 0xFD:
		case l <= 0xFFFF:
			enc = 1
		default:
			enc = 2
		}
	}
	switch enc {
	case 0:
		out = append(out, byte(l))
	case 1:
		out = append(out, 0xFD, 0, 0)
		binary.LittleEndian.PutUint16(out[1:], uint16(l))
	case 2:
		out = append(out, 0xFE, 0, 0, 0, 0)
		binary.LittleEndian.PutUint32(out[1:], uint32(l))
	case 3:
		out = append(out, 0xFF, 0, 0, 0, 0, 0, 0, 0, 0)
		binary.LittleEndian.PutUint64(out[1:], l)
	}
	out = append(out, t.value...)
	for _, e := range t.elems {
		out = append(out, e.flag)
		out = append(out, e.h[:]...)
	}
	return append(out, t.trail...)
}

func pathMutators(w *world, i, s int) []mutator[pathT] {
	base := w.lelems[s][i]
	L := len(base)
	var ms []mutator[pathT]
	ms = append(ms,
		mutator[pathT]{"value^01", func(t *pathT) bool {
			if len(t.value) == 0 {
				t.value = []byte{1}
			} else {
				t.value = cp(t.value)
				t.value[0] ^= 1
			}
			return true
		}},
		mutator[pathT]{"value+00", func(t *pathT) bool { t.value = append(cp(t.value), 0); return true }},
		mutator[pathT]{"value-last", func(t *pathT) bool {
			if len(t.value) == 0 {
				return false
			}
			t.value = t.value[:len(t.value)-1]
			return true
		}})
	for _, d := range []int{-1, 1} {
		o := i + d
		if o < 0 || o >= w.N {
			continue
		}
		ms = append(ms, mutator[pathT]{fmt.Sprintf("value=D[i%+d]", d), func(t *pathT) bool { t.value = append([]byte{}, w.data[o]...); return true }})
	}
	cur := w.lh[i]
	for lv := 1; lv <= L; lv++ {
		lv := lv
		var l, rr U
		if base[lv-1].flag == merkle.LEFT {
			l, rr = base[lv-1].h, cur
		} else {
			l, rr = cur, base[lv-1].h
		}
		cur = merkle.HashChildren(l, rr)
		for _, ed := range []struct {
			en string
			d  []byte
		}{
			{"01lr", append(append([]byte{0x01}, l[:]...), rr[:]...)},
			{"lr", append(append([]byte{}, l[:]...), rr[:]...)},
			{"00lr", append(append([]byte{0x00}, l[:]...), rr[:]...)},
		} {
			en, d := ed.en, ed.d
			ms = append(ms, mutator[pathT]{fmt.Sprintf("interior@%d-as-value:%s", lv, en), func(t *pathT) bool {
				if len(t.elems) < lv {
					return false
				}
				t.elems = append([]elem{}, t.elems[lv:]...)
				t.value = append([]byte{}, d...)
				return true
			}})
		}
	}
	for j := 0; j <= L; j++ {
		j := j
		at := func(g func(e *elem)) func(*pathT) bool {
			return func(t *pathT) bool {
				if j >= len(t.elems) {
					return false
				}
				t.elems = cp(t.elems)
				g(&t.elems[j])
				return true
			}
		}
		ms = append(ms,
			mutator[pathT]{fmt.Sprintf("flag[%d]flip", j), at(func(e *elem) {
				if e.flag == 0 {
					e.flag = 1
				} else {
					e.flag = 0
				}
			})},
			mutator[pathT]{fmt.Sprintf("flag[%d]=02", j), at(func(e *elem) { e.flag = 2 })},
			mutator[pathT]{fmt.Sprintf("flag[%d]=ff", j), at(func(e *elem) { e.flag = 0xff })},
			mutator[pathT]{fmt.Sprintf("h[%d]^01", j), at(func(e *elem) { e.h[0] ^= 1 })},
			mutator[pathT]{fmt.Sprintf("h[%d]^80@31", j), at(func(e *elem) { e.h[31] ^= 0x80 })},
			mutator[pathT]{fmt.Sprintf("drop[%d]", j), func(t *pathT) bool {
				if j >= len(t.elems) {
					return false
				}
				t.elems = append(append([]elem{}, t.elems[:j]...), t.elems[j+1:]...)
				return true
			}},
			mutator[pathT]{fmt.Sprintf("dup[%d]", j), func(t *pathT) bool {
				if j >= len(t.elems) {
					return false
				}
				n := append([]elem{}, t.elems[:j+1]...)
				t.elems = append(n, t.elems[j:]...)
				return true
			}},
			mutator[pathT]{fmt.Sprintf("swap[%d,%d]", j, j+1), func(t *pathT) bool {
				if j+1 >= len(t.elems) {
					return false
				}
				t.elems = cp(t.elems)
				t.elems[j], t.elems[j+1] = t.elems[j+1], t.elems[j]
				return true
			}})
	}
	ms = append(ms,
		mutator[pathT]{"appendElem(1,0)", func(t *pathT) bool { t.elems = append(cp(t.elems), elem{1, zeroU}); return true }},
		mutator[pathT]{"appendElem(0,leafhash)", func(t *pathT) bool { t.elems = append(cp(t.elems), elem{0, merkle.HashLeaf(t.value)}); return true }},
		mutator[pathT]{"trail+1", func(t *pathT) bool { t.trail = append(cp(t.trail), 0x5a); return true }},
		mutator[pathT]{"trail+32", func(t *pathT) bool { t.trail = append(cp(t.trail), bytes.Repeat([]byte{0x5a}, 32)...); return true }},
		mutator[pathT]{"trail+33", func(t *pathT) bool { t.trail = append(cp(t.trail), bytes.Repeat([]byte{0x00}, 33)...); return true }},
		mutator[pathT]{"len=FD", func(t *pathT) bool { t.lenEnc = 1; return true }},
		mutator[pathT]{"len=FE", func(t *pathT) bool { t.lenEnc = 2; return true }},
		mutator[pathT]{"len=FF", func(t *pathT) bool { t.lenEnc = 3; return true }},
		mutator[pathT]{"root^01", func(t *pathT) bool {
			if len(t.root) == 0 {
				return false
			}
			t.root = cp(t.root)
			t.root[0] ^= 1
			return true
		}},
		mutator[pathT]{"root-last", func(t *pathT) bool {
			if len(t.root) == 0 {
				return false
			}
			t.root = t.root[:len(t.root)-1]
			return true
		}},
		mutator[pathT]{"root+00", func(t *pathT) bool { t.root = append(cp(t.root), 0); return true }},
		mutator[pathT]{"root=empty", func(t *pathT) bool { t.root = append([]byte{}, emptyU[:]...); return true }},
		mutator[pathT]{"root=leafhash", func(t *pathT) bool { h := merkle.HashLeaf(t.value); t.root = h[:]; return true }})
	for v := 0; v <= w.N; v++ {
		v := v
		ms = append(ms, mutator[pathT]{fmt.Sprintf("root=R[%d]", v), func(t *pathT) bool { t.root = append([]byte{}, w.root[v][:]...); return true }})
	}
	return ms
}

func callPath(path, root []byte) (val []byte, err error, rec any) {
	defer func() {
		if x := recover(); x != nil {
			rec = x
		}
	}()
	val, err = merkle.MerkleProve(path, root)
	return
}

func evalPath(r *ctr, w *world, t *pathT, names []string) {
	const api = "MerkleProve"
	path := t.bytes()
	val, err, rec := callPath(path, t.root)
	pan := rec != nil
	r.Eval()
	detail := func() map[string]any {
		return map[string]any{"family": w.fam, "mutations": append([]string{}, names...), "path": hex.EncodeToString(path), "root": hex.EncodeToString(t.root)}
	}
	wt := weight(len(names), len(path), 0)
	if pan {
		r.Class("panic")
		witness("panic:"+api, wt, map[string]any{"panic": fmt.Sprint(rec), "tuple": detail()})
		return
	}
	if err != nil {
		r.Class("reject")
		if names == nil {
			r.Class("canonical_rejected")
			atomic.AddInt64(&canonRejected, 1)
			witness("canonical_rejected:"+api, wt, detail())
		}
		return
	}
	if names == nil {
		r.Class("canonical_accept")
	}
	pval, pel, trailing, canonHdr, ok := parsePath(path)
	if !ok || !bytes.Equal(pval, val) {
		report(api+":accepted-unparsable-or-returned-other-value", wt, detail())
		return
	}
	var rt U
	s, known := 0, false
	if len(t.root) == 32 {
		copy(rt[:], t.root)
		s, known = w.rootAt[rt]
	}
	if !known {
		// no index / size here: the statement is "value is a leaf under root". Under a root that is not
		// ours it is judged by the textbook fold (true of the tree made of this leaf and these siblings).
		h := ref.Leaf(pval)
		for _, e := range pel {
			if e.flag == 0 {
				h = ref.Node(ref.H(e.h), h)
			} else {
				h = ref.Node(h, ref.H(e.h))
			}
		}
		if len(t.root) == 32 && U(h) == rt {
			r.Class("selfconsistent_foreign_root")
			r.Case(fmt.Sprintf("%s/selfconsistent_foreign_root/%s", api, w.fam))
			witness(api+":selfconsistent_foreign_root", wt, detail())
		} else {
			report(api+":accepted-where-reference-fold-differs", wt, detail())
		}
		return
	}
	found, flagMall := false, false
	for i := 0; i < s && !found; i++ {
		if !bytes.Equal(w.data[i], val) || len(w.lelems[s][i]) != len(pel) {
			continue
		}
		same, fm := true, false
		for j := range pel {
			c := w.lelems[s][i][j]
			same = same && c.h == pel[j].h && (c.flag == 0) == (pel[j].flag == 0)
			fm = fm || pel[j].flag > 1
		}
		if same {
			found, flagMall = true, fm
		}
	}
	if !found {
		inTree := false
		for i := 0; i < s; i++ {
			inTree = inTree || bytes.Equal(w.data[i], val)
		}
		if inTree {
			report(api+":noncanonical-path-accepted", wt, detail())
		} else {
			report(api+":value-not-in-tree-accepted", wt, detail())
		}
		return
	}
	mall := false
	if trailing > 0 {
		mall = true
		r.Class("malleable_trailing_bytes_lt33")
		witness(api+":malleable_trailing_bytes_lt33", wt, detail())
	}
	if flagMall {
		mall = true
		r.Class("malleable_flag_ge2_is_right")
		witness(api+":malleable_flag_ge2_is_right", wt, detail())
	}
	if !canonHdr {
		mall = true
		r.Class("malleable_nonminimal_varuint_length")
		witness(api+":malleable_nonminimal_varuint_length", wt, detail())
	}
	if !mall {
		r.Class("accept_true")
		if names != nil {
			r.Case(fmt.Sprintf("%s/accept_true/%s", api, w.fam))
		}
	} else {
		r.Case(fmt.Sprintf("%s/malleable/%s", api, w.fam))
	}
}

// ------------------------------------------------------------------ main

type job struct {
	size int
	f    func()
}

func main() {
	r = ev.Start("C07", "exploration")
	t0 := time.Now()
	if pf := os.Getenv("VERIF_PPROF"); pf != "" {
		f, _ := os.Create(pf)
		_ = pprof.StartCPUProfile(f)
		defer pprof.StopCPUProfile()
	}
	N := r.QT(20, 48)
	r.Require("reject", "accept_true", "canonical_accept")
	fams := []string{"distinct", "allequal", "nodeish"}
	if r.Thorough() {
		fams = append(fams, "pairs")
	}
	var worlds []*world
	for _, f := range fams {
		worlds = append(worlds, buildWorld(f, N))
	}
	if worldDiff > 0 {
		r.Note("world_differs_from_rfc_reference", worldDiff)
	}
	r.Note("phase_world_done_s", time.Since(t0).Seconds())
	var jobs []job
	baseTuples := 0
	for s := 1; s <= N; s++ {
		for _, w := range worlds {
			w := w
			for i := 0; i < s; i++ {
				i, s := i, s
				baseTuples += 3
				jobs = append(jobs, job{s, func() {
					c := newCtr()
					defer c.merge()
					for _, useData := range []bool{false, true} {
						base := incT{lh: w.lh[i], data: w.data[i], useData: useData, idx: uint32(i), size: uint32(s), proof: w.inc[s][i], root: w.root[s]}
						explore(base, incMutators(w, i, s, useData), true, func(t *incT, n []string) { evalInc(c, w, t, n) })
					}
				}}, job{s, func() {
					c := newCtr()
					defer c.merge()
					_, el, _, _, _ := parsePath(w.lpath[s][i])
					base := pathT{value: w.data[i], elems: el, root: w.root[s][:]}
					if !bytes.Equal(base.bytes(), w.lpath[s][i]) {
						r.HarnessError("path re-serialisation differs (%s,%d,%d)", w.fam, i, s)
					}
					explore(base, pathMutators(w, i, s), true, func(t *pathT, n []string) { evalPath(c, w, t, n) })
					// byte level: every single-byte corruption (two masks) and every truncation of the serialised path
					raw := w.lpath[s][i]
					for off := range raw {
						for _, mask := range []byte{0x01, 0x80} {
							t := base
							t.raw = append([]byte{}, raw...)
							t.raw[off] ^= mask
							evalPath(c, w, &t, []string{fmt.Sprintf("byte[%d]^%02x", off, mask)})
						}
					}
					for l := 0; l < len(raw); l++ {
						t := base
						t.raw = append([]byte{}, raw[:l]...)
						evalPath(c, w, &t, []string{fmt.Sprintf("truncate=%d", l)})
					}
				}})
			}
			for m := 0; m <= s; m++ {
				m, s := m, s
				baseTuples++
				jobs = append(jobs, job{s, func() {
					c := newCtr()
					defer c.merge()
					base := consT{m: uint32(m), n: uint32(s), rOld: w.root[m], rNew: w.root[s]}
					if m >= 1 {
						base.proof = w.cons[s][m]
					}
					explore(base, consMutators(w, m, s), true, func(t *consT, n []string) { evalCons(c, w, t, n) })
				}})
			}
		}
	}
	// run, cheapest (smallest) tuples first so that a deadline cuts the large end
	ch := make(chan job, 256)
	var wg sync.WaitGroup
	for k := 0; k < 14; k++ {
		wg.Add(1)
		go func() {
			defer wg.Done()
			for j := range ch {
				j.f()
			}
		}()
	}
	completed := N
	for _, j := range jobs {
		if r.Expired() {
			completed = j.size - 1
			r.Capped(fmt.Sprintf("deadline: all tuples with size <= %d completed, sizes %d..%d cut", completed, j.size, N))
			break
		}
		ch <- j
	}
	close(ch)
	wg.Wait()
	r.Note("phase_jobs_done_s", time.Since(t0).Seconds())

	r.Evals(int(total.evals))
	for k, v := range total.classes {
		for ; v > 0; v-- {
			r.Class(k)
		}
	}
	for k := range total.cases {
		r.Case(k)
	}
	r.Note("phase_flush_done_s", time.Since(t0).Seconds())
	keys := make([]string, 0, len(cands))
	for k := range cands {
		keys = append(keys, k)
	}
	sort.Strings(keys)
	for _, k := range keys {
		r.Violation(k, cands[k].detail)
	}
	ex := map[string]any{}
	for k, c := range notes {
		ex[k] = c.detail
	}
	r.Note("measured_not_flagged_minimal_examples", ex)
	r.Note("strict_size_alias", strict)
	r.Assume("SHA-256 collision / second-preimage resistance",
		"the (root, tree size) pair handed to an inclusion / consistency verifier comes from a trusted source: RFC 6962 roots do not commit to the size, so size aliasing under a wrong size is inherent to any verifier (measured as alias_size_unbound)",
		"the empty tree is a prefix of every tree (old size 0 with the genuine empty root is vacuously consistent with anything)")
	pprof.StopCPUProfile()
	// canonical tuples must be accepted; if they are not and nothing false was accepted either, the run says nothing
	if canonRejected > 0 {
		r.Note("canonical_tuples_rejected", canonRejected)
		if len(cands) == 0 {
			r.HarnessError("%d honest tuples were rejected by the verifiers and no false tuple was accepted (world / harness broken?)", canonRejected)
		}
	}
	r.Finish(map[string]any{
		"rule": fmt.Sprintf("families %v, every valid tuple with size <= %d (inclusion hash-API + data-API, leaf path, consistency incl. old size 0): the tuple itself, every single mutation and every ordered pair of mutations (commuting pairs once) from the alphabet "+
			"{proof element xor/zero/=leaf/drop/dup/swap/append/prepend, leaf xor/neighbour/root/interior-node-as-leaf (3 encodings, with and without index+size shrink), every index 0..N+1, every size 0..N+2, root xor/zero/empty/leaf/every genuine root, "+
			"flags flip/02/ff, trailing 1/32/33 bytes, var-uint re-encodings}; MerkleProve additionally every single-byte corruption (2 masks) and every truncation", fams, N),
		"base_tuples":        baseTuples,
		"max_size":           N,
		"max_size_completed": completed,
	})
}
