// C32 — governance approvals take effect exactly at ceil(2N/3) distinct current consensus validators
// approving the same action + request; approvals for other actions / requests never count.
//
// Explicit-state BFS over approval sequences on the real native contracts (production tx path).
// One "group" per CheckConsensusSigns call site (10 sites): the site's request R1 is approvable by every
// validator, a candidate-status peer and an outsider; concurrently pending requests R2.. of the same action
// (other request) and of other actions with the SAME request bytes are approvable by a few validators.
// Extra events replace / withdraw / create the request while approvals are pending.
// Reference model: approver sets per (action, request) + the validator pool; quorum = least k with 3k>=2N.
package main

import (
	"encoding/hex"
	"encoding/json"
	"fmt"
	"sort"
	"strings"
	"sync"

	"github.com/polynetwork/poly/common"
	_ "github.com/polynetwork/poly/native/service"
	"github.com/polynetwork/poly/native/service/governance/neo3_state_manager"
	"github.com/polynetwork/poly/native/service/governance/node_manager"
	"github.com/polynetwork/poly/native/service/governance/relayer_manager"
	"github.com/polynetwork/poly/native/service/governance/side_chain_manager"
	"verif.local/engine/ev"
	"verif.local/engine/lib/gov"
	"verif.local/engine/mc"
	"verif.local/engine/polyenv"
)

const (
	stCandidate = 0
	stConsensus = 1
	stQuiting   = 2
	stBlack     = 3
)

// ---------------------------------------------------------------------------------------------
// reference model

type model struct {
	// approvers of a (action, request id) since its last effect ...
	Inst   map[string][]string            // ... given since the stored request object last changed (filed / replaced / withdrawn): these MUST count
	Cont   map[string]map[string][]string // ... per content of the stored request object at approval time: those for the current content MAY count
	Appr   map[string][]string            // ... regardless of the request object (only used to name a violation)
	Status map[string]int                 // account name -> pool status (absent: not in the pool)
	Views  int                            // number of validator-set changes so far
}

func (m model) clone() model {
	n := model{Appr: map[string][]string{}, Inst: map[string][]string{}, Cont: map[string]map[string][]string{}, Status: map[string]int{}, Views: m.Views}
	for k, v := range m.Appr {
		n.Appr[k] = append([]string{}, v...)
	}
	for k, v := range m.Cont {
		n.Cont[k] = map[string][]string{}
		for c, l := range v {
			n.Cont[k][c] = append([]string{}, l...)
		}
	}
	for k, v := range m.Inst {
		n.Inst[k] = append([]string{}, v...)
	}
	for k, v := range m.Status {
		n.Status[k] = v
	}
	return n
}

func (m model) key() string { b, _ := json.Marshal(m); return string(b) }

func (m model) consensus() map[string]bool {
	out := map[string]bool{}
	for a, s := range m.Status {
		if s == stConsensus {
			out[a] = true
		}
	}
	return out
}

// changeValidatorSet is the reference epoch change: quitting and black-listed peers leave, every remaining peer is a validator.
func (m *model) changeValidatorSet() {
	for a, s := range m.Status {
		switch s {
		case stQuiting, stBlack:
			delete(m.Status, a)
		default:
			m.Status[a] = stConsensus
		}
	}
	m.Views++
}

func add(l []string, a string) []string {
	for _, x := range l {
		if x == a {
			return l
		}
	}
	l = append(append([]string{}, l...), a)
	sort.Strings(l)
	return l
}

func countIn(l []string, set map[string]bool) int {
	n := 0
	for _, a := range l {
		if set[a] {
			n++
		}
	}
	return n
}

// ---------------------------------------------------------------------------------------------
// environment

type env struct {
	N    int
	acct map[string]*polyenv.Acct
	vals []*polyenv.Acct
}

func newEnv(n int) *env {
	e := &env{N: n, acct: map[string]*polyenv.Acct{}, vals: polyenv.Keys(n)}
	for i, v := range e.vals {
		e.acct[fmt.Sprintf("V%d", i+1)] = v
	}
	for name, idx := range map[string]int{"K1": 20, "K2": 21, "W1": 22, "W2": 23, "X": 30, "c1": 40, "c2": 41,
		"o1": 50, "o2": 51, "B": 52, "ra": 60, "rb": 61, "rc": 62, "rd": 63, "D1": 70, "D2": 71, "E1": 72} {
		e.acct[name] = polyenv.Key(idx)
	}
	return e
}

func (e *env) a(name string) *polyenv.Acct { return e.acct[name] }
func (e *env) vname(i int) string          { return fmt.Sprintf("V%d", i) }
func (e *env) firstVals(k int) []string {
	var o []string
	for i := 1; i <= k && i <= e.N; i++ {
		o = append(o, e.vname(i))
	}
	return o
}

type pair struct {
	name, site string
	contract   common.Address
	method     string
	args       func(sender common.Address) []byte
	approvers  []string
	notify     string
	signKey    string
	reqKey     string // store key of the pending request object ("" = the action has none: black / white listing)
	applied    func(before, after map[string]string) bool
	allowed    func(k string) bool
	onEffect   func(m *model)
}

type extra struct {
	name   string
	run    func(w gov.Execer, h uint32) polyenv.Result
	resets []string
}

type group struct {
	depth  int // 0 = quorum+2 (+1 with request events)
	joined int // consensus validators the setup adds to the genesis set (through register/approve/commitDpos)
	views0 int // validator-set changes performed by the setup
	name   string
	setup  func(w gov.Execer)
	pairs  []*pair
	extras []*extra
}

func must(r polyenv.Result, what string) {
	if !r.OK {
		panic(fmt.Sprintf("setup step %q failed: %v", what, r.Err))
	}
}

// ---------------------------------------------------------------------------------------------
// pairs (one constructor per CheckConsensusSigns call site)

func inSet(keys ...string) func(string) bool {
	return func(k string) bool {
		for _, x := range keys {
			if x == k {
				return true
			}
		}
		return false
	}
}

func (e *env) pCand(who string) *pair {
	pk := e.a(who).PubHex
	return &pair{name: "approveCandidate(" + who + ")", site: "approveCandidate", contract: gov.NM, method: node_manager.APPROVE_CANDIDATE,
		args: func(s common.Address) []byte { return gov.Peer(pk, s) }, notify: "approveCandidate",
		signKey: gov.SignKey(node_manager.APPROVE_CANDIDATE, []byte(pk)), reqKey: gov.KeyPeerApply(pk),
		applied: func(b, a map[string]string) bool {
			_, pool := gov.Pool(a)
			st, in := pool[pk]
			_, pend := a[gov.KeyPeerApply(pk)]
			return in && st == stCandidate && !pend
		},
		allowed: func(k string) bool {
			return gov.IsPeerPoolKey(k) || inSet(gov.KeyPeerApply(pk), gov.KeyPeerIndex(pk), gov.KeyCandidateIndex())(k)
		},
		onEffect: func(m *model) { m.Status[who] = stCandidate }}
}

func (e *env) pBlack(who ...string) *pair {
	var pks []string
	var input []byte
	keys := []string{gov.KeyGovView()}
	for _, w := range who {
		pks = append(pks, e.a(w).PubHex)
		input = append(input, []byte(e.a(w).PubHex)...)
		keys = append(keys, gov.KeyBlack(e.a(w).PubHex))
	}
	return &pair{name: "blackNode(" + strings.Join(who, ",") + ")", site: "blackNode", contract: gov.NM, method: node_manager.BLACK_NODE,
		args: func(s common.Address) []byte { return gov.PeerList(pks, s) }, notify: "blackNode",
		signKey: gov.SignKey(node_manager.BLACK_NODE, input),
		applied: func(b, a map[string]string) bool {
			for _, pk := range pks {
				if _, ok := a[gov.KeyBlack(pk)]; !ok {
					return false
				}
			}
			return true
		},
		allowed: func(k string) bool { return gov.IsPeerPoolKey(k) || inSet(keys...)(k) },
		onEffect: func(m *model) {
			change := false
			for _, w := range who {
				if m.Status[w] == stConsensus {
					change = true
				}
				m.Status[w] = stBlack
			}
			if change {
				m.changeValidatorSet()
			}
		}}
}

func (e *env) pWhite(who string) *pair {
	pk := e.a(who).PubHex
	return &pair{name: "whiteNode(" + who + ")", site: "whiteNode", contract: gov.NM, method: node_manager.WHITE_NODE,
		args: func(s common.Address) []byte { return gov.Peer(pk, s) }, notify: "whiteNode",
		signKey: gov.SignKey(node_manager.WHITE_NODE, []byte(pk)),
		applied: func(b, a map[string]string) bool { _, ok := a[gov.KeyBlack(pk)]; return !ok },
		allowed: inSet(gov.KeyBlack(pk))}
}

func (e *env) pScReg(id uint64) *pair {
	return &pair{name: fmt.Sprintf("approveRegisterSideChain(%d)", id), site: "approveRegisterSideChain", contract: gov.SCM,
		method: side_chain_manager.APPROVE_REGISTER_SIDE_CHAIN, args: func(s common.Address) []byte { return gov.ChainID(id, s) },
		notify: "ApproveRegisterSideChain", signKey: gov.SignKey(side_chain_manager.APPROVE_REGISTER_SIDE_CHAIN, gov.U64(id)), reqKey: gov.KeySideChainApply(id),
		applied: func(b, a map[string]string) bool {
			_, pend := a[gov.KeySideChainApply(id)]
			return !pend && a[gov.KeySideChain(id)] != "" && a[gov.KeySideChain(id)] == b[gov.KeySideChainApply(id)]
		},
		allowed: inSet(gov.KeySideChain(id), gov.KeySideChainApply(id))}
}

func (e *env) pScUpd(id uint64) *pair {
	return &pair{name: fmt.Sprintf("approveUpdateSideChain(%d)", id), site: "approveUpdateSideChain", contract: gov.SCM,
		method: side_chain_manager.APPROVE_UPDATE_SIDE_CHAIN, args: func(s common.Address) []byte { return gov.ChainID(id, s) },
		notify: "ApproveUpdateSideChain", signKey: gov.SignKey(side_chain_manager.APPROVE_UPDATE_SIDE_CHAIN, gov.U64(id)), reqKey: gov.KeySideChainUpdate(id),
		applied: func(b, a map[string]string) bool {
			_, pend := a[gov.KeySideChainUpdate(id)]
			return !pend && a[gov.KeySideChain(id)] != "" && a[gov.KeySideChain(id)] == b[gov.KeySideChainUpdate(id)]
		},
		allowed: inSet(gov.KeySideChain(id), gov.KeySideChainUpdate(id))}
}

func (e *env) pScQuit(id uint64) *pair {
	return &pair{name: fmt.Sprintf("approveQuitSideChain(%d)", id), site: "approveQuitSideChain", contract: gov.SCM,
		method: side_chain_manager.APPROVE_QUIT_SIDE_CHAIN, args: func(s common.Address) []byte { return gov.ChainID(id, s) },
		notify: "ApproveQuitSideChain", signKey: gov.SignKey(side_chain_manager.QUIT_SIDE_CHAIN, gov.U64(id)), reqKey: gov.KeySideChainQuit(id),
		applied: func(b, a map[string]string) bool { _, ok := a[gov.KeySideChain(id)]; return !ok },
		allowed: inSet(gov.KeySideChain(id), gov.KeySideChainQuit(id), gov.KeySideChainUpdate(id))} // removing a chain also drops its pending update request (fix 2470786)
}

func (e *env) pRelReg(id uint64, list ...string) *pair {
	keys := []string{gov.KeyRelayerApply(id)}
	for _, r := range list {
		keys = append(keys, gov.KeyRelayer(e.a(r).Addr))
	}
	return &pair{name: fmt.Sprintf("approveRegisterRelayer(%d)", id), site: "approveRegisterRelayer", contract: gov.RM,
		method: relayer_manager.APPROVE_REGISTER_RELAYER, args: func(s common.Address) []byte { return gov.ApproveRelayer(id, s) },
		notify: "ApproveRegisterRelayer", signKey: gov.SignKey(relayer_manager.APPROVE_REGISTER_RELAYER, gov.U64(id)), reqKey: gov.KeyRelayerApply(id),
		applied: func(b, a map[string]string) bool {
			for _, k := range keys[1:] {
				if _, ok := a[k]; !ok {
					return false
				}
			}
			_, pend := a[keys[0]]
			return !pend
		},
		allowed: inSet(keys...)}
}

func (e *env) pRelRem(id uint64, list ...string) *pair {
	keys := []string{gov.KeyRelayerRemove(id)}
	for _, r := range list {
		keys = append(keys, gov.KeyRelayer(e.a(r).Addr))
	}
	return &pair{name: fmt.Sprintf("approveRemoveRelayer(%d)", id), site: "approveRemoveRelayer", contract: gov.RM,
		method: relayer_manager.APPROVE_REMOVE_RELAYER, args: func(s common.Address) []byte { return gov.ApproveRelayer(id, s) },
		notify: "ApproveRemoveRelayer", signKey: gov.SignKey(relayer_manager.APPROVE_REMOVE_RELAYER, gov.U64(id)), reqKey: gov.KeyRelayerRemove(id),
		applied: func(b, a map[string]string) bool {
			for _, k := range keys[1:] {
				if _, ok := a[k]; ok {
					return false
				}
			}
			return true
		},
		allowed: inSet(keys...)}
}

func has(l []string, x string) bool {
	for _, y := range l {
		if y == x {
			return true
		}
	}
	return false
}

func (e *env) pSvReg(id uint64, list ...string) *pair {
	return &pair{name: fmt.Sprintf("approveRegisterStateValidator(%d)", id), site: "approveRegisterStateValidator", contract: gov.SVM,
		method: neo3_state_manager.APPROVE_REGISTER_STATE_VALIDATOR, args: func(s common.Address) []byte { return gov.ApproveSV(id, s) },
		notify: "ApproveRegisterStateValidator", signKey: gov.SignKey(neo3_state_manager.APPROVE_REGISTER_STATE_VALIDATOR, gov.U64(id)), reqKey: gov.KeySVApply(id),
		applied: func(b, a map[string]string) bool {
			cur := gov.SVs(a)
			for _, s := range list {
				if !has(cur, s) {
					return false
				}
			}
			_, pend := a[gov.KeySVApply(id)]
			return !pend
		},
		allowed: inSet(gov.KeySV(), gov.KeySVApply(id))}
}

func (e *env) pSvRem(id uint64, list ...string) *pair {
	return &pair{name: fmt.Sprintf("approveRemoveStateValidator(%d)", id), site: "approveRemoveStateValidator", contract: gov.SVM,
		method: neo3_state_manager.APPROVE_REMOVE_STATE_VALIDATOR, args: func(s common.Address) []byte { return gov.ApproveSV(id, s) },
		notify: "ApproveRemoveStateValidator", signKey: gov.SignKey(neo3_state_manager.APPROVE_REMOVE_STATE_VALIDATOR, gov.U64(id)), reqKey: gov.KeySVRemove(id),
		applied: func(b, a map[string]string) bool {
			cur := gov.SVs(a)
			for _, s := range list {
				if has(cur, s) {
					return false
				}
			}
			_, pend := a[gov.KeySVRemove(id)]
			return !pend
		},
		allowed: inSet(gov.KeySV(), gov.KeySVRemove(id))}
}

// ---------------------------------------------------------------------------------------------
// setup helpers (all through the production tx path)

const h0 = 10

// approveBy (setup only): validators approve one after the other until done() reports the effect; the setup
// does not presuppose the quorum rule under test.
func (e *env) approveBy(w gov.Execer, p *pair, done func(m map[string]string) bool, what string) {
	for i := 1; i <= e.N; i++ {
		if done(w.Dump().Map()) {
			return
		}
		n := e.vname(i)
		if r := gov.Call(w, p.contract, p.method, p.args(e.a(n).Addr), e.a(n), h0); !r.OK {
			panic(fmt.Sprintf("setup %s: approval by %s failed: %v", what, n, r.Err))
		}
	}
	if !done(w.Dump().Map()) {
		panic("setup " + what + ": no effect after every validator approved")
	}
}

func self(p *pair) func(m map[string]string) bool {
	return func(m map[string]string) bool { return p.applied(m, m) }
}

func (e *env) regCandidate(w gov.Execer, who string, owner string) polyenv.Result {
	return gov.Call(w, gov.NM, node_manager.REGISTER_CANDIDATE, gov.RegisterPeer(e.a(who).PubHex, e.a(owner).Addr), e.a(owner), h0)
}

func (e *env) makeCandidate(w gov.Execer, who string) {
	must(e.regCandidate(w, who, who), "registerCandidate "+who)
	p := e.pCand(who)
	e.approveBy(w, p, self(p), "approveCandidate "+who)
}

func scRec(e *env, owner string, id uint64, tag string) gov.SideChainRec {
	return gov.SideChainRec{Owner: e.a(owner).Addr, ChainID: id, Router: 2, Name: fmt.Sprintf("chain%d-%s-%s", id, owner, tag),
		BlocksToWait: 1, CCMC: []byte("ccmc-" + tag), Extra: []byte("extra-" + tag)}
}

func (e *env) scRequest(w gov.Execer, method, owner string, id uint64, tag string, h uint32) polyenv.Result {
	return gov.Call(w, gov.SCM, method, gov.SideChainArgs(scRec(e, owner, id, tag)), e.a(owner), h)
}

func (e *env) registerChain(w gov.Execer, owner string, id uint64) {
	must(e.scRequest(w, side_chain_manager.REGISTER_SIDE_CHAIN, owner, id, "reg", h0), "registerSideChain")
	e.approveBy(w, e.pScReg(id), func(m map[string]string) bool { _, ok := m[gov.KeySideChain(id)]; return ok }, "approveRegisterSideChain")
}

func addrs(e *env, names ...string) []common.Address {
	var o []common.Address
	for _, n := range names {
		o = append(o, e.a(n).Addr)
	}
	return o
}

// ---------------------------------------------------------------------------------------------
// groups

// level 2: R1 by validators+candidate+outsider, R2 by a quorum of validators, R3 by two validators, request events;
// level 1: R2 by two validators, R3 by one; level 0: R1 by validators+outsider, R2 by one validator, nothing else.
func (e *env) groups(level int) []*group {
	q := gov.Quorum(e.N)
	all := append(e.firstVals(e.N), "K1", "X")
	second := e.firstVals(q)
	few := e.firstVals(2)
	switch level {
	case 1:
		second, few = e.firstVals(2), e.firstVals(1)
	case 0:
		all, second, few = append(e.firstVals(e.N), "X"), e.firstVals(1), nil
	}
	with := func(p *pair, ap []string) *pair { p.approvers = ap; return p }
	baseSetup := func(w gov.Execer) { e.makeCandidate(w, "K1") }
	x := "X" // requests of the id-counter contracts are filed by an arbitrary account
	var gs []*group

	// 1 approveCandidate
	gs = append(gs, &group{name: "approveCandidate", setup: func(w gov.Execer) {
		baseSetup(w)
		must(e.regCandidate(w, "c1", "c1"), "reg c1")
		must(e.regCandidate(w, "c2", "c2"), "reg c2")
	}, pairs: []*pair{with(e.pCand("c1"), all), with(e.pCand("c2"), second)},
		extras: []*extra{
			{name: "unRegisterCandidate(c1)", resets: []string{"approveCandidate(c1)"}, run: func(w gov.Execer, h uint32) polyenv.Result {
				return gov.Call(w, gov.NM, node_manager.UNREGISTER_CANDIDATE, gov.Peer(e.a("c1").PubHex, e.a("c1").Addr), e.a("c1"), h)
			}},
			{name: "registerCandidate(c1,owner=B)", resets: []string{"approveCandidate(c1)"}, run: func(w gov.Execer, h uint32) polyenv.Result {
				return gov.Call(w, gov.NM, node_manager.REGISTER_CANDIDATE, gov.RegisterPeer(e.a("c1").PubHex, e.a("B").Addr), e.a("B"), h)
			}},
		}})

	// 2 blackNode (R3 black-lists a consensus validator: the validator set changes under pending approvals)
	gs = append(gs, &group{name: "blackNode", setup: func(w gov.Execer) { baseSetup(w); e.makeCandidate(w, "K2") },
		pairs: []*pair{with(e.pBlack("K1"), all), with(e.pBlack("K1", "K2"), second), with(e.pBlack(e.vname(e.N)), second)}})

	// 3 whiteNode
	gs = append(gs, &group{name: "whiteNode", setup: func(w gov.Execer) {
		baseSetup(w)
		for _, p := range []string{"W1", "W2"} {
			e.makeCandidate(w, p)
			e.approveBy(w, e.pBlack(p), self(e.pBlack(p)), "blackNode "+p)
		}
	}, pairs: []*pair{with(e.pWhite("W1"), all), with(e.pWhite("W2"), second)}})

	// 4 approveRegisterSideChain
	gs = append(gs, &group{name: "approveRegisterSideChain", setup: func(w gov.Execer) {
		baseSetup(w)
		must(e.scRequest(w, side_chain_manager.REGISTER_SIDE_CHAIN, "o1", 1, "reg", h0), "reg 1")
		must(e.scRequest(w, side_chain_manager.REGISTER_SIDE_CHAIN, "o2", 2, "reg", h0), "reg 2")
	}, pairs: []*pair{with(e.pScReg(1), all), with(e.pScReg(2), second)}})

	scSetup := func(w gov.Execer) {
		baseSetup(w)
		e.registerChain(w, "o1", 1)
		e.registerChain(w, "o2", 2)
		must(e.scRequest(w, side_chain_manager.UPDATE_SIDE_CHAIN, "o1", 1, "updX", h0), "upd 1")
		must(e.scRequest(w, side_chain_manager.UPDATE_SIDE_CHAIN, "o2", 2, "updX", h0), "upd 2")
		must(gov.Call(w, gov.SCM, side_chain_manager.QUIT_SIDE_CHAIN, gov.ChainID(1, e.a("o1").Addr), e.a("o1"), h0), "quit 1")
		must(gov.Call(w, gov.SCM, side_chain_manager.QUIT_SIDE_CHAIN, gov.ChainID(2, e.a("o2").Addr), e.a("o2"), h0), "quit 2")
	}
	replaceUpd := &extra{name: "updateSideChain(1,content=Y)", resets: []string{"approveUpdateSideChain(1)"},
		run: func(w gov.Execer, h uint32) polyenv.Result {
			return e.scRequest(w, side_chain_manager.UPDATE_SIDE_CHAIN, "o1", 1, "updY", h)
		}}
	// 5 approveUpdateSideChain (same request bytes pending under approveQuitSideChain)
	gs = append(gs, &group{name: "approveUpdateSideChain", setup: scSetup,
		pairs:  []*pair{with(e.pScUpd(1), all), with(e.pScUpd(2), second), with(e.pScQuit(1), few)},
		extras: []*extra{replaceUpd}})
	// 6 approveQuitSideChain
	gs = append(gs, &group{name: "approveQuitSideChain", setup: scSetup,
		pairs: []*pair{with(e.pScQuit(1), all), with(e.pScQuit(2), second), with(e.pScUpd(1), few)}})

	// relayer: ids are a counter. id 0 consumed in setup (registers ra, rb).
	relSetup := func(regPending, remPending bool) func(w gov.Execer) {
		return func(w gov.Execer) {
			baseSetup(w)
			must(gov.Call(w, gov.RM, relayer_manager.REGISTER_RELAYER, gov.RelayerList(addrs(e, "ra", "rb"), e.a(x).Addr), e.a(x), h0), "registerRelayer 0")
			e.approveBy(w, e.pRelReg(0, "ra", "rb"), self(e.pRelReg(0, "ra", "rb")), "approveRegisterRelayer 0")
			must(gov.Call(w, gov.RM, relayer_manager.REMOVE_RELAYER, gov.RelayerList(addrs(e, "ra"), e.a(x).Addr), e.a(x), h0), "removeRelayer 0")
			if regPending {
				must(gov.Call(w, gov.RM, relayer_manager.REGISTER_RELAYER, gov.RelayerList(addrs(e, "rc"), e.a(x).Addr), e.a(x), h0), "registerRelayer 1")
			}
			if remPending {
				must(gov.Call(w, gov.RM, relayer_manager.REMOVE_RELAYER, gov.RelayerList(addrs(e, "rb"), e.a(x).Addr), e.a(x), h0), "removeRelayer 1")
			}
		}
	}
	// 7 approveRegisterRelayer: request 1 is filed by an extra event (approvals may precede it)
	gs = append(gs, &group{name: "approveRegisterRelayer", setup: relSetup(level == 0, true),
		pairs: []*pair{with(e.pRelReg(1, "rc"), all), with(e.pRelRem(1, "rb"), second), with(e.pRelRem(0, "ra"), few)},
		extras: []*extra{{name: "registerRelayer([rc])->id1", resets: []string{"approveRegisterRelayer(1)"}, run: func(w gov.Execer, h uint32) polyenv.Result {
			if _, ok := w.Dump().Map()[gov.KeyRelayerApply(1)]; ok || relCounter(w, "applyID") != 1 {
				return polyenv.Result{Err: fmt.Errorf("not applicable")}
			}
			return gov.Call(w, gov.RM, relayer_manager.REGISTER_RELAYER, gov.RelayerList(addrs(e, "rc"), e.a(x).Addr), e.a(x), h)
		}}}})
	// 8 approveRemoveRelayer
	gs = append(gs, &group{name: "approveRemoveRelayer", setup: relSetup(true, level == 0),
		pairs: []*pair{with(e.pRelRem(1, "rb"), all), with(e.pRelReg(1, "rc"), second), with(e.pRelRem(0, "ra"), few)},
		extras: []*extra{{name: "removeRelayer([rb])->id1", resets: []string{"approveRemoveRelayer(1)"}, run: func(w gov.Execer, h uint32) polyenv.Result {
			if relCounter(w, "removeID") != 1 {
				return polyenv.Result{Err: fmt.Errorf("not applicable")}
			}
			return gov.Call(w, gov.RM, relayer_manager.REMOVE_RELAYER, gov.RelayerList(addrs(e, "rb"), e.a(x).Addr), e.a(x), h)
		}}}})

	svSetup := func(regPending, remPending bool) func(w gov.Execer) {
		return func(w gov.Execer) {
			baseSetup(w)
			must(gov.Call(w, gov.SVM, neo3_state_manager.REGISTER_STATE_VALIDATOR, gov.SVList([]string{"sv1", "sv2"}, e.a(x).Addr), e.a(x), h0), "registerSV 0")
			e.approveBy(w, e.pSvReg(0, "sv1", "sv2"), self(e.pSvReg(0, "sv1", "sv2")), "approveRegisterSV 0")
			must(gov.Call(w, gov.SVM, neo3_state_manager.REMOVE_STATE_VALIDATOR, gov.SVList([]string{"sv1"}, e.a(x).Addr), e.a(x), h0), "removeSV 0")
			if regPending {
				must(gov.Call(w, gov.SVM, neo3_state_manager.REGISTER_STATE_VALIDATOR, gov.SVList([]string{"sv3"}, e.a(x).Addr), e.a(x), h0), "registerSV 1")
			}
			if remPending {
				must(gov.Call(w, gov.SVM, neo3_state_manager.REMOVE_STATE_VALIDATOR, gov.SVList([]string{"sv2"}, e.a(x).Addr), e.a(x), h0), "removeSV 1")
			}
		}
	}
	// 9 approveRegisterStateValidator
	gs = append(gs, &group{name: "approveRegisterStateValidator", setup: svSetup(level == 0, true),
		pairs: []*pair{with(e.pSvReg(1, "sv3"), all), with(e.pSvRem(1, "sv2"), second), with(e.pSvRem(0, "sv1"), few)},
		extras: []*extra{{name: "registerStateValidator([sv3])->id1", resets: []string{"approveRegisterStateValidator(1)"}, run: func(w gov.Execer, h uint32) polyenv.Result {
			if svCounter(w, neo3_state_manager.STATE_VALIDATOR_APPLY_ID) != 1 {
				return polyenv.Result{Err: fmt.Errorf("not applicable")}
			}
			return gov.Call(w, gov.SVM, neo3_state_manager.REGISTER_STATE_VALIDATOR, gov.SVList([]string{"sv3"}, e.a(x).Addr), e.a(x), h)
		}}}})
	// 10 approveRemoveStateValidator
	gs = append(gs, &group{name: "approveRemoveStateValidator", setup: svSetup(true, level == 0),
		pairs: []*pair{with(e.pSvRem(1, "sv2"), all), with(e.pSvReg(1, "sv3"), second), with(e.pSvRem(0, "sv1"), few)},
		extras: []*extra{{name: "removeStateValidator([sv2])->id1", resets: []string{"approveRemoveStateValidator(1)"}, run: func(w gov.Execer, h uint32) polyenv.Result {
			if svCounter(w, neo3_state_manager.STATE_VALIDATOR_REMOVE_ID) != 1 {
				return polyenv.Result{Err: fmt.Errorf("not applicable")}
			}
			return gov.Call(w, gov.SVM, neo3_state_manager.REMOVE_STATE_VALIDATOR, gov.SVList([]string{"sv2"}, e.a(x).Addr), e.a(x), h)
		}}}})
	// 11 the validator set shrinks under a pending request (no candidates in the pool): black-listing validator V_N
	// lowers the quorum, so the pending request R1 reaches it without a new validator approval; the next
	// approval transaction of R1 (even by an outsider) then applies it.
	if q1 := gov.Quorum(e.N - 1); e.N >= 5 && q1 < q {
		gs = append(gs, &group{name: "validatorSetShrinks", depth: q1 + q + 1, setup: func(w gov.Execer) {
			must(e.scRequest(w, side_chain_manager.REGISTER_SIDE_CHAIN, "o1", 1, "reg", h0), "reg 1")
		}, pairs: []*pair{with(e.pScReg(1), append(e.firstVals(q1), "X")), with(e.pBlack(e.vname(e.N)), e.firstVals(q))}})
	}
	// 12 consensus members whose registered OWNER address differs from the address derived from their node key:
	// V1's wallet registers two more nodes D1, D2 and the outsider X registers node E1 (registerCandidate lets any
	// address register any public key); all are approved and an operator commitDpos makes them consensus validators.
	// "Consensus validator" for an approver address means (unchanged code and reference alike): the address derived
	// from the public key of a ConsensusStatus peer of the current view — NOT the owner address stored in the pool
	// item. So here V1's address is ONE validator although it owns three nodes, D1/D2/E1's key addresses are
	// validators, and X (owner of E1) is not. Pool size N+3 makes a per-owned-node count move the quorum point.
	if level == 2 {
		n3 := e.N + 3
		ownersAll := append(e.firstVals(e.N), "D1", "D2", "E1", "X")
		gs = append(gs, &group{name: "ownerAddressDiffersFromKeyAddress", joined: 3, views0: 1, depth: gov.Quorum(n3) + 2,
			setup: func(w gov.Execer) {
				for _, c := range [][2]string{{"D1", "V1"}, {"D2", "V1"}, {"E1", "X"}} {
					must(e.regCandidate(w, c[0], c[1]), "registerCandidate "+c[0]+" owned by "+c[1])
					p := e.pCand(c[0])
					e.approveBy(w, p, self(p), "approveCandidate "+c[0])
				}
				must(gov.CallOperator(w, gov.NM, node_manager.COMMIT_DPOS, nil, e.vals, h0), "commitDpos")
				must(e.scRequest(w, side_chain_manager.REGISTER_SIDE_CHAIN, "o1", 1, "reg", h0+10), "reg 1")
				must(gov.Call(w, gov.RM, relayer_manager.REGISTER_RELAYER, gov.RelayerList(addrs(e, "ra"), e.a(x).Addr), e.a(x), h0+10), "registerRelayer 0")
			},
			pairs: []*pair{with(e.pScReg(1), ownersAll), with(e.pRelReg(0, "ra"), []string{"V1", "D1", "X"})}})
	}
	for _, g := range gs {
		if g.name == "validatorSetShrinks" || g.name == "ownerAddressDiffersFromKeyAddress" {
			continue
		}
		var ps []*pair
		for _, p := range g.pairs {
			if len(p.approvers) > 0 {
				ps = append(ps, p)
			}
		}
		g.pairs = ps
		if level == 0 {
			g.extras = nil
		}
	}
	return gs
}

func counter(w gov.Execer, key string) uint64 {
	raw, ok := w.Dump().Map()[key]
	if !ok {
		return 0
	}
	b := gov.Item(raw)
	var v uint64
	for i := 7; i >= 0; i-- {
		v = v<<8 | uint64(b[i])
	}
	return v
}
func relCounter(w gov.Execer, prefix string) uint64 { return counter(w, gov.K(gov.RM, []byte(prefix))) }
func svCounter(w gov.Execer, prefix string) uint64  { return counter(w, gov.K(gov.SVM, []byte(prefix))) }

// ---------------------------------------------------------------------------------------------
// exploration

type verdict struct {
	key    string
	detail map[string]any
}

type state struct {
	D    polyenv.Dump
	M    model
	last []verdict // violations raised by the transition that produced this state (not part of the key)
}

type explorer struct {
	r  *ev.Run
	e  *env
	g  *group
	pm map[string]*pair
	xm map[string]*extra
	mu sync.Mutex
	// per pair: was a first effect seen
	effects map[string]int
}

func (x *explorer) events(s state, depth int) []string {
	var out []string
	for _, p := range x.g.pairs {
		for _, a := range p.approvers {
			out = append(out, "approve|"+p.name+"|"+a)
		}
	}
	for _, e := range x.g.extras {
		out = append(out, "request|"+e.name)
	}
	return out
}

func keyNames(ks []string) []string {
	o := make([]string, len(ks))
	for i, k := range ks {
		o[i] = gov.KeyName(k)
	}
	return o
}

func (x *explorer) step(s state, evn string) (state, bool) {
	r := x.r
	parts := strings.Split(evn, "|")
	nm := s.M.clone()
	height := uint32(h0 + 10*s.M.Views)
	w := gov.NewWorldFrom(s.D)
	var vs []verdict
	tag := fmt.Sprintf("%s/N%d", x.g.name, x.e.N)
	r.Eval()
	if parts[0] == "request" {
		ex := x.xm[parts[1]]
		res := ex.run(w, height)
		if res.Err != nil && res.Err.Error() == "not applicable" {
			return s, false
		}
		d2 := w.Dump()
		if !res.OK {
			r.Class("request-rejected")
			if len(gov.Changed(s.D, d2)) > 0 {
				vs = append(vs, verdict{"rejected-tx-changed-state/" + ex.name, map[string]any{"event": evn}})
			}
			return state{D: d2, M: nm, last: vs}, true
		}
		r.Class("request-accepted")
		x.requestObjectsChanged(&nm, s.D.Map(), d2.Map())
		return state{D: d2, M: nm, last: vs}, true
	}
	p := x.pm[parts[1]]
	who := parts[2]
	a := x.e.a(who)
	res := gov.Call(w, p.contract, p.method, p.args(a.Addr), a, height)
	d2 := w.Dump()
	changed := gov.Changed(s.D, d2)
	if !res.OK {
		if res.Panic != nil {
			r.Class("approval-panic")
			r.Case(tag + "/" + p.site + "/panic")
		} else {
			r.Class("approval-rejected")
		}
		if len(changed) > 0 {
			vs = append(vs, verdict{"rejected-tx-changed-state/" + p.site, map[string]any{"event": evn, "changed": keyNames(changed)}})
		}
		return state{D: d2, M: nm, last: vs}, true
	}
	// accepted approval: reference bookkeeping, evaluated against the validator set at this moment
	before, after := s.D.Map(), d2.Map()
	content := before[p.reqKey] // "" when the action has no request object or the object does not exist (yet)
	nm.Appr[p.name] = add(nm.Appr[p.name], who)
	nm.Inst[p.name] = add(nm.Inst[p.name], who)
	if nm.Cont[p.name] == nil {
		nm.Cont[p.name] = map[string][]string{}
	}
	ck := hex.EncodeToString([]byte(content))
	nm.Cont[p.name][ck] = add(nm.Cont[p.name][ck], who)
	cons := nm.consensus()
	q := gov.Quorum(len(cons))
	must := countIn(nm.Inst[p.name], cons)    // approvals of exactly this filing of the request
	may := countIn(nm.Cont[p.name][ck], cons) // + approvals of earlier filings with identical content
	byID := countIn(nm.Appr[p.name], cons)    // + approvals of anything that carried this request id
	var nonSign []string
	for _, k := range changed { // approval bookkeeping records (whatever their key derivation) are not "effect"
		if !gov.IsSignKey(k) {
			nonSign = append(nonSign, k)
		}
	}
	observed := len(nonSign) > 0 || gov.Notified(res, p.notify)
	info := func() map[string]any {
		return map[string]any{"group": x.g.name, "N": x.e.N, "consensus_validators": len(cons), "quorum": q, "event": evn,
			"approvers_since_this_request_was_filed": nm.Inst[p.name], "of_which_consensus_validators": must,
			"approvers_of_requests_with_identical_content": nm.Cont[p.name][ck], "of_which_consensus_validators_": may,
			"approvers_of_anything_with_this_request_id": nm.Appr[p.name], "of_which_consensus_validators__": byID,
			"effect_observed": observed, "changed_keys": keyNames(nonSign)}
	}
	role := "validator"
	if !cons[who] {
		role = "non-validator"
	}
	r.Case(fmt.Sprintf("%s/%s/%s/cnt%d-q%d/effect=%v", tag, p.site, role, must, q, observed))
	switch {
	case observed && may < q && byID >= q:
		vs = append(vs, verdict{"approvals-of-earlier-request-counted/" + p.site, info()})
	case observed && may < q:
		vs = append(vs, verdict{"effect-below-quorum/" + p.site, info()})
	case !observed && must >= q:
		vs = append(vs, verdict{"no-effect-at-quorum/" + p.site, info()})
	}
	if observed {
		bad := !p.applied(before, after)
		for _, k := range nonSign {
			if !p.allowed(k) {
				bad = true
			}
		}
		if bad {
			vs = append(vs, verdict{"wrong-effect/" + p.site, info()})
		}
		delete(nm.Appr, p.name)
		delete(nm.Inst, p.name)
		delete(nm.Cont, p.name)
		if p.onEffect != nil {
			p.onEffect(&nm)
		}
		r.Class("effect")
		if !cons[who] {
			r.Class("effect-triggered-by-non-validator-after-set-change")
		}
		x.mu.Lock()
		x.effects[p.name]++
		x.mu.Unlock()
	} else {
		r.Class("recorded-no-effect")
		if !cons[who] {
			r.Class("non-validator-approval-not-counted")
		}
	}
	x.requestObjectsChanged(&nm, before, after)
	// harness sanity: the model's validator set must be the stored one
	_, pool := gov.Pool(d2.Map())
	obs := 0
	for _, st := range pool {
		if st == stConsensus {
			obs++
		}
	}
	if obs != len(nm.consensus()) {
		r.HarnessError("model validator set (%d) differs from stored pool (%d) after %s", len(nm.consensus()), obs, evn)
	}
	return state{D: d2, M: nm, last: vs}, true
}

// requestObjectsChanged: a request object that was created, replaced or deleted starts a new filing.
func (x *explorer) requestObjectsChanged(nm *model, before, after map[string]string) {
	for _, p := range x.g.pairs {
		if p.reqKey != "" && before[p.reqKey] != after[p.reqKey] {
			delete(nm.Inst, p.name)
		}
	}
}

func (x *explorer) initial() state {
	gw := gov.NewWorld()
	gw.Genesis(x.e.vals)
	w := &gov.Recorder{W: gw}
	x.g.setup(w)
	if diff := gov.SelfCheck(x.e.vals, w.Ops); diff != "" {
		x.r.HarnessError("map-backed world diverges from the leveldb-backed polyenv world: %s", diff)
	}
	init := state{D: w.Dump(), M: model{Appr: map[string][]string{}, Inst: map[string][]string{}, Cont: map[string]map[string][]string{}, Status: map[string]int{}}}
	init.M.Views = x.g.views0
	// model pool = observation of the initial world: an account is a pool member iff the pool holds ITS PUBLIC KEY
	// (approvers sign with that key, so the approver address is the key-derived one; owner addresses play no role)
	_, pool := gov.Pool(init.D.Map())
	for name, a := range x.e.acct {
		if st, ok := pool[a.PubHex]; ok {
			init.M.Status[name] = st
		}
	}
	if len(init.M.consensus()) != x.e.N+x.g.joined {
		x.r.HarnessError("initial validator set %d != %d", len(init.M.consensus()), x.e.N+x.g.joined)
	}
	return init
}

// replay re-executes one recorded operation list (--replay file) and reports what the oracle says about it.
func (x *explorer) replay(ops []string) {
	s := x.initial()
	for i, op := range ops {
		n, ok := x.step(s, op)
		if !ok {
			x.r.HarnessError("replay: op %d (%s) not applicable", i, op)
		}
		for _, v := range n.last {
			v.detail["ops_after_setup"] = ops[:i+1]
			x.r.Violation(v.key, v.detail)
		}
		s = n
	}
}

func (x *explorer) run(depth int) mc.Stats {
	init := x.initial()
	return mc.BFS(mc.Config[state]{
		Init:   []state{init},
		Events: x.events,
		Step:   x.step,
		Key:    func(s state) string { return s.D.String() + s.M.key() },
		Check: func(prev state, evn string, next state, path []string) {
			for _, v := range next.last {
				v.detail["ops_after_setup"] = path
				x.r.Violation(v.key, v.detail)
			}
		},
		MaxDepth: depth, Workers: 16, Stop: x.r.Expired,
	})
}

func main() {
	r := ev.Start("C32", "model_checking")
	if r.ReplayPath == "" {
		r.Require("effect", "recorded-no-effect", "approval-rejected", "non-validator-approval-not-counted", "request-accepted",
			"effect-triggered-by-non-validator-after-set-change")
	}
	polyenv.InstallHeightLedger()
	type cfg struct{ n, level int }
	var cfgs []cfg
	if r.Quick() {
		cfgs = []cfg{{4, 2}, {5, 0}, {6, 0}, {7, 0}}
	} else {
		cfgs = []cfg{{4, 2}, {5, 2}, {6, 1}, {7, 1}, {8, 0}}
	}
	var tot mc.Stats
	per := map[string]any{}
	sites := map[string]bool{}
	type job struct {
		c cfg
		e *env
		g *group
	}
	var jobs, later []job
	for _, c := range cfgs {
		e := newEnv(c.n)
		for _, g := range e.groups(c.level) {
			if g.name == "validatorSetShrinks" || g.name == "ownerAddressDiffersFromKeyAddress" { // small: run first so a deadline never cuts it
				jobs = append(jobs, job{c, e, g})
			} else {
				later = append(later, job{c, e, g})
			}
		}
	}
	if r.ReplayPath != "" {
		var d struct {
			Group string   `json:"group"`
			N     int      `json:"N"`
			Ops   []string `json:"ops_after_setup"`
		}
		if err := r.LoadReplay(&d); err != nil {
			r.HarnessError("replay: %v", err)
		}
		e := newEnv(d.N)
		polyenv.Setup(0, e.vals)
		for _, g := range e.groups(2) {
			if g.name == d.Group {
				x := &explorer{r: r, e: e, g: g, pm: map[string]*pair{}, xm: map[string]*extra{}, effects: map[string]int{}}
				for _, p := range g.pairs {
					x.pm[p.name] = p
				}
				for _, ex := range g.extras {
					x.xm[ex.name] = ex
				}
				x.replay(d.Ops)
			}
		}
		r.Finish(map[string]any{"rule": "replay of one recorded operation list", "states": len(d.Ops) + 1, "transitions": len(d.Ops),
			"traces_validated_against_impl": len(d.Ops), "vacuity_guard": "off (replay)"})
	}
	for _, j := range append(jobs, later...) {
		c, e, g := j.c, j.e, j.g
		polyenv.Setup(0, e.vals)
		q := gov.Quorum(c.n)
		if r.Expired() {
			r.Capped(fmt.Sprintf("N=%d group=%s not run", c.n, g.name))
			continue
		}
		x := &explorer{r: r, e: e, g: g, pm: map[string]*pair{}, xm: map[string]*extra{}, effects: map[string]int{}}
		for _, p := range g.pairs {
			x.pm[p.name] = p
		}
		for _, ex := range g.extras {
			x.xm[ex.name] = ex
		}
		depth := q + 2
		if len(g.extras) > 0 {
			depth++
		}
		if g.depth > 0 {
			depth = g.depth
		}
		st := x.run(depth)
		if st.Truncated {
			r.Capped(fmt.Sprintf("N=%d group=%s truncated by deadline", c.n, g.name))
		} else if x.effects[g.pairs[0].name] == 0 {
			r.HarnessError("N=%d group=%s: canonical approval round of %s never took effect", c.n, g.name, g.pairs[0].name)
		}
		sites[g.pairs[0].site] = true
		tot.States += st.States
		tot.Transitions += st.Transitions
		if st.MaxDepth > tot.MaxDepth {
			tot.MaxDepth = st.MaxDepth
		}
		per[fmt.Sprintf("N%d/%s", c.n, g.name)] = map[string]int{"states": st.States, "transitions": st.Transitions, "depth": st.MaxDepth}
		if len(per) <= 2 {
			r.Sample(map[string]any{"N": c.n, "group": g.name, "events": x.events(state{}, 0), "depth": depth, "states": st.States})
		}
	}
	var ns []int
	for _, c := range cfgs {
		ns = append(ns, c.n)
	}
	r.Assume("private net (network id 0): side-chain records always carry ExtraInfo (fork height 0)",
		"approver address = address derived from the transaction's signature entry (block execution does not verify signatures; C02/C14 cover that)",
		"updateFee is vote-based (consensus_vote.CheckVotes), not a CheckConsensusSigns site: covered by C25, not here")
	r.Finish(map[string]any{
		"rule": "per accepted approval tx, q = least k with 3k>=2N over the consensus validators now: no effect (non-bookkeeping state change or Approve* event) unless " +
			"|approvers of this action+request id while the stored request had the current content ∩ validators| >= q; effect whenever |approvers since the current request object was filed ∩ validators| >= q " +
			"(the two coincide unless an identical request is re-filed); the effect is the request's own (its record keys only)",
		"validator_set_sizes": ns, "alphabet_level_per_N": cfgs, "call_sites_covered": len(sites), "states": tot.States, "transitions": tot.Transitions,
		"traces_validated_against_impl": tot.Transitions, "max_depth": tot.MaxDepth, "per_group": per,
	})
}
