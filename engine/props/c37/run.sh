#!/bin/bash
# C37: controlled-scheduler build (sync -> ssync shim in the pool) + a separate free-running -race build of the same bodies.
# Part (a) (server.go) needs small pool constants: MAX_CAPACITY / MAX_PENDING_TXN / MAX_LIMITATION are compile-time
# constants of txnpool/common/txnpool_common.go, so the main build sees a generated copy of that file (the copy is made from
# whatever the overlay already maps the file to, so killdemo mutants of it are kept).
set -u
V=/verif
export GOFLAGS=-mod=mod GOPROXY=off GOSUMDB=off GOTOOLCHAIN=local
cd $V/engine
mkdir -p $V/.build/c37consts
OVC=$V/.build/overlay_c37_consts.json
if ! python3 - "$VERIF_OVERLAY" "$OVC" $V/.build/c37consts/txnpool_common.go <<'EOF'
import json, re, sys
ov, out, dst = sys.argv[1:4]
o = json.load(open(ov))
tgt = "/repo/txnpool/common/txnpool_common.go"
src = o["Replace"].get(tgt, tgt)
s = open(src).read()
for name, val in (("MAX_CAPACITY", "2"), ("MAX_PENDING_TXN", "8"), ("MAX_LIMITATION", "16")):
    s, n = re.subn(r"(?m)^(\s*%s\s*=\s*)[^/\n]*?(\s*(//.*)?)$" % name, r"\g<1>%s\2" % val, s)
    if n != 1:
        sys.stderr.write("c37/run.sh: constant %s not found exactly once in %s\n" % (name, src))
        sys.exit(3)
try:
    same = open(dst).read() == s
except OSError:
    same = False
if not same:
    open(dst, "w").write(s)
o["Replace"][tgt] = dst
json.dump(o, open(out, "w"), indent=1)
EOF
then echo "HARNESS-ERROR property=C37 cannot generate the shrunk pool constants"; exit 2; fi
export VERIF_OVERLAY=$OVC
if ! go build -tags verif -overlay "$VERIF_OVERLAY" -o $V/.build/bin/c37 ./props/c37 2> $V/.build/build_c37.log; then
  echo "HARNESS-ERROR property=C37 build failed (see $V/.build/build_c37.log)"; tail -30 $V/.build/build_c37.log; exit 2
fi
VERIF_OVERLAY= python3 mkoverlay.py c37/race > $V/.build/overlay_c37race.json
if ! go build -race -tags verif -overlay $V/.build/overlay_c37race.json -o $V/.build/bin/c37race ./props/c37 2> $V/.build/build_c37race.log; then
  echo "HARNESS-ERROR property=C37 race build failed (see $V/.build/build_c37race.log)"; tail -30 $V/.build/build_c37race.log; exit 2
fi
[ "${1:-}" = "--build-only" ] && exit 0
exec $V/.build/bin/c37 "$@"
