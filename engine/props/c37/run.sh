#!/bin/bash
# C37: controlled-scheduler build (sync -> ssync shim in the pool) + a separate free-running -race build of the same bodies.
set -u
V=/verif
export GOFLAGS=-mod=mod GOPROXY=off GOSUMDB=off GOTOOLCHAIN=local
cd $V/engine
if ! go build -tags verif -overlay "$VERIF_OVERLAY" -o $V/.build/bin/c37 ./props/c37 2> $V/.build/build_c37.log; then
  echo "HARNESS-ERROR property=C37 build failed (see $V/.build/build_c37.log)"; tail -30 $V/.build/build_c37.log; exit 2
fi
VERIF_OVERLAY= python3 mkoverlay.py c37/race > $V/.build/overlay_c37race.json
if ! go build -race -tags verif -overlay $V/.build/overlay_c37race.json -o $V/.build/bin/c37race ./props/c37 2> $V/.build/build_c37race.log; then
  echo "HARNESS-ERROR property=C37 race build failed (see $V/.build/build_c37race.log)"; tail -30 $V/.build/build_c37race.log; exit 2
fi
[ "${1:-}" = "--build-only" ] && exit 0
exec $V/.build/bin/c37 "$@"
