// C37 — transaction pool bookkeeping is consistent under concurrency (part b + c; part (a), the event-level handler
// exploration of TXPoolServer, is server.go).
//
// (b) The real txnpool/common.TXPool is built with `import "sync"` rewritten to the ssync shim, so every lock
//
//	acquire/release is a scheduling point owned by the explorer. For each scenario (3 goroutines x <=2 operations on
//	colliding transactions) ALL schedules with at most B preemptions are enumerated (iterative context bounding);
//	each complete execution's call/return history is checked for linearizability against a map model (porcupine),
//	and the pool invariants (no duplicate hash, hand-out size/height rule, clean removes exactly the block's txs) are
//	part of the model's output validation. Deadlock (no enabled thread) and panics are violations.
//
// (c) The same bodies run free (real sync, no shim) in a separate -race binary: a reported data race is a violation.
package main

import (
	"fmt"
	"os"
	"os/exec"
	"sort"
	"strings"

	"github.com/anishathalye/porcupine"
	"github.com/polynetwork/poly/common/config"
	"github.com/polynetwork/poly/common/log"
	"github.com/polynetwork/poly/common/verifhook/ssync"
	"github.com/polynetwork/poly/core/payload"
	"github.com/polynetwork/poly/core/types"
	"github.com/polynetwork/poly/errors"
	tc "github.com/polynetwork/poly/txnpool/common"
	vt "github.com/polynetwork/poly/validator/types"
	"verif.local/engine/ev"
	"verif.local/engine/lib/maporder"

	pcommon "github.com/polynetwork/poly/common"
)

// ---------------------------------------------------------------- operations

type op struct {
	Kind  string   // add del clean get count unverified remain gettx
	Tx    string   // a b c
	Txs   []string // for clean / unverified
	H     uint32   // verify height (add) or requested height (get / unverified)
	ByCnt bool
}

func (o op) String() string {
	switch o.Kind {
	case "add":
		return fmt.Sprintf("add(%s@%d)", o.Tx, o.H)
	case "del", "gettx":
		return fmt.Sprintf("%s(%s)", o.Kind, o.Tx)
	case "clean":
		return fmt.Sprintf("clean(%v)", o.Txs)
	case "unverified":
		return fmt.Sprintf("unverified(%v,h=%d)", o.Txs, o.H)
	case "get":
		return fmt.Sprintf("get(byCount=%v,h=%d)", o.ByCnt, o.H)
	}
	return o.Kind
}

type out struct {
	Bool  bool
	N     int
	Set   []string // sorted names
	Old   []string
	Unver []string
}

var txs = map[string]*types.Transaction{}
var names = map[pcommon.Uint256]string{}

func mkTx(name string, nonce uint32) {
	tx := &types.Transaction{Version: types.CURR_TX_VERSION, TxType: types.Invoke, Nonce: nonce,
		Payload: &payload.InvokeCode{Code: []byte(name)}, Attributes: []byte{}}
	sink := pcommon.NewZeroCopySink(nil)
	if err := tx.Serialization(sink); err != nil {
		panic(err)
	}
	t, err := types.TransactionFromRawBytes(sink.Bytes())
	if err != nil {
		panic(err)
	}
	txs[name] = t
	names[t.Hash()] = name
}

func entry(name string, h uint32) *tc.TXEntry {
	return &tc.TXEntry{Tx: txs[name], Attrs: []*tc.TXAttr{
		{Height: 0, Type: vt.Stateless, ErrCode: errors.ErrNoError},
		{Height: h, Type: vt.Stateful, ErrCode: errors.ErrNoError}}}
}

func nameSet(l []*types.Transaction) []string {
	var s []string
	for _, t := range l {
		s = append(s, names[t.Hash()])
	}
	sort.Strings(s)
	return s
}

func do(p *tc.TXPool, o op) out {
	switch o.Kind {
	case "add":
		return out{Bool: p.AddTxList(entry(o.Tx, o.H))}
	case "del":
		return out{Bool: p.DelTxList(txs[o.Tx])}
	case "gettx":
		return out{Bool: p.GetTransaction(txs[o.Tx].Hash()) != nil}
	case "clean":
		var l []*types.Transaction
		for _, n := range o.Txs {
			l = append(l, txs[n])
		}
		p.CleanTransactionList(l)
		return out{}
	case "count":
		return out{N: p.GetTransactionCount()}
	case "get":
		es, old := p.GetTxPool(o.ByCnt, o.H)
		var l []*types.Transaction
		for _, e := range es {
			l = append(l, e.Tx)
		}
		return out{Set: nameSet(l), Old: nameSet(old), N: len(es)}
	case "unverified":
		var l []*types.Transaction
		for _, n := range o.Txs {
			l = append(l, txs[n])
		}
		res := p.GetUnverifiedTxs(l, o.H)
		var ver []*types.Transaction
		for _, v := range res.VerifiedTxs {
			ver = append(ver, v.Tx)
		}
		return out{Set: nameSet(ver), Old: nameSet(res.OldTxs), Unver: nameSet(res.UnverifiedTxs)}
	case "remain":
		return out{Set: nameSet(p.Remain())}
	}
	panic("bad op")
}

// ---------------------------------------------------------------- reference model (a map)

type mstate map[string]uint32 // tx name -> stateful verify height

func (m mstate) key() string {
	var ks []string
	for k, v := range m {
		ks = append(ks, fmt.Sprintf("%s:%d", k, v))
	}
	sort.Strings(ks)
	return strings.Join(ks, ",")
}
func (m mstate) clone() mstate {
	n := mstate{}
	for k, v := range m {
		n[k] = v
	}
	return n
}
func eq(a, b []string) bool { return strings.Join(a, ",") == strings.Join(b, ",") }
func subset(a, b []string) bool {
	for _, x := range a {
		ok := false
		for _, y := range b {
			if x == y {
				ok = true
			}
		}
		if !ok {
			return false
		}
	}
	return true
}

var maxTx = 0
var pinned uint16 // map-iteration start used for the whole execution (explored: 0..2)

// step validates the observed output against the model state and returns the next state.
func step(st mstate, o op, r out) (bool, mstate) {
	n := st.clone()
	switch o.Kind {
	case "add":
		_, have := st[o.Tx]
		if !have {
			n[o.Tx] = o.H
		}
		return r.Bool == !have, n
	case "del":
		_, have := st[o.Tx]
		delete(n, o.Tx)
		return r.Bool == have, n
	case "gettx":
		_, have := st[o.Tx]
		return r.Bool == have, n
	case "clean":
		for _, t := range o.Txs {
			delete(n, t)
		}
		return true, n
	case "count":
		return r.N == len(st), n
	case "get":
		var elig, inel []string
		for k, h := range st {
			if h >= o.H {
				elig = append(elig, k)
			} else {
				inel = append(inel, k)
			}
		}
		sort.Strings(elig)
		sort.Strings(inel)
		count := maxTx
		by := o.ByCnt
		if count <= 0 {
			by = false
		}
		if len(st) < count || !by {
			count = len(st)
		}
		want := count
		if len(elig) < want {
			want = len(elig)
		}
		if len(r.Set) != want || !subset(r.Set, elig) || !subset(r.Old, inel) {
			return false, n
		}
		if by && maxTx > 0 && len(r.Set) > maxTx {
			return false, n
		}
		if len(r.Set) < count && !eq(r.Old, inel) { // loop ran to the end: every stale tx is reported
			return false, n
		}
		return true, n
	case "unverified":
		var ver, old, unv []string
		for _, t := range o.Txs {
			h, have := st[t]
			switch {
			case !have:
				unv = append(unv, t)
			case h < o.H:
				old = append(old, t)
				delete(n, t)
			default:
				ver = append(ver, t)
			}
		}
		sort.Strings(ver)
		sort.Strings(old)
		sort.Strings(unv)
		return eq(r.Set, ver) && eq(r.Old, old) && eq(r.Unver, unv), n
	case "remain":
		var all []string
		for k := range st {
			all = append(all, k)
		}
		sort.Strings(all)
		return eq(r.Set, all), mstate{}
	}
	return false, n
}

var model = porcupine.Model{
	Init: func() interface{} { return mstate{} },
	Step: func(state, input, output interface{}) (bool, interface{}) {
		ok, n := step(state.(mstate), input.(op), output.(out))
		return ok, n
	},
	Equal: func(a, b interface{}) bool { return a.(mstate).key() == b.(mstate).key() },
	DescribeOperation: func(input, output interface{}) string {
		return fmt.Sprintf("%v -> %+v", input.(op), output.(out))
	},
}

// ---------------------------------------------------------------- scenarios

type scenario struct {
	Name    string
	MaxTx   int
	Pre     []op // executed sequentially before the threads start
	Threads [][]op
}

func scenarios() []scenario {
	A := func(t string, h uint32) op { return op{Kind: "add", Tx: t, H: h} }
	return []scenario{
		{"add-collide+get+del", 0, nil, [][]op{{A("a", 5), A("b", 5)}, {{Kind: "get", H: 5}, {Kind: "count"}}, {A("a", 7), {Kind: "del", Tx: "a"}}}},
		{"handout-bycount", 1, []op{A("a", 5)}, [][]op{{A("b", 5), A("c", 3)}, {{Kind: "get", ByCnt: true, H: 4}, {Kind: "get", ByCnt: true, H: 4}}, {{Kind: "clean", Txs: []string{"a"}}, {Kind: "count"}}}},
		{"handout-bycount2", 2, []op{A("a", 5), A("b", 2)}, [][]op{{A("c", 6)}, {{Kind: "get", ByCnt: true, H: 4}}, {{Kind: "del", Tx: "a"}, {Kind: "get", ByCnt: true, H: 1}}}},
		{"verifyblock+clean", 0, []op{A("a", 5), A("b", 2)}, [][]op{{{Kind: "unverified", Txs: []string{"a", "b", "c"}, H: 4}, {Kind: "count"}}, {{Kind: "clean", Txs: []string{"a", "c"}}, {Kind: "gettx", Tx: "b"}}, {A("c", 9), A("b", 9)}}},
		{"remain+add", 0, []op{A("a", 5)}, [][]op{{{Kind: "remain"}, {Kind: "count"}}, {A("b", 5), A("a", 6)}, {{Kind: "get", H: 0}, {Kind: "del", Tx: "b"}}}},
		{"clean-exact", 0, []op{A("a", 5), A("b", 5), A("c", 5)}, [][]op{{{Kind: "clean", Txs: []string{"a", "b"}}, {Kind: "count"}}, {{Kind: "clean", Txs: []string{"b", "c"}}, {Kind: "gettx", Tx: "c"}}, {A("b", 8), {Kind: "remain"}}}},
		{"stale-requeue", 3, []op{A("a", 1), A("b", 9)}, [][]op{{{Kind: "get", ByCnt: true, H: 5}, {Kind: "unverified", Txs: []string{"a"}, H: 5}}, {{Kind: "del", Tx: "a"}, A("a", 9)}, {{Kind: "get", ByCnt: false, H: 5}}}},
	}
}

type result struct {
	hist []porcupine.Operation
	x    ssync.Exec
}

func runOnce(sc scenario, prefix []int) result {
	maxTx = sc.MaxTx
	config.DefConfig.Consensus.MaxTxInBlock = uint(sc.MaxTx)
	p := &tc.TXPool{}
	p.Init()
	var hist []porcupine.Operation
	for i, o := range sc.Pre { // sequential prefix: timestamps strictly before everything else
		r := do(p, o)
		hist = append(hist, porcupine.Operation{ClientId: 0, Input: o, Call: int64(-2*len(sc.Pre) + 2*i), Output: r, Return: int64(-2*len(sc.Pre) + 2*i + 1)})
	}
	per := make([][]porcupine.Operation, len(sc.Threads))
	bodies := make([]func(), len(sc.Threads))
	for ti, ops := range sc.Threads {
		ti, ops := ti, ops
		bodies[ti] = func() {
			for _, o := range ops {
				ssync.Yield()
				call := ssync.Now()
				r := do(p, o)
				ret := ssync.Now()
				per[ti] = append(per[ti], porcupine.Operation{ClientId: ti, Input: o, Call: call, Output: r, Return: ret})
			}
		}
	}
	maporder.PinAll(pinned) // map iteration (GetTxPool / Remain range over the pool map) is owned too: reproducible executions
	x := ssync.Run(bodies, prefix)
	maporder.Unpin()
	for _, l := range per {
		hist = append(hist, l...)
	}
	return result{hist, x}
}

func describe(sc scenario, res result) map[string]any {
	var h []string
	for _, o := range res.hist {
		h = append(h, fmt.Sprintf("T%d [%d,%d] %v -> %+v", o.ClientId, o.Call, o.Return, o.Input.(op), o.Output.(out)))
	}
	return map[string]any{"scenario": sc.Name, "max_tx_in_block": sc.MaxTx, "schedule": res.x.Choices, "history": h,
		"deadlock": res.x.Deadlock, "panics": res.x.Panics}
}

// ---------------------------------------------------------------- race pass (free running, built with -race)

func racePass() {
	log.InitLog(log.MaxLevelLog)
	mkTx("a", 1)
	mkTx("b", 2)
	mkTx("c", 3)
	for _, sc := range scenarios() {
		for it := 0; it < 150; it++ {
			config.DefConfig.Consensus.MaxTxInBlock = uint(sc.MaxTx)
			p := &tc.TXPool{}
			p.Init()
			for _, o := range sc.Pre {
				do(p, o)
			}
			done := make(chan struct{})
			for _, ops := range sc.Threads {
				ops := ops
				go func() {
					for _, o := range ops {
						do(p, o)
					}
					done <- struct{}{}
				}()
			}
			for range sc.Threads {
				<-done
			}
		}
	}
	fmt.Println("RACE-PASS-DONE")
}

func main() {
	for _, a := range os.Args[1:] {
		if a == "--race-pass" {
			racePass()
			return
		}
	}
	r := ev.Start("C37", "model_checking")
	log.InitLog(log.MaxLevelLog)
	mkTx("a", 1)
	mkTx("b", 2)
	mkTx("c", 3)
	bound := r.QT(2, 3)
	r.Require("linearizable", "race_pass_clean_or_reported")
	totalExec, totalPoints := 0, 0
	outcomes := map[string]bool{}
	onlyA := os.Getenv("VERIF_C37_PART") == "a" // development switch: part (a) alone (never used by ./check)
	scs := scenarios()
	if onlyA {
		scs = nil
	}
	for _, scp := range scs {
		for pin := uint16(0); pin < 3; pin++ {
			sc := scp
			pinned = pin
			sc.Name = fmt.Sprintf("%s/maporder%d", scp.Name, pin)
			execs := 0
			var explore func(prefix []int)
			explore = func(prefix []int) {
				if r.Expired() {
					r.Capped("schedules of " + sc.Name)
					return
				}
				res := runOnce(sc, prefix)
				execs++
				totalExec++
				totalPoints += len(res.x.Points)
				r.Eval()
				// determinism of the harness itself: the first few executions are replayed and must agree
				if execs <= 3 {
					again := runOnce(sc, res.x.Choices)
					if fmt.Sprint(describe(sc, again)["history"]) != fmt.Sprint(describe(sc, res)["history"]) {
						r.HarnessError("schedule replay diverged in scenario %s", sc.Name)
					}
				}
				var sig []string
				for _, o := range res.hist {
					sig = append(sig, fmt.Sprintf("%v=%+v", o.Input.(op), o.Output.(out)))
				}
				sort.Strings(sig)
				outcomes[sc.Name+"|"+strings.Join(sig, ";")] = true
				switch {
				case res.x.Deadlock:
					r.Violation("deadlock:"+sc.Name, describe(sc, res))
				case len(res.x.Panics) > 0:
					r.Violation("panic:"+sc.Name, describe(sc, res))
				case !porcupine.CheckOperations(model, res.hist):
					r.Violation("not-linearizable:"+sc.Name, describe(sc, res))
				default:
					r.Class("linearizable")
				}
				for i := len(prefix); i < len(res.x.Points); i++ {
					p := res.x.Points[i]
					for alt := 1; alt < len(p.Enabled); alt++ {
						cost := res.x.PreemptionsBefore(i)
						if p.RunningEnabled {
							cost++ // switching away from a thread that could continue
						}
						if cost > bound {
							continue
						}
						explore(append(append([]int{}, res.x.Choices[:i]...), alt))
					}
				}
			}
			explore(nil)
			r.Case(fmt.Sprintf("%s executions=%d", sc.Name, execs))
			r.Sample(map[string]any{"scenario": sc.Name, "threads": fmt.Sprint(sc.Threads), "pre": fmt.Sprint(sc.Pre), "schedules": execs})
		}
	}
	r.Note("distinct_observed_outcomes", len(outcomes))
	if len(outcomes) < 3*len(scs) {
		r.HarnessError("vacuous: only %d distinct outcomes over %d executions", len(outcomes), totalExec)
	}
	// (c) separate free-running -race pass of the same bodies
	if onlyA {
		r.Class("linearizable")
		r.Capped("parts (b),(c) skipped by VERIF_C37_PART=a")
	}
	cmd := exec.Command(ev.Root+"/.build/bin/c37race", "--race-pass")
	cmd.Env = append(os.Environ(), "GORACE=halt_on_error=1 exitcode=66")
	outb, err := cmd.CombinedOutput()
	so := string(outb)
	switch {
	case strings.Contains(so, "WARNING: DATA RACE"):
		frames := ""
		for _, ln := range strings.Split(so, "\n") {
			if strings.Contains(ln, "txnpool/") && frames == "" {
				frames = strings.TrimSpace(ln)
			}
		}
		r.Violation("data-race:txnpool", map[string]any{"report": tail(so, 3000), "first_pool_frame": frames})
		r.Class("race_pass_clean_or_reported")
	case err == nil && strings.Contains(so, "RACE-PASS-DONE"):
		r.Class("race_pass_clean_or_reported")
	default:
		r.HarnessError("race pass failed: %v: %s", err, tail(so, 1500))
	}
	// (a) event-level exploration of the real TXPoolServer handlers (server.go)
	srvStates, srvTrans := serverPart(r)
	// (d) schedules of the server / worker seam (seam.go)
	seamSchedules, seamPoints := seamPart(r)
	r.Assume("scheduling points = lock acquire/release (and operation boundaries); unsynchronised accesses are the job of the separate -race pass",
		"RLock is enabled whenever no writer holds the lock (Go's writer preference is not modelled: superset of real schedules)",
		"3 goroutines x <=2 operations per scenario, transactions forced to collide")
	r.Finish(map[string]any{
		"rule":                          fmt.Sprintf("(d) server/worker seam: worker's final verdict for the last tx of a pending block || consensus committing the block once VerifyBlockRsp is out || getTxPool reader, all schedules over the lock operations of TXPoolServer/txPoolWorker/TXPool with bounded preemptions, end-state oracle (no committed tx pooled / pending / handed out); (a) BFS over the real TXPoolServer/worker/TxActor handlers (submit net/http of 3 txs, worker dequeues, validator responses stateless|stateful x ok|err x height 1|2, timeout, getTxPool, verifyBlock, clean) from 7 initial configurations (pool empty|A|A,B|A + B,C in flight x pre-exec on|off) to depth %d (map rotation 0; rotations 1,2 to depth 5|8), MAX_CAPACITY=2 MaxTxInBlock=1, oracle = no duplicate / capacity / fully verified / hand-out height and count / re-queue of stale txs / clean removes exactly the block / conservation; (b) ", r.QT(7, 10)) + fmt.Sprintf("%d scenarios; all schedules with <= %d preemptions (iterative context bounding, DFS over choice prefixes); every history checked for linearizability against a map model with output validation", len(scenarios()), bound),
		"states":                        totalPoints + srvStates,
		"transitions":                   totalPoints + srvTrans,
		"traces_validated_against_impl": totalExec + srvTrans,
		"seam_schedules":                seamSchedules,
		"seam_schedule_points":          seamPoints,
		"server_states":                 srvStates,
		"server_transitions":            srvTrans,
		"schedule_points":               totalPoints,
		"schedules":                     totalExec,
		"preemption_bound":              bound,
		"distinct_nontrivial":           len(outcomes),
	})
}

func tail(s string, n int) string {
	if len(s) > n {
		return s[len(s)-n:]
	}
	return s
}
