// C37 part (a) — event-level exploration of the real TXPoolServer / txPoolWorker / TxActor handler functions.
//
// The server is built by the real init (zero workers, hence no goroutine) plus the real worker init; workers are never
// started and no actor runs: the explorer is the scheduler and calls the handler that an actor / the worker loop would
// call for the chosen event. Validator, verify-response, and consensus PIDs are synchronous recorder processes.
// A BFS state is the canonical dump of the server (pool with verify heights, pending set, worker queues and lists with
// the collected responses, pending block); successors are computed by replaying the event path on a fresh server
// (handlers are deterministic once map iteration is pinned, which maporder.PinAll does).
//
// MAX_CAPACITY / MAX_PENDING_TXN / MAX_LIMITATION are shrunk by run.sh (generated copy of txnpool_common.go).
package main

import (
	"crypto/sha256"
	"fmt"
	"sort"
	"strings"
	"sync/atomic"

	"github.com/ontio/ontology-eventbus/actor"
	pcommon "github.com/polynetwork/poly/common"
	"github.com/polynetwork/poly/common/config"
	"github.com/polynetwork/poly/core/ledger"
	"github.com/polynetwork/poly/core/states"
	"github.com/polynetwork/poly/core/store"
	scommon "github.com/polynetwork/poly/core/store/common"
	"github.com/polynetwork/poly/core/types"
	"github.com/polynetwork/poly/errors"
	tc "github.com/polynetwork/poly/txnpool/common"
	"github.com/polynetwork/poly/txnpool/proc"
	vt "github.com/polynetwork/poly/validator/types"
	"verif.local/engine/ev"
	"verif.local/engine/lib/maporder"
	"verif.local/engine/mc"
	"verif.local/engine/polyenv"
)

// nullLedger: admission (C36's subject) consults DefLedger for the relayer registry; here the registry is empty and
// the three transactions are signed by an address pre-loaded into the permitted-address cache.
type nullLedger struct{ store.LedgerStore }

func (nullLedger) GetStorageItem(key *states.StorageKey) (*states.StorageItem, error) {
	return nil, scommon.ErrNotFound
}

// recorder is a synchronous actor.Process: it stores what the server sends to validators / consensus.
type recorder struct {
	msgs []interface{}
	on   func(message interface{}) // optional hook (part (d): wakes the "consensus" thread)
}

func (p *recorder) SendUserMessage(pid *actor.PID, message interface{}) {
	if env, ok := message.(*actor.MessageEnvelope); ok {
		message = env.Message
	}
	p.msgs = append(p.msgs, message)
	if p.on != nil {
		p.on(message)
	}
}
func (p *recorder) SendSystemMessage(pid *actor.PID, message interface{}) {}
func (p *recorder) Stop(pid *actor.PID)                                   {}

var pidSeq uint64

type srvCfg struct {
	Name           string
	DisablePreExec bool
	Seed           []string // event prefix (real handlers) that produces the initial state
	wantPool       int
	wantPend       int
}

type harness struct {
	cfg                 srvCfg
	s                   *proc.TXPoolServer
	slV, sfV, rspA, con *recorder
	pids                []*actor.PID
	conPid              *actor.PID
	replies             map[string]chan *tc.TxResult // http submissions: result channel per tx name
	// harness-side record of what the validators answered in the current pending episode of each tx
	okSL   map[string]bool
	okSF   map[string]map[uint32]bool
	vbReqs []vbReq
}

type vbReq struct {
	Txs string
	H   uint32
}

var (
	sTx    = map[string]*types.Transaction{}
	sName  = map[pcommon.Uint256]string{}
	sNames = []string{"A", "B", "C"}
)

const maxTxInBlock = 1

func newHarness(cfg srvCfg) *harness {
	h := &harness{cfg: cfg, replies: map[string]chan *tc.TxResult{}, okSL: map[string]bool{}, okSF: map[string]map[uint32]bool{}}
	h.s = proc.VerifC37NewServer(2, cfg.DisablePreExec)
	mk := func(name string) (*recorder, *actor.PID) {
		rec := &recorder{}
		pid, _ := actor.ProcessRegistry.Add(rec, fmt.Sprintf("verif-c37-%s-%d", name, atomic.AddUint64(&pidSeq, 1)))
		h.pids = append(h.pids, pid)
		return rec, pid
	}
	var p *actor.PID
	h.slV, p = mk("sl")
	h.s.VerifC37RegisterValidator(&vt.RegisterValidator{Sender: p, Type: vt.Stateless, Id: "sl"})
	h.sfV, p = mk("sf")
	h.s.VerifC37RegisterValidator(&vt.RegisterValidator{Sender: p, Type: vt.Stateful, Id: "sf"})
	h.rspA, p = mk("rsp")
	h.s.RegisterActor(tc.VerifyRspActor, p)
	h.con, h.conPid = mk("con")
	return h
}

func (h *harness) close() {
	for _, p := range h.pids {
		actor.ProcessRegistry.Remove(p)
	}
}

// ---------------------------------------------------------------- canonical view of the real state

type poolTx struct {
	SL, SF   int // number of OK attrs of each type
	Bad      int // attrs that are not OK
	SFHeight uint32
}

type view struct {
	Height  uint32
	Pool    map[string]poolTx
	Pending map[string]string   // name -> sender/hasCh
	Where   map[string][]string // name -> worker places ("0:rcv", "1:list", ...)
	Snap    proc.VerifC37Snap
	Key     string
}

func nm(h pcommon.Uint256) string {
	if n, ok := sName[h]; ok {
		return n
	}
	return "?" + h.ToHexString()[:6]
}

func (h *harness) view() *view {
	sn := h.s.VerifC37Snapshot()
	v := &view{Height: sn.Height, Pool: map[string]poolTx{}, Pending: map[string]string{}, Where: map[string][]string{}, Snap: sn}
	var parts []string
	dupPool := false
	for _, e := range sn.PoolEntries {
		n := nm(e.Tx.Hash())
		if _, dup := v.Pool[n]; dup {
			dupPool = true
		}
		var pt poolTx
		for _, a := range e.Attrs {
			switch {
			case a.ErrCode != errors.ErrNoError:
				pt.Bad++
			case a.Type == vt.Stateless:
				pt.SL++
			case a.Type == vt.Stateful:
				pt.SF++
				pt.SFHeight = a.Height
			}
		}
		v.Pool[n] = pt
		parts = append(parts, fmt.Sprintf("pool:%s:%+v", n, pt))
	}
	if dupPool {
		parts = append(parts, "pool:DUP")
		v.Pool["DUP"] = poolTx{}
	}
	for _, p := range sn.Pending {
		n := nm(p.Hash)
		v.Pending[n] = fmt.Sprintf("%d/%v", p.Sender, p.HasCh)
		parts = append(parts, fmt.Sprintf("pend:%s:%s", n, v.Pending[n]))
	}
	for wi, w := range sn.Workers {
		var q []string
		for _, x := range w.Rcv {
			q = append(q, nm(x))
			v.Where[nm(x)] = append(v.Where[nm(x)], fmt.Sprintf("%d:rcv", wi))
		}
		parts = append(parts, fmt.Sprintf("w%d:rcv:%s", wi, strings.Join(q, ",")))
		q = nil
		for _, x := range w.Stf {
			q = append(q, nm(x))
			v.Where[nm(x)] = append(v.Where[nm(x)], fmt.Sprintf("%d:stf", wi))
		}
		parts = append(parts, fmt.Sprintf("w%d:stf:%s/rsp%d", wi, strings.Join(q, ","), w.Rsp))
		for _, l := range w.List {
			v.Where[nm(l.Hash)] = append(v.Where[nm(l.Hash)], fmt.Sprintf("%d:list", wi))
			parts = append(parts, fmt.Sprintf("w%d:list:%s:f%d:r%d:%v", wi, nm(l.Hash), l.Flag, l.Retries, l.Ret))
		}
	}
	for _, b := range sn.BlkDone {
		parts = append(parts, fmt.Sprintf("blk:done:%s:%d:%d", nm(b.Hash), b.Height, b.Err))
	}
	for _, b := range sn.BlkWaiting {
		parts = append(parts, "blk:wait:"+nm(b))
	}
	sort.Strings(parts)
	v.Key = fmt.Sprintf("%s|h%d|bh%d/%v|", h.cfg.Name, sn.Height, sn.BlkHeight, sn.BlkHasSnd) + strings.Join(parts, ";")
	return v
}

// stateKey = real state + the harness-side response record (it decides later verdicts, so it is part of the state).
func (h *harness) stateKey(v *view) string {
	var m []string
	for _, n := range sNames {
		var hs []string
		for x := range h.okSF[n] {
			hs = append(hs, fmt.Sprint(x))
		}
		sort.Strings(hs)
		m = append(m, fmt.Sprintf("%s:%v:%s", n, h.okSL[n], strings.Join(hs, ",")))
	}
	return v.Key + "|model:" + strings.Join(m, ";")
}

func sortedKeys[T any](m map[string]T) []string {
	var k []string
	for x := range m {
		k = append(k, x)
	}
	sort.Strings(k)
	return k
}

// ---------------------------------------------------------------- events

func blockOf(s string) []*types.Transaction {
	var l []*types.Transaction
	for _, c := range s {
		l = append(l, sTx[string(c)])
	}
	return l
}

// allEvents is the static event alphabet; a state carries the subset enabled in it as a bitmask.
var allEvents = func() []string {
	evs := []string{"sub:A:http", "sub:A:net", "sub:B:net", "sub:C:http"}
	for wi := 0; wi < 2; wi++ {
		evs = append(evs, fmt.Sprintf("deq:%d:rcv", wi), fmt.Sprintf("deq:%d:stf", wi), fmt.Sprintf("to:%d", wi))
		for _, n := range sNames {
			for _, k := range []string{"sl:ok", "sl:err", "sf:ok1", "sf:ok2", "sf:err"} {
				evs = append(evs, fmt.Sprintf("rsp:%d:%s:%s", wi, n, k))
			}
		}
	}
	evs = append(evs, "get:1", "get:2", "getall:2", "vb:AB:1", "vb:AB:2", "vb:C:2", "vb:AA:2", "clean:A", "clean:AB", "clean:C")
	if len(evs) > 64 {
		panic("event alphabet does not fit the mask")
	}
	return evs
}()

// enabled: the events that can happen in a state (heights are non-decreasing like consensus rounds; a response exists
// only for a transaction a worker has sent to the validators; a dequeue needs a non-empty queue).
func enabled(v *view) (mask uint64) {
	for i, e := range allEvents {
		f := strings.Split(e, ":")
		on := false
		switch f[0] {
		case "sub", "clean":
			on = true
		case "deq":
			w := v.Snap.Workers[f[1][0]-'0']
			on = (f[2] == "rcv" && len(w.Rcv) > 0) || (f[2] == "stf" && len(w.Stf) > 0)
		case "to":
			on = len(v.Snap.Workers[f[1][0]-'0'].List) > 0
		case "rsp":
			on = contains(v.Where[f[2]], f[1]+":list")
		case "get", "getall":
			on = uint32(f[1][0]-'0') >= v.Height
		case "vb":
			on = uint32(f[2][0]-'0') >= v.Height
		}
		if on {
			mask |= 1 << uint(i)
		}
	}
	return
}

func eventsOf(mask uint64) []string {
	var evs []string
	for i, e := range allEvents {
		if mask&(1<<uint(i)) != 0 {
			evs = append(evs, e)
		}
	}
	return evs
}

type evOut struct {
	Got    []*tc.TXEntry // getTxPool result
	Reply  *tc.TxResult  // immediate reply on the http channel of a submission
	ConMsg []interface{} // messages sent to consensus by this event
	ValReq []string      // check requests sent to validators by this event: "sl:A" / "sf:A"
	Did    bool
}

func (h *harness) apply(e string) evOut {
	f := strings.Split(e, ":")
	var o evOut
	c0, sl0, sf0 := len(h.con.msgs), len(h.slV.msgs), len(h.sfV.msgs)
	o.Did = true
	switch f[0] {
	case "sub":
		t := sTx[f[1]]
		proc.VerifC37PermitNow(signer.Addr)
		if h.s.VerifC37Slots() == 0 {
			panic("harness: slot semaphore exhausted (submission would block)")
		}
		if f[2] == "http" {
			ch := make(chan *tc.TxResult, 1)
			h.s.VerifC37Submit(tc.HttpSender, t, ch)
			select {
			case r := <-ch:
				o.Reply = r
			default:
			}
		} else {
			h.s.VerifC37Submit(tc.NetSender, t, nil)
		}
	case "deq":
		o.Did = h.s.VerifC37Dequeue(int(f[1][0]-'0'), f[2] == "stf")
	case "rsp":
		rsp := &vt.CheckResponse{WorkerId: uint8(f[1][0] - '0'), Hash: sTx[f[2]].Hash(), ErrCode: errors.ErrNoError}
		if f[3] == "sf" {
			rsp.Type = vt.Stateful
		} else {
			rsp.Type = vt.Stateless
		}
		switch f[4] {
		case "err":
			if rsp.Type == vt.Stateful {
				rsp.ErrCode = errors.ErrDoubleSpend
			} else {
				rsp.ErrCode = errors.ErrVerifySignature
			}
			rsp.Height = 2
		case "ok1":
			rsp.Height = 1
		case "ok2":
			rsp.Height = 2
		}
		if rsp.ErrCode == errors.ErrNoError {
			if rsp.Type == vt.Stateless {
				h.okSL[f[2]] = true
			} else {
				if h.okSF[f[2]] == nil {
					h.okSF[f[2]] = map[uint32]bool{}
				}
				h.okSF[f[2]][rsp.Height] = true
			}
		}
		h.s.VerifC37Response(rsp)
	case "to":
		h.s.VerifC37Timeout(int(f[1][0]-'0'), true)
	case "get":
		o.Got = h.s.VerifC37GetTxPool(true, uint32(f[1][0]-'0'))
	case "getall":
		o.Got = h.s.VerifC37GetTxPool(false, uint32(f[1][0]-'0'))
	case "vb":
		hh := uint32(f[2][0] - '0')
		h.vbReqs = append(h.vbReqs, vbReq{f[1], hh})
		h.s.VerifC37VerifyBlock(&tc.VerifyBlockReq{Height: hh, Txs: blockOf(f[1])}, h.conPid)
	case "clean":
		h.s.VerifC37Clean(blockOf(f[1]), 3)
	default:
		panic("bad event " + e)
	}
	o.ConMsg = h.con.msgs[c0:]
	for _, m := range h.slV.msgs[sl0:] {
		o.ValReq = append(o.ValReq, "sl:"+nm(m.(*vt.CheckTx).Tx.Hash()))
	}
	for _, m := range h.sfV.msgs[sf0:] {
		o.ValReq = append(o.ValReq, "sf:"+nm(m.(*vt.CheckTx).Tx.Hash()))
	}
	return o
}

// episode bookkeeping of the harness-side response record, from the observed location change of each tx.
func (h *harness) track(b, a *view) {
	for _, n := range sNames {
		_, pb := b.Pending[n]
		_, pa := a.Pending[n]
		_, qb := b.Pool[n]
		switch {
		case pa && !pb && qb: // pool -> pending (re-verification): the stateless verdict is carried over
			h.okSL[n] = true
			delete(h.okSF, n)
		case pa && !pb: // fresh episode
			delete(h.okSL, n)
			delete(h.okSF, n)
		case !pa && pb: // episode over (pooled, rejected, timed out)
			delete(h.okSL, n)
			delete(h.okSF, n)
		}
	}
}

// ---------------------------------------------------------------- oracle

type viol struct {
	key    string
	detail string
}

func contains(l []string, x string) bool {
	for _, y := range l {
		if x == y {
			return true
		}
	}
	return false
}

// check evaluates the property clauses on one real transition b --e--> a. okSL/okSF are the harness record as it was
// BEFORE episode bookkeeping of this step (i.e. including the response fed by this very event).
func check(cfg srvCfg, b *view, e string, o evOut, a *view, okSL map[string]bool, okSF map[string]map[uint32]bool, cls func(string)) []viol {
	var vs []viol
	bad := func(key, format string, args ...any) { vs = append(vs, viol{key, fmt.Sprintf(format, args...)}) }
	f := strings.Split(e, ":")
	capacity := tc.MAX_CAPACITY

	// --- state invariants
	if _, dup := a.Pool["DUP"]; dup {
		bad("dup:same-hash-twice-in-pool", "pool hands out one hash twice")
	}
	if len(a.Pool) > capacity && len(a.Pool) > len(b.Pool) {
		// which way did the transaction that overfilled the pool come in? (sender type of its pending entry)
		cause := "entered-by-consensus-path" // NilSender: block to verify or re-verification of a pooled tx
		for n := range a.Pool {
			if _, was := b.Pool[n]; !was && !strings.HasPrefix(b.Pending[n], "0/") {
				cause = "entered-by-net-or-http-submission"
			}
		}
		bad("capacity:pool-exceeds-max-capacity:"+cause, "pool holds %d > MAX_CAPACITY=%d: %v", len(a.Pool), capacity, sortedKeys(a.Pool))
	}
	for n, pt := range a.Pool {
		if pt.SL != 1 || pt.SF != 1 || pt.Bad != 0 {
			bad("verified:pool-entry-without-both-ok-verdicts", "%s in pool with attrs %+v", n, pt)
		}
		if _, p := a.Pending[n]; p {
			bad("conservation:tx-pooled-and-pending", "%s is in the pool and in the pending list", n)
		}
	}
	for n := range a.Pending {
		if len(a.Where[n]) == 0 {
			bad("conservation:pending-tx-held-by-no-worker", "%s is pending but in no worker queue/list", n)
		}
	}
	for n, w := range a.Where {
		if _, p := a.Pending[n]; !p {
			bad("conservation:worker-holds-untracked-tx", "%s is at %v but not in the pending list", n, w)
		}
	}

	// --- pool entries appear only fully verified
	for n, pt := range a.Pool {
		if _, was := b.Pool[n]; was {
			continue
		}
		if f[0] != "rsp" || f[2] != n || !strings.HasPrefix(f[4], "ok") {
			bad("verified:pool-entry-not-caused-by-ok-response", "%s entered the pool on event %s", n, e)
			continue
		}
		if !okSL[n] || len(okSF[n]) == 0 {
			bad("verified:pooled-without-both-validators-ok", "%s entered the pool; validators answered OK: stateless=%v stateful=%v", n, okSL[n], okSF[n])
		} else if !okSF[n][pt.SFHeight] {
			bad("verified:pool-height-never-reported", "%s pooled with stateful height %d, validators reported %v", n, pt.SFHeight, okSF[n])
		}
		cls("pooled")
	}
	// --- pool entries leave only for a stated reason; everything that leaves stays accounted for
	for n, pt := range b.Pool {
		if _, still := a.Pool[n]; still {
			continue
		}
		_, pend := a.Pending[n]
		switch f[0] {
		case "get", "getall":
			hh := uint32(f[1][0] - '0')
			if pt.SFHeight >= hh {
				bad("handout:valid-tx-removed-by-gettxpool", "%s (verified at %d) dropped from the pool by getTxPool(%d)", n, pt.SFHeight, hh)
			}
			if !pend {
				bad("reverify:old-tx-dropped-not-requeued", "%s (verified at %d) removed by getTxPool(%d) but not queued for re-verification", n, pt.SFHeight, hh)
			}
			cls("requeued_old")
		case "vb":
			hh := uint32(f[2][0] - '0')
			if !strings.Contains(f[1], n) || pt.SFHeight >= hh {
				bad("verifyblock:pool-tx-removed-without-reason", "%s (verified at %d) removed by verifyBlock(%s,%d)", n, pt.SFHeight, f[1], hh)
			}
			if !pend {
				bad("reverify:old-tx-dropped-not-requeued", "%s removed by verifyBlock(%s,%d) but not queued for re-verification", n, f[1], hh)
			}
			cls("requeued_old")
		case "clean":
			inBlock := strings.Contains(f[1], n)
			switch {
			case inBlock && pend:
				bad("clean:block-tx-back-in-pending", "%s was in the committed block %s but is pending again", n, f[1])
			case !inBlock && cfg.DisablePreExec:
				bad("clean:removed-tx-not-in-block", "%s is not in block %s but left the pool", n, f[1])
			case !inBlock && !pend:
				bad("clean:remaining-tx-lost", "%s is not in block %s, left the pool and is not pending", n, f[1])
			}
			if inBlock {
				cls("cleaned")
			}
		default:
			bad("conservation:pool-tx-vanished", "%s left the pool on event %s", n, e)
		}
	}
	// --- pending txs end only by verdict / timeout
	for n := range b.Pending {
		if _, still := a.Pending[n]; still {
			continue
		}
		if _, pooled := a.Pool[n]; pooled {
			continue
		}
		switch {
		case f[0] == "rsp" && f[2] == n && f[4] == "err":
			cls("rejected_by_validator")
		case f[0] == "to" && contains(b.Where[n], f[1]+":list"):
			cls("timed_out")
		case f[0] == "rsp" && f[2] == n: // OK verdict completed but AddTxList refused: only legal if it was pooled already
			bad("conservation:verified-tx-lost", "%s fully verified on %s but neither pooled nor pending", n, e)
		default:
			bad("conservation:pending-tx-vanished", "%s left the pending list on event %s", n, e)
		}
	}
	// --- txs start being tracked only by a submission / a block to verify
	for n := range a.Pending {
		_, pb := b.Pending[n]
		_, qb := b.Pool[n]
		if pb || qb {
			continue
		}
		if !(f[0] == "sub" && f[1] == n) && !(f[0] == "vb" && strings.Contains(f[1], n)) {
			bad("conservation:tx-appeared", "%s became pending on event %s", n, e)
		}
	}

	switch f[0] {
	case "sub":
		n := f[1]
		_, pb := b.Pending[n]
		_, pa := a.Pending[n]
		_, qb := b.Pool[n]
		admitted := pa && !pb
		if len(a.Pool) != len(b.Pool) {
			bad("submit:pool-changed", "submission changed the pool %v -> %v", sortedKeys(b.Pool), sortedKeys(a.Pool))
		}
		switch {
		case admitted && qb:
			bad("dup:pooled-tx-admitted-again", "%s is in the pool and was admitted for verification again", n)
		case admitted && len(b.Pool) >= capacity:
			bad("capacity:admitted-while-pool-full", "%s admitted with %d txs pooled, MAX_CAPACITY=%d", n, len(b.Pool), capacity)
		case admitted:
			cls("admitted")
		case qb:
			cls("rejected_dup_pooled")
		case pb:
			cls("rejected_dup_pending")
		case len(b.Pool) >= capacity:
			cls("rejected_full")
			if f[2] == "http" && (o.Reply == nil || o.Reply.Err != errors.ErrTxPoolFull) {
				bad("capacity:full-pool-not-reported", "http submission to a full pool answered %+v", o.Reply)
			}
		default:
			cls("refused_with_room") // stricter than the property needs: counted only
		}
	case "get", "getall":
		hh := uint32(f[1][0] - '0')
		if f[0] == "get" && len(o.Got) > maxTxInBlock {
			bad("handout:more-than-max-tx-in-block", "getTxPool(byCount,%d) returned %d > MaxTxInBlock=%d", hh, len(o.Got), maxTxInBlock)
		}
		seen := map[string]bool{}
		for _, en := range o.Got {
			n := nm(en.Tx.Hash())
			if seen[n] {
				bad("dup:handout-same-tx-twice", "%s handed out twice", n)
			}
			seen[n] = true
			pt, ok := b.Pool[n]
			if !ok {
				bad("handout:tx-not-in-pool", "%s handed out but was not pooled", n)
			} else if pt.SFHeight < hh {
				bad("handout:tx-verified-below-requested-height", "%s verified at %d handed out for height %d", n, pt.SFHeight, hh)
			}
			for _, at := range en.Attrs {
				if at.Type == vt.Stateful && at.Height < hh {
					bad("handout:tx-verified-below-requested-height", "%s carries stateful height %d, handed out for height %d", n, at.Height, hh)
				}
			}
		}
		elig := 0
		for _, pt := range b.Pool {
			if pt.SFHeight >= hh {
				elig++
			}
		}
		if len(o.Got) > 0 {
			cls("handout_nonempty")
		}
		if elig > len(o.Got) && f[0] == "get" {
			cls("handout_truncated_by_count")
		}
		if f[0] == "getall" && len(o.Got) != elig {
			bad("handout:eligible-tx-withheld", "getTxPool(all,%d) returned %d of %d eligible", hh, len(o.Got), elig)
		}
		// a scan that did not stop early has seen every stale tx: all of them must be out of the pool
		if len(o.Got) < maxTxInBlock || f[0] == "getall" {
			for n, pt := range a.Pool {
				if pt.SFHeight < hh {
					bad("reverify:old-tx-left-in-pool", "%s (verified at %d) still pooled after a complete getTxPool(%d) scan", n, pt.SFHeight, hh)
				}
			}
		}
	case "clean":
		for n := range a.Pool {
			if strings.Contains(f[1], n) {
				bad("clean:block-tx-still-pooled", "%s is in the committed block %s and still pooled", n, f[1])
			}
		}
	case "vb":
		hh := uint32(f[2][0] - '0')
		for n, pt := range a.Pool {
			// (a block that lists a transaction twice is refused at once, without looking at the pool)
			if f[1] != "AA" && strings.Contains(f[1], n) && pt.SFHeight < hh {
				bad("reverify:old-tx-left-in-pool", "%s (verified at %d) still pooled after verifyBlock(%s,%d)", n, pt.SFHeight, f[1], hh)
			}
		}
	case "rsp":
		if f[4] == "err" {
			if _, p := a.Pending[f[2]]; p {
				bad("verified:rejected-tx-still-pending", "%s rejected by a validator but still pending", f[2])
			}
		}
	}
	// re-verification really asks the stateful validator (worker side of "reports older ones for re-verification")
	if f[0] == "deq" && f[2] == "stf" {
		if len(o.ValReq) != 1 || !strings.HasPrefix(o.ValReq[0], "sf:") {
			bad("reverify:no-stateful-request-sent", "dequeue of a tx to re-verify sent %v", o.ValReq)
		}
	}
	if f[0] == "deq" && f[2] == "rcv" && len(o.ValReq) == 2 {
		cls("sent_to_both_validators")
	}
	return vs
}

// ---------------------------------------------------------------- exploration

// sstate is deliberately small (millions are held in the BFS frontier): the event path that rebuilds the real server,
// the hash of the canonical state dump, the enabled-event mask and the harness-side response record.
type sstate struct {
	Cfg   uint8
	Path  []uint8 // indices into allEvents
	Key   string  // sha256 of the canonical dump
	Evs   uint64
	Model rmodel
}

// rmodel = which OK verdicts the harness has fed for each tx in its current pending episode (bit per tx / per height).
type rmodel struct{ SL, SF1, SF2 uint8 }

func (h *harness) saveModel() (m rmodel) {
	for i, n := range sNames {
		if h.okSL[n] {
			m.SL |= 1 << uint(i)
		}
		if h.okSF[n][1] {
			m.SF1 |= 1 << uint(i)
		}
		if h.okSF[n][2] {
			m.SF2 |= 1 << uint(i)
		}
	}
	return
}

func (h *harness) loadModel(m rmodel) {
	h.okSL, h.okSF = map[string]bool{}, map[string]map[uint32]bool{}
	for i, n := range sNames {
		if m.SL&(1<<uint(i)) != 0 {
			h.okSL[n] = true
		}
		if m.SF1&(1<<uint(i)) != 0 || m.SF2&(1<<uint(i)) != 0 {
			h.okSF[n] = map[uint32]bool{}
			if m.SF1&(1<<uint(i)) != 0 {
				h.okSF[n][1] = true
			}
			if m.SF2&(1<<uint(i)) != 0 {
				h.okSF[n][2] = true
			}
		}
	}
}

var signer *polyenv.Acct

func serverPart(r *ev.Run) (states, transitions int) {
	signer = polyenv.Key(7)
	config.DefConfig.Consensus.MaxTxInBlock = maxTxInBlock
	ledger.DefLedger = ledger.VerifNewLedger(nullLedger{})
	for i, n := range sNames {
		t := polyenv.Tx(pcommon.ADDRESS_EMPTY, "c37", []byte(n), uint32(100+i), polyenv.Signer{Keys: []*polyenv.Acct{signer}, M: 1, Sign: true})
		sTx[n] = t
		sName[t.Hash()] = n
	}
	if tc.MAX_CAPACITY != 2 || tc.MAX_PENDING_TXN > 64 {
		r.HarnessError("C37(a) needs the shrunk pool constants (MAX_CAPACITY=%d MAX_PENDING_TXN=%d): run through props/c37/run.sh", tc.MAX_CAPACITY, tc.MAX_PENDING_TXN)
	}
	poolA := []string{"sub:A:http", "deq:0:rcv", "rsp:0:A:sl:ok", "rsp:0:A:sf:ok1"}
	poolAB := append(append([]string{}, poolA...), "sub:B:net", "deq:0:rcv", "rsp:0:B:sf:ok1", "rsp:0:B:sl:ok")
	inflight := append(append([]string{}, poolA...), "sub:B:net", "sub:C:http")
	var cfgs []srvCfg
	for _, dis := range []bool{false, true} {
		for _, sd := range []struct {
			n          string
			p          []string
			pool, pend int
		}{{"empty", nil, 0, 0}, {"A@1", poolA, 1, 0}, {"A@1,B@1", poolAB, 2, 0}, {"A@1+B,C-admitted", inflight, 1, 2}} {
			if dis && sd.pend > 0 {
				continue
			}
			cfgs = append(cfgs, srvCfg{Name: fmt.Sprintf("preexec=%v/%s", !dis, sd.n), DisablePreExec: dis, Seed: sd.p, wantPool: sd.pool, wantPend: sd.pend})
		}
	}
	r.Require("admitted", "rejected_full", "rejected_dup_pooled", "rejected_dup_pending", "pooled", "requeued_old", "cleaned",
		"rejected_by_validator", "timed_out", "handout_nonempty", "handout_truncated_by_count", "sent_to_both_validators")

	evIdx := map[string]uint8{}
	for i, e := range allEvents {
		evIdx[e] = uint8(i)
	}
	// replay rebuilds the real server of a state: seed + path on a fresh server (no oracle: every prefix was judged when
	// its own state was generated), then the harness-side record of the state is restored.
	replay := func(ci int, path []uint8, m rmodel) *harness {
		h := newHarness(cfgs[ci])
		for _, e := range cfgs[ci].Seed {
			if !h.apply(e).Did {
				r.HarnessError("C37(a): seed event %s of %s not executable", e, cfgs[ci].Name)
			}
		}
		for _, i := range path {
			if !h.apply(allEvents[i]).Did {
				r.HarnessError("C37(a): replay of %v diverged at %s", path, allEvents[i])
			}
		}
		h.loadModel(m)
		return h
	}
	// step = one real transition with the oracle evaluated on it.
	step := func(h *harness, b *view, e string) (*view, []viol, bool) {
		o := h.apply(e)
		if !o.Did {
			return nil, nil, false
		}
		a := h.view()
		vs := check(h.cfg, b, e, o, a, h.okSL, h.okSF, r.Class)
		for _, m := range o.ConMsg {
			if rsp, ok := m.(*tc.VerifyBlockRsp); ok {
				vs = append(vs, checkBlockRsp(h, rsp, a, r)...)
			}
		}
		h.track(b, a)
		return a, vs, true
	}
	hashOf := func(k string) string { x := sha256.Sum256([]byte(k)); return string(x[:]) }

	maporder.PinAll(0)
	defer maporder.Unpin()
	var inits []sstate
	for ci := range cfgs {
		// the seed is executed under the oracle too (its transitions are real ones), tracking the response record
		h := newHarness(cfgs[ci])
		v := h.view()
		broken := false
		for k, e := range cfgs[ci].Seed {
			a, vs, ok := step(h, v, e)
			if !ok {
				r.HarnessError("C37(a): seed event %s of %s not executable", e, cfgs[ci].Name)
			}
			for _, x := range vs {
				broken = true
				r.Violation("server:"+x.key, map[string]any{"config": cfgs[ci].Name, "events": cfgs[ci].Seed[:k+1], "what": x.detail,
					"max_capacity": tc.MAX_CAPACITY, "max_tx_in_block": maxTxInBlock, "state_after": a.Key})
			}
			transitions++
			r.Eval()
			v = a
		}
		if !broken && (len(v.Pool) != cfgs[ci].wantPool || len(v.Pending) != cfgs[ci].wantPend || h.saveModel() != (rmodel{})) {
			r.HarnessError("C37(a): seed of %s gave pool %v pending %v", cfgs[ci].Name, sortedKeys(v.Pool), sortedKeys(v.Pending))
		}
		if !broken { // a configuration whose seed already violates the property is reported, not explored further
			inits = append(inits, sstate{Cfg: uint8(ci), Key: hashOf(h.stateKey(v)), Evs: enabled(v)})
		}
		h.close()
	}
	if len(inits) == 0 {
		return 0, transitions
	}
	// determinism of the harness: the same path twice gives the same state
	{
		var p []uint8
		for _, e := range []string{"sub:C:http", "sub:A:http", "deq:0:rcv", "get:2", "vb:AB:2", "clean:C"} {
			p = append(p, evIdx[e])
		}
		h1, h2 := replay(1, p, rmodel{}), replay(1, p, rmodel{})
		if h1.view().Key != h2.view().Key {
			r.HarnessError("C37(a): replay of an event path diverged")
		}
		h1.close()
		h2.close()
	}
	// map iteration (pool scan of getTxPool / Remain, validator fan-out, block result) is pinned to one rotation per
	// exploration; rotation 0 is explored to the full depth, two more rotations to a smaller depth.
	type pinRun struct {
		pin   uint16
		depth int
	}
	runs := []pinRun{{0, r.QT(7, 10)}, {1, r.QT(5, 8)}, {2, r.QT(5, 8)}}
	var perPin []map[string]any
	for _, pr := range runs {
		maporder.PinAll(pr.pin)
		st := mc.BFS(mc.Config[sstate]{
			Init:   inits,
			Events: func(s sstate, d int) []string { return eventsOf(s.Evs) },
			Step: func(s sstate, e string) (sstate, bool) {
				h := replay(int(s.Cfg), s.Path, s.Model)
				defer h.close()
				b := h.view()
				a, vs, ok := step(h, b, e)
				if !ok {
					return s, false
				}
				r.Eval()
				p := append(append(make([]uint8, 0, len(s.Path)+1), s.Path...), evIdx[e])
				for _, x := range vs {
					var names []string
					for _, i := range p {
						names = append(names, allEvents[i])
					}
					r.Violation("server:"+x.key, map[string]any{"config": h.cfg.Name, "seed_events": h.cfg.Seed, "events": names, "map_rotation": pr.pin,
						"what": x.detail, "max_capacity": tc.MAX_CAPACITY, "max_tx_in_block": maxTxInBlock, "state_after": a.Key})
				}
				return sstate{Cfg: s.Cfg, Path: p, Key: hashOf(h.stateKey(a)), Evs: enabled(a), Model: h.saveModel()}, true
			},
			Key:      func(s sstate) string { return s.Key },
			MaxDepth: pr.depth,
			Workers:  6,
			Stop:     r.Expired,
		})
		if st.Truncated {
			r.Capped(fmt.Sprintf("C37(a) server BFS (map rotation %d) cut by the deadline at depth %d of %d", pr.pin, st.MaxDepth, pr.depth))
		}
		states += st.States
		transitions += st.Transitions
		perPin = append(perPin, map[string]any{"map_rotation": pr.pin, "depth": pr.depth, "states": st.States, "transitions": st.Transitions,
			"per_depth": st.PerDepth, "fixpoint": !st.DepthCapped && !st.Truncated})
	}
	r.Note("server_explorations", perPin)
	r.Note("server_configs", len(cfgs))
	r.Note("server_event_alphabet", allEvents)
	r.Sample(map[string]any{"part": "a", "initial_states": len(inits), "events_in_empty_state": eventsOf(inits[0].Evs)})
	return states, transitions
}

// checkBlockRsp: what the server tells consensus about a block. Not a clause of C37's statement: counted, not alarmed,
// except that a result must concern a transaction of the requested block.
func checkBlockRsp(h *harness, rsp *tc.VerifyBlockRsp, a *view, r *ev.Run) []viol {
	var vs []viol
	if len(h.vbReqs) == 0 {
		return []viol{{"verifyblock:response-without-request", "VerifyBlockRsp sent, no block was requested"}}
	}
	req := h.vbReqs[len(h.vbReqs)-1]
	for _, e := range rsp.TxnPool {
		n := nm(e.Tx.Hash())
		if !strings.Contains(req.Txs, n) {
			vs = append(vs, viol{"verifyblock:result-for-tx-outside-block", fmt.Sprintf("%s reported for block %s", n, req.Txs)})
		}
		if e.ErrCode == errors.ErrNoError {
			if pt, ok := a.Pool[n]; ok && pt.SFHeight < req.H {
				r.Class("note_vb_ok_for_tx_verified_below_block_height")
			}
		}
	}
	r.Class("block_response_sent")
	return vs
}
