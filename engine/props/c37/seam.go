// C37 part (d) — schedules of the server / worker seam around a block being verified and committed.
//
// txnpool_server.go, txnpool_worker.go and transaction_pool.go are built with `sync` rewritten to the ssync shim, so every
// lock operation of TXPoolServer, txPoolWorker, pendingBlock and TXPool is a scheduling point owned by the explorer.
// A scenario is prepared sequentially with the real handlers (part (a)'s harness): a block [A,B] is being verified, B is
// its last unverified transaction and has one validator verdict left. Threads:
//
//	worker     the rspCh arm for the final validator response of B (assignRspToWorker -> handleRsp -> putTxPool ->
//	           removePendingTx -> checkPendingBlockOk -> VerifyBlockRsp to consensus)
//	consensus  blocked until the VerifyBlockRsp for the block has been emitted (the recorder process wakes it), then the
//	           block is committed: cleanTransactionList(block) as TxPoolActor does on SaveBlockCompleteMsg
//	reader     getTxPool(byCount, height) as consensus does when it builds the next proposal
//
// ALL schedules with at most B preemptions are enumerated (iterative context bounding, DFS over choice prefixes).
// Oracle at the end of every schedule: no transaction of the committed block is in the pool, handed out by a final
// getTxPool, or in the pending list; transactions outside the block are still accounted for; a hand-out that started
// after the commit returned contains no committed transaction. Deadlocks and panics are violations.
package main

import (
	"fmt"
	"sort"
	"strings"
	"sync"

	"github.com/polynetwork/poly/common/verifhook/ssync"
	tc "github.com/polynetwork/poly/txnpool/common"
	"verif.local/engine/ev"
	"verif.local/engine/lib/maporder"
)

type seamScenario struct {
	Name       string
	PreExecOff bool
	Prefix     []string // sequential preparation (events of part (a))
	Final      string   // the worker thread's event: the last validator response
	Block      string   // the block being verified and committed
	Others     []string // pooled transactions outside the block
	Reader     bool
}

type seamResult struct {
	x           ssync.Exec
	pool, pend  []string
	handed      []string // final sequential hand-out
	readerGot   []string
	readerStart int64
	cleanDone   int64
	emitted     int
	prepErr     string
}

func seamScenarios() []seamScenario {
	poolA := []string{"sub:A:http", "deq:0:rcv", "rsp:0:A:sl:ok", "rsp:0:A:sf:ok1"}
	poolC := []string{"sub:C:http", "deq:0:rcv", "rsp:0:C:sl:ok", "rsp:0:C:sf:ok1"}
	var out []seamScenario
	for _, off := range []bool{true, false} {
		for _, rd := range []bool{false, true} {
			n := fmt.Sprintf("preexec=%v/reader=%v", !off, rd)
			// block [A,B]: A already pooled, B verified by this node for the block, stateless verdict in, stateful one left
			out = append(out, seamScenario{Name: "block-AB-last-verdict-stateful/" + n, PreExecOff: off, Reader: rd, Block: "AB",
				Prefix: append(append([]string{}, poolA...), "vb:AB:1", "deq:*:rcv", "rsp:*:B:sl:ok"), Final: "rsp:*:B:sf:ok1"})
			// the same with the verdicts in the other order and a bystander C in the pool
			out = append(out, seamScenario{Name: "block-AB-last-verdict-stateless+bystander/" + n, PreExecOff: off, Reader: rd, Block: "AB", Others: []string{"C"},
				Prefix: append(append(append([]string{}, poolA...), poolC...), "vb:AB:1", "deq:*:rcv", "rsp:*:B:sf:ok1"), Final: "rsp:*:B:sl:ok"})
		}
	}
	return out
}

// resolve replaces the worker wildcard of an event by the worker that currently holds the transaction / a queued tx.
func resolve(h *harness, e string) string {
	if !strings.Contains(e, "*") {
		return e
	}
	v := h.view()
	f := strings.Split(e, ":")
	for wi, w := range v.Snap.Workers {
		switch f[0] {
		case "deq":
			if len(w.Rcv) > 0 {
				return strings.Replace(e, "*", fmt.Sprint(wi), 1)
			}
		case "rsp":
			if contains(v.Where[f[2]], fmt.Sprintf("%d:list", wi)) {
				return strings.Replace(e, "*", fmt.Sprint(wi), 1)
			}
		}
	}
	return e
}

func runSeam(sc seamScenario, prefix []int) (res seamResult) {
	h := newHarness(srvCfg{Name: sc.Name, DisablePreExec: sc.PreExecOff})
	defer h.close()
	for _, e := range sc.Prefix {
		if !h.apply(resolve(h, e)).Did {
			res.prepErr = "prefix event not executable: " + e
			return
		}
	}
	final := resolve(h, sc.Final)
	if strings.Contains(final, "*") || len(h.con.msgs) != 0 {
		res.prepErr = fmt.Sprintf("preparation: final=%s, consensus already got %d messages", final, len(h.con.msgs))
		return
	}
	// the gate the consensus thread waits on; it must be armed inside the exploration (the shim only tracks what happens
	// under the scheduler), so whichever thread is scheduled first arms it before doing anything else
	var verified ssync.WaitGroup
	var arm sync.Once
	armed := func() { arm.Do(func() { verified.Add(1) }) }
	h.con.on = func(m interface{}) {
		if _, ok := m.(*tc.VerifyBlockRsp); ok {
			res.emitted++
			if res.emitted == 1 {
				verified.Done()
			}
		}
	}
	bodies := []func(){
		func() { armed(); h.apply(final) }, // worker: the last verdict arrives
		func() { // consensus: commits the block once the pool server reported it verified
			armed()
			verified.Wait()
			h.s.VerifC37Clean(blockOf(sc.Block), 2)
			res.cleanDone = ssync.Now()
		},
	}
	if sc.Reader {
		bodies = append(bodies, func() {
			armed()
			ssync.Yield()
			res.readerStart = ssync.Now()
			for _, en := range h.s.VerifC37GetTxPool(true, 1) {
				res.readerGot = append(res.readerGot, nm(en.Tx.Hash()))
			}
		})
	}
	maporder.PinAll(0)
	res.x = ssync.Run(bodies, prefix)
	maporder.Unpin()
	if res.x.Deadlock {
		return
	}
	v := h.view()
	res.pool, res.pend = sortedKeys(v.Pool), sortedKeys(v.Pending)
	for _, en := range h.s.VerifC37GetTxPool(false, 0) {
		res.handed = append(res.handed, nm(en.Tx.Hash()))
	}
	sort.Strings(res.handed)
	return
}

func seamPart(r *ev.Run) (schedules, points int) {
	bound := r.QT(2, 3)
	r.Require("seam_schedule_ok")
	outcomes := map[string]bool{}
	for _, sc := range seamScenarios() {
		execs := 0
		var explore func(prefix []int)
		explore = func(prefix []int) {
			if r.Expired() {
				r.Capped("seam schedules of " + sc.Name)
				return
			}
			res := runSeam(sc, prefix)
			if res.prepErr != "" {
				if r.NViolations() > 0 { // the sequential handlers already misbehave (reported by part (a)): nothing to schedule here
					r.Note("seam_scenario_skipped:"+sc.Name, res.prepErr)
					execs = 1 << 20
					return
				}
				r.HarnessError("C37(d) %s: %s", sc.Name, res.prepErr)
			}
			execs++
			schedules++
			points += len(res.x.Points)
			r.Eval()
			if execs <= 2 { // determinism of the harness: replay agrees
				again := runSeam(sc, res.x.Choices)
				if fmt.Sprint(again.pool, again.pend, again.readerGot, len(again.x.Points)) != fmt.Sprint(res.pool, res.pend, res.readerGot, len(res.x.Points)) {
					r.HarnessError("C37(d): schedule replay diverged in %s", sc.Name)
				}
			}
			detail := func(what string) map[string]any {
				var ops []string
				for _, p := range res.x.Points {
					ops = append(ops, fmt.Sprintf("T%d:%s", p.Enabled[p.Chosen], p.Op))
				}
				return map[string]any{"scenario": sc.Name, "prepared_by": sc.Prefix, "worker_event": sc.Final, "committed_block": sc.Block, "what": what,
					"schedule": res.x.Choices, "steps (T0 worker, T1 consensus, T2 reader)": ops, "pool_after": res.pool, "pending_after": res.pend,
					"handed_out_after": res.handed, "reader_got": res.readerGot, "block_responses": res.emitted}
			}
			bad := ""
			switch {
			case res.x.Deadlock:
				r.Violation("seam:deadlock", detail("no thread can run"))
				bad = "deadlock"
			case len(res.x.Panics) > 0:
				r.Violation("seam:panic", detail(strings.Join(res.x.Panics, "; ")))
				bad = "panic"
			default:
				for _, c := range sc.Block {
					n := string(c)
					if contains(res.pool, n) || contains(res.handed, n) {
						r.Violation("seam:committed-tx-in-pool-after-commit", detail(n+" is in the committed block and is pooled / handed out after cleanTransactionList returned"))
						bad = "pooled"
					}
					if contains(res.pend, n) {
						r.Violation("seam:committed-tx-pending-after-commit", detail(n+" is in the committed block and is in the pending list after the commit"))
						bad = "pending"
					}
					if sc.Reader && res.readerStart > res.cleanDone && res.cleanDone > 0 && contains(res.readerGot, n) {
						r.Violation("seam:committed-tx-handed-out-after-commit", detail(n+" handed to consensus by a getTxPool that started after the commit"))
						bad = "handed"
					}
				}
				for _, n := range sc.Others { // bystanders stay accounted for: pooled (pre-exec off) or pooled/pending (pre-exec on)
					inPool, inPend := contains(res.pool, n), contains(res.pend, n)
					if inPool == inPend || (sc.PreExecOff && !inPool) {
						r.Violation("seam:bystander-tx-lost-or-duplicated", detail(fmt.Sprintf("%s pooled=%v pending=%v", n, inPool, inPend)))
						bad = "bystander"
					}
				}
				want := 0
				if sc.PreExecOff {
					want = len(sc.Others)
				}
				if bad == "" && len(res.pool) != want {
					r.Violation("seam:pool-count-differs-from-model", detail(fmt.Sprintf("pool %v, model count %d", res.pool, want)))
					bad = "count"
				}
				if res.emitted != 1 {
					r.Violation("seam:block-result-not-reported-exactly-once", detail(fmt.Sprintf("%d VerifyBlockRsp", res.emitted)))
					bad = "rsp"
				}
			}
			if bad == "" {
				r.Class("seam_schedule_ok")
			}
			outcomes[fmt.Sprintf("%s|%v|%v|%v|%s", sc.Name, res.pool, res.pend, res.readerGot, bad)] = true
			for i := len(prefix); i < len(res.x.Points); i++ {
				p := res.x.Points[i]
				for alt := 1; alt < len(p.Enabled); alt++ {
					cost := res.x.PreemptionsBefore(i)
					if p.RunningEnabled {
						cost++
					}
					if cost > bound {
						continue
					}
					explore(append(append([]int{}, res.x.Choices[:i]...), alt))
				}
			}
		}
		explore(nil)
		r.Case(fmt.Sprintf("seam %s executions=%d", sc.Name, execs))
		if execs < 10 {
			r.HarnessError("C37(d): only %d schedules in %s: nothing interleaves", execs, sc.Name)
		}
	}
	r.Note("seam_distinct_outcomes", len(outcomes))
	r.Note("seam_preemption_bound", bound)
	r.Note("seam_scenarios", len(seamScenarios()))
	return schedules, points
}
