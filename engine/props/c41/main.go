// C41 — VBFT round decisions count distinct participants.
//
// Explicit-state BFS (mc.BFS) over the real consensus/vbft BlockPool for one block number, driven by message events:
//
//	P:p:v          proposal by proposer p, block variant v (a second variant = proposer equivocation)
//	E:e:p:f        endorsement by e for proposer p, f = t|f (empty-block vote or not)
//	R:e:p:f        the same endorsement signed again (different signature bytes), enabled once the pool holds the original
//	C:c:p:f:set    commit by c for proposer p (empty or not) carrying endorser signatures of the participants in set
//
// including duplicates, conflicting votes of one participant and empty votes, for N=4 (C=1) and N=7 (C=2).
// A state is the canonical dump of the pool's CandidateInfo (proposals, commit messages in order, per-endorser vote lists
// in order); a transition replays the path on a cleaned real pool and applies one more real call.
// Two alphabets per N: "votes" (P+E, deep) and "commits" (P+E+C, shallower).
//
// Oracle (reference = sets of distinct participant indices computed from the dump, shares nothing with the implementation):
//
//	T  every vote recorded in a state was cast by some message of the path (nothing invented, right signature
//	   attached).
//	L  no participant has the same vote twice in its list.
//	E  endorseDone = (p, empty=false) ⇒ |{distinct e : e voted (p, non-empty)}| > C;
//	   endorseDone = (_, empty=true)  ⇒ |{distinct e : e voted empty}| > C.
//	K  commitDone = (p, _) ⇒ |distinct signers (committer ∪ carried) in commit messages for p| ≥ N−⌊(N−1)/3⌋−1
//	                         ∨ |{distinct e : e voted (p, non-empty)}| > N−1−C.
//	S  sealing (addSignaturesToBlockLocked for every proposal in the pool and both flags; the production entry
//	   setBlockSealed for the decision commitDone reports): Bookkeepers are pairwise distinct, are exactly
//	   {proposer} ∪ {e ≠ proposer : e voted (proposer, flag)}, |SigData| = |Bookkeepers| and every signature verifies
//	   (real ECDSA keys) for its own key over the sealed block's hash.
//
// Things the property does not state are observed and reported, never alarmed (see coverage.observations).
package main

import (
	"encoding/hex"
	"encoding/json"
	"fmt"
	"os"
	"runtime"
	"runtime/pprof"
	"sort"
	"strconv"
	"strings"
	"sync"
	"sync/atomic"

	"github.com/ontio/ontology-crypto/keypair"
	"github.com/polynetwork/poly/common"
	"github.com/polynetwork/poly/common/config"
	"github.com/polynetwork/poly/consensus/vbft"
	vconfig "github.com/polynetwork/poly/consensus/vbft/config"
	"github.com/polynetwork/poly/core/payload"
	"github.com/polynetwork/poly/core/signature"
	"github.com/polynetwork/poly/core/types"
	"verif.local/engine/ev"
	"verif.local/engine/mc"
	"verif.local/engine/polyenv"
)

const blkNum = uint32(5)

// "commitDone says forEmpty without >N−1−C distinct empty voters" is a violation (a participant counted twice); C41_STRICT_EMPTY=0 demotes it to an observation.
var strictEmpty = os.Getenv("C41_STRICT_EMPTY") != "0"

type vote struct {
	e, p  uint32
	empty bool
}

type event struct {
	str      string
	kind     byte
	actor, p uint32
	variant  string
	empty    bool
	carried  []uint32
	// prepared call arguments
	blk   *vbft.Block
	hash  common.Uint256
	sig   []byte
	csigs map[uint32][]byte
	votes []vote
	ids   []uint32
}

type world struct {
	name     string
	N, C     int
	keys     []*polyenv.Acct // participant i has keys[i-1]
	cfg      *vconfig.ChainConfig
	P, E, Cm []uint32
	targets  []uint32
	blocks   map[string]*vbft.Block // "p.v"
	sigLabel map[string]string      // signature bytes -> label "e.p.f" / "prop<p><v>[-empty]"
	pkIndex  map[string]uint32
	others   []uint32 // interchangeable participants (not proposers)
	isOther  map[uint32]int
	events   []*event
	evIndex  map[string]*event
	pools    sync.Pool
	vcache   sync.Map
	nCarried int
	senders  []uint32
}

func mkTx(i int) *types.Transaction {
	tx := &types.Transaction{Version: types.CURR_TX_VERSION, TxType: types.Invoke, Nonce: uint32(i),
		Payload: &payload.InvokeCode{Code: []byte{byte(i), 0x51}}, Attributes: []byte{}}
	sink := common.NewZeroCopySink(nil)
	if err := tx.Serialization(sink); err != nil {
		panic(err)
	}
	out, err := types.TransactionFromRawBytes(sink.Bytes())
	if err != nil {
		panic(err)
	}
	return out
}

// a block as Server.constructBlock builds it: header hash signed by the proposer, Bookkeepers=[proposer], SigData=[sig]
func mkBlock(proposer uint32, key *polyenv.Acct, txs []*types.Transaction) *types.Block {
	info := &vconfig.VbftBlockInfo{Proposer: proposer, VrfValue: []byte{1, 2, 3}, VrfProof: []byte{4, 5, 6}, LastConfigBlockNum: 0}
	cp, _ := json.Marshal(info)
	var hs []common.Uint256
	for _, t := range txs {
		hs = append(hs, t.Hash())
	}
	hdr := &types.Header{Version: 0, ChainID: 0, PrevBlockHash: common.Uint256{9}, TransactionsRoot: common.ComputeMerkleRoot(hs),
		Timestamp: 1000, Height: blkNum, ConsensusData: 42, ConsensusPayload: cp}
	cpy := *hdr
	h := cpy.Hash()
	sig, err := signature.Sign(key, h[:])
	if err != nil {
		panic(err)
	}
	hdr.Bookkeepers = []keypair.PublicKey{key.Pub}
	hdr.SigData = [][]byte{sig}
	return &types.Block{Header: hdr, Transactions: txs}
}

func cloneTypesBlock(b *types.Block) *types.Block {
	h := *b.Header
	h.Bookkeepers = append([]keypair.PublicKey{}, b.Header.Bookkeepers...)
	h.SigData = append([][]byte{}, b.Header.SigData...)
	return &types.Block{Header: &h, Transactions: b.Transactions}
}

func cloneBlock(b *vbft.Block) *vbft.Block {
	return &vbft.Block{Block: cloneTypesBlock(b.Block), EmptyBlock: cloneTypesBlock(b.EmptyBlock), Info: b.Info}
}

func fl(f bool) string {
	if f {
		return "t"
	}
	return "f"
}

type alphabet struct {
	targets    int      // how many of the proposers messages refer to
	commits    bool     // include commit messages
	senders    []uint32 // participants that send commit messages
	carriedMax int      // carried endorser sets: all subsets of the participants with at most this many members
	resigners  []uint32 // participants that may re-send a vote with a fresh (different) signature
}

func newWorld(r *ev.Run, name string, n int, a alphabet) *world {
	w := &world{name: name, N: n, keys: polyenv.Keys(n), blocks: map[string]*vbft.Block{}, sigLabel: map[string]string{},
		pkIndex: map[string]uint32{}, isOther: map[uint32]int{}, evIndex: map[string]*event{}, senders: a.senders}
	vconf := &config.VBFTConfig{BlockMsgDelay: 10000, HashMsgDelay: 10000, PeerHandshakeTimeout: 10, MaxBlockChangeView: 1000}
	var peers []*config.VBFTPeerInfo
	for i := 0; i < n; i++ {
		peers = append(peers, &config.VBFTPeerInfo{Index: uint32(i + 1), PeerPubkey: w.keys[i].PubHex})
		w.pkIndex[string(keypair.SerializePublicKey(w.keys[i].Pub))] = uint32(i + 1)
	}
	cfg, err := vconfig.GenesisChainConfig(vconf, peers, 1)
	if err != nil {
		r.HarnessError("GenesisChainConfig: %v", err)
	}
	w.cfg = cfg
	w.C = int(cfg.C)
	// participant config of the shape the real selection produces (C40): C+1 proposers, endorsers/committers = the
	// 2C+1 = N−C participants that are not leading proposers
	for i := 1; i <= w.C+1; i++ {
		w.P = append(w.P, uint32(i))
	}
	for i := w.C + 1; i <= n; i++ {
		w.E = append(w.E, uint32(i))
		w.Cm = append(w.Cm, uint32(i))
	}
	if len(w.E) != 2*w.C+1 {
		r.HarnessError("N=%d C=%d: expected N-C = 2C+1", n, w.C)
	}
	w.targets = w.P[:a.targets]
	for i := w.C + 2; i <= n; i++ {
		w.isOther[uint32(i)] = len(w.others)
		w.others = append(w.others, uint32(i))
	}
	hash := map[string]common.Uint256{}
	sig := map[string][]byte{}
	variants := map[uint32][]string{}
	for _, p := range w.targets {
		k := w.keys[p-1]
		vs := []string{"a"}
		if p == w.targets[0] {
			vs = append(vs, "b") // the first proposer may equivocate
		}
		variants[p] = vs
		for vi, v := range vs {
			b := &vbft.Block{Block: mkBlock(p, k, []*types.Transaction{mkTx(int(p)*10 + vi)}), EmptyBlock: mkBlock(p, k, nil),
				Info: &vconfig.VbftBlockInfo{Proposer: p}}
			w.blocks[fmt.Sprintf("%d.%s", p, v)] = b
			w.sigLabel[string(b.Block.Header.SigData[0])] = fmt.Sprintf("prop%d%s", p, v)
			w.sigLabel[string(b.EmptyBlock.Header.SigData[0])] = fmt.Sprintf("prop%d%s-empty", p, v)
		}
		ab := w.blocks[fmt.Sprintf("%d.a", p)]
		hash[fmt.Sprintf("%d.f", p)] = ab.Block.Hash()
		hash[fmt.Sprintf("%d.t", p)] = ab.EmptyBlock.Hash()
		for e := 1; e <= n; e++ {
			for _, f := range []bool{false, true} {
				h := hash[fmt.Sprintf("%d.%s", p, fl(f))]
				s, err := signature.Sign(w.keys[e-1], h[:])
				if err != nil {
					panic(err)
				}
				lbl := fmt.Sprintf("%d.%d.%s", e, p, fl(f))
				sig[lbl] = s
				w.sigLabel[string(s)] = lbl
			}
		}
	}
	add := func(e *event) {
		e.ids = append([]uint32{e.actor}, e.carried...)
		switch e.kind {
		case 'P':
			e.str = fmt.Sprintf("P:%d:%s", e.p, e.variant)
			e.blk = w.blocks[fmt.Sprintf("%d.%s", e.p, e.variant)]
			e.votes = []vote{{e.p, e.p, false}}
		case 'E':
			e.str = fmt.Sprintf("E:%d:%d:%s", e.actor, e.p, fl(e.empty))
			k := fmt.Sprintf("%d.%s", e.p, fl(e.empty))
			e.hash, e.sig = hash[k], sig[fmt.Sprintf("%d.%s", e.actor, k)]
			e.votes = []vote{{e.actor, e.p, e.empty}}
		case 'R':
			e.str = fmt.Sprintf("R:%d:%d:%s", e.actor, e.p, fl(e.empty))
			e.votes = []vote{{e.actor, e.p, e.empty}}
		case 'C':
			var m []string
			for _, c := range e.carried {
				m = append(m, strconv.Itoa(int(c)))
			}
			e.str = fmt.Sprintf("C:%d:%d:%s:%s", e.actor, e.p, fl(e.empty), strings.Join(m, "+"))
			k := fmt.Sprintf("%d.%s", e.p, fl(e.empty))
			e.hash, e.sig = hash[k], sig[fmt.Sprintf("%d.%s", e.actor, k)]
			e.votes = []vote{{e.actor, e.p, e.empty}}
			if len(e.carried) > 0 {
				e.csigs = map[uint32][]byte{}
				for _, c := range e.carried {
					e.csigs[c] = sig[fmt.Sprintf("%d.%s", c, k)]
					e.votes = append(e.votes, vote{c, e.p, e.empty})
				}
			}
		}
		w.events = append(w.events, e)
		w.evIndex[e.str] = e
	}
	for _, p := range w.targets {
		for _, v := range variants[p] {
			add(&event{kind: 'P', actor: p, p: p, variant: v})
		}
	}
	for e := uint32(1); e <= uint32(n); e++ {
		for _, p := range w.targets {
			for _, f := range []bool{false, true} {
				add(&event{kind: 'E', actor: e, p: p, empty: f})
			}
		}
	}
	// the same vote signed a second time (ECDSA signatures are randomised: a re-sent vote need not be byte-identical)
	for _, e := range a.resigners {
		for _, p := range w.targets {
			for _, f := range []bool{false, true} {
				k := fmt.Sprintf("%d.%s", p, fl(f))
				h := hash[k]
				s2, err := signature.Sign(w.keys[e-1], h[:])
				if err != nil {
					panic(err)
				}
				w.sigLabel[string(s2)] = fmt.Sprintf("%d.%s", e, k) + "'"
				add(&event{kind: 'R', actor: e, p: p, empty: f, sig: s2, hash: h})
			}
		}
	}
	if a.commits {
		var sets [][]uint32
		var rec func(start uint32, cur []uint32)
		rec = func(start uint32, cur []uint32) {
			sets = append(sets, append([]uint32{}, cur...))
			if len(cur) == a.carriedMax {
				return
			}
			for x := start; x <= uint32(n); x++ {
				rec(x+1, append(cur, x))
			}
		}
		rec(1, nil)
		w.nCarried = len(sets)
		for _, c := range a.senders {
			for _, p := range w.targets {
				for _, f := range []bool{false, true} {
					for _, cs := range sets {
						add(&event{kind: 'C', actor: c, p: p, empty: f, carried: cs})
					}
				}
			}
		}
	}
	w.pools.New = func() any {
		p, err := vbft.VerifNewPool(w.cfg, w.E[0], blkNum, w.P, w.E, w.Cm, nil)
		if err != nil {
			panic(err)
		}
		return p
	}
	return w
}

func (w *world) apply(pool *vbft.VerifPool, e *event) error {
	switch e.kind {
	case 'P':
		return pool.Proposal(e.blk) // the pool only reads the proposal block
	case 'E', 'R':
		return pool.Endorse(e.actor, e.p, blkNum, e.hash, e.empty, e.sig)
	}
	return pool.Commit(e.actor, e.p, blkNum, e.hash, e.empty, e.csigs, e.sig)
}

// ------------------------------------------------------------------------------------------------
// canonical dump

func (w *world) label(sig []byte) string {
	if l, ok := w.sigLabel[string(sig)]; ok {
		return l
	}
	n := len(sig)
	if n > 4 {
		n = 4
	}
	return "?" + hex.EncodeToString(sig[:n])
}

func (w *world) key(d *vbft.VerifDump) string {
	var sb strings.Builder
	props := make([]string, 0, len(d.Proposals))
	for _, p := range d.Proposals {
		props = append(props, w.label(p.Sig0))
	}
	sort.Strings(props)
	sb.WriteString("P[")
	sb.WriteString(strings.Join(props, ","))
	sb.WriteString("]C[")
	for _, c := range d.Commits {
		cs := make([]string, 0, len(c.Carried))
		for _, s := range c.Carried {
			cs = append(cs, w.label(s))
		}
		sort.Strings(cs)
		sb.WriteString("(")
		sb.WriteString(w.label(c.Sig))
		sb.WriteString(">")
		sb.WriteString(strconv.Itoa(int(c.Proposer)))
		sb.WriteString(fl(c.ForEmpty))
		sb.WriteString(hex.EncodeToString(c.Hash[:2]))
		sb.WriteString(":")
		sb.WriteString(strings.Join(cs, "+"))
		sb.WriteString(")")
	}
	sb.WriteString("]E[")
	es := make([]int, 0, len(d.Endorse))
	for e := range d.Endorse {
		es = append(es, int(e))
	}
	sort.Ints(es)
	for _, e := range es {
		sb.WriteString(strconv.Itoa(e))
		sb.WriteString(":")
		for _, s := range d.Endorse[uint32(e)] {
			sb.WriteString(strconv.Itoa(int(s.Proposer)))
			sb.WriteString(fl(s.ForEmpty))
			sb.WriteString("=")
			sb.WriteString(w.label(s.Sig))
			sb.WriteString(",")
		}
		sb.WriteString(";")
	}
	sb.WriteString("]")
	return sb.String()
}

// ------------------------------------------------------------------------------------------------
// reference: sets of distinct participants from a dump

type pset map[uint32]bool

type refSets struct {
	ne, em  map[uint32]pset // proposer -> voters (non-empty / empty)
	anyEm   pset            // participants that voted empty for anybody
	signers map[uint32]pset // proposer -> committers ∪ carried endorsers of commit messages for it
}

func reference(d *vbft.VerifDump) refSets {
	r := refSets{map[uint32]pset{}, map[uint32]pset{}, pset{}, map[uint32]pset{}}
	add := func(m map[uint32]pset, p, e uint32) {
		if m[p] == nil {
			m[p] = pset{}
		}
		m[p][e] = true
	}
	for e, l := range d.Endorse {
		for _, s := range l {
			if s.ForEmpty {
				add(r.em, s.Proposer, e)
				r.anyEm[e] = true
			} else {
				add(r.ne, s.Proposer, e)
			}
		}
	}
	for _, c := range d.Commits {
		add(r.signers, c.Proposer, c.Committer)
		for e := range c.Carried {
			add(r.signers, c.Proposer, e)
		}
	}
	return r
}

func keys(m pset) []int {
	out := []int{}
	for k := range m {
		out = append(out, int(k))
	}
	sort.Ints(out)
	return out
}

// ------------------------------------------------------------------------------------------------

type state struct {
	path []string
	key  string
	used int // how many of the interchangeable participants have left a trace in the pool
}

var classNames = []string{"endorse_done:non-empty", "endorse_done:empty", "endorse_not_done", "commit_done:by-commit-msgs",
	"commit_done:by-endorsements", "commit_not_done", "dup_or_conflict_ignored", "sealed_checked", "sealed_via_setBlockSealed"}

type counters struct {
	class   [9]atomic.Int64
	mu      sync.Mutex
	obs     map[string]int64
	example map[string]any
	decided map[string]int64
	shapes  map[string]bool
	sampled int
}

func (c *counters) hit(name string, example func() any) {
	c.mu.Lock()
	c.obs[name]++
	if _, ok := c.example[name]; !ok {
		c.example[name] = example()
	}
	c.mu.Unlock()
}

func (w *world) verifySig(pk keypair.PublicKey, idx uint32, hash common.Uint256, sig []byte) bool {
	k := strconv.Itoa(int(idx)) + "|" + string(hash[:6]) + "|" + string(sig)
	if v, ok := w.vcache.Load(k); ok {
		return v.(bool)
	}
	ok := signature.Verify(pk, hash[:], sig) == nil
	w.vcache.Store(k, ok)
	return ok
}

func main() {
	r := ev.Start("C41", "model_checking")
	if pf := os.Getenv("C41_PROF"); pf != "" {
		f, _ := os.Create(pf)
		pprof.StartCPUProfile(f)
	}
	polyenv.Setup(0, polyenv.Keys(4))
	type run struct {
		name  string
		n     int
		depth int
		a     alphabet
	}
	all4 := []uint32{1, 2, 3, 4}
	var runs []run
	if r.Quick() {
		runs = []run{
			{"N4-votes", 4, 6, alphabet{targets: 2, resigners: []uint32{3}}},
			{"N4-commits", 4, 3, alphabet{targets: 2, commits: true, senders: all4, carriedMax: 1}},
			{"N7-votes", 7, 5, alphabet{targets: 2, resigners: []uint32{4}}},
			{"N7-commits", 7, 3, alphabet{targets: 2, commits: true, senders: []uint32{1, 3, 4}, carriedMax: 1}},
		}
	} else {
		runs = []run{
			{"N4-votes", 4, 0, alphabet{targets: 2, resigners: []uint32{2, 3}}}, // 0 = to the fixpoint
			{"N4-commits", 4, 4, alphabet{targets: 2, commits: true, senders: all4, carriedMax: 1}},
			{"N4-commits-wide", 4, 3, alphabet{targets: 2, commits: true, senders: all4, carriedMax: 2}},
			{"N7-votes", 7, 7, alphabet{targets: 2, resigners: []uint32{4}}},
			{"N7-votes-3-proposers", 7, 5, alphabet{targets: 3}},
			{"N7-commits", 7, 3, alphabet{targets: 2, commits: true, senders: []uint32{1, 3, 4}, carriedMax: 2}},
		}
	}
	only := os.Getenv("C41_ONLY")
	cn := &counters{obs: map[string]int64{}, example: map[string]any{}, decided: map[string]int64{}, shapes: map[string]bool{}}
	totalStates, totalTrans, maxDepth := 0, 0, 0
	perRun := []map[string]any{}
	for _, rn := range runs {
		if only != "" && only != rn.name {
			continue
		}
		if d, _ := strconv.Atoi(os.Getenv("C41_DEPTH")); d > 0 {
			rn.depth = d
		}
		w := newWorld(r, rn.name, rn.n, rn.a)
		st := explore(r, w, rn.depth, cn)
		totalStates += st.States
		totalTrans += st.Transitions
		if st.MaxDepth > maxDepth {
			maxDepth = st.MaxDepth
		}
		perRun = append(perRun, map[string]any{"run": rn.name, "N": w.N, "C": w.C, "proposers": w.P, "endorsers": w.E, "committers": w.Cm,
			"threshold_commit_signers_at_least": w.N - (w.N-1)/3 - 1, "threshold_endorsers_more_than": w.N - 1 - w.C, "threshold_endorse_more_than": w.C,
			"vote_targets": w.targets, "commit_senders": w.senders, "carried_sets": w.nCarried, "alphabet": len(w.events),
			"interchangeable_participants": w.others, "max_depth": st.MaxDepth, "depth_bound": rn.depth, "states": st.States, "transitions": st.Transitions,
			"states_per_depth": st.PerDepth, "truncated_by_deadline": st.Truncated, "fixpoint": !st.DepthCapped && !st.Truncated})
		if st.Truncated {
			r.Capped(fmt.Sprintf("%s: deadline inside depth %d", rn.name, st.MaxDepth+1))
		}
	}
	r.Evals(totalTrans)
	classCounts := map[string]int64{}
	for i, n := range classNames {
		classCounts[n] = cn.class[i].Load()
		if classCounts[n] > 0 {
			r.Class(n)
		}
	}
	for s := range cn.shapes {
		r.Case(s)
	}
	if r.NViolations() == 0 && only == "" {
		r.Require(classNames...)
	}
	r.Note("observations", map[string]any{"counts": cn.obs, "first_example": cn.example,
		"meaning": map[string]string{
			"endorse_empty_done_but_returned_proposer_has_no_own_quorum": "endorseDone(empty) counts empty votes over all proposers (FIXME in the code); the proposer it returns was voted empty by ≤ C participants",
			"commit_quorum_mixes_empty_and_non_empty_commits":            "getCommitConsensus counts signers of commit messages for one proposer regardless of CommitForEmpty; neither flag alone reaches the threshold",
			"commit_done_for_empty_without_empty_quorum":                 "commitDone (endorsement path) reports forEmpty=true although ≤ N−1−C distinct participants voted empty: emptyCnt counts an empty vote of a non-endorser twice and depends on map order",
			"decision_differs_between_repeated_calls":                    "the same pool state gave different (proposer, forEmpty) answers in repeated calls: Go map iteration order leaks into the decision",
			"quorum_present_but_not_reported":                            "the reference sets reach a threshold but the pool says not done (would be a liveness matter, not C41)",
		}})
	r.Assume("Go map iteration order inside endorseDone/commitDone/addSignaturesToBlockLocked is the runtime's: every decision function is evaluated 3 times per transition and the oracles are order-insensitive, but the order space is not enumerated (the E6 rewrite tool is not part of this driver)",
		"messages reach the BlockPool already signature-checked (Server.verify* upstream); the pool itself never verifies; real ECDSA signatures are used so that the sealed block's (key, signature) pairing can be verified",
		"all peers connected (every listed endorser is an endorser for isEndorser); participant config hand-set in the shape C40 establishes",
		"participants outside the proposer list are interchangeable: sequences are explored up to renaming of those participants (fresh ids appear in increasing order)",
		"a vote is identified by (voter, proposer, empty flag) as the pool does; block hashes are not tracked by the pool")
	pprof.StopCPUProfile()
	r.Finish(map[string]any{
		"rule":                          "T: recorded votes ⊆ votes cast; L: no vote twice per participant; E: endorseDone ⇒ >C distinct endorsers; K: commitDone ⇒ ≥N−⌊(N−1)/3⌋−1 distinct commit signers ∨ >N−1−C distinct endorsers; S: sealed block has one valid signature per distinct supporter",
		"states":                        totalStates,
		"transitions":                   totalTrans,
		"traces_validated_against_impl": totalTrans,
		"max_depth":                     maxDepth,
		"runs":                          perRun,
		"class_counts":                  classCounts,
		"decisions_seen":                cn.decided,
	})
}

func explore(r *ev.Run, w *world, depth int, cn *counters) mc.Stats {
	T1 := w.N - (w.N-1)/3 - 1 // distinct signers in commit messages
	T2 := w.N - 1 - w.C       // endorsers: more than this
	tag := w.name
	cls := func(i int) { cn.class[i].Add(1) }

	step := func(s state, evs string) (state, bool) {
		e := w.evIndex[evs]
		pool := w.pools.Get().(*vbft.VerifPool)
		defer w.pools.Put(pool)
		pool.Clean()
		pool.SetChained(blkNum - 1)
		cast := map[vote]bool{}
		for _, ps := range s.path {
			pe := w.evIndex[ps]
			_ = w.apply(pool, pe)
			for _, v := range pe.votes {
				cast[v] = true
			}
		}
		if len(s.path) <= 2 { // replay sanity (deterministic pool)
			b := pool.Dump(blkNum)
			if k := w.key(&b); k != s.key {
				r.HarnessError("replay of %v gives a different pool state:\n%s\n%s", s.path, k, s.key)
			}
		}
		for _, v := range e.votes {
			cast[v] = true
		}
		path := append(append(make([]string, 0, len(s.path)+1), s.path...), evs)
		var err error
		if rec, p := ev.Guard(func() { err = w.apply(pool, e) }); p {
			r.Violation("panic:"+string(e.kind), map[string]any{"run": tag, "path": path, "panic": fmt.Sprint(rec)})
			return s, false
		}
		after := pool.Dump(blkNum)
		nk := w.key(&after)
		det := func(extra map[string]any) map[string]any {
			m := map[string]any{"run": tag, "N": w.N, "C": w.C, "path": path, "state": nk}
			for k, v := range extra {
				m[k] = v
			}
			return m
		}
		if err != nil || nk == s.key {
			cls(6)
		}
		// ---- T / L
		for en, l := range after.Endorse {
			for i, sg := range l {
				if !cast[vote{en, sg.Proposer, sg.ForEmpty}] {
					r.Violation("state:vote-recorded-that-nobody-cast:after-"+string(e.kind), det(map[string]any{"vote": fmt.Sprintf("%d votes (%d,empty=%v)", en, sg.Proposer, sg.ForEmpty)}))
				}
				for _, sg2 := range l[:i] {
					if sg2.Proposer == sg.Proposer && sg2.ForEmpty == sg.ForEmpty {
						r.Violation("state:same-vote-twice-in-one-participants-list", det(map[string]any{"participant": en, "proposer": sg.Proposer, "empty": sg.ForEmpty}))
					}
				}
				lbl := w.label(sg.Sig)
				want := strconv.Itoa(int(en)) + "." + strconv.Itoa(int(sg.Proposer)) + "." + fl(sg.ForEmpty)
				if lbl != want && lbl != want+"'" && !(en == sg.Proposer && !sg.ForEmpty && strings.HasPrefix(lbl, "prop"+strconv.Itoa(int(en)))) {
					r.Violation("state:vote-carries-foreign-signature", det(map[string]any{"participant": en, "vote": want, "signature_of": lbl}))
				}
			}
		}
		// (one stored proposal per proposer / one stored commit per committer is the code's rule, not C41's: observed only)
		pc := map[uint32]int{}
		for _, p := range after.Proposals {
			pc[p.Proposer]++
			if pc[p.Proposer] > 1 {
				cn.hit("two_proposals_stored_for_one_proposer", func() any { return det(nil) })
			}
		}
		cc := map[uint32]int{}
		for _, c := range after.Commits {
			cc[c.Committer]++
			if cc[c.Committer] > 1 {
				cn.hit("two_commits_stored_for_one_committer", func() any { return det(nil) })
			}
		}
		ref := reference(&after)
		// ---- E: endorseDone (3 evaluations: map order may differ between calls)
		refEndorse := len(ref.anyEm) > w.C
		for _, m := range ref.ne {
			if len(m) > w.C {
				refEndorse = true
			}
		}
		var firstE [3]any
		for rep := 0; rep < 3; rep++ {
			p, empty, done := pool.EndorseDone(blkNum)
			ans := [3]any{p, empty, done}
			if rep == 0 {
				firstE = ans
			} else if ans != firstE {
				cn.hit("decision_differs_between_repeated_calls", func() any { return det(map[string]any{"function": "endorseDone", "answers": []any{firstE, ans}}) })
			}
			switch {
			case done && !empty:
				cls(0)
				if len(ref.ne[p]) <= w.C {
					r.Violation("endorseDone:non-empty:not-more-than-C-distinct-endorsers", det(map[string]any{"proposer": p, "distinct_endorsers": keys(ref.ne[p])}))
				}
			case done && empty:
				cls(1)
				if len(ref.anyEm) <= w.C {
					r.Violation("endorseDone:empty:not-more-than-C-distinct-empty-endorsers", det(map[string]any{"returned_proposer": p, "distinct_empty_voters": keys(ref.anyEm)}))
				} else if len(ref.em[p]) <= w.C {
					cn.hit("endorse_empty_done_but_returned_proposer_has_no_own_quorum", func() any {
						return det(map[string]any{"returned_proposer": p, "empty_voters_for_it": keys(ref.em[p]), "empty_voters_overall": keys(ref.anyEm)})
					})
				}
			default:
				cls(2)
				if refEndorse {
					cn.hit("quorum_present_but_not_reported", func() any { return det(map[string]any{"function": "endorseDone"}) })
				}
			}
		}
		// ---- K: commitDone
		var firstK [3]any
		decided := false
		var decP uint32
		var decEmpty bool
		for rep := 0; rep < 3; rep++ {
			p, empty, done := pool.CommitDone(blkNum)
			ans := [3]any{p, empty, done}
			if rep == 0 {
				firstK = ans
				decided, decP, decEmpty = done, p, empty
			} else if ans != firstK {
				cn.hit("decision_differs_between_repeated_calls", func() any { return det(map[string]any{"function": "commitDone", "answers": []any{firstK, ans}}) })
			}
			if !done {
				cls(5)
				reach := false
				for _, m := range ref.signers {
					if len(m) >= T1 {
						reach = true
					}
				}
				for _, m := range ref.ne {
					if len(m) > T2 {
						reach = true
					}
				}
				if reach {
					cn.hit("quorum_present_but_not_reported", func() any { return det(map[string]any{"function": "commitDone"}) })
				}
				continue
			}
			byMsgs, byEnd := len(ref.signers[p]) >= T1, len(ref.ne[p]) > T2
			switch {
			case byMsgs:
				cls(3)
			case byEnd:
				cls(4)
			default:
				r.Violation("commitDone:not-enough-distinct-supporters", det(map[string]any{"proposer": p, "for_empty": empty,
					"distinct_commit_signers": keys(ref.signers[p]), "needed_signers": T1, "distinct_endorsers": keys(ref.ne[p]), "needed_endorsers_more_than": T2}))
			}
			if byMsgs {
				ne, em := pset{}, pset{}
				for _, c := range after.Commits {
					if c.Proposer != p {
						continue
					}
					t := ne
					if c.ForEmpty {
						t = em
					}
					t[c.Committer] = true
					for x := range c.Carried {
						t[x] = true
					}
				}
				if len(ne) < T1 && len(em) < T1 {
					cn.hit("commit_quorum_mixes_empty_and_non_empty_commits", func() any {
						return det(map[string]any{"proposer": p, "signers_non_empty": keys(ne), "signers_empty": keys(em), "needed": T1})
					})
				}
			}
			if empty && !byMsgs && len(ref.anyEm) <= T2 {
				d := func() any {
					return det(map[string]any{"proposer": p, "for_empty": empty, "distinct_empty_voters": keys(ref.anyEm), "needed_more_than": T2})
				}
				cn.hit("commit_done_for_empty_without_empty_quorum", d)
				if strictEmpty { // the empty flag of a commit decision needs more than N-1-C DISTINCT empty voters (the code's own threshold)
					r.Violation("commitDone:for-empty-without-distinct-empty-quorum", d())
				}
			}
		}
		// ---- S: sealing for every proposal in the pool, both flags
		checkSeal := func(how string, hdr *types.Header, proposer uint32, variant string, empty bool) {
			cls(7)
			exp := pset{proposer: true}
			src := ref.ne
			if empty {
				src = ref.em
			}
			for e2 := range src[proposer] {
				exp[e2] = true
			}
			if len(hdr.Bookkeepers) != len(hdr.SigData) {
				r.Violation("seal:bookkeepers-and-signatures-differ-in-number:"+how, det(map[string]any{"proposer": proposer, "empty": empty}))
				return
			}
			got := map[uint32]int{}
			var order []uint32
			for _, pk := range hdr.Bookkeepers {
				idx := w.pkIndex[string(keypair.SerializePublicKey(pk))]
				got[idx]++
				order = append(order, idx)
			}
			for idx, n := range got {
				if n > 1 {
					r.Violation("seal:participant-signs-twice:"+how, det(map[string]any{"proposer": proposer, "empty": empty, "bookkeepers": order, "twice": idx}))
				}
				if !exp[idx] {
					r.Violation("seal:signature-of-non-supporter:"+how, det(map[string]any{"proposer": proposer, "empty": empty, "bookkeepers": order, "supporters": keys(exp)}))
				}
			}
			for idx := range exp {
				if got[idx] == 0 {
					r.Violation("seal:supporter-signature-missing:"+how, det(map[string]any{"proposer": proposer, "empty": empty, "bookkeepers": order, "supporters": keys(exp)}))
				}
			}
			// signatures valid for the block they are attached to (votes always sign variant a)
			if variant == "a" {
				cpy := *hdr
				cpy.Bookkeepers, cpy.SigData = nil, nil
				h := (&cpy).Hash()
				for i, pk := range hdr.Bookkeepers {
					if !w.verifySig(pk, order[i], h, hdr.SigData[i]) {
						r.Violation("seal:signature-does-not-verify-for-its-key:"+how, det(map[string]any{"proposer": proposer, "empty": empty,
							"bookkeepers": order, "position": i, "signature_of": w.label(hdr.SigData[i])}))
					}
				}
			}
		}
		variantOf := map[uint32]string{}
		for _, p := range after.Proposals {
			variantOf[p.Proposer] = strings.TrimPrefix(w.label(p.Sig0), "prop"+strconv.Itoa(int(p.Proposer)))
		}
		for p, v := range variantOf {
			for _, empty := range []bool{false, true} {
				b := cloneBlock(w.blocks[strconv.Itoa(int(p))+"."+v])
				if err := pool.AddSignatures(b, empty); err != nil {
					r.Violation("seal:addSignatures-error", det(map[string]any{"proposer": p, "empty": empty, "err": err.Error()}))
					continue
				}
				hdr := b.Block.Header
				if empty {
					hdr = b.EmptyBlock.Header
				}
				checkSeal("addSignaturesToBlockLocked", hdr, p, v, empty)
			}
		}
		// production sealing of the decision commitDone reported (last: it marks the replica as sealed)
		if decided {
			if v, ok := variantOf[decP]; ok {
				b := cloneBlock(w.blocks[strconv.Itoa(int(decP))+"."+v])
				pool.SetChained(blkNum) // chain store stub: AddBlock is a no-op for an already chained height
				if err := pool.SetBlockSealed(b, decEmpty); err != nil {
					r.Violation("seal:setBlockSealed-error", det(map[string]any{"proposer": decP, "empty": decEmpty, "err": err.Error()}))
				} else if sb := pool.SealedBlock(blkNum); sb == nil {
					r.Violation("seal:no-sealed-block-after-setBlockSealed", det(map[string]any{"proposer": decP, "empty": decEmpty}))
				} else {
					cls(8)
					checkSeal("setBlockSealed", sb.Block.Header, decP, v, decEmpty)
				}
			}
		}
		// bookkeeping under one lock
		votes := 0
		for _, l := range after.Endorse {
			votes += len(l)
		}
		sh := tag + "/props=" + strconv.Itoa(len(after.Proposals)) + "/commits=" + strconv.Itoa(len(after.Commits)) + "/voters=" + strconv.Itoa(len(after.Endorse)) + "/votes=" + strconv.Itoa(votes)
		cn.mu.Lock()
		cn.shapes[sh] = true
		take := false
		if decided {
			cn.decided[fmt.Sprintf("%s/proposer=%d/empty=%v", tag, decP, decEmpty)]++
			take = cn.sampled < 4 && len(path) >= 3
			if take {
				cn.sampled++
			}
		}
		cn.mu.Unlock()
		if take {
			r.Sample(map[string]any{"run": tag, "path": path, "state": nk, "commitDone": firstK, "endorseDone": firstE})
		}
		// interchangeable participants that left a trace in the pool (an ignored message leaves none)
		used := 0
		mark := func(id uint32) {
			if k, ok := w.isOther[id]; ok && k+1 > used {
				used = k + 1
			}
		}
		for id := range after.Endorse {
			mark(id)
		}
		for _, c := range after.Commits {
			mark(c.Committer)
			for id := range c.Carried {
				mark(id)
			}
		}
		return state{path: path, key: nk, used: used}, true
	}

	menu := func(s state, d int) []string {
		out := make([]string, 0, len(w.events))
		for _, e := range w.events {
			// a re-signed vote is a RE-sent one: only after the pool has recorded the original
			if e.kind == 'R' && !strings.Contains(s.key, "="+strconv.Itoa(int(e.actor))+"."+strconv.Itoa(int(e.p))+"."+fl(e.empty)+",") {
				continue
			}
			// symmetry: interchangeable participants that have not appeared yet enter in increasing order
			var fresh []int
			for _, id := range e.ids {
				if k, isO := w.isOther[id]; isO && k >= s.used {
					fresh = append(fresh, k)
				}
			}
			sort.Ints(fresh)
			ok := true
			for j, k := range fresh {
				if k != s.used+j {
					ok = false
				}
			}
			if ok {
				out = append(out, e.str)
			}
		}
		return out
	}

	empty := vbft.VerifDump{}
	return mc.BFS(mc.Config[state]{
		Init:     []state{{key: w.key(&empty)}},
		Events:   menu,
		Step:     step,
		Key:      func(s state) string { return s.key },
		MaxDepth: depth,
		Workers:  runtime.NumCPU(),
		Stop:     r.Expired,
	})
}
