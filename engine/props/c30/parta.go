package main

import (
	"fmt"
	"sync"

	"verif.local/engine/lib/hsenv"
	"verif.local/engine/polyenv"
)

var powerAlphabet = []int64{1, 2, 3, 10}

func powerVectors(n int) [][]int64 {
	out := [][]int64{{}}
	for i := 0; i < n; i++ {
		var nx [][]int64
		for _, p := range out {
			for _, a := range powerAlphabet {
				nx = append(nx, append(append([]int64{}, p...), a))
			}
		}
		out = nx
	}
	return out
}

// genesisDump: base + the real SyncGenesisHeader (operator signed) of a header at `height` whose next-validator hash
// commits to `trust` (hash format of block version `ver`).
func (c *ctx) genesisDump(f *family, height int64, ver uint64, trust *vset, appHash []byte) polyenv.Dump {
	d, _ := c.genesisDumpSpec(f, height, ver, trust, appHash)
	return d
}

// genesisDumpSpec also returns the specification of the header now tracked.
func (c *ctx) genesisDumpSpec(f *family, height int64, ver uint64, trust *vset, appHash []byte) (polyenv.Dump, hdrSpec) {
	one := &vset{id: f.name + "/genesis-signer", keys: []tmKey{f.key(60)}, powers: []int64{1}}
	g := hdrSpec{ChainID: tmChainID, Ver: ver, Height: height, Vals: one, HdrVals: one, Next: trust, Sigs: "c", AppHash: appHash}
	raw, _ := f.raw(g)
	var out polyenv.Dump
	withSim(c.base, func(s *hsenv.Sim) {
		res := s.Exec(genesisTx(c.env, f.chain, raw), 2, 200)
		if !res.OK {
			c.r.HarnessError("%s: SyncGenesisHeader failed: %v", f.name, res.Err)
		}
		t := trackedOf(s, f.chain)
		if !t.ok || t.Height != height || !f.trusts(t.NextHash, trust) {
			c.r.HarnessError("%s: genesis not recorded as expected: %v", f.name, t)
		}
		out = s.Dump()
	})
	return out, g
}

// okexEthKeyProbe: one submission of a header carrying an eth_secp256k1 validator key (counted, not a C30 matter).
func (c *ctx) okexEthKeyProbe(f *family) {
	U := universe(f)
	gd := c.genesisDump(f, 1, 10, U["A"], fill(0xaa))
	sp := hdrSpec{ChainID: tmChainID, Ver: 10, Height: 2, Vals: U["A"], HdrVals: U["A"], Next: U["B"], Sigs: "cccc", AppHash: fill(0xaa)}
	withSim(gd, func(s *hsenv.Sim) {
		res := s.Exec(headersTx(f.chain, rawOkexEthKey(sp)), 3, 300)
		c.r.Eval()
		if res.Panic != nil {
			c.notePanic(f.name+" (eth_secp256k1 validator key)", res.Panic)
		}
		if res.OK {
			c.r.Violation("okex:advance:header-with-substituted-validator-key", map[string]any{"header": sp.String()})
		}
	})
}

// partA: the quorum function, exhaustively over power vectors and signature patterns.
func (c *ctx) partA(fams []*family) map[string]any {
	r := c.r
	type job struct {
		f      *family
		ver    uint64
		powers []int64
	}
	var jobs []job
	for _, f := range fams {
		for _, ver := range f.vers {
			for n := 1; n <= 4; n++ {
				for _, pv := range powerVectors(n) {
					jobs = append(jobs, job{f, ver, pv})
				}
			}
		}
	}
	var mu sync.Mutex
	execs := map[string]int{}
	ch := make(chan job)
	var wg sync.WaitGroup
	for wk := 0; wk < c.workers; wk++ {
		wg.Add(1)
		go func() {
			defer wg.Done()
			for j := range ch {
				if r.Expired() {
					r.Capped("partA: deadline")
					continue
				}
				f, n := j.f, len(j.powers)
				T := &vset{id: fmt.Sprintf("%s/A%v", f.name, j.powers), powers: j.powers}
				for i := 0; i < n; i++ {
					T.keys = append(T.keys, f.key(i+1))
				}
				nx := &vset{id: f.name + "/Anext", keys: []tmKey{f.key(50)}, powers: []int64{1}}
				gd := c.genesisDump(f, 1, j.ver, T, fill(0xaa))
				cnt := 0
				for _, sigs := range c.sigPatterns(n, true) {
					sp := hdrSpec{ChainID: tmChainID, Ver: j.ver, Height: 2, Vals: T, HdrVals: T, Next: nx, Sigs: sigs, AppHash: fill(0xaa)}
					raw, hh := f.raw(sp)
					var before, after tracked
					var res polyenv.Result
					withSim(gd, func(s *hsenv.Sim) {
						before = trackedOf(s, f.chain)
						res = s.Exec(headersTx(f.chain, raw), 3, 300)
						after = trackedOf(s, f.chain)
					})
					cnt++
					r.Eval()
					if res.Panic != nil {
						c.notePanic(f.name, res.Panic)
					}
					ok, why := f.refOK(sp, hh, before, true)
					if ok {
						r.Class("A:ref-ok")
					} else {
						r.Class("A:ref-not-ok")
						if sp.validPower()*3 == T.total()*2 {
							r.Class("A:boundary-exactly-two-thirds")
						}
					}
					adv := !sameTracked(before, after)
					r.Case(fmt.Sprintf("A/%s/v%d/n=%d/%s/adv=%v", f.name, j.ver, n, why, adv))
					replay := func() any {
						return map[string]any{"part": "A", "family": f.name, "trusted_powers": j.powers, "header": sp.String(),
							"valid_power": sp.validPower(), "total_power": T.total(), "tracked_before": before.String(), "tracked_after": after.String(),
							"tx_ok": res.OK, "tx_err": fmt.Sprint(res.Err),
							"repro": "genesis(h=1,next=set) then SyncBlockHeader(header); sigs: one letter per validator a=absent c=commit n=nil-vote f=outsider-signed d=copy of first committing precommit"}
					}
					c.checkAdvance(f, "A", before, after, []hdrSpec{sp}, [][]byte{hh}, replay)
					if sigs == all(sCommit, n) && !adv {
						r.HarnessError("partA %s v%d powers %v: fully signed header not accepted: %v", f.name, j.ver, j.powers, res.Err)
					}
					if adv != res.OK {
						r.HarnessError("partA %s: tx ok=%v but advanced=%v (%v)", f.name, res.OK, adv, res.Err)
					}
				}
				mu.Lock()
				execs[fmt.Sprintf("%s/v%d", f.name, j.ver)] += cnt
				mu.Unlock()
			}
		}()
	}
	for _, j := range jobs {
		ch <- j
	}
	close(ch)
	wg.Wait()
	return map[string]any{"power_alphabet": powerAlphabet, "validators": "1..4", "power_vectors_per_family_version": 340,
		"signature_alphabet": map[string]string{"quick": "{a,c}^n u {c,n}^n u {c,f}^n u {c,d}^n", "thorough": "{a,c,n,f,d}^n"}[r.Tier],
		"executions": execs}
}
