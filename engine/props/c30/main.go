// C30: Tendermint-family light clients (cosmos, okex, heimdall routers) need a two-thirds power quorum; deposits
// need an EXISTENCE proof in the state committed by a header verified the same way.
//
// Everything is driven through the real native contracts (header_sync.SyncGenesisHeader / SyncBlockHeader,
// cross_chain_manager.ImportOuterTransfer) on polyenv's native world, with synthetic chains signed by real keys.
//
//	part A  quorum function: every power vector in {1,2,3,10}^n, n=1..4, every signature pattern of the tier's
//	        alphabet, one SyncBlockHeader from a genesis that trusts the set.
//	part B  mc.BFS over sequences of header / deposit submissions in a universe of three validator sets.
//	part C  deposit proof alphabet (legacy iavl+multistore and ics23 ops; existence, absence, mismatches) x header variants.
package main

import (
	"bytes"
	"fmt"
	"os"
	"runtime/debug"
	"runtime/pprof"
	"sort"
	"strings"
	"sync"
	"time"

	_ "github.com/polynetwork/poly/native/service"
	"github.com/polynetwork/poly/native/service/utils"
	"verif.local/engine/ev"
	"verif.local/engine/lib/hsenv"
	"verif.local/engine/polyenv"
)

type ctx struct {
	r       *ev.Run
	env     *hsenv.Env
	base    polyenv.Dump
	workers int
	panics  sync.Map
}

func (c *ctx) notePanic(fam string, x any) {
	c.r.Class("panic")
	msg := fmt.Sprint(x)
	if len(msg) > 90 {
		msg = msg[:90]
	}
	c.panics.Store(fam+": "+msg, true)
}

// ---------------------------------------------------------------------------------------------------------------
// reference predicate (the property, nothing else)

// refOK: header `sp` is one the property lets the light client act on when it tracks `cur`:
// validator set shipped == set named by the header == set committed to by the trusted next-validator hash, and valid
// precommits for exactly this header (height, block id) from validators holding MORE than 2/3 of the set's power.
// strictHigher: additionally height > tracked (required for advancing the tracked set).
func (f *family) refOK(sp hdrSpec, hh []byte, cur tracked, strictHigher bool) (bool, string) {
	if !cur.ok {
		return false, "no-genesis"
	}
	if strictHigher && sp.Height <= cur.Height {
		return false, "not-higher-height"
	}
	if !strictHigher && sp.Height < cur.Height {
		return false, "below-tracked-height"
	}
	if !f.trusts(cur.NextHash, sp.Vals) {
		return false, "untrusted-valset"
	}
	if sp.HdrVals != sp.Vals {
		return false, "header-valhash-mismatch"
	}
	if sp.BadBlock || sp.CommitDH != 0 || (sp.CommitHash != nil && !bytes.Equal(sp.CommitHash, hh)) {
		return false, "commit-for-other-block"
	}
	if sp.validPower()*3 <= sp.Vals.total()*2 {
		why := "quorum-not-reached"
		switch {
		case strings.ContainsRune(sp.Sigs, sCopy):
			why += "/duplicate-signature-counted"
		case sp.validPower()*3 == sp.Vals.total()*2:
			why += "/exactly-two-thirds"
		case strings.ContainsRune(sp.Sigs, sForged):
			why += "/forged-signature-counted"
		case strings.ContainsRune(sp.Sigs, sNil):
			why += "/nil-vote-counted"
		}
		return false, why
	}
	return true, ""
}

func (f *family) apply(sp hdrSpec, hash []byte) tracked {
	return tracked{Height: sp.Height, BlockHash: hash, NextHash: f.hashV(sp.Next, sp.Ver), ChainID: sp.ChainID, ok: true}
}

func sameTracked(a, b tracked) bool { // chain-id string is not part of the property
	a.ChainID, b.ChainID = "", ""
	return a.same(b)
}

// checkAdvance: implication oracle for one executed transaction that carried the headers `sps` (in order).
func (c *ctx) checkAdvance(f *family, part string, before, after tracked, sps []hdrSpec, hashes [][]byte, replay func() any) {
	if after.ok && before.ok && after.Height < before.Height {
		c.r.Violation(f.name+":tracked-height-decreased", replay())
	}
	if sameTracked(before, after) {
		return
	}
	c.r.Class("impl-advanced")
	// states the reference lets the client be in before header i (it may always decline a header)
	allowed := []tracked{before}
	var reach [][]tracked
	for i, sp := range sps {
		reach = append(reach, append([]tracked{}, allowed...))
		for _, cur := range reach[i] {
			if ok, _ := f.refOK(sp, hashes[i], cur, true); ok {
				allowed = append(allowed, f.apply(sp, hashes[i]))
			}
		}
	}
	for _, a := range allowed[1:] {
		if sameTracked(a, after) {
			return
		}
	}
	// name the reason: the header the client moved to, judged against the most advanced state it could be in then
	why := "unjustified-state"
	for i := len(sps) - 1; i >= 0; i-- {
		if sameTracked(f.apply(sps[i], hashes[i]), after) {
			_, why = f.refOK(sps[i], hashes[i], reach[i][len(reach[i])-1], true)
			break
		}
	}
	c.r.Violation(f.name+":advance:"+why, replay())
	c.r.Class("VIOLATING-advance")
	_ = part
}

// ---------------------------------------------------------------------------------------------------------------

func patterns(alpha string, n int) []string {
	out := []string{""}
	for i := 0; i < n; i++ {
		var nx []string
		for _, p := range out {
			for _, a := range alpha {
				nx = append(nx, p+string(a))
			}
		}
		out = nx
	}
	return out
}

func uniq(ss []string) []string {
	seen := map[string]bool{}
	var out []string
	for _, s := range ss {
		if !seen[s] {
			seen[s] = true
			out = append(out, s)
		}
	}
	return out
}

// tier alphabet of signature patterns for a set of n validators
func (c *ctx) sigPatterns(n int, full bool) []string {
	if c.r.Thorough() && (n <= 3 || full) {
		return patterns("acnfd", n)
	}
	alphas := []string{"ac", "cn", "cf", "cd"}
	if c.r.Thorough() {
		alphas = append(alphas, "acn", "acd", "acf")
	}
	var out []string
	for _, a := range alphas {
		out = append(out, patterns(a, n)...)
	}
	return uniq(out)
}

func all(k rune, n int) string { return strings.Repeat(string(k), n) }

func main() {
	r := ev.Start("C30", "model_checking")
	if p := os.Getenv("C30_PROF"); p != "" {
		pf, _ := os.Create(p)
		pprof.StartCPUProfile(pf)
		defer pprof.StopCPUProfile()
		time.AfterFunc(60*time.Second, func() { pprof.StopCPUProfile(); pf.Close() })
	}
	debug.SetGCPercent(200)
	debug.SetMemoryLimit(6 << 30)
	env := hsenv.Setup(0)
	w := env.NewWorld()
	fams := families()
	for _, f := range fams {
		if err := env.RegisterSideChain(w, f.chain, f.router, f.name, f.ccmc); err != nil {
			r.HarnessError("%v", err)
		}
	}
	if err := env.RegisterSideChain(w, targetChain, utils.ETH_ROUTER, "target", []byte{9, 9, 9}); err != nil {
		r.HarnessError("%v", err)
	}
	c := &ctx{r: r, env: env, base: w.Dump(), workers: 8}
	w.Close()

	// classes counted on the reference / attempt side (a mutant must not turn a violation into a vacuity error)
	r.Require("A:ref-ok", "A:ref-not-ok", "A:boundary-exactly-two-thirds", "B:ref-ok", "B:ref-not-ok", "C:ref-ok", "C:ref-not-ok")

	cov := map[string]any{}
	kits := map[string]*depKit{"cosmos": cosmosKit(fams[0]), "okex": okexKit(fams[1])}
	t0 := time.Now()
	lap := func() float64 { d := time.Since(t0).Seconds(); t0 = time.Now(); return float64(int(d*10)) / 10 }
	walls := map[string]float64{}
	cov["partC"] = c.partC(fams, kits)
	walls["C"] = lap()
	cov["partA"] = c.partA(fams)
	c.okexEthKeyProbe(fams[1])
	walls["A"] = lap()
	stB := c.partB(fams, kits)
	cov["partB"] = stB.perFam
	cov["partB_alphabet"] = map[string]any{
		"sets":    "A=(10,3,3,2) B=(1,1,1) C=(2,1), overlapping keys; A2 = keys of A with powers (10,3,3,20) only ever shipped as a wrong set; genesis h=1 trusts A",
		"heights": "tracked-1, tracked, tracked+1, tracked+5 (main grid: +1, +5)",
		"main_grid": "trusted set x next in {A,B,C} (unchanged and changed) x block version (cosmos 10|11) x signature patterns: quick {a,c}^n u {c,n}^n u {c,f}^n u {c,d}^n ; thorough n<=3 {a,c,n,f,d}^n, n=4 quick u {a,c,n}^4 u {a,c,d}^4 u {a,c,f}^4 (a=absent c=commit n=nil vote f=outsider-signed d=duplicate of the first commit)",
		"side_cases": "fully signed: untrusted set (B/C/A2) with every next; shipped set != set named by the header (both directions); commit height+1; commit for another block id; header+votes for a foreign chain id; heights <= tracked; two headers in one tx (T->X at +1, X->Y at +2 fully / exactly-2/3 signed); operator re-genesis at a lower height",
		"deposits":   "ImportOuterTransfer at tracked-1/tracked/tracked+1, next unchanged/changed, signatures all / minimal >2/3 / exactly 2/3, proof in {existence, value mismatch, absence with empty key path}; untrusted set + {existence, absence}; at the tracked height: bodies (same / other time) whose commit claims the tracked block hash, with quorum / all-absent / empty / nil commit",
	}
	walls["B"] = lap()
	r.Note("wall_s_parts", walls)

	var ps []string
	c.panics.Range(func(k, _ any) bool { ps = append(ps, k.(string)); return true })
	sort.Strings(ps)
	r.Note("panics_observed", ps)
	r.Assume("tendermint v0.33.7 / switcheo v0.34.14 / iavl v0.14.0 / cosmos-sdk v0.39.1 / ics23 v0.6.6 libraries (hashing, sign bytes, store proofs) are correct",
		"heimdall headers are built with the repo's own port of the tendermint v0.32 types (no other implementation of that wire format exists offline)",
		"block execution does not verify transaction signatures; witnesses are the listed public keys")
	cov["rule"] = "tracked (height, next-valset hash, block hash) changes => some submitted header has height > tracked, ships+names the validator set the trusted hash commits to and carries valid precommits for itself from > 2/3 of that set's power (each validator once); tracked height monotone; deposit accepted => header verified likewise (height >= tracked) and the message bytes are a value stored in the state whose root is the header's AppHash"
	cov["states"] = stB.states
	cov["transitions"] = stB.transitions
	cov["traces_validated_against_impl"] = stB.transitions
	cov["max_depth"] = stB.maxDepth
	cov["not_covered"] = []string{
		"heimdall VerifySpan (span proof consumed by the polygon bor router) is not driven: only heimdall SyncGenesisHeader/SyncBlockHeader",
		"sr25519 and multisig validator keys (registered in the cosmos codec) are not used",
		"ics23:iavl ops (only ics23:simple trees are hand-built); batch / compressed ics23 proofs",
		"harmony router is stubbed in this sandbox (no cgo bls)",
	}
	r.Finish(cov)
}
