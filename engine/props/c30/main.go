package main

import (
	"fmt"

	_ "github.com/polynetwork/poly/native/service"
	"github.com/polynetwork/poly/native/service/header_sync/cosmos"
)

func main() {
	A := &vset{id: "A", keys: []tmKey{tmKeyOf("ed", 1), tmKeyOf("ed", 2), tmKeyOf("secp", 3), tmKeyOf("ed", 4)}, powers: []int64{10, 3, 3, 2}}
	for _, ver := range []uint64{10, 11} {
		for _, sigs := range []string{"cccc", "caca", "ccaa", "cnnn", "cfcc", "cdcc"} {
			h := hdrSpec{ChainID: "c30", Ver: ver, Height: 5, Vals: A, HdrVals: A, Next: A, Sigs: sigs, AppHash: fill(0xaa)}
			raw, _ := rawCosmos(h)
			var hd cosmos.CosmosHeader
			if err := cosmos.Cdc.UnmarshalBinaryBare(raw, &hd); err != nil {
				panic(err)
			}
			err := cosmos.VerifyCosmosHeader(&hd, &cosmos.CosmosEpochSwitchInfo{Height: 1, NextValidatorsHash: A.hashV(ver), ChainID: "c30"})
			fmt.Println(ver, sigs, h.validPower(), A.total(), err)
		}
	}
}
