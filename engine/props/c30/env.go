package main

import (
	"bytes"
	"fmt"
	"hash/fnv"

	"github.com/polynetwork/poly/common"
	"github.com/polynetwork/poly/core/types"
	scom "github.com/polynetwork/poly/native/service/cross_chain_manager/common"
	ccosmos "github.com/polynetwork/poly/native/service/cross_chain_manager/cosmos"
	hscommon "github.com/polynetwork/poly/native/service/header_sync/common"
	"github.com/polynetwork/poly/native/service/header_sync/cosmos"
	"github.com/polynetwork/poly/native/service/utils"
	"github.com/tendermint/tendermint/crypto/merkle"
	"verif.local/engine/lib/ccm"
	"verif.local/engine/lib/hsenv"
	"verif.local/engine/polyenv"
)

const (
	targetChain = 2   // registered target of the deposits (eth router; only its side-chain record matters)
	tmChainID   = "c30-src"
)

// family: one Tendermint-style router.
type family struct {
	name    string
	router  uint64
	chain   uint64 // poly side-chain id
	vers    []uint64
	kinds   []string // key kinds used round-robin for validators
	raw     func(hdrSpec) ([]byte, []byte)
	hashes  func(s *vset) [][]byte // every hash form of a set this router can trust (index 0 = version 10 form)
	deposit bool
	ccmc    []byte
}

func (f *family) hashV(s *vset, ver uint64) []byte {
	hs := f.hashes(s)
	if ver >= 11 && len(hs) > 1 {
		return hs[1]
	}
	return hs[0]
}

// trusts: the tracked next-validator hash commits to exactly this set (in any hash format of the router).
func (f *family) trusts(trusted []byte, s *vset) bool {
	for _, h := range f.hashes(s) {
		if bytes.Equal(h, trusted) {
			return true
		}
	}
	return false
}

func (f *family) key(i int) tmKey {
	if f.name == "heimdall" {
		return heimdallKey(i)
	}
	return tmKeyOf(f.kinds[i%len(f.kinds)], i)
}

var okexCCMC = bytes.Repeat([]byte{0xcc}, 20)

func families() []*family {
	return []*family{
		{name: "cosmos", router: utils.COSMOS_ROUTER, chain: 105, vers: []uint64{10, 11}, kinds: []string{"ed", "secp"}, raw: rawCosmos,
			hashes: func(s *vset) [][]byte { return [][]byte{s.hash33(), s.hash34()} }, deposit: true, ccmc: []byte{1, 2, 3}},
		{name: "okex", router: utils.OKEX_ROUTER, chain: 112, vers: []uint64{10}, kinds: []string{"ed", "secp"}, raw: rawOkex,
			hashes: func(s *vset) [][]byte { return [][]byte{s.hash33()} }, deposit: true, ccmc: okexCCMC},
		{name: "heimdall", router: utils.POLYGON_HEIMDALL_ROUTER, chain: 115, vers: []uint64{10}, kinds: []string{"hm"}, raw: rawHeimdall,
			hashes: func(s *vset) [][]byte { return [][]byte{s.hashHM()} }, ccmc: []byte{4, 5, 6}},
	}
}

// ---------------------------------------------------------------------------------------------------------------
// tracked state, decoded from the raw store independently of the router packages

type tracked struct {
	Height    int64
	BlockHash []byte
	NextHash  []byte
	ChainID   string
	ok        bool
}

func (t tracked) same(o tracked) bool {
	return t.ok == o.ok && t.Height == o.Height && bytes.Equal(t.BlockHash, o.BlockHash) && bytes.Equal(t.NextHash, o.NextHash) && t.ChainID == o.ChainID
}

func (t tracked) String() string {
	return fmt.Sprintf("{h=%d next=%x block=%x}", t.Height, short(t.NextHash), short(t.BlockHash))
}

func short(b []byte) []byte {
	if len(b) > 6 {
		return b[:6]
	}
	return b
}

func trackedOf(s *hsenv.Sim, chain uint64) tracked {
	raw := s.Raw(hsenv.HSPrefix(hscommon.EPOCH_SWITCH, chain))
	if raw == "" {
		return tracked{}
	}
	src := common.NewZeroCopySource(ccm.Val(raw))
	var t tracked
	var eof bool
	if t.Height, eof = src.NextInt64(); eof {
		panic("tracked: height")
	}
	if t.BlockHash, eof = src.NextVarBytes(); eof {
		panic("tracked: blockhash")
	}
	if t.NextHash, eof = src.NextVarBytes(); eof {
		panic("tracked: nexthash")
	}
	if t.ChainID, eof = src.NextString(); eof {
		panic("tracked: chainid")
	}
	t.ok = true
	return t
}

// ---------------------------------------------------------------------------------------------------------------
// transactions (fixed nonces: the same event is the same transaction on every path)

func nonceOf(s string) uint32 {
	h := fnv.New32a()
	h.Write([]byte(s))
	return h.Sum32()
}

var relayer = polyenv.Key(30)

func genesisTx(e *hsenv.Env, chain uint64, raw []byte) *types.Transaction {
	p := &hscommon.SyncGenesisHeaderParam{ChainID: chain, GenesisHeader: raw}
	sink := common.NewZeroCopySink(nil)
	p.Serialization(sink)
	return polyenv.Tx(utils.HeaderSyncContractAddress, hscommon.SYNC_GENESIS_HEADER, sink.Bytes(), nonceOf(string(raw)), polyenv.Multi(e.Vals))
}

func headersTx(chain uint64, raws ...[]byte) *types.Transaction {
	p := &hscommon.SyncBlockHeaderParam{ChainID: chain, Address: relayer.Addr, Headers: raws}
	sink := common.NewZeroCopySink(nil)
	p.Serialization(sink)
	return polyenv.Tx(utils.HeaderSyncContractAddress, hscommon.SYNC_BLOCK_HEADER, sink.Bytes(), nonceOf(string(sink.Bytes())), polyenv.Single(relayer))
}

// deposit submission: header + key path + value + proof
type depositSub struct {
	Kp    string
	Value []byte
	Proof *merkle.Proof
}

func importTx(chain uint64, height int64, rawHdr []byte, d depositSub) *types.Transaction {
	extra, err := cosmos.Cdc.MarshalBinaryBare(ccosmos.CosmosProofValue{Kp: d.Kp, Value: d.Value})
	if err != nil {
		panic(err)
	}
	proof, err := cosmos.Cdc.MarshalBinaryBare(*d.Proof)
	if err != nil {
		panic(err)
	}
	p := &scom.EntranceParam{SourceChainID: chain, Height: uint32(height), Proof: proof, RelayerAddress: relayer.Addr[:], Extra: extra,
		HeaderOrCrossChainMsg: rawHdr}
	s := common.NewZeroCopySink(nil)
	p.Serialization(s)
	return polyenv.Tx(ccm.CCM, scom.IMPORT_OUTER_TRANSFER_NAME, s.Bytes(), nonceOf(string(s.Bytes())), polyenv.Single(relayer))
}

// ---------------------------------------------------------------------------------------------------------------
// pool of reusable worlds (one per worker)

// (a sync.Pool would drop the worlds at every GC cycle and re-allocate leveldb + a 4 MiB overlay each time)
var simPool = make(chan *hsenv.Sim, 64)

func withSim(d polyenv.Dump, f func(s *hsenv.Sim)) {
	var s *hsenv.Sim
	select {
	case s = <-simPool:
	default:
		s = hsenv.NewSim()
	}
	s.Load(d)
	f(s)
	select {
	case simPool <- s:
	default:
		s.Close()
	}
}
