package main

// Synthetic source-chain application state and store proofs.
//   legacy: a real cosmos-sdk v0.39.1 rootmulti store with two IAVL sub-stores (tendermint/iavl v0.14.0) on a memdb;
//           proofs are what the store's own Query(prove=true) returns (iavl value / iavl ABSENCE op + multistore op).
//   ics23 : two-level tendermint "simple" merkle trees hand-assembled into confio/ics23 existence / non-existence
//           commitment proofs (ops of type "ics23:simple" which the repo's ProofRuntime registers).
// Ground truth (what EXISTS in the committed state) is the plain map the state was filled from.

import (
	"crypto/sha256"
	"encoding/binary"
	"sort"

	ics23 "github.com/confio/ics23/go"
	"github.com/cosmos/cosmos-sdk/store/rootmulti"
	sdk "github.com/cosmos/cosmos-sdk/store/types"
	"github.com/polynetwork/poly/common"
	scom "github.com/polynetwork/poly/native/service/cross_chain_manager/common"
	abci "github.com/tendermint/tendermint/abci/types"
	"github.com/tendermint/tendermint/crypto/merkle"
	dbm "github.com/tendermint/tm-db"
)

func msgBytes(m *scom.MakeTxParam) []byte {
	s := common.NewZeroCopySink(nil)
	m.Serialization(s)
	return s.Bytes()
}

// appState: committed state of the synthetic source chain + its root (AppHash of the headers that commit it).
type appState struct {
	kind    string                       // "legacy" | "ics23"
	content map[string]map[string][]byte // store -> key -> value
	root    []byte
	multi   *rootmulti.Store // legacy only
	// ics23 only
	storeRoots map[string][]byte
}

// exists: the byte string is a value stored in the committed state.
func (a *appState) exists(value []byte) bool {
	for _, st := range a.content {
		for _, v := range st {
			if string(v) == string(value) {
				return true
			}
		}
	}
	return false
}

func newLegacyState(content map[string]map[string][]byte) *appState {
	db := dbm.NewMemDB()
	ms := rootmulti.NewStore(db)
	keys := map[string]*sdk.KVStoreKey{}
	var names []string
	for n := range content {
		names = append(names, n)
	}
	sort.Strings(names)
	for _, n := range names {
		keys[n] = sdk.NewKVStoreKey(n)
		ms.MountStoreWithDB(keys[n], sdk.StoreTypeIAVL, nil)
	}
	if err := ms.LoadLatestVersion(); err != nil {
		panic(err)
	}
	for _, n := range names {
		kv := ms.GetKVStore(keys[n])
		var ks []string
		for k := range content[n] {
			ks = append(ks, k)
		}
		sort.Strings(ks)
		for _, k := range ks {
			kv.Set([]byte(k), content[n][k])
		}
	}
	cid := ms.Commit()
	return &appState{kind: "legacy", content: content, root: cid.Hash, multi: ms}
}

// legacyProof: the store's own proof for (store, key): existence if the key is present, absence otherwise.
func (a *appState) legacyProof(store string, key []byte) *merkle.Proof {
	res := a.multi.Query(abci.RequestQuery{Path: "/" + store + "/key", Data: key, Prove: true})
	if res.Code != 0 || res.Proof == nil {
		panic("query failed: " + res.Log)
	}
	return res.Proof
}

func keyPath(store string, key []byte) string {
	kp := merkle.KeyPath{}
	kp = kp.AppendKey([]byte(store), merkle.KeyEncodingURL)
	kp = kp.AppendKey(key, merkle.KeyEncodingURL)
	return kp.String()
}

// ---------------------------------------------------------------------------------------------------------------
// ics23 "simple" trees

func uvarint(n int) []byte {
	b := make([]byte, binary.MaxVarintLen64)
	return b[:binary.PutUvarint(b, uint64(n))]
}

func simpleLeaf(key, value []byte) []byte {
	vh := sha256.Sum256(value)
	pre := append([]byte{0}, uvarint(len(key))...)
	pre = append(pre, key...)
	pre = append(pre, uvarint(32)...)
	pre = append(pre, vh[:]...)
	h := sha256.Sum256(pre)
	return h[:]
}

func splitPoint(n int) int {
	k := 1
	for k*2 < n {
		k *= 2
	}
	return k
}

// simpleTree returns the root and, per leaf, the ics23 inner path from leaf to root.
func simpleTree(leaves [][]byte) ([]byte, [][]*ics23.InnerOp) {
	if len(leaves) == 1 {
		return leaves[0], [][]*ics23.InnerOp{nil}
	}
	k := splitPoint(len(leaves))
	lr, lp := simpleTree(leaves[:k])
	rr, rp := simpleTree(leaves[k:])
	h := sha256.Sum256(append(append([]byte{1}, lr...), rr...))
	var out [][]*ics23.InnerOp
	for _, p := range lp {
		out = append(out, append(append([]*ics23.InnerOp{}, p...), &ics23.InnerOp{Hash: ics23.HashOp_SHA256, Prefix: []byte{1}, Suffix: rr}))
	}
	for _, p := range rp {
		out = append(out, append(append([]*ics23.InnerOp{}, p...), &ics23.InnerOp{Hash: ics23.HashOp_SHA256, Prefix: append([]byte{1}, lr...)}))
	}
	return h[:], out
}

type simpleStore struct {
	keys  []string
	vals  map[string][]byte
	root  []byte
	paths [][]*ics23.InnerOp
}

func newSimpleStore(m map[string][]byte) *simpleStore {
	s := &simpleStore{vals: m}
	for k := range m {
		s.keys = append(s.keys, k)
	}
	sort.Strings(s.keys)
	var leaves [][]byte
	for _, k := range s.keys {
		leaves = append(leaves, simpleLeaf([]byte(k), m[k]))
	}
	s.root, s.paths = simpleTree(leaves)
	return s
}

func (s *simpleStore) exist(i int) *ics23.ExistenceProof {
	k := s.keys[i]
	return &ics23.ExistenceProof{Key: []byte(k), Value: s.vals[k], Leaf: ics23.TendermintSpec.LeafSpec, Path: s.paths[i]}
}

// proof of presence (existence) or absence (non-existence with the neighbours) of key.
func (s *simpleStore) proof(key []byte) *ics23.CommitmentProof {
	i := sort.SearchStrings(s.keys, string(key))
	if i < len(s.keys) && s.keys[i] == string(key) {
		return &ics23.CommitmentProof{Proof: &ics23.CommitmentProof_Exist{Exist: s.exist(i)}}
	}
	ne := &ics23.NonExistenceProof{Key: key}
	if i > 0 {
		ne.Left = s.exist(i - 1)
	}
	if i < len(s.keys) {
		ne.Right = s.exist(i)
	}
	return &ics23.CommitmentProof{Proof: &ics23.CommitmentProof_Nonexist{Nonexist: ne}}
}

func newICS23State(content map[string]map[string][]byte) (*appState, map[string]*simpleStore, *simpleStore) {
	stores := map[string]*simpleStore{}
	top := map[string][]byte{}
	for n, m := range content {
		stores[n] = newSimpleStore(m)
		top[n] = stores[n].root
	}
	multi := newSimpleStore(top)
	return &appState{kind: "ics23", content: content, root: multi.root, storeRoots: top}, stores, multi
}

func ics23Op(key []byte, p *ics23.CommitmentProof) merkle.ProofOp {
	bz, err := p.Marshal()
	if err != nil {
		panic(err)
	}
	return merkle.ProofOp{Type: "ics23:simple", Key: key, Data: bz}
}
