package main

// Synthetic Tendermint chains for the cosmos and okex routers: deterministic validator keys, validator sets with
// chosen powers, headers built with the real tendermint v0.33.7 types (block version 10: amino hashing) or hashed /
// signed the tendermint v0.34 way (block version 11: protobuf hashing, power-sorted validator order) and real
// ed25519 / secp256k1 / eth-secp256k1 signatures over the canonical precommit sign bytes. Nothing here calls the
// repo's verification helpers (HashCosmosHeader, HashCosmosValSet, VoteSignBytes): hashes and sign bytes come from
// the tendermint libraries directly, so a mutated repo helper cannot make the harness "agree" with it.

import (
	"bytes"
	"fmt"
	"sort"
	"sync"
	"time"

	"github.com/polynetwork/poly/native/service/header_sync/cosmos"
	"github.com/polynetwork/poly/native/service/header_sync/okex"
	"github.com/polynetwork/poly/native/service/header_sync/okex/ethsecp256k1"
	tm34crypto "github.com/switcheo/tendermint/crypto"
	tm34ed "github.com/switcheo/tendermint/crypto/ed25519"
	tm34secp "github.com/switcheo/tendermint/crypto/secp256k1"
	tm34bytes "github.com/switcheo/tendermint/libs/bytes"
	tm34ver "github.com/switcheo/tendermint/proto/tendermint/version"
	tm34 "github.com/switcheo/tendermint/types"
	"github.com/tendermint/tendermint/crypto"
	"github.com/tendermint/tendermint/crypto/ed25519"
	"github.com/tendermint/tendermint/crypto/secp256k1"
	"github.com/tendermint/tendermint/crypto/tmhash"
	tm33 "github.com/tendermint/tendermint/types"
	"github.com/tendermint/tendermint/version"
)

// ---------------------------------------------------------------------------------------------------------------
// signature kinds per validator slot
const (
	sAbsent = 'a' // BlockIDFlagAbsent / nil precommit
	sCommit = 'c' // valid precommit for the block
	sNil    = 'n' // valid signature on a nil vote (BlockIDFlagNil / zero BlockID)
	sForged = 'f' // precommit for the block "signed" by an outsider key
	sCopy   = 'd' // cosmos/okex: slot carries the signature bytes of the FIRST committing validator (a duplicate);
	//                heimdall: slot carries a full copy (incl. ValidatorIndex) of the first committing precommit
)

type tmKey struct {
	priv crypto.PrivKey
	pub  crypto.PubKey
	kind string
}

// key i of a kind; deterministic.
func tmKeyOf(kind string, i int) tmKey {
	secret := []byte(fmt.Sprintf("c30-%s-key-%d", kind, i))
	switch kind {
	case "ed":
		p := ed25519.GenPrivKeyFromSecret(secret)
		return tmKey{p, p.PubKey(), kind}
	case "secp":
		p := secp256k1.GenPrivKeySecp256k1(secret)
		return tmKey{p, p.PubKey(), kind}
	case "eth":
		h := tmhash.Sum(secret)
		p := ethsecp256k1.PrivKey(h)
		return tmKey{p, p.PubKey(), kind}
	}
	panic("kind")
}

// vset: a validator set in *list* form; order of `keys` is irrelevant for hashing (the libraries sort), but commit
// slots follow the library order of the block version (addr-sorted for v0.33, power-desc/addr for v0.34).
type vset struct {
	id     string
	keys   []tmKey
	powers []int64
}

func (s *vset) total() int64 {
	var t int64
	for _, p := range s.powers {
		t += p
	}
	return t
}

func (s *vset) vals33() []*tm33.Validator {
	out := make([]*tm33.Validator, len(s.keys))
	for i, k := range s.keys {
		out[i] = tm33.NewValidator(k.pub, s.powers[i])
	}
	return out
}

// slot order for a block version: indices into s.keys
func (s *vset) order(ver uint64) []int {
	idx := make([]int, len(s.keys))
	for i := range idx {
		idx[i] = i
	}
	addr := func(i int) []byte { return s.keys[i].pub.Address() }
	if ver < 11 {
		sort.Slice(idx, func(a, b int) bool { return bytes.Compare(addr(idx[a]), addr(idx[b])) < 0 })
	} else {
		sort.Slice(idx, func(a, b int) bool {
			if s.powers[idx[a]] != s.powers[idx[b]] {
				return s.powers[idx[a]] > s.powers[idx[b]]
			}
			return bytes.Compare(addr(idx[a]), addr(idx[b])) < 0
		})
	}
	return idx
}

var hashMemo sync.Map

// legacy (amino, v0.33) hash of the set
func (s *vset) hash33() []byte {
	if v, ok := hashMemo.Load("33" + s.id); ok {
		return v.([]byte)
	}
	h := tm33.NewValidatorSet(s.vals33()).Hash()
	hashMemo.Store("33"+s.id, h)
	return h
}

// protobuf (v0.34) hash of the set
func (s *vset) hash34() []byte {
	if v, ok := hashMemo.Load("34" + s.id); ok {
		return v.([]byte)
	}
	vals := make([]*tm34.Validator, len(s.keys))
	for i, k := range s.keys {
		var pk tm34crypto.PubKey
		switch p := k.pub.(type) {
		case ed25519.PubKeyEd25519:
			pk = tm34ed.PubKey(p[:])
		case secp256k1.PubKeySecp256k1:
			pk = tm34secp.PubKey(p[:])
		default:
			panic("no v0.34 form for key kind " + k.kind)
		}
		vals[i] = tm34.NewValidator(pk, s.powers[i])
	}
	h := tm34.NewValidatorSet(vals).Hash()
	hashMemo.Store("34"+s.id, h)
	return h
}

func (s *vset) hashV(ver uint64) []byte {
	if ver < 11 {
		return s.hash33()
	}
	return s.hash34()
}

// ---------------------------------------------------------------------------------------------------------------
// header specification (family independent part)

type hdrSpec struct {
	ChainID  string
	Ver      uint64 // block version (cosmos: 10 | 11; okex/heimdall: 10)
	Height   int64
	Vals     *vset  // the Valsets shipped with the header
	HdrVals  *vset  // set whose hash is written into Header.ValidatorsHash (normally == Vals)
	Next     *vset  // set whose hash is written into Header.NextValidatorsHash
	Sigs     string // one signature kind per key of Vals (index = position in Vals.keys, NOT slot)
	AppHash  []byte
	CommitDH int64 // commit height - header height (0 = consistent)
	BadBlock bool  // commit.BlockID.Hash != header hash (votes sign the commit's block id)
	// deposit-header dimensions
	CommitHash []byte // non-nil: Commit.BlockID.Hash is THIS value (votes sign the commit's block id), whatever the body hashes to
	CommitMode string // "" = one CommitSig per validator (Sigs) | "empty" = commit without any signature entry | "nil" = no commit at all
	TimeShift  int64  // seconds added to the header time: same height, other body
	Memo     bool  // keep the encoded header for re-use (part B revisits the same headers on many paths)
}

func (h hdrSpec) String() string {
	s := fmt.Sprintf("h=%d v%d vals=%s next=%s sigs=%s", h.Height, h.Ver, h.Vals.id, h.Next.id, h.Sigs)
	if h.HdrVals != h.Vals {
		s += " hdrvals=" + h.HdrVals.id
	}
	if h.ChainID != tmChainID {
		s += " chainid=" + h.ChainID
	}
	if h.CommitDH != 0 {
		s += fmt.Sprintf(" commitdh=%d", h.CommitDH)
	}
	if h.BadBlock {
		s += " badblock"
	}
	if h.CommitHash != nil {
		s += fmt.Sprintf(" commithash=%x", short(h.CommitHash))
	}
	if h.CommitMode != "" {
		s += " commit=" + h.CommitMode
	}
	if h.TimeShift != 0 {
		s += fmt.Sprintf(" timeshift=%d", h.TimeShift)
	}
	return s
}

// power of the validators whose slot carries a VALID precommit for the block, counted once per validator.
func (h hdrSpec) validPower() int64 {
	var p int64
	if h.CommitMode != "" {
		return 0
	}
	for i, k := range h.Sigs {
		if k == sCommit {
			p += h.Vals.powers[i]
		}
	}
	return p
}

func fill(b byte) []byte { return bytes.Repeat([]byte{b}, 32) }

func hdrTime(h int64) time.Time { return time.Unix(1600000000+h*6, 0).UTC() }

var outsider = map[string]tmKey{}
var rawMemo sync.Map

func init() {
	for _, k := range []string{"ed", "secp", "eth"} {
		outsider[k] = tmKeyOf(k, 99)
	}
}

func header33(h hdrSpec) tm33.Header {
	return tm33.Header{
		Version:            version.Consensus{Block: version.Protocol(h.Ver), App: 1},
		ChainID:            h.ChainID,
		Height:             h.Height,
		Time:               hdrTime(h.Height).Add(time.Duration(h.TimeShift) * time.Second),
		LastBlockID:        tm33.BlockID{Hash: fill(1), PartsHeader: tm33.PartSetHeader{Total: 1, Hash: fill(2)}},
		LastCommitHash:     fill(3),
		DataHash:           fill(4),
		ValidatorsHash:     h.HdrVals.hashV(h.Ver),
		NextValidatorsHash: h.Next.hashV(h.Ver),
		ConsensusHash:      fill(5),
		AppHash:            h.AppHash,
		LastResultsHash:    fill(6),
		EvidenceHash:       fill(7),
		ProposerAddress:    h.Vals.keys[0].pub.Address(),
	}
}

// v0.34 view of a v0.33 header (for hashing block version >= 11)
func hash34Header(x tm33.Header) []byte {
	y := tm34.Header{
		Version: tm34ver.Consensus{Block: uint64(x.Version.Block), App: uint64(x.Version.App)},
		ChainID: x.ChainID, Height: x.Height, Time: x.Time,
		LastBlockID: tm34.BlockID{Hash: tm34bytes.HexBytes(x.LastBlockID.Hash),
			PartSetHeader: tm34.PartSetHeader{Total: uint32(x.LastBlockID.PartsHeader.Total), Hash: tm34bytes.HexBytes(x.LastBlockID.PartsHeader.Hash)}},
		LastCommitHash: tm34bytes.HexBytes(x.LastCommitHash), DataHash: tm34bytes.HexBytes(x.DataHash),
		ValidatorsHash: tm34bytes.HexBytes(x.ValidatorsHash), NextValidatorsHash: tm34bytes.HexBytes(x.NextValidatorsHash),
		ConsensusHash: tm34bytes.HexBytes(x.ConsensusHash), AppHash: tm34bytes.HexBytes(x.AppHash),
		LastResultsHash: tm34bytes.HexBytes(x.LastResultsHash), EvidenceHash: tm34bytes.HexBytes(x.EvidenceHash),
		ProposerAddress: tm34bytes.HexBytes(x.ProposerAddress),
	}
	return y.Hash()
}

func signBytes(ver uint64, chainID string, c *tm33.Commit, slot int) []byte {
	if ver < 11 {
		return c.VoteSignBytes(chainID, slot)
	}
	sigs := make([]tm34.CommitSig, len(c.Signatures))
	for i, v := range c.Signatures {
		sigs[i] = tm34.CommitSig{BlockIDFlag: tm34.BlockIDFlag(v.BlockIDFlag), ValidatorAddress: tm34bytes.HexBytes(v.ValidatorAddress),
			Timestamp: v.Timestamp, Signature: v.Signature}
	}
	c34 := tm34.NewCommit(c.Height, int32(c.Round), tm34.BlockID{Hash: tm34bytes.HexBytes(c.BlockID.Hash),
		PartSetHeader: tm34.PartSetHeader{Total: uint32(c.BlockID.PartsHeader.Total), Hash: tm34bytes.HexBytes(c.BlockID.PartsHeader.Hash)}}, sigs)
	return c34.VoteSignBytes(chainID, int32(slot))
}

// build33 assembles Header / Commit / Valsets (tendermint v0.33 types) for the cosmos and okex routers.
// signChainID is the chain id the validators sign for (== header chain id on an honest chain).
func build33(h hdrSpec, signChainID string) (tm33.Header, *tm33.Commit, []*tm33.Validator, []byte) {
	hdr := header33(h)
	var hh []byte
	if h.Ver < 11 {
		hh = hdr.Hash()
	} else {
		hh = hash34Header(hdr)
	}
	bid := tm33.BlockID{Hash: hh, PartsHeader: tm33.PartSetHeader{Total: 1, Hash: fill(8)}}
	if h.BadBlock {
		bid.Hash = fill(9)
	}
	if h.CommitHash != nil {
		bid.Hash = h.CommitHash
	}
	order := h.Vals.order(h.Ver)
	if h.CommitMode != "" {
		vals := make([]*tm33.Validator, len(order))
		for slot, ki := range order {
			vals[slot] = tm33.NewValidator(h.Vals.keys[ki].pub, h.Vals.powers[ki])
		}
		if h.CommitMode == "nil" {
			return hdr, nil, vals, hh
		}
		return hdr, tm33.NewCommit(h.Height+h.CommitDH, 0, bid, nil), vals, hh
	}
	sigs := make([]tm33.CommitSig, len(order))
	ts := hdrTime(h.Height).Add(time.Second)
	for slot, ki := range order {
		k := h.Vals.keys[ki]
		switch h.Sigs[ki] {
		case sAbsent:
			sigs[slot] = tm33.NewCommitSigAbsent()
		case sNil:
			sigs[slot] = tm33.CommitSig{BlockIDFlag: tm33.BlockIDFlagNil, ValidatorAddress: k.pub.Address(), Timestamp: ts}
		default:
			sigs[slot] = tm33.CommitSig{BlockIDFlag: tm33.BlockIDFlagCommit, ValidatorAddress: k.pub.Address(), Timestamp: ts}
		}
	}
	commit := tm33.NewCommit(h.Height+h.CommitDH, 0, bid, sigs)
	first := -1
	for slot, ki := range order {
		k := h.Vals.keys[ki]
		switch h.Sigs[ki] {
		case sCommit, sNil:
			sig, err := k.priv.Sign(signBytes(h.Ver, signChainID, commit, slot))
			if err != nil {
				panic(err)
			}
			commit.Signatures[slot].Signature = sig
			if h.Sigs[ki] == sCommit && first < 0 {
				first = slot
			}
		case sForged:
			sig, err := outsider[k.kind].priv.Sign(signBytes(h.Ver, signChainID, commit, slot))
			if err != nil {
				panic(err)
			}
			commit.Signatures[slot].Signature = sig
		}
	}
	for slot, ki := range order {
		if h.Sigs[ki] == sCopy {
			if first >= 0 {
				commit.Signatures[slot].Signature = commit.Signatures[first].Signature
			} else {
				commit.Signatures[slot].Signature = bytes.Repeat([]byte{0x11}, 64)
			}
		}
	}
	vals := make([]*tm33.Validator, len(order))
	for slot, ki := range order {
		vals[slot] = tm33.NewValidator(h.Vals.keys[ki].pub, h.Vals.powers[ki])
	}
	return hdr, commit, vals, hh
}

// rawCosmos / rawOkex: amino encodings as the relayer submits them. Second result: the header hash.
func rawCosmos(h hdrSpec) ([]byte, []byte) {
	key := "cosmos|" + h.String() + "|" + string(h.AppHash)
	if v, ok := rawMemo.Load(key); ok && h.Memo {
		p := v.([2][]byte)
		return p[0], p[1]
	}
	hdr, commit, vals, hh := build33(h, h.ChainID)
	raw, err := cosmos.Cdc.MarshalBinaryBare(cosmos.CosmosHeader{Header: hdr, Commit: commit, Valsets: vals})
	if err != nil {
		panic(err)
	}
	if h.Memo {
		rawMemo.Store(key, [2][]byte{raw, hh})
	}
	return raw, hh
}

var okexCdc = okex.NewCDC()

// rawOkexEthKey: a fully signed okex header whose first validator entry carries an ethermint eth_secp256k1 public key
// (the only key type the okex codec adds). tendermint's own codec (used by ValidatorSet.Hash) does not know the type.
func rawOkexEthKey(h hdrSpec) []byte {
	hdr, commit, vals, _ := build33(h, h.ChainID)
	vals[0] = &tm33.Validator{Address: vals[0].Address, PubKey: tmKeyOf("eth", 1).pub, VotingPower: vals[0].VotingPower}
	raw, err := okexCdc.MarshalBinaryBare(okex.CosmosHeader{Header: hdr, Commit: commit, Valsets: vals})
	if err != nil {
		panic(err)
	}
	return raw
}

func rawOkex(h hdrSpec) ([]byte, []byte) {
	key := "okex|" + h.String() + "|" + string(h.AppHash)
	if v, ok := rawMemo.Load(key); ok && h.Memo {
		p := v.([2][]byte)
		return p[0], p[1]
	}
	hdr, commit, vals, hh := build33(h, h.ChainID)
	raw, err := okexCdc.MarshalBinaryBare(okex.CosmosHeader{Header: hdr, Commit: commit, Valsets: vals})
	if err != nil {
		panic(err)
	}
	if h.Memo {
		rawMemo.Store(key, [2][]byte{raw, hh})
	}
	return raw, hh
}
