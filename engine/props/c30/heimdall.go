package main

// Heimdall (polygon) headers: the router carries its own port of tendermint v0.32 types ("peppermint") inside the
// repo (header_sync/polygon/types); headers can only be expressed with those, so construction (hashing, sign bytes,
// key type) necessarily uses that in-repo type library. The *verification* (VerifyCosmosHeader, SyncBlockHeader) is
// the code under test and is never used by the harness to decide anything.

import (
	"bytes"
	"fmt"
	"sort"
	"time"

	"github.com/polynetwork/poly/native/service/header_sync/polygon"
	pt "github.com/polynetwork/poly/native/service/header_sync/polygon/types"
	ptsecp "github.com/polynetwork/poly/native/service/header_sync/polygon/types/secp256k1"
	"github.com/tendermint/tendermint/version"
)

func heimdallKey(i int) tmKey {
	p := ptsecp.GenPrivKeySecp256k1([]byte(fmt.Sprintf("c30-heimdall-key-%d", i)))
	return tmKey{p, p.PubKey(), "hm"}
}

func init() { outsider["hm"] = heimdallKey(99) }

func (s *vset) valsHM() []*pt.Validator {
	out := make([]*pt.Validator, len(s.keys))
	for i, k := range s.keys {
		out[i] = pt.NewValidator(k.pub, s.powers[i])
	}
	return out
}

func (s *vset) hashHM() []byte {
	if v, ok := hashMemo.Load("hm" + s.id); ok {
		return v.([]byte)
	}
	h := pt.NewValidatorSet(s.valsHM()).Hash()
	hashMemo.Store("hm"+s.id, h)
	return h
}

var hmCdc = pt.NewCDC()

func rawHeimdall(h hdrSpec) ([]byte, []byte) {
	key := "hm|" + h.String() + "|" + string(h.AppHash)
	if v, ok := rawMemo.Load(key); ok && h.Memo {
		p := v.([2][]byte)
		return p[0], p[1]
	}
	hdr := pt.Header{
		Version: version.Consensus{Block: 10, App: 1}, ChainID: h.ChainID, Height: h.Height, Time: hdrTime(h.Height),
		NumTxs: 1, TotalTxs: h.Height,
		LastBlockID:    pt.BlockID{Hash: fill(1), PartsHeader: pt.PartSetHeader{Total: 1, Hash: fill(2)}},
		LastCommitHash: fill(3), DataHash: fill(4), ValidatorsHash: h.HdrVals.hashHM(), NextValidatorsHash: h.Next.hashHM(),
		ConsensusHash: fill(5), AppHash: h.AppHash, LastResultsHash: fill(6), EvidenceHash: fill(7),
		ProposerAddress: h.Vals.keys[0].pub.Address(),
	}
	hh := hdr.Hash()
	bid := pt.BlockID{Hash: hh, PartsHeader: pt.PartSetHeader{Total: 1, Hash: fill(8)}}
	if h.BadBlock {
		bid.Hash = fill(9)
	}
	if h.CommitHash != nil || h.CommitMode != "" || h.TimeShift != 0 {
		panic("deposit-header dimensions are not built for heimdall (no deposit path)")
	}
	order := make([]int, len(h.Vals.keys))
	for i := range order {
		order[i] = i
	}
	sort.Slice(order, func(a, b int) bool {
		return bytes.Compare(h.Vals.keys[order[a]].pub.Address(), h.Vals.keys[order[b]].pub.Address()) < 0
	})
	ts := hdrTime(h.Height).Add(time.Second)
	pcs := make([]*pt.CommitSig, len(order))
	first := -1
	for slot, ki := range order {
		k := h.Vals.keys[ki]
		kind := h.Sigs[ki]
		if kind == sAbsent || kind == sCopy {
			continue
		}
		v := &pt.Vote{Type: pt.PrecommitType, Height: h.Height + h.CommitDH, Round: 0, BlockID: bid, Timestamp: ts,
			ValidatorAddress: k.pub.Address(), ValidatorIndex: slot}
		if kind == sNil {
			v.BlockID = pt.BlockID{}
		}
		signer := k
		if kind == sForged {
			signer = outsider["hm"]
		}
		sig, err := signer.priv.Sign(v.SignBytes(h.ChainID))
		if err != nil {
			panic(err)
		}
		v.Signature = sig
		pcs[slot] = (*pt.CommitSig)(v)
		if kind == sCommit && first < 0 {
			first = slot
		}
	}
	for slot, ki := range order {
		if h.Sigs[ki] == sCopy && first >= 0 {
			cp := *pcs[first] // an exact duplicate of an honest precommit (same ValidatorIndex, same signature)
			pcs[slot] = &cp
		}
	}
	vals := make([]*pt.Validator, len(order))
	for slot, ki := range order {
		vals[slot] = pt.NewValidator(h.Vals.keys[ki].pub, h.Vals.powers[ki])
	}
	raw, err := hmCdc.MarshalBinaryBare(polygon.CosmosHeader{Header: hdr, Commit: &pt.Commit{BlockID: bid, Precommits: pcs}, Valsets: vals})
	if err != nil {
		panic(err)
	}
	if h.Memo {
		rawMemo.Store(key, [2][]byte{raw, hh})
	}
	return raw, hh
}
