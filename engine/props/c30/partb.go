package main

import (
	"fmt"
	"sort"
	"strings"
	"sync"

	"github.com/polynetwork/poly/common"
	hscommon "github.com/polynetwork/poly/native/service/header_sync/common"
	"verif.local/engine/lib/ccm"
	"verif.local/engine/lib/hsenv"
	"verif.local/engine/mc"
	"verif.local/engine/polyenv"
)

// universe of validator sets of a family: A (10,3,3,2: {10,2} is exactly 2/3), B (1,1,1: two of three is exactly
// 2/3), C (2,1: the big one alone is exactly 2/3). Sets overlap in keys as real successive sets do.
var uniMemo sync.Map

func universe(f *family) map[string]*vset {
	if v, ok := uniMemo.Load(f.name); ok {
		return v.(map[string]*vset)
	}
	k := f.key
	u := map[string]*vset{
		"A": {id: f.name + "/A", keys: []tmKey{k(1), k(2), k(3), k(4)}, powers: []int64{10, 3, 3, 2}},
		"B": {id: f.name + "/B", keys: []tmKey{k(2), k(5), k(6)}, powers: []int64{1, 1, 1}},
		"C": {id: f.name + "/C", keys: []tmKey{k(1), k(7)}, powers: []int64{2, 1}},
		// never trusted, only shipped as a wrong set: the validators of A with other powers (same addresses, other hash)
		"A2": {id: f.name + "/A2", keys: []tmKey{k(1), k(2), k(3), k(4)}, powers: []int64{10, 3, 3, 20}},
	}
	uniMemo.Store(f.name, u)
	return u
}

var setNames = []string{"A", "B", "C"}

// relative header of an event (height relative to the tracked height of the state it is applied in)
type relHdr struct {
	DH              int64
	Ver             uint64
	Vals, Hdr, Next string
	Sigs            string
	CDH             int64
	Bad             bool
	Chain           string
	CH              string // Commit.BlockID.Hash: "" real | "tracked" (the tracked block hash) | "garbage"
	CM              string // commit mode: "" | "empty" | "nil"
	TS              int64  // time shift of the body
}

type event struct {
	Kind  string // "sync" | "dep"
	Hdrs  []relHdr
	Proof string
}

func (e event) String() string {
	var parts []string
	for _, h := range e.Hdrs {
		s := fmt.Sprintf("dh%+d/v%d/%s>%s/%s", h.DH, h.Ver, h.Vals, h.Next, h.Sigs)
		if h.Hdr != h.Vals {
			s += "/hdrvals=" + h.Hdr
		}
		if h.CDH != 0 {
			s += fmt.Sprintf("/commitdh%+d", h.CDH)
		}
		if h.Bad {
			s += "/badblock"
		}
		if h.Chain != "" {
			s += "/chain=" + h.Chain
		}
		if h.CH != "" {
			s += "/commithash=" + h.CH
		}
		if h.CM != "" {
			s += "/commit=" + h.CM
		}
		if h.TS != 0 {
			s += fmt.Sprintf("/timeshift%+d", h.TS)
		}
		parts = append(parts, s)
	}
	s := e.Kind + ":" + strings.Join(parts, ";")
	if e.Proof != "" {
		s += ":" + e.Proof
	}
	return s
}

type bstate struct {
	d    polyenv.Dump
	path []string // first (shortest) event path that reached the state; not part of the state key
}

func trackedFromDump(d polyenv.Dump, chain uint64) tracked {
	k := hsenv.HSPrefix(hscommon.EPOCH_SWITCH, chain)
	for _, kv := range d {
		if kv.K == k {
			src := common.NewZeroCopySource(ccm.Val(kv.V))
			var t tracked
			t.Height, _ = src.NextInt64()
			t.BlockHash, _ = src.NextVarBytes()
			t.NextHash, _ = src.NextVarBytes()
			t.ChainID, _ = src.NextString()
			t.ok = true
			return t
		}
	}
	return tracked{}
}

type bStats struct {
	states, transitions, maxDepth int
	perFam                        map[string]any
}

func (c *ctx) partB(fams []*family, kits map[string]*depKit) bStats {
	r := c.r
	total := bStats{perFam: map[string]any{}}
	depth := r.QT(3, 4)
	for _, f := range fams {
		f := f
		U := universe(f)
		kit := kits[f.name]
		appHash := fill(0xaa)
		if kit != nil {
			appHash = kit.main.root
		}
		trustedSet := func(t tracked) string {
			for _, n := range setNames {
				if f.trusts(t.NextHash, U[n]) {
					return n
				}
			}
			return ""
		}
		others := func(n string) []string {
			var o []string
			for _, x := range setNames {
				if x != n {
					o = append(o, x)
				}
			}
			return o
		}
		var reg sync.Map
		name := func(e event) string { s := e.String(); reg.Store(s, e); return s }
		// sufficient / insufficient boundary signer patterns of a set
		boundary := func(n string) (below, above string) {
			switch n {
			case "A":
				return "caac", "ccaa"
			case "B":
				return "cca", "ccc"
			}
			return "ca", "cc"
		}
		events := func(s bstate, _ int) []string {
			t := trackedFromDump(s.d, f.chain)
			T := trustedSet(t)
			if T == "" {
				return nil
			}
			nT := len(U[T].keys)
			var out []string
			for _, ver := range f.vers {
				// main grid: trusted set, heights above the tracked one, every next set, every signature pattern
				for _, dh := range []int64{1, 5} {
					for _, nx := range setNames {
						for _, sg := range c.sigPatterns(nT, false) {
							out = append(out, name(event{Kind: "sync", Hdrs: []relHdr{{DH: dh, Ver: ver, Vals: T, Hdr: T, Next: nx, Sigs: sg}}}))
						}
					}
				}
				for _, dh := range []int64{-1, 0, 1, 5} {
					full := all(sCommit, nT)
					// heights <= tracked with the trusted set
					if dh <= 0 {
						for _, nx := range others(T) {
							out = append(out, name(event{Kind: "sync", Hdrs: []relHdr{{DH: dh, Ver: ver, Vals: T, Hdr: T, Next: nx, Sigs: full}}}))
						}
					}
					for _, W := range append(others(T), "A2") {
						fw := all(sCommit, len(U[W].keys))
						// a different (untrusted) validator set, fully signed by itself
						for _, nx := range setNames {
							if nx != W {
								out = append(out, name(event{Kind: "sync", Hdrs: []relHdr{{DH: dh, Ver: ver, Vals: W, Hdr: W, Next: nx, Sigs: fw}}}))
							}
						}
						// trusted set shipped, header names another set / untrusted set shipped, header names the trusted one
						out = append(out, name(event{Kind: "sync", Hdrs: []relHdr{{DH: dh, Ver: ver, Vals: T, Hdr: W, Next: others(W)[0], Sigs: full}}}))
						out = append(out, name(event{Kind: "sync", Hdrs: []relHdr{{DH: dh, Ver: ver, Vals: W, Hdr: T, Next: W, Sigs: fw}}}))
					}
					if dh > 0 {
						nx := others(T)[0]
						out = append(out, name(event{Kind: "sync", Hdrs: []relHdr{{DH: dh, Ver: ver, Vals: T, Hdr: T, Next: nx, Sigs: full, CDH: 1}}}))
						out = append(out, name(event{Kind: "sync", Hdrs: []relHdr{{DH: dh, Ver: ver, Vals: T, Hdr: T, Next: nx, Sigs: full, Bad: true}}}))
						out = append(out, name(event{Kind: "sync", Hdrs: []relHdr{{DH: dh, Ver: ver, Vals: T, Hdr: T, Next: nx, Sigs: full, Chain: "c30-foreign"}}}))
					}
				}
				// two headers in one transaction: T->X at +1, then X->Y at +2 (second one fully / insufficiently signed)
				for _, X := range others(T) {
					for _, Y := range others(X) {
						below, above := boundary(X)
						for _, sg := range []string{above, below} {
							out = append(out, name(event{Kind: "sync", Hdrs: []relHdr{
								{DH: 1, Ver: ver, Vals: T, Hdr: T, Next: X, Sigs: all(sCommit, nT)},
								{DH: 2, Ver: ver, Vals: X, Hdr: X, Next: Y, Sigs: sg}}}))
						}
					}
				}
				// operator re-submits a genesis header (lower height, other set): must not move the tracked state
				out = append(out, name(event{Kind: "gen", Hdrs: []relHdr{{DH: -1, Ver: ver, Vals: "C", Hdr: "C", Next: others(T)[0], Sigs: "cc"}}}))
				// deposits: header variants x {existence, value mismatch, absence with empty key path}
				if kit != nil {
					below, above := boundary(T)
					for _, dh := range []int64{-1, 0, 1} {
						for _, nx := range []string{T, others(T)[0]} {
							for _, sg := range []string{all(sCommit, nT), above, below} {
								for _, pf := range []string{"exist", "value-mismatch", "absent-kp-empty"} {
									out = append(out, name(event{Kind: "dep", Hdrs: []relHdr{{DH: dh, Ver: ver, Vals: T, Hdr: T, Next: nx, Sigs: sg}}, Proof: pf}))
								}
							}
						}
					}
					// header at the tracked epoch height itself whose commit merely CLAIMS the tracked block hash
					for _, x := range []relHdr{{Sigs: all(sCommit, nT)}, {Sigs: all(sCommit, nT), TS: 1}, {Sigs: all(sAbsent, nT), TS: 1}, {Sigs: all(sAbsent, nT), CM: "empty", TS: 1}, {Sigs: all(sAbsent, nT), CM: "nil", TS: 1}} {
						x.DH, x.Ver, x.Vals, x.Hdr, x.Next, x.CH = 0, ver, T, T, T, "tracked"
						if x.CM == "nil" {
							x.CH = ""
						}
						out = append(out, name(event{Kind: "dep", Hdrs: []relHdr{x}, Proof: "exist"}))
					}
					W := others(T)[0]
					for _, pf := range []string{"exist", "absent-kp-empty"} {
						out = append(out, name(event{Kind: "dep", Hdrs: []relHdr{{DH: 1, Ver: ver, Vals: W, Hdr: W, Next: W, Sigs: all(sCommit, len(U[W].keys))}}, Proof: pf}))
					}
				}
			}
			return out
		}
		var canonMissing sync.Map
		step := func(s bstate, en string) (bstate, bool) {
			v, _ := reg.Load(en)
			e := v.(event)
			before := trackedFromDump(s.d, f.chain)
			var sps []hdrSpec
			var raws, hashes [][]byte
			for _, h := range e.Hdrs {
				if before.Height+h.DH < 1 {
					if e.Kind != "gen" {
						return s, false
					}
					h.DH = 0
				}
				chain := tmChainID
				if h.Chain != "" {
					chain = h.Chain
				}
				sp := hdrSpec{ChainID: chain, Ver: h.Ver, Height: before.Height + h.DH, Vals: U[h.Vals], HdrVals: U[h.Hdr], Next: U[h.Next], Sigs: h.Sigs,
					AppHash: appHash, CommitDH: h.CDH, BadBlock: h.Bad, CommitMode: h.CM, TimeShift: h.TS, Memo: true}
				switch h.CH {
				case "tracked":
					sp.CommitHash = before.BlockHash
				case "garbage":
					sp.CommitHash = fill(0x99)
				}
				raw, hh := f.raw(sp)
				sps, raws, hashes = append(sps, sp), append(raws, raw), append(hashes, hh)
			}
			var after tracked
			var res polyenv.Result
			var nd polyenv.Dump
			var dc depCase
			withSim(s.d, func(sim *hsenv.Sim) {
				if e.Kind == "sync" {
					res = sim.Exec(headersTx(f.chain, raws...), 10, 1000)
				} else if e.Kind == "gen" {
					res = sim.Exec(genesisTx(c.env, f.chain, raws[0]), 10, 1000)
				} else {
					dc = kit.get(e.Proof)
					res = sim.Exec(importTx(f.chain, sps[0].Height, raws[0], dc.sub), 10, 1000)
				}
				after = trackedOf(sim, f.chain)
				nd = sim.Dump()
			})
			r.Eval()
			if res.Panic != nil {
				c.notePanic(f.name, res.Panic)
			}
			replay := func() any {
				var hs []string
				for _, sp := range sps {
					hs = append(hs, sp.String())
				}
				return map[string]any{"part": "B", "family": f.name, "event": en, "headers": hs, "tracked_before": before.String(), "tracked_after": after.String(),
					"tx_ok": res.OK, "tx_err": fmt.Sprint(res.Err), "path_from_genesis(h=1,next=A)": s.path,
					"note": "event = kind:dh(relative to tracked height)/version/vals>next/sigs; sets: A=(10,3,3,2) B=(1,1,1) C=(2,1)"}
			}
			anyOK := false
			cur := before
			for i, sp := range sps {
				if ok, _ := f.refOK(sp, hashes[i], cur, true); ok {
					anyOK = true
					cur = f.apply(sp, hashes[i])
				}
			}
			if e.Kind == "sync" {
				if anyOK {
					r.Class("B:ref-ok")
				} else {
					r.Class("B:ref-not-ok")
				}
			} else if e.Kind == "dep" {
				c.checkDeposit(f, "B", before, sps[0], hashes[0], dc, res, replay)
			}
			if e.Kind == "gen" {
				r.Class("B:ref-not-ok")
				if !sameTracked(before, after) {
					r.Violation(f.name+":tracked-state-replaced-by-second-genesis", replay())
				}
				return bstate{nd, append(append([]string{}, s.path...), en)}, true
			}
			c.checkAdvance(f, "B", before, after, sps, hashes, replay)
			adv := !sameTracked(before, after)
			if adv && len(s.path) == 1 {
				r.Sample(replay())
			}
			_, why := f.refOK(sps[len(sps)-1], hashes[len(sps)-1], before, true)
			r.Case(fmt.Sprintf("B/%s/%s/n=%d/%s/adv=%v", f.name, e.Kind, len(sps), why, adv))
			if sps[0].ChainID != tmChainID && adv {
				r.Class("observed:" + f.name + "-accepts-header-of-foreign-chain-id")
			}
			// canonical well-formed submission must be accepted
			h0 := e.Hdrs[0]
			if e.Kind == "sync" && len(e.Hdrs) == 1 && h0.DH == 1 && h0.Vals == h0.Hdr && h0.Next != h0.Vals && h0.CDH == 0 && !h0.Bad && h0.Chain == "" &&
				h0.Sigs == all(sCommit, len(h0.Sigs)) && f.trusts(before.NextHash, U[h0.Vals]) && !adv {
				// a version-10 header cannot follow a version-11 trusted hash (formats differ): not canonical
				if string(f.hashV(U[h0.Vals], h0.Ver)) == string(before.NextHash) || h0.Ver >= 11 {
					canonMissing.Store(en+" from "+before.String()+": "+fmt.Sprint(res.Err), true)
				}
			}
			return bstate{nd, append(append([]string{}, s.path...), en)}, true
		}
		key := func(s bstate) string {
			var sb strings.Builder
			hp, dp := hsenv.HSPrefix(hscommon.EPOCH_SWITCH, f.chain), ccm.DonePrefix()
			for _, kv := range s.d {
				if kv.K == hp || strings.HasPrefix(kv.K, dp) {
					sb.WriteString(kv.K)
					sb.WriteByte(0)
					sb.WriteString(kv.V)
					sb.WriteByte(0)
				}
			}
			return sb.String()
		}
		init := bstate{d: c.genesisDump(f, 1, 10, U["A"], appHash)}
		st := mc.BFS(mc.Config[bstate]{Init: []bstate{init}, Events: events, Step: step, Key: key, MaxDepth: depth, Workers: c.workers, Stop: r.Expired})
		if st.Truncated {
			r.Capped("partB " + f.name + ": deadline")
		}
		var miss []string
		canonMissing.Range(func(k, _ any) bool { miss = append(miss, k.(string)); return true })
		if len(miss) > 0 {
			sort.Strings(miss)
			r.HarnessError("partB %s: canonical header rejected: %s", f.name, miss[0])
		}
		total.states += st.States
		total.transitions += st.Transitions
		if st.MaxDepth > total.maxDepth {
			total.maxDepth = st.MaxDepth
		}
		total.perFam[f.name] = map[string]any{"states": st.States, "transitions": st.Transitions, "max_depth": st.MaxDepth, "per_depth": st.PerDepth,
			"depth_bound": depth, "fixpoint": !st.DepthCapped && !st.Truncated}
	}
	return total
}
