package main

import (
	"fmt"

	ethcrypto "github.com/ethereum/go-ethereum/crypto"
	scom "github.com/polynetwork/poly/native/service/cross_chain_manager/common"
	"github.com/tendermint/tendermint/crypto/merkle"
	"verif.local/engine/lib/hsenv"
	"verif.local/engine/polyenv"
)

// one deposit submission of the alphabet
type depCase struct {
	name    string
	sub     depositSub
	state   *appState // the committed state the header's AppHash names
	absence bool      // the proof shipped is an ABSENCE / non-existence proof
	exists  bool      // ground truth: the submitted message bytes are stored in `state` (for okex: their keccak under the ccmc prefix)
}

type depKit struct {
	fam   *family
	main  *appState // state used by part B headers
	cases []depCase
}

func (k *depKit) get(name string) depCase {
	for _, c := range k.cases {
		if c.name == name {
			return c
		}
	}
	panic("no deposit case " + name)
}

func mkMsg(id byte, txHash []byte) *scom.MakeTxParam {
	return &scom.MakeTxParam{TxHash: txHash, CrossChainID: []byte{'i', 'd', id, id, id, id, id, id}, FromContractAddress: []byte{1, 2, 3},
		ToChainID: targetChain, ToContractAddress: fill(0xab)[:20], Method: "unlock", Args: fill(7)[:10]}
}

// forgedPathMsg: a MakeTxParam whose serialisation is ALSO a key path "/<store>/<key>": the var-bytes length of
// TxHash is 0x2f = '/', TxHash = "<store>/" ++ filler; no other '/' or '%' byte anywhere.
func forgedPathMsg(store string) ([]byte, []byte) {
	tx := []byte(store + "/")
	for len(tx) < 47 {
		tx = append(tx, 'F')
	}
	val := msgBytes(mkMsg('X', tx))
	if val[0] != '/' {
		panic("forged message does not start with '/'")
	}
	for _, b := range val[len(store)+2:] {
		if b == '/' || b == '%' {
			panic("forged message contains a path metacharacter")
		}
	}
	return val, val[len(store)+2:] // message bytes, the (absent) key they name inside <store>
}

func cosmosKit(f *family) *depKit {
	m1, m2 := msgBytes(mkMsg('1', fill(0x51))), msgBytes(mkMsg('2', fill(0x52)))
	mNo := msgBytes(mkMsg('9', fill(0x59))) // never stored anywhere
	forged, forgedKey := forgedPathMsg("ccm")
	content := map[string]map[string][]byte{
		"ccm": {"k1": m1, "k2": m2, "zz": []byte("other")},
		"acc": {"a1": []byte("account-1"), "a2": []byte("account-2")},
	}
	L := newLegacyState(content)
	other := newLegacyState(map[string]map[string][]byte{"ccm": {"k1": m2, "k3": mNo}, "acc": {"a1": []byte("x")}}) // another (stale / foreign) root
	k := &depKit{fam: f, main: L}
	add := func(name string, st *appState, kp string, val []byte, p *merkle.Proof, absence bool) {
		k.cases = append(k.cases, depCase{name: name, sub: depositSub{Kp: kp, Value: val, Proof: p}, state: st, absence: absence, exists: st.exists(val)})
	}
	pk1, pk2 := L.legacyProof("ccm", []byte("k1")), L.legacyProof("ccm", []byte("k2"))
	pAbs := L.legacyProof("ccm", []byte("k-absent"))
	pForged := L.legacyProof("ccm", forgedKey)
	add("exist", L, keyPath("ccm", []byte("k1")), m1, pk1, false)
	add("exist-2", L, keyPath("ccm", []byte("k2")), m2, pk2, false)
	add("value-mismatch", L, keyPath("ccm", []byte("k1")), mNo, pk1, false)
	add("other-key-proof", L, keyPath("ccm", []byte("k1")), m1, pk2, false)
	add("other-key-path", L, keyPath("ccm", []byte("k2")), m1, pk1, false)
	add("wrong-store-path", L, keyPath("acc", []byte("k1")), m1, pk1, false)
	add("absent-nonempty-kp", L, keyPath("ccm", []byte("k-absent")), mNo, pAbs, true)
	add("absent-kp-empty", L, "", forged, pForged, true) // DESIGN F15
	add("absent-kp-empty-unparsable", L, "", mNo, pAbs, true)
	add("exist-kp-empty", L, "", m1, pk1, false)
	add("proof-of-other-root", L, keyPath("ccm", []byte("k3")), mNo, other.legacyProof("ccm", []byte("k3")), false)
	add("iavl-op-only", L, keyPath("ccm", []byte("k1")), m1, &merkle.Proof{Ops: pk1.Ops[:1]}, false)
	add("empty-proof", L, keyPath("ccm", []byte("k1")), m1, &merkle.Proof{}, false)

	// ics23 ops
	I, stores, multi := newICS23State(content)
	ex := func(store string, key []byte) *merkle.Proof {
		return &merkle.Proof{Ops: []merkle.ProofOp{ics23Op(key, stores[store].proof(key)), ics23Op([]byte(store), multi.proof([]byte(store)))}}
	}
	add("ics23-exist", I, keyPath("ccm", []byte("k1")), m1, ex("ccm", []byte("k1")), false)
	add("ics23-value-mismatch", I, keyPath("ccm", []byte("k1")), mNo, ex("ccm", []byte("k1")), false)
	add("ics23-nonexist-nonempty-kp", I, keyPath("ccm", []byte("k-absent")), mNo, ex("ccm", []byte("k-absent")), true)
	add("ics23-nonexist-kp-empty", I, "", forged, ex("ccm", forgedKey), true) // DESIGN F15, ics23 form
	return k
}

func okexKit(f *family) *depKit {
	m1, mNo := msgBytes(mkMsg('1', fill(0x51))), msgBytes(mkMsg('9', fill(0x59)))
	slot := func(contract []byte, b byte) []byte { return append(append([]byte{0x05}, contract...), fill(b)...) }
	k1 := slot(okexCCMC, 0x31)
	kAbs := slot(okexCCMC, 0x32)
	kForeign := slot(fill(0xdd)[:20], 0x31)
	content := map[string]map[string][]byte{
		"evm": {string(k1): ethcrypto.Keccak256(m1), string(kForeign): ethcrypto.Keccak256(mNo), string(slot(okexCCMC, 0x7f)): []byte("zz")},
		"acc": {"a1": []byte("account-1")},
	}
	L := newLegacyState(content)
	k := &depKit{fam: f, main: L}
	add := func(name string, kp string, val []byte, p *merkle.Proof, absence bool) {
		// okex commits to keccak256(message) under a storage slot of the registered CCMC contract
		ex := false
		for key, v := range content["evm"] {
			if len(key) == 53 && key[1:21] == string(okexCCMC) && string(v) == string(ethcrypto.Keccak256(val)) {
				ex = true
			}
		}
		k.cases = append(k.cases, depCase{name: name, sub: depositSub{Kp: kp, Value: val, Proof: p}, state: L, absence: absence, exists: ex})
	}
	p1, pAbs, pFor := L.legacyProof("evm", k1), L.legacyProof("evm", kAbs), L.legacyProof("evm", kForeign)
	add("exist", keyPath("evm", k1), m1, p1, false)
	add("value-mismatch", keyPath("evm", k1), mNo, p1, false)
	add("absent-nonempty-kp", keyPath("evm", kAbs), mNo, pAbs, true)
	add("absent-kp-empty", "", mNo, pAbs, true)
	add("foreign-contract-slot", keyPath("evm", kForeign), mNo, pFor, false)
	add("iavl-op-only", keyPath("evm", k1), m1, &merkle.Proof{Ops: p1.Ops[:1]}, false)
	return k
}

// checkDeposit: implication oracle for one executed ImportOuterTransfer.
func (c *ctx) checkDeposit(f *family, part string, before tracked, sp hdrSpec, dc depCase, res polyenv.Result, replay func() any) {
	hdrOK, why := f.refOK(sp, before, false)
	stateOK := string(sp.AppHash) == string(dc.state.root)
	legit := hdrOK && stateOK && dc.exists
	if legit {
		c.r.Class(part + ":ref-ok")
	} else {
		c.r.Class(part + ":ref-not-ok")
	}
	if res.Panic != nil {
		c.notePanic(f.name, res.Panic)
	}
	if !res.OK {
		return
	}
	c.r.Class("impl-deposit-accepted")
	switch {
	case !hdrOK:
		c.r.Violation(f.name+":deposit:header-not-verified:"+why, replay())
	case !dc.exists && dc.absence:
		c.r.Violation(f.name+":deposit:absence-proof-accepted-as-existence", replay())
	case !dc.exists || !stateOK:
		c.r.Violation(f.name+":deposit:message-not-in-committed-state", replay())
	}
}

// partC: deposit alphabet x header variants, one ImportOuterTransfer each from a genesis state (tracked height 3, set A).
func (c *ctx) partC(fams []*family, kits map[string]*depKit) map[string]any {
	r := c.r
	out := map[string]any{}
	for _, f := range fams {
		if !f.deposit {
			continue
		}
		kit := kits[f.name]
		U := universe(f)
		A, B := U["A"], U["B"]
		n := 0
		for _, ver := range f.vers {
			gd := c.genesisDump(f, 3, ver, A, fill(0xaa))
			type hv struct {
				name string
				sp   hdrSpec
			}
			mk := func(h int64, vals, next *vset, sigs string) hdrSpec {
				return hdrSpec{ChainID: tmChainID, Ver: ver, Height: h, Vals: vals, HdrVals: vals, Next: next, Sigs: sigs}
			}
			hvs := []hv{
				{"ok", mk(4, A, A, "cccc")},
				{"ok-min-quorum", mk(4, A, A, "ccaa")},   // 13 of 18
				{"ok-changing-set", mk(4, A, B, "cccc")}, // also advances the tracked set
				{"at-tracked-height", mk(3, A, A, "cccc")},
				{"exactly-two-thirds", mk(4, A, A, "caac")}, // 12 of 18
				{"nil-votes", mk(4, A, A, "cnnn")},
				{"wrong-set", mk(4, B, B, "ccc")},
				{"below-tracked", mk(2, A, A, "cccc")},
			}
			for _, dc := range kit.cases {
				for _, h := range hvs {
					if r.Expired() {
						r.Capped("partC: deadline")
						break
					}
					sp := h.sp
					sp.AppHash = dc.state.root
					if dc.name == "proof-of-other-root" {
						sp.AppHash = kit.main.root // header commits to the main state, proof is for another root
					}
					raw, hh := f.raw(sp)
					var before, after tracked
					var res polyenv.Result
					withSim(gd, func(s *hsenv.Sim) {
						before = trackedOf(s, f.chain)
						res = s.Exec(importTx(f.chain, sp.Height, raw, dc.sub), 5, 500)
						after = trackedOf(s, f.chain)
					})
					n++
					r.Eval()
					replay := func() any {
						return map[string]any{"part": "C", "family": f.name, "tracked_before": before.String(), "header": sp.String(), "header_variant": h.name,
							"deposit_case": dc.name, "kp": dc.sub.Kp, "value_hex": fmt.Sprintf("%x", dc.sub.Value), "value_ascii_prefix": printable(dc.sub.Value, 60),
							"proof_op_types": opTypes(dc.sub.Proof), "message_exists_in_committed_state": dc.exists, "proof_is_absence_proof": dc.absence,
							"tx_ok": res.OK, "tx_err": fmt.Sprint(res.Err),
							"repro": "SyncGenesisHeader(h=3,next=A) ; ImportOuterTransfer{Height:header.h, HeaderOrCrossChainMsg:header, Extra:amino(CosmosProofValue{Kp,Value}), Proof:amino(merkle.Proof)}"}
					}
					c.checkDeposit(f, "C", before, sp, dc, res, replay)
					c.checkAdvance(f, "C", before, after, []hdrSpec{sp}, [][]byte{hh}, replay)
					r.Case(fmt.Sprintf("C/%s/v%d/%s/%s/ok=%v", f.name, ver, dc.name, h.name, res.OK))
					if dc.name == "exist" && h.name == "ok" {
						r.Sample(replay())
					}
					if (dc.name == "exist" || dc.name == "ics23-exist") && (h.name == "ok" || h.name == "ok-min-quorum" || h.name == "ok-changing-set") && !res.OK {
						r.HarnessError("partC %s v%d: well-formed deposit (%s,%s) rejected: %v", f.name, ver, dc.name, h.name, res.Err)
					}
				}
			}
		}
		var names []string
		for _, dc := range kit.cases {
			names = append(names, dc.name)
		}
		out[f.name] = map[string]any{"deposit_cases": names, "header_variants": 8, "executions": n}
	}
	return out
}

func printable(b []byte, n int) string {
	if len(b) > n {
		b = b[:n]
	}
	out := make([]byte, len(b))
	for i, x := range b {
		if x >= 32 && x < 127 {
			out[i] = x
		} else {
			out[i] = '.'
		}
	}
	return string(out)
}

func opTypes(p *merkle.Proof) []string {
	var out []string
	for _, o := range p.Ops {
		out = append(out, o.Type)
	}
	return out
}
