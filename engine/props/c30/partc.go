package main

import (
	"bytes"
	"fmt"
	"sync"

	ethcrypto "github.com/ethereum/go-ethereum/crypto"
	scom "github.com/polynetwork/poly/native/service/cross_chain_manager/common"
	"github.com/tendermint/tendermint/crypto/merkle"
	"verif.local/engine/lib/hsenv"
	"verif.local/engine/polyenv"
)

// one deposit submission of the alphabet
type depCase struct {
	name    string
	sub     depositSub
	state   *appState // the committed state the header's AppHash names
	absence bool      // the proof shipped is an ABSENCE / non-existence proof
	exists  bool      // ground truth: the submitted message bytes are stored in `state` (for okex: their keccak under the ccmc prefix)
}

type depKit struct {
	fam   *family
	main  *appState // state used by part B headers
	cases []depCase
}

func (k *depKit) get(name string) depCase {
	for _, c := range k.cases {
		if c.name == name {
			return c
		}
	}
	panic("no deposit case " + name)
}

func mkMsg(id byte, txHash []byte) *scom.MakeTxParam {
	return &scom.MakeTxParam{TxHash: txHash, CrossChainID: []byte{'i', 'd', id, id, id, id, id, id}, FromContractAddress: []byte{1, 2, 3},
		ToChainID: targetChain, ToContractAddress: fill(0xab)[:20], Method: "unlock", Args: fill(7)[:10]}
}

// forgedPathMsg: a MakeTxParam whose serialisation is ALSO a key path "/<store>/<key>": the var-bytes length of
// TxHash is 0x2f = '/', TxHash = "<store>/" ++ filler; no other '/' or '%' byte anywhere.
func forgedPathMsg(store string) ([]byte, []byte) {
	tx := []byte(store + "/")
	for len(tx) < 47 {
		tx = append(tx, 'F')
	}
	val := msgBytes(mkMsg('X', tx))
	if val[0] != '/' {
		panic("forged message does not start with '/'")
	}
	for _, b := range val[len(store)+2:] {
		if b == '/' || b == '%' {
			panic("forged message contains a path metacharacter")
		}
	}
	return val, val[len(store)+2:] // message bytes, the (absent) key they name inside <store>
}

func cosmosKit(f *family) *depKit {
	m1, m2 := msgBytes(mkMsg('1', fill(0x51))), msgBytes(mkMsg('2', fill(0x52)))
	mNo := msgBytes(mkMsg('9', fill(0x59))) // never stored anywhere
	forged, forgedKey := forgedPathMsg("ccm")
	content := map[string]map[string][]byte{
		"ccm": {"k1": m1, "k2": m2, "zz": []byte("other")},
		"acc": {"a1": []byte("account-1"), "a2": []byte("account-2")},
	}
	L := newLegacyState(content)
	other := newLegacyState(map[string]map[string][]byte{"ccm": {"k1": m2, "k3": mNo}, "acc": {"a1": []byte("x")}}) // another (stale / foreign) root
	k := &depKit{fam: f, main: L}
	add := func(name string, st *appState, kp string, val []byte, p *merkle.Proof, absence bool) {
		k.cases = append(k.cases, depCase{name: name, sub: depositSub{Kp: kp, Value: val, Proof: p}, state: st, absence: absence, exists: st.exists(val)})
	}
	pk1, pk2 := L.legacyProof("ccm", []byte("k1")), L.legacyProof("ccm", []byte("k2"))
	pAbs := L.legacyProof("ccm", []byte("k-absent"))
	pForged := L.legacyProof("ccm", forgedKey)
	add("exist", L, keyPath("ccm", []byte("k1")), m1, pk1, false)
	add("exist-2", L, keyPath("ccm", []byte("k2")), m2, pk2, false)
	add("value-mismatch", L, keyPath("ccm", []byte("k1")), mNo, pk1, false)
	add("other-key-proof", L, keyPath("ccm", []byte("k1")), m1, pk2, false)
	add("other-key-path", L, keyPath("ccm", []byte("k2")), m1, pk1, false)
	add("wrong-store-path", L, keyPath("acc", []byte("k1")), m1, pk1, false)
	add("absent-nonempty-kp", L, keyPath("ccm", []byte("k-absent")), mNo, pAbs, true)
	add("absent-kp-empty", L, "", forged, pForged, true) // DESIGN F15
	add("absent-kp-empty-unparsable", L, "", mNo, pAbs, true)
	add("exist-kp-empty", L, "", m1, pk1, false)
	add("proof-of-other-root", L, keyPath("ccm", []byte("k3")), mNo, other.legacyProof("ccm", []byte("k3")), false)
	add("iavl-op-only", L, keyPath("ccm", []byte("k1")), m1, &merkle.Proof{Ops: pk1.Ops[:1]}, false)
	add("empty-proof", L, keyPath("ccm", []byte("k1")), m1, &merkle.Proof{}, false)

	// ics23 ops
	I, stores, multi := newICS23State(content)
	ex := func(store string, key []byte) *merkle.Proof {
		return &merkle.Proof{Ops: []merkle.ProofOp{ics23Op(key, stores[store].proof(key)), ics23Op([]byte(store), multi.proof([]byte(store)))}}
	}
	add("ics23-exist", I, keyPath("ccm", []byte("k1")), m1, ex("ccm", []byte("k1")), false)
	add("ics23-value-mismatch", I, keyPath("ccm", []byte("k1")), mNo, ex("ccm", []byte("k1")), false)
	add("ics23-nonexist-nonempty-kp", I, keyPath("ccm", []byte("k-absent")), mNo, ex("ccm", []byte("k-absent")), true)
	add("ics23-nonexist-kp-empty", I, "", forged, ex("ccm", forgedKey), true) // DESIGN F15, ics23 form
	return k
}

func okexKit(f *family) *depKit {
	m1, mNo := msgBytes(mkMsg('1', fill(0x51))), msgBytes(mkMsg('9', fill(0x59)))
	slot := func(contract []byte, b byte) []byte { return append(append([]byte{0x05}, contract...), fill(b)...) }
	k1 := slot(okexCCMC, 0x31)
	kAbs := slot(okexCCMC, 0x32)
	kForeign := slot(fill(0xdd)[:20], 0x31)
	content := map[string]map[string][]byte{
		"evm": {string(k1): ethcrypto.Keccak256(m1), string(kForeign): ethcrypto.Keccak256(mNo), string(slot(okexCCMC, 0x7f)): []byte("zz")},
		"acc": {"a1": []byte("account-1")},
	}
	L := newLegacyState(content)
	k := &depKit{fam: f, main: L}
	add := func(name string, kp string, val []byte, p *merkle.Proof, absence bool) {
		// okex commits to keccak256(message) under a storage slot of the registered CCMC contract
		ex := false
		for key, v := range content["evm"] {
			if len(key) == 53 && key[1:21] == string(okexCCMC) && string(v) == string(ethcrypto.Keccak256(val)) {
				ex = true
			}
		}
		k.cases = append(k.cases, depCase{name: name, sub: depositSub{Kp: kp, Value: val, Proof: p}, state: L, absence: absence, exists: ex})
	}
	p1, pAbs, pFor := L.legacyProof("evm", k1), L.legacyProof("evm", kAbs), L.legacyProof("evm", kForeign)
	add("exist", keyPath("evm", k1), m1, p1, false)
	add("value-mismatch", keyPath("evm", k1), mNo, p1, false)
	add("absent-nonempty-kp", keyPath("evm", kAbs), mNo, pAbs, true)
	add("absent-kp-empty", "", mNo, pAbs, true)
	add("foreign-contract-slot", keyPath("evm", kForeign), mNo, pFor, false)
	add("iavl-op-only", keyPath("evm", k1), m1, &merkle.Proof{Ops: p1.Ops[:1]}, false)
	return k
}

// checkDeposit: implication oracle for one executed ImportOuterTransfer. hh = what the submitted header body really
// hashes to. The header is acceptable if the tracked set signed that hash with > 2/3 of its power (refOK), or if it IS
// the tracked epoch header (same height, body hashing to the tracked block hash: verified when it was installed).
func (c *ctx) checkDeposit(f *family, part string, before tracked, sp hdrSpec, hh []byte, dc depCase, res polyenv.Result, replay func() any) {
	hdrOK, why := f.refOK(sp, hh, before, false)
	if !hdrOK && before.ok && sp.Height == before.Height && bytes.Equal(hh, before.BlockHash) {
		hdrOK, why = true, ""
	}
	stateOK := string(sp.AppHash) == string(dc.state.root)
	legit := hdrOK && stateOK && dc.exists
	if legit {
		c.r.Class(part + ":ref-ok")
	} else {
		c.r.Class(part + ":ref-not-ok")
	}
	if res.Panic != nil {
		c.notePanic(f.name, res.Panic)
	}
	if !res.OK {
		return
	}
	c.r.Class("impl-deposit-accepted")
	switch {
	case !hdrOK:
		c.r.Violation(f.name+":deposit:header-not-verified:"+why, replay())
	case !dc.exists && dc.absence:
		c.r.Violation(f.name+":deposit:absence-proof-accepted-as-existence", replay())
	case !dc.exists || !stateOK:
		c.r.Violation(f.name+":deposit:message-not-in-committed-state", replay())
	}
}

// signer patterns of a universe set: all / minimal > 2/3 / exactly 2/3 / one commit + nil votes
func quorumPatterns(s *vset) (full, min, exact, nils string) {
	switch len(s.keys) {
	case 4:
		return "cccc", "ccaa", "caac", "cnnn"
	case 3:
		return "ccc", "ccc", "cca", "cnn"
	}
	return "cc", "cc", "ca", "cn"
}

type hdrVariant struct {
	name      string
	sp        hdrSpec
	canonical bool // well-formed: an existence proof against it must be accepted
}

// depositHeaders: the header dimension of a deposit, relative to the tracked epoch info `cur` (installed from `trSpec`).
func depositHeaders(ver uint64, cur tracked, trSpec hdrSpec, T, W, chg *vset) []hdrVariant {
	H := cur.Height
	mk := func(h int64, vals, next *vset, sigs string) hdrSpec {
		return hdrSpec{ChainID: tmChainID, Ver: ver, Height: h, Vals: vals, HdrVals: vals, Next: next, Sigs: sigs}
	}
	full, min, exact, nils := quorumPatterns(T)
	fw, _, _, _ := quorumPatterns(W)
	out := []hdrVariant{
		{"ok", mk(H+1, T, T, full), true},
		{"ok-min-quorum", mk(H+1, T, T, min), true},
		{"ok-changing-set", mk(H+1, T, chg, full), true}, // also advances the tracked set
		{"exactly-two-thirds", mk(H+1, T, T, exact), false},
		{"nil-votes", mk(H+1, T, T, nils), false},
	}
	for _, dh := range []int64{-1, 0, 1, 2} {
		type body struct {
			name string
			sp   hdrSpec
		}
		fresh := mk(H+dh, T, T, full)
		shifted := fresh
		shifted.TimeShift = 1
		bodies := []body{{"fresh", fresh}, {"fresh-other-time", shifted}}
		if dh == 0 {
			tr := trSpec
			tr.Memo = false
			alt := tr
			alt.TimeShift = 1
			bodies = append(bodies, body{"tracked-header", tr}, body{"tracked-header-other-time", alt})
		}
		for _, b := range bodies {
			for _, cm := range []string{"quorum", "all-absent", "empty-commit", "nil-commit", "foreign-set-quorum"} {
				hashes := []struct {
					n string
					h []byte
				}{{"real", nil}, {"tracked-blockhash", cur.BlockHash}, {"garbage", fill(0x99)}}
				if cm == "nil-commit" {
					hashes = hashes[:1]
				}
				for _, ch := range hashes {
					sp := b.sp
					sp.CommitHash = ch.h
					switch cm {
					case "quorum":
						sp.Sigs = all(sCommit, len(sp.Vals.keys))
					case "all-absent":
						sp.Sigs = all(sAbsent, len(sp.Vals.keys))
					case "empty-commit":
						sp.CommitMode = "empty"
					case "nil-commit":
						sp.CommitMode = "nil"
					case "foreign-set-quorum":
						sp.Vals, sp.HdrVals, sp.Sigs = W, W, fw
					}
					out = append(out, hdrVariant{fmt.Sprintf("dh%+d/%s/commit=%s/commithash=%s", dh, b.name, cm, ch.n), sp,
						b.name == "fresh" && cm == "quorum" && ch.n == "real" && dh == 1})
				}
			}
		}
	}
	return out
}

// partC: deposit alphabet x deposit-header dimension, one ImportOuterTransfer each, from two base states:
// G (genesis at height 3 trusting A) and S (G + the synced epoch header 4: A -> B, so the tracked header is a signed one).
func (c *ctx) partC(fams []*family, kits map[string]*depKit) map[string]any {
	r := c.r
	out := map[string]any{}
	type job struct {
		f   *family
		kit *depKit
		ver uint64
		dc  depCase
	}
	var jobs []job
	for _, f := range fams {
		if !f.deposit {
			continue
		}
		for _, ver := range f.vers {
			for _, dc := range kits[f.name].cases {
				jobs = append(jobs, job{f, kits[f.name], ver, dc})
			}
		}
	}
	var mu sync.Mutex
	execs := map[string]int{}
	nvar := 0
	ch := make(chan job)
	var wg sync.WaitGroup
	for wk := 0; wk < c.workers; wk++ {
		wg.Add(1)
		go func() {
			defer wg.Done()
			for j := range ch {
				f, kit, ver, dc := j.f, j.kit, j.ver, j.dc
				U := universe(f)
				app := dc.state.root
				if dc.name == "proof-of-other-root" {
					app = kit.main.root // headers commit to the main state, the proof is for another root
				}
				type base struct {
					name   string
					dump   polyenv.Dump
					trSpec hdrSpec
					T, W   *vset
					chg    *vset
				}
				gd, gspec := c.genesisDumpSpec(f, 3, ver, U["A"], app)
				s4 := hdrSpec{ChainID: tmChainID, Ver: ver, Height: 4, Vals: U["A"], HdrVals: U["A"], Next: U["B"], Sigs: "cccc", AppHash: app}
				var sd polyenv.Dump
				raw4, _ := f.raw(s4)
				withSim(gd, func(s *hsenv.Sim) {
					if res := s.Exec(headersTx(f.chain, raw4), 4, 400); !res.OK {
						r.HarnessError("partC %s: base sync failed: %v", f.name, res.Err)
					}
					sd = s.Dump()
				})
				bases := []base{{"G(h=3,trusts A)", gd, gspec, U["A"], U["C"], U["B"]}, {"S(G+sync h=4 A->B)", sd, s4, U["B"], U["C"], U["A"]}}
				cnt := 0
				for _, b := range bases {
					cur := trackedFromDump(b.dump, f.chain)
					hvs := depositHeaders(ver, cur, b.trSpec, b.T, b.W, b.chg)
					mu.Lock()
					nvar = len(hvs)
					mu.Unlock()
					for _, h := range hvs {
						if r.Expired() {
							r.Capped("partC: deadline")
							break
						}
						sp := h.sp
						sp.AppHash = app
						raw, hh := f.raw(sp)
						var before, after tracked
						var res polyenv.Result
						withSim(b.dump, func(s *hsenv.Sim) {
							before = trackedOf(s, f.chain)
							res = s.Exec(importTx(f.chain, sp.Height, raw, dc.sub), 5, 500)
							after = trackedOf(s, f.chain)
						})
						cnt++
						r.Eval()
						replay := func() any {
							return map[string]any{"part": "C", "family": f.name, "base_state": b.name, "tracked_before": before.String(), "header": sp.String(),
								"header_variant": h.name, "header_body_hash": fmt.Sprintf("%x", hh), "tracked_block_hash": fmt.Sprintf("%x", before.BlockHash),
								"deposit_case": dc.name, "kp": dc.sub.Kp, "value_hex": fmt.Sprintf("%x", dc.sub.Value), "value_ascii_prefix": printable(dc.sub.Value, 60),
								"proof_op_types": opTypes(dc.sub.Proof), "message_exists_in_committed_state": dc.exists, "proof_is_absence_proof": dc.absence,
								"tx_ok": res.OK, "tx_err": fmt.Sprint(res.Err),
								"repro": "SyncGenesisHeader(h=3,next=A) [; SyncBlockHeader(h=4, A->B, all sign)] ; ImportOuterTransfer{Height:header.h, HeaderOrCrossChainMsg:header, Extra:amino(CosmosProofValue{Kp,Value}), Proof:amino(merkle.Proof)}; header variant = height relative to tracked / body / commit / Commit.BlockID.Hash"}
						}
						c.checkDeposit(f, "C", before, sp, hh, dc, res, replay)
						c.checkAdvance(f, "C", before, after, []hdrSpec{sp}, [][]byte{hh}, replay)
						r.Case(fmt.Sprintf("C/%s/v%d/%s/%s/ok=%v", f.name, ver, dc.name, h.name, res.OK))
						if dc.name == "exist" && h.name == "ok" {
							r.Sample(replay())
						}
						if (dc.name == "exist" || dc.name == "ics23-exist") && h.canonical && !res.OK {
							r.HarnessError("partC %s v%d %s: well-formed deposit (%s,%s) rejected: %v", f.name, ver, b.name, dc.name, h.name, res.Err)
						}
					}
				}
				mu.Lock()
				execs[f.name] += cnt
				mu.Unlock()
			}
		}()
	}
	for _, j := range jobs {
		ch <- j
	}
	close(ch)
	wg.Wait()
	for _, f := range fams {
		if !f.deposit {
			continue
		}
		var names []string
		for _, dc := range kits[f.name].cases {
			names = append(names, dc.name)
		}
		out[f.name] = map[string]any{"deposit_cases": names, "base_states": []string{"G: genesis h=3 trusting A", "S: G + synced epoch header h=4 (A->B)"},
			"header_variants_per_base": nvar, "executions": execs[f.name]}
	}
	out["header_dimension"] = "5 quorum variants at tracked+1 (all / minimal >2/3 / changing set / exactly 2/3 / nil votes) + height in tracked{-1,0,+1,+2} x body {fresh header of the trusted set, same with other time; at tracked height also: the tracked header itself, the tracked header with other time} x commit {quorum of the shipped set, all absent, no signature entries, nil commit, quorum of a foreign set} x Commit.BlockID.Hash {real hash of the body, the tracked block hash, garbage}"
	return out
}

func printable(b []byte, n int) string {
	if len(b) > n {
		b = b[:n]
	}
	out := make([]byte, len(b))
	for i, x := range b {
		if x >= 32 && x < 127 {
			out[i] = x
		} else {
			out[i] = '.'
		}
	}
	return string(out)
}

func opTypes(p *merkle.Proof) []string {
	var out []string
	for _, o := range p.Ops {
		out = append(out, o.Type)
	}
	return out
}
