// C04 — contract parameters and stored records round-trip canonically.
//
// Registry: every type with an encoder/decoder method pair in the anchored files (go/ast scan on every run) must have
// an entry in the driver's table (table.go), else HARNESS-ERROR.
// In-process, bounded-exhaustive per type over per-field-kind boundary alphabets (zero / typical / max vectors, every
// 1-deviation of the typical vector; thorough: every 2-deviation):
//
//		(a) decode(encode(x)) == x, re-encode byte-identical, decoder stops exactly behind its own encoding (also when
//		    foreign bytes precede / follow it); documented asymmetries are counted, not "fixed in the oracle"
//		(b) canonical bytes of map-carrying records: ALL permutations of map insertion order (|map| <= 4, product over the
//		    maps of a record) x ALL 8 map-iteration rotations (lib/maporder; exhaustive for one-bucket maps) -> exactly one
//		    byte string; the re-encoding of the decoded value under all rotations as well
//		(c) side-chain records under every (network id, ledger height, fork-check flag) regime around EXTRA_INFO_HEIGHT
//
//	  (e) receiver-state independence (receiver.go): decoding B into a receiver that holds A / failed on truncated A /
//	      already holds B gives exactly B
//
// Child processes (`ulimit -v 4000000`, timeout), deviation-bounded, on representative encodings of every type:
//
//	(d) every truncation, every byte x 4 replacement values, and AT EVERY OFFSET a var-uint and a u64 count/length
//	    spliced to {remaining+1, 0xFFFF, 2^32, 2^40, 2^62, 2^63, 2^64-1}: clean error / accepted / panic / fatal-oom;
//	    an accepted truncation is a violation (except the documented ExtraInfo tail), an accepted value must round trip.
package main

import (
	"bytes"
	"fmt"
	"math/big"
	"os"
	"reflect"
	"sort"
	"strings"
	"time"

	"github.com/polynetwork/poly/common/config"
	cstates "github.com/polynetwork/poly/core/states"
	"verif.local/engine/ev"
	"verif.local/engine/lib/maporder"
	"verif.local/engine/lib/src"
	"verif.local/engine/polyenv"
)

func hexClip(b []byte) string {
	if len(b) > 300 {
		return fmt.Sprintf("%x...(%d bytes)", b[:300], len(b))
	}
	return fmt.Sprintf("%x", b)
}

type checker struct {
	r          *ev.Run
	asym       map[string]map[string]int // type -> asymmetry -> count
	perType    map[string]map[string]int
	canonEvals int64
	recvSeqs   int64
	recvFailed int64
}

func (k *checker) noteAsym(typ, what string) {
	if k.asym[typ] == nil {
		k.asym[typ] = map[string]int{}
	}
	k.asym[typ][what]++
	k.r.Class("asymmetry:" + what)
}

func (k *checker) count(typ, what string) {
	if k.perType[typ] == nil {
		k.perType[typ] = map[string]int{}
	}
	k.perType[typ][what]++
}

// encode runs the real encoder under a panic guard.
func (k *checker) encode(c *codec, p reflect.Value, ctx string) ([]byte, bool) {
	var raw []byte
	var err error
	pv, pan := ev.Guard(func() { raw, err = c.enc(p) })
	if pan || err != nil {
		k.r.Violation(c.name+".Serialization:failed-on-valid-value", map[string]any{"value": describe(p.Elem()), "ctx": ctx, "panic": fmt.Sprint(pv), "err": fmt.Sprint(err)})
		return nil, false
	}
	return append([]byte{}, raw...), true
}

// roundTrip is oracle (a). present=false: the pre-fork regime of the side-chain records (ExtraInfo not on the wire).
func (k *checker) roundTrip(c *codec, p reflect.Value, ctx string, extraInfoPresent bool) (raw []byte, ok bool) {
	// map iteration pinned (rotation 0): the verdicts of (a) are reproducible even for an order-dependent encoder;
	// the order space itself is explored by (b)
	maporder.Run(nil, 0, func() { raw, ok = k.roundTrip0(c, p, ctx, extraInfoPresent) })
	return
}

func (k *checker) roundTrip0(c *codec, p reflect.Value, ctx string, extraInfoPresent bool) (raw []byte, ok bool) {
	r := k.r
	r.Eval()
	want := deepCopy(p)
	raw, ok = k.encode(c, p, ctx)
	if !ok {
		return nil, false
	}
	if c.canon != nil {
		before := describe(want.Elem())
		c.canon(want.Interface())
		if describe(want.Elem()) != before {
			k.noteAsym(c.name, "encoder-normalises-its-input")
		}
	}
	if !extraInfoPresent {
		f := want.Elem().FieldByName("ExtraInfo")
		if f.Len() > 0 {
			k.noteAsym(c.name, "pre-fork-regime-drops-ExtraInfo")
		}
		f.Set(reflect.Zero(f.Type()))
	}
	desc := func(extra map[string]any) map[string]any {
		m := map[string]any{"type": c.name, "value": describe(want.Elem()), "encoding": hexClip(raw), "ctx": ctx}
		for a, b := range extra {
			m[a] = b
		}
		return m
	}
	// the encoding embedded behind 3 foreign bytes
	buf := append(append([]byte{9, 9, 9}, raw...), 0xEE, 0xEE)
	exact := buf[: 3+len(raw) : 3+len(raw)]
	var q reflect.Value
	var end int
	var err error
	if pv, pan := ev.Guard(func() { q, end, err = c.dec(exact, 3) }); pan {
		r.Violation(c.name+".Deserialization:panic:well-formed-encoding", desc(map[string]any{"panic": fmt.Sprint(pv)}))
		return raw, false
	}
	if err != nil {
		if c.rejects != nil {
			if why := c.rejects(want.Interface()); why != "" {
				k.noteAsym(c.name, "decoder-validates:"+why)
				k.count(c.name, "refused_by_decoder_validation")
				return raw, true
			}
		}
		r.Violation(c.name+":well-formed-encoding-rejected", desc(map[string]any{"err": err.Error()}))
		return raw, false
	}
	if end >= 0 && end != 3+len(raw) {
		r.Violation(c.name+".Deserialization:did-not-consume-exactly-its-encoding", desc(map[string]any{"consumed": end - 3, "encoded": len(raw)}))
	}
	var d diffs
	compare(want.Elem(), q.Elem(), "", &d)
	if len(d.loose) > 0 {
		r.Violation(c.name+":decoded-value-differs", desc(map[string]any{"differences": d.loose, "decoded": describe(q.Elem())}))
		return raw, false
	}
	for _, s := range d.strict {
		k.noteAsym(c.name, s)
	}
	raw2, ok2 := k.encode(c, q, ctx+"/re-encode")
	if ok2 && !bytes.Equal(raw2, raw) {
		r.Violation(c.name+":re-encoding-differs", desc(map[string]any{"re_encoding": hexClip(raw2)}))
		return raw, false
	}
	// foreign bytes behind the encoding: the decoder must stop at the end of its own encoding
	if end >= 0 && extraInfoPresent {
		var q2 reflect.Value
		var end2 int
		var err2 error
		if pv, pan := ev.Guard(func() { q2, end2, err2 = c.dec(buf, 3) }); pan {
			r.Violation(c.name+".Deserialization:panic:well-formed-encoding", desc(map[string]any{"panic": fmt.Sprint(pv), "trailing": true}))
		} else if err2 != nil || end2 != 3+len(raw) {
			r.Violation(c.name+".Deserialization:reads-beyond-its-encoding", desc(map[string]any{"consumed": end2 - 3, "encoded": len(raw), "err": fmt.Sprint(err2)}))
		} else {
			var d2 diffs
			compare(want.Elem(), q2.Elem(), "", &d2)
			if len(d2.loose) > 0 {
				r.Violation(c.name+":decoded-value-differs", desc(map[string]any{"differences": d2.loose, "trailing": true}))
			}
		}
	}
	k.count(c.name, "roundtrip_ok")
	r.Class("roundtrip_ok")
	return raw, true
}

// canonical is oracle (b).
func (k *checker) canonical(c *codec, p reflect.Value, base []byte) {
	r := k.r
	var sites []mapSite
	copyWith(p, "", nil, &sites)
	nontrivial := false
	total := 1
	var perms [][][]int
	for _, s := range sites {
		if s.n > 4 {
			r.HarnessError("%s: generated map with %d entries (bound is 4)", c.name, s.n)
		}
		if s.n >= 2 {
			nontrivial = true
		}
		ps := permutations(s.n)
		perms = append(perms, ps)
		total *= len(ps)
	}
	if !nontrivial {
		return
	}
	// all combinations of insertion orders (mixed radix counter over the map sites)
	type variant struct {
		p     reflect.Value
		order string
	}
	variants := make([]variant, 0, total)
	for n := 0; n < total; n++ {
		choice := map[string][]int{}
		x := n
		var ords []string
		for i, s := range sites {
			pi := perms[i][x%len(perms[i])]
			x /= len(perms[i])
			choice[s.path] = pi
			ords = append(ords, fmt.Sprintf("%s:%v", s.path, pi))
		}
		q := copyWith(p, "", func(path string, n int) []int { return choice[path] }, nil)
		variants = append(variants, variant{q, strings.Join(ords, " ")})
	}
	var dec reflect.Value
	if q, _, err := c.dec(base, 0); err == nil {
		dec = q
	}
	iters := 0
	for rot := uint16(0); rot < 8; rot++ {
		type bad struct {
			order string
			got   []byte
		}
		var firstBad *bad
		var encs int64
		tr := maporder.Run(nil, rot, func() {
			for _, v := range variants {
				raw, err := c.enc(v.p)
				encs++
				if (err != nil || !bytes.Equal(raw, base)) && firstBad == nil {
					firstBad = &bad{v.order, append([]byte{}, raw...)}
				}
			}
			if dec.IsValid() {
				raw, err := c.enc(dec)
				encs++
				if (err != nil || !bytes.Equal(raw, base)) && firstBad == nil {
					firstBad = &bad{"(value built by the decoder)", append([]byte{}, raw...)}
				}
			}
		})
		iters += tr.Iterations
		k.canonEvals += encs
		r.Evals(int(encs))
		if firstBad != nil {
			r.Violation(c.name+":encoding-depends-on-map-order", map[string]any{"type": c.name, "value": describe(p.Elem()),
				"insertion_order": firstBad.order, "iteration_rotation": rot, "encoding_a": hexClip(base), "encoding_b": hexClip(firstBad.got)})
			k.count(c.name, "canonical_violated")
			return
		}
	}
	if iters == 0 {
		r.HarnessError("%s: encoder of a map-carrying record iterated no map under maporder control", c.name)
	}
	k.count(c.name, "canonical_ok")
	k.count(c.name, fmt.Sprintf("canonical_orders_max=%d", total))
	r.Class("canonical_ok")
}

type regime struct {
	net    uint32
	flag   bool
	height uint32
}

// own statement of the fork rule (constants written down here, not taken from the code under test)
func extraInfoOnWire(g regime) bool {
	fork := map[uint32]uint32{1: 2917744, 2: 1664798}[g.net]
	return !g.flag || g.height >= fork
}

func regimes() []regime {
	var out []regime
	for _, h := range []uint32{0, 1, 0xFFFFFFFF} {
		out = append(out, regime{0, true, h})
	}
	for _, h := range []uint32{0, 2917743, 2917744, 2917745, 0xFFFFFFFF} {
		out = append(out, regime{1, true, h})
	}
	for _, h := range []uint32{0, 1664797, 1664798, 1664799} {
		out = append(out, regime{2, true, h})
	}
	out = append(out, regime{1, false, 0}, regime{2, false, 1664797}, regime{0, false, 0}, regime{7, true, 0})
	return out
}

func setRegime(g regime) {
	config.DefConfig.P2PNode.NetworkId = g.net
	config.EXTRA_INFO_HEIGHT_FORK_CHECK = g.flag
	polyenv.GlobalHeight = g.height
}

// production: private net (chain id 0, fork height 0), fork check on
var production = regime{0, true, 0}

func mapSelfTest(r *ev.Run) int {
	m := map[string]int{}
	for i, s := range []string{"a", "b", "c", "d"} {
		m[s] = i
	}
	seen := map[string]bool{}
	for c := uint16(0); c < 8; c++ {
		var o string
		maporder.Run(nil, c, func() {
			for s := range m {
				o += s
			}
		})
		seen[o] = true
	}
	if len(seen) < 4 {
		r.HarnessError("maporder overlay inactive: %d distinct iteration orders of a 4-entry map over 8 rotations", len(seen))
	}
	return len(seen)
}

func main() {
	if len(os.Args) > 1 && os.Args[1] == childFlag {
		childMain(os.Args[2:])
		return
	}
	r := ev.Start("C04", "exploration")
	t0 := time.Now()
	genThorough = r.Thorough()
	buildTable()
	polyenv.InstallHeightLedger()
	// production: native/service.init() switches the fork check on. The driver does not link native/service (its
	// package initialisers cost seconds per child process); it reads the assignment from the source instead.
	if b, err := src.Read("native/service/init.go"); err != nil || !strings.Contains(string(b), "config.EXTRA_INFO_HEIGHT_FORK_CHECK = true") {
		r.Note("production_fork_check_flag", "native/service/init.go no longer sets EXTRA_INFO_HEIGHT_FORK_CHECK = true")
	}
	if config.GetExtraInfoHeight(1) != 2917744 || config.GetExtraInfoHeight(2) != 1664798 || config.GetExtraInfoHeight(0) != 0 {
		r.Note("extra_info_height_constants_changed", []uint32{config.GetExtraInfoHeight(0), config.GetExtraInfoHeight(1), config.GetExtraInfoHeight(2)})
	}
	setRegime(production)

	// ---- registry from the code
	found, half, allocSites, err := scanSources()
	if err != nil {
		r.HarnessError("source scan: %v", err)
	}
	var missing, stale []string
	inScan := map[string]bool{}
	for _, s := range found {
		inScan[s.Name] = true
		if table[s.Name] == nil {
			missing = append(missing, s.Name+" ("+s.File+")")
		}
	}
	for _, n := range tableOrder {
		if !inScan[n] {
			stale = append(stale, n)
		}
	}
	if len(missing) > 0 {
		r.HarnessError("codec types in the anchored files not covered by the driver's table: %v", missing)
	}
	if len(stale) > 0 {
		r.HarnessError("driver table entries without an encoder/decoder pair in the scanned files: %v", stale)
	}
	if len(half) > 0 {
		r.Note("types_with_only_one_codec_half", half)
	}
	distinctOrders := mapSelfTest(r)

	k := &checker{r: r, asym: map[string]map[string]int{}, perType: map[string]map[string]int{}}
	valuesPerType := map[string]int{}
	mapTypes := []string{}
	pairs := r.Thorough()
	defer func() {
		if x := recover(); x != nil {
			if s, ok := x.(string); ok && strings.HasPrefix(s, "c04 generator:") {
				r.HarnessError("%s", s)
			}
			panic(x)
		}
	}()
	for _, name := range tableOrder {
		c := table[name]
		if r.Expired() {
			r.Capped("in-process checks cut at " + name)
			break
		}
		vals := c.values(pairs)
		valuesPerType[name] = len(vals)
		// every leaf field must vary over the value set
		var elems []reflect.Value
		for _, p := range vals {
			elems = append(elems, p.Elem())
		}
		for path, n := range leafVariation(elems) {
			if n < 2 {
				r.HarnessError("%s: field %s never varies over the generated values", name, path)
			}
		}
		carriesMap := hasMap(c.typ, map[reflect.Type]bool{})
		if carriesMap {
			mapTypes = append(mapTypes, name)
		}
		// (e) receiver-state independence
		if c.regime {
			setRegime(production)
			k.receiverState(c, pairs, true, "net=0 flag=true height=0")
			pre := regime{1, true, 0}
			setRegime(pre)
			k.receiverState(c, false, extraInfoOnWire(pre), "net=1 flag=true height=0 (pre-fork)")
			setRegime(production)
		} else {
			k.receiverState(c, pairs, true, "")
		}
		for vi, p := range vals {
			if vi%64 == 0 && r.Expired() {
				r.Capped("in-process checks cut inside " + name)
				break
			}
			r.Case(fmt.Sprintf("%s/%d", name, vi))
			if c.regime {
				var onWire, offWire []byte
				for _, g := range regimes() {
					setRegime(g)
					present := extraInfoOnWire(g)
					raw, ok := k.roundTrip(c, deepCopy(p), fmt.Sprintf("net=%d flag=%v height=%d", g.net, g.flag, g.height), present)
					if !ok {
						continue
					}
					k.count(name, fmt.Sprintf("regime_extra_on_wire=%v", present))
					ref := &onWire
					if !present {
						ref = &offWire
					}
					if *ref == nil {
						*ref = raw
					} else if !bytes.Equal(*ref, raw) {
						r.Violation(name+":encoding-differs-within-one-fork-regime", map[string]any{"value": describe(p.Elem()), "regime": g, "a": hexClip(*ref), "b": hexClip(raw)})
					}
				}
				setRegime(production)
				// relation between the two regimes: the pre-fork bytes are the post-fork bytes without the trailing ExtraInfo
				if onWire != nil && offWire != nil {
					ex := p.Elem().FieldByName("ExtraInfo").Len()
					if !bytes.Equal(offWire, onWire[:len(onWire)-varBytesLen(ex)]) {
						r.Violation(name+":pre-fork-encoding-is-not-the-post-fork-encoding-minus-ExtraInfo", map[string]any{"value": describe(p.Elem()), "pre": hexClip(offWire), "post": hexClip(onWire)})
					}
					r.Class("regime_pair_checked")
				}
				if vi == 1 {
					r.Sample(map[string]any{"type": name, "value": describe(p.Elem()), "post_fork": hexClip(onWire), "pre_fork": hexClip(offWire)})
				}
				continue
			}
			raw, ok := k.roundTrip(c, deepCopy(p), "", true)
			if ok && carriesMap {
				k.canonical(c, p, raw)
			}
			if vi == 1 && (carriesMap || len(name)%5 == 0) {
				r.Sample(map[string]any{"type": name, "value": describe(p.Elem()), "encoding": hexClip(raw)})
			}
		}
	}
	storageItemMechanism(r)
	probes := domainProbes()
	inProcS := time.Since(t0).Seconds()

	// ---- malformed input, child processes
	cov := runMutations(r, k)
	cov["phase_seconds"] = map[string]float64{"in_process": inProcS, "child_processes": time.Since(t0).Seconds() - inProcS}

	var scannedNames []string
	for _, s := range found {
		scannedNames = append(scannedNames, s.Name)
	}
	rt, cn := 0, 0
	for _, m := range k.perType {
		rt += m["roundtrip_ok"]
		cn += m["canonical_ok"]
	}
	cov["rule"] = "registry = go/ast scan of the 13 anchored files + ripple/states.go + header_sync/ont/states.go (types with an encoder and a decoder method), " +
		"every type covered by the table; per type: zero / typical / max vector + every 1-deviation of the typical vector over the field-kind alphabets " +
		"(ints 0,1,0xFC,0xFD,0xFFFF,2^16,2^32-1,2^32,2^64-1; byte strings nil,empty,1,0xFC,0xFD bytes; strings incl. non-UTF8; addresses; big ints to 2^2023; slices 0..3; maps 0..4 entries)" +
		map[bool]string{false: "", true: " + every 2-deviation and 0xFFFF / 0x10000 byte strings"}[pairs] +
		"; receiver state: decode(encode(B)) into a receiver that decoded another instance A / failed on every truncation of A (fresh and after A) / decoded B already, " +
		"B over the whole value set + 2 colliding instances (maps with overlapping and disjoint key sets), A over zero / typical / max / colliding instances (thorough: all pairs)" +
		"; canonical: all insertion-order permutations (product over the record's maps) x 8 iteration rotations; side-chain records x 16 (net id, flag, height) regimes; " +
		"malformed: see mutation_* (child processes under ulimit -v 4000000)"
	cov["types_scanned"] = len(found)
	cov["types"] = scannedNames
	cov["values_per_type"] = valuesPerType
	cov["values_round_tripped"] = rt
	cov["map_carrying_types"] = mapTypes
	cov["map_values_checked_canonical"] = cn
	cov["canonical_encodings_compared"] = k.canonEvals
	cov["receiver_state_sequences"] = k.recvSeqs
	cov["receiver_state_sequences_with_a_failed_decode_before_B"] = k.recvFailed
	cov["maporder_distinct_orders_selftest"] = distinctOrders
	cov["per_type"] = k.perType
	cov["documented_asymmetries"] = k.asym
	cov["domain_probes_not_flagged"] = probes
	cov["alloc_sites_sized_by_a_variable_in_scope_files"] = allocSites
	cov["files_beyond_anchor_list"] = extraFiles
	cov["deliberately_excluded_types"] = []string{"none: every type with an encoder/decoder pair in the scanned files is in the table " +
		"(btc.CoinSelector has no codec; core/states.StateBase lives in state_base.go and is covered as the embedded part of StorageItem)"}
	r.Assume(
		"record invariants assumed for generated values: PeerPoolMap / ont.ConsensusPeers map key == item.PeerPubkey (every writer keeps it, the decoder re-establishes it); nested pointers and *big.Int non-nil, big ints non-negative (the encoders dereference / write the magnitude; see domain_probes_not_flagged)",
		"equality is structural with nil == empty for slices and maps (the wire form cannot tell them apart); each such case is counted under documented_asymmetries",
		"side-chain records: in the pre-fork regime (fork check on, height < EXTRA_INFO_HEIGHT of the network) ExtraInfo is not part of the wire form; the round trip there is stated modulo ExtraInfo and the regime dependence on the GLOBAL ledger height is recorded (DESIGN §6 F13), not flagged",
		"a mutated input that decodes successfully is not a violation unless it is a strict truncation of a valid encoding or the accepted value itself fails to round trip",
		"maps of at most 4 entries: one runtime bucket, so the 8 rotations x all insertion orders are all iteration orders the Go 1.23 runtime can produce")
	if r.NViolations() == 0 && len(cov["caps_hit_local"].([]string)) == 0 {
		r.Require("roundtrip_ok", "canonical_ok", "regime_pair_checked", "mutant_accepted", "mutant_clean_error", "storage_item_ok",
			"receiver_state_checked", "receiver_state_after_failed_decode")
	}
	delete(cov, "caps_hit_local")
	r.Finish(cov)
}

// GenRawStorageItem / GetValueFromRawStorageItem (core/states): the mechanism every native record goes through.
func storageItemMechanism(r *ev.Run) {
	for _, v := range alphabet(tBytes, 0) {
		val := v.Bytes()
		r.Eval()
		var raw, got []byte
		var err error
		if pv, pan := ev.Guard(func() {
			raw = cstates.GenRawStorageItem(val)
			got, err = cstates.GetValueFromRawStorageItem(raw)
		}); pan {
			r.Violation("core/states.GenRawStorageItem:panic", map[string]any{"value_len": len(val), "panic": fmt.Sprint(pv)})
			continue
		}
		item := cstates.StorageItem{Value: val}
		if err != nil || !bytes.Equal(got, val) || !bytes.Equal(raw, item.ToArray()) {
			r.Violation("core/states.GetValueFromRawStorageItem:round-trip", map[string]any{"value": hexClip(val), "raw": hexClip(raw), "err": fmt.Sprint(err)})
			continue
		}
		r.Class("storage_item_ok")
	}
}

// domainProbes documents what happens OUTSIDE the value domain the round trip is stated for (not flagged).
func domainProbes() map[string]string {
	out := map[string]string{}
	names := append([]string{}, tableOrder...)
	sort.Strings(names)
	for _, name := range names {
		c := table[name]
		if c.typ.Kind() != reflect.Struct {
			continue
		}
		for i := 0; i < c.typ.NumField(); i++ {
			f := c.typ.Field(i)
			switch {
			case f.Type == tBigPtr:
				p := reflect.New(c.typ)
				p.Elem().Set(deepCopy(typical(c.typ, 1)))
				p.Elem().Field(i).Set(rv(big.NewInt(-5)))
				res := "?"
				if pv, pan := ev.Guard(func() {
					raw, _ := c.enc(p)
					q, _, err := c.dec(raw, 0)
					if err != nil {
						res = "rejected: " + err.Error()
						return
					}
					res = "decodes as " + q.Elem().Field(i).Interface().(*big.Int).String() + " (sign is not on the wire)"
				}); pan {
					res = "panic: " + fmt.Sprint(pv)
				}
				out[name+"."+f.Name+"=-5"] = res
				p.Elem().Field(i).Set(reflect.Zero(f.Type))
				_, pan := ev.Guard(func() { c.enc(p) })
				out[name+"."+f.Name+"=nil"] = map[bool]string{true: "Serialization panics (nil *big.Int)", false: "encodes"}[pan]
			case f.Type.Kind() == reflect.Ptr:
				p := reflect.New(c.typ)
				p.Elem().Set(deepCopy(typical(c.typ, 1)))
				p.Elem().Field(i).Set(reflect.Zero(f.Type))
				_, pan := ev.Guard(func() { c.enc(p) })
				out[name+"."+f.Name+"=nil"] = map[bool]string{true: "Serialization panics (nil pointer)", false: "encodes"}[pan]
			}
		}
	}
	return out
}
