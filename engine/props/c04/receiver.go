// Oracle (e): the decoded value does not depend on the state of the receiver. For every type, decode(encode(B)) into
//   - a receiver that previously decoded another instance A (non-empty maps / slices / pointers),
//   - a receiver on which a previous decode of truncated bytes of A FAILED (fresh, and after a successful decode of A),
//   - the same receiver twice,
//
// must give a value deep-equal to B that re-encodes to encode(B) byte for byte (no residue of A, no duplication).
// (The fresh zero-value receiver is oracle (a).) Production code does hand non-fresh receivers to decoders, e.g.
// side_chain_manager.GetRippleExtraInfo pre-allocates Pks, signature_manager.getSigInfo pre-allocates the map.
package main

import (
	"bytes"
	"fmt"
	"reflect"

	"verif.local/engine/ev"
	"verif.local/engine/lib/maporder"
)

type inst struct {
	p    reflect.Value // *T, pristine
	raw  []byte
	want reflect.Value // expected decoded value (documented normal form applied)
	ok   bool          // a fresh receiver accepts raw
}

func (k *checker) mkInst(c *codec, p reflect.Value, extraInfoPresent bool) (inst, bool) {
	var raw []byte
	var err error
	if _, pan := ev.Guard(func() { raw, err = c.enc(deepCopy(p)) }); pan || err != nil {
		return inst{}, false // reported by oracle (a)
	}
	raw = append([]byte{}, raw...)
	want := deepCopy(p)
	if c.canon != nil {
		c.canon(want.Interface())
	}
	if !extraInfoPresent {
		f := want.Elem().FieldByName("ExtraInfo")
		f.Set(reflect.Zero(f.Type()))
	}
	in := inst{p: p, raw: raw, want: want}
	if _, pan := ev.Guard(func() {
		q, _, derr := c.dec(append([]byte{}, raw...), 0)
		if derr == nil {
			var d diffs
			compare(want.Elem(), q.Elem(), "", &d)
			in.ok = len(d.loose) == 0
		}
	}); pan {
		in.ok = false
	}
	return in, true
}

func truncationPoints(n int) []int {
	var out []int
	if n <= 96 {
		for t := 0; t < n; t++ {
			out = append(out, t)
		}
		return out
	}
	for i := 0; i < 32; i++ {
		out = append(out, i*n/32)
	}
	return append(out, n-1)
}

func (k *checker) receiverState(c *codec, thorough bool, extraInfoPresent bool, ctx string) {
	r := k.r
	var bset, aset, small []inst
	base := c.values(false)
	alts := c.alts()
	for _, p := range append(append([]reflect.Value{}, base...), alts...) {
		if in, ok := k.mkInst(c, p, extraInfoPresent); ok {
			bset = append(bset, in)
		}
	}
	pick := func(ps []reflect.Value) []inst {
		var out []inst
		for _, p := range ps {
			if in, ok := k.mkInst(c, p, extraInfoPresent); ok {
				out = append(out, in)
			}
		}
		return out
	}
	rich := alts // typical vector + the two colliding instances
	if len(base) > 1 {
		rich = append([]reflect.Value{base[1]}, alts...)
	}
	if thorough {
		aset = bset
	} else {
		n := 3
		if len(base) < n {
			n = len(base)
		}
		aset = pick(append(append([]reflect.Value{}, base[:n]...), alts...))
	}
	small = aset
	richA := pick(rich)
	if thorough {
		small = bset
	}

	// one decode of b.raw into recv, then the verdict
	verdict := func(recv reflect.Value, b *inst, how string, a *inst, extra map[string]any) bool {
		var err error
		pv, pan := ev.Guard(func() { _, err = c.decInto(recv, append([]byte{}, b.raw...), 0) })
		detail := func(m map[string]any) map[string]any {
			m["type"], m["ctx"] = c.name, ctx
			m["instance_B"], m["encoding_B"] = describe(b.p.Elem()), hexClip(b.raw)
			if a != nil {
				m["instance_A"], m["encoding_A"] = describe(a.p.Elem()), hexClip(a.raw)
			}
			for x, y := range extra {
				m[x] = y
			}
			return m
		}
		key := c.name + ".Deserialization:receiver-state-leaks:" + how
		if pan {
			r.Violation(c.name+".Deserialization:panic:non-fresh-receiver", detail(map[string]any{"panic": fmt.Sprint(pv), "how": how}))
			return false
		}
		if err != nil {
			r.Violation(key, detail(map[string]any{"err": "B rejected by a non-fresh receiver: " + err.Error()}))
			return false
		}
		var d diffs
		compare(b.want.Elem(), recv.Elem(), "", &d)
		if len(d.loose) > 0 {
			r.Violation(key, detail(map[string]any{"differences": d.loose, "receiver_after_decoding_B": describe(recv.Elem())}))
			return false
		}
		var raw2 []byte
		var eerr error
		if pv, pan := ev.Guard(func() { raw2, eerr = c.enc(recv) }); pan || eerr != nil || !bytes.Equal(raw2, b.raw) {
			r.Violation(key, detail(map[string]any{"re_encoding": hexClip(raw2), "panic": fmt.Sprint(pv), "err": fmt.Sprint(eerr)}))
			return false
		}
		return true
	}
	decodeA := func(recv reflect.Value, a *inst, data []byte) (err error, panicked bool) {
		_, panicked = ev.Guard(func() { _, err = c.decInto(recv, append([]byte{}, data...), 0) })
		return
	}
	var seqs, failedDecodes int
	dead := map[string]bool{} // a failing way of preparing the receiver is reported once per type
	try := func(recv reflect.Value, b *inst, how string, a *inst, extra map[string]any) {
		if dead[how] {
			return
		}
		seqs++
		if !verdict(recv, b, how, a, extra) {
			dead[how] = true
		}
	}
	maporder.Run(nil, 0, func() {
		// (b) after another instance, (d) the same bytes twice
		for bi := range bset {
			b := &bset[bi]
			if !b.ok {
				continue
			}
			for ai := range aset {
				a := &aset[ai]
				recv := reflect.New(c.typ)
				if err, pan := decodeA(recv, a, a.raw); pan {
					continue // oracle (a) / (d) report panics of the decoder itself
				} else if err != nil {
					failedDecodes++ // A is refused by decoder validation: the receiver may be partially filled
				}
				try(recv, b, "after-decoding-another-instance", a, nil)
			}
			recv := reflect.New(c.typ)
			if err, pan := decodeA(recv, b, b.raw); !pan && err == nil {
				try(recv, b, "decoding-the-same-bytes-twice", nil, nil)
			}
		}
		// (c) after a FAILED decode of truncated bytes of A: into a fresh receiver, and into one that holds A
		for ai := range richA {
			a := &richA[ai]
			for _, t := range truncationPoints(len(a.raw)) {
				cut := a.raw[:t:t]
				for bi := range small {
					b := &small[bi]
					if !b.ok {
						continue
					}
					for _, afterA := range []bool{false, true} {
						recv := reflect.New(c.typ)
						how := "after-a-failed-decode"
						if afterA {
							if err, pan := decodeA(recv, a, a.raw); pan || err != nil {
								continue
							}
							how = "after-a-decode-then-a-failed-decode"
						}
						err, pan := decodeA(recv, a, cut)
						if pan {
							continue
						}
						if err == nil {
							continue // documented accepted truncation (ExtraInfo tail): then it is case (b)
						}
						failedDecodes++
						try(recv, b, how, a, map[string]any{"failed_input": hexClip(cut), "failed_input_is": fmt.Sprintf("encoding_A truncated to %d of %d bytes", t, len(a.raw))})
					}
				}
			}
		}
	})
	r.Evals(seqs)
	if k.perType[c.name] == nil {
		k.perType[c.name] = map[string]int{}
	}
	k.perType[c.name]["receiver_state_sequences"] += seqs
	k.perType[c.name]["receiver_state_failed_decodes_before_B"] += failedDecodes
	k.recvSeqs += int64(seqs)
	k.recvFailed += int64(failedDecodes)
	if seqs > 0 {
		r.Class("receiver_state_checked")
	}
	if failedDecodes > 0 {
		r.Class("receiver_state_after_failed_decode")
	}
}
