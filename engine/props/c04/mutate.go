// Oracle (d): malformed inputs, executed in child processes (`ulimit -v 4000000` + timeout; re-exec of this binary).
//
// The parent and every child enumerate the same deterministic case list; child k of n handles the indices i%n == k.
// Protocol on the child's stdout, per case: "S <i>" BEFORE the decoder runs (so that a fatal runtime error, which
// recover cannot catch, can be blamed on the right case), then "A" (accepted) | "E" (clean error) |
// "P <msg>\t<innermost repo frame>" (recovered panic), optionally "N <note>" (oracle failure on an accepted input);
// "DONE" at the end. A child that dies is restarted behind the case it died on.
package main

import (
	"bufio"
	"bytes"
	"fmt"
	"os"
	"os/exec"
	"reflect"
	"runtime"
	"runtime/debug"
	"sort"
	"strconv"
	"strings"
	"sync"

	"verif.local/engine/ev"
	"verif.local/engine/lib/maporder"
	"verif.local/engine/polyenv"
)

const childFlag = "--c04-child"

type object struct {
	c     *codec
	label string
	p     reflect.Value
	b     []byte
}

// mcase is one mutation of one object's encoding (the struct is reused by the enumeration; copy it to keep it).
type mcase struct {
	obj   int
	class string // trunc | byte | varuint | u64 | varuint+cut | u64+cut
	off   int
	w     int // width of the replaced var-uint
	rep   byte
	bv    bigv
	b     []byte
}

func (m *mcase) build() []byte {
	b := m.b
	switch m.class {
	case "trunc":
		return b[:m.off:m.off]
	case "byte":
		x := append([]byte{}, b...)
		x[m.off] = m.rep
		return x
	case "varuint":
		return splice(b, m.off, m.w, varuint(m.bv.v))
	case "varuint+cut":
		return splice(b[:m.off+m.w], m.off, m.w, varuint(m.bv.v))
	case "u64":
		return splice(b, m.off, 8, u64le(m.bv.v))
	case "u64+cut":
		return splice(b[:m.off+8], m.off, 8, u64le(m.bv.v))
	}
	panic("bad class")
}

func (m *mcase) what() string {
	switch m.class {
	case "trunc":
		return fmt.Sprintf("truncate to %d of %d bytes", m.off, len(m.b))
	case "byte":
		return fmt.Sprintf("byte@%d=%#02x", m.off, m.rep)
	case "varuint":
		return fmt.Sprintf("var-uint@%d=%s", m.off, m.bv.name)
	case "varuint+cut":
		return fmt.Sprintf("var-uint@%d=%s, cut behind it", m.off, m.bv.name)
	case "u64":
		return fmt.Sprintf("u64@%d=%s", m.off, m.bv.name)
	}
	return fmt.Sprintf("u64@%d=%s, cut behind it", m.off, m.bv.name)
}

// objects: representative encodings of every type (production regime). quick: zero / typical / max vector (+ the
// type's hand-written extras); thorough: every value of the 1-deviation set. Long byte strings stop at 0xFD bytes.
func objects(thorough bool) []object {
	saved := genThorough
	genThorough = false
	defer func() { genThorough = saved }()
	setRegime(production)
	var out []object
	for _, name := range tableOrder {
		c := table[name]
		vals := c.values(false)
		seen := map[string]bool{}
		for vi, p := range vals {
			if !thorough && vi > 2 && vi < len(vals)-extraCount(c) {
				continue
			}
			var raw []byte
			var err error
			// map iteration pinned: parent and children must derive the same case list even from an order-dependent encoder
			if _, pan := ev.Guard(func() { maporder.Run(nil, 0, func() { raw, err = c.enc(deepCopy(p)) }) }); pan || err != nil {
				continue // reported by the in-process part
			}
			if seen[string(raw)] {
				continue
			}
			seen[string(raw)] = true
			out = append(out, object{c, fmt.Sprintf("%s#%d", name, vi), p, append([]byte{}, raw...)})
		}
	}
	return out
}

func extraCount(c *codec) int {
	if c.extra == nil {
		return 0
	}
	return len(c.extra())
}

func varuint(v uint64) []byte {
	switch {
	case v < 0xFD:
		return []byte{byte(v)}
	case v <= 0xFFFF:
		return []byte{0xFD, byte(v), byte(v >> 8)}
	case v <= 0xFFFFFFFF:
		return []byte{0xFE, byte(v), byte(v >> 8), byte(v >> 16), byte(v >> 24)}
	}
	b := []byte{0xFF, 0, 0, 0, 0, 0, 0, 0, 0}
	for i := 0; i < 8; i++ {
		b[1+i] = byte(v >> (8 * uint(i)))
	}
	return b
}

func u64le(v uint64) []byte {
	b := make([]byte, 8)
	for i := 0; i < 8; i++ {
		b[i] = byte(v >> (8 * uint(i)))
	}
	return b
}

type bigv struct {
	v    uint64
	name string
}

func bigValues(rem int) [7]bigv {
	return [7]bigv{{uint64(rem) + 1, "remaining+1"}, {0xFFFF, "0xFFFF"}, {1 << 32, "2^32"}, {1 << 40, "2^40"}, {1 << 62, "2^62"}, {1 << 63, "2^63"}, {^uint64(0), "2^64-1"}}
}

func splice(b []byte, off, width int, repl []byte) []byte {
	out := make([]byte, 0, len(b)+9)
	out = append(out, b[:off]...)
	out = append(out, repl...)
	return append(out, b[off+width:]...)
}

// forEachCase: the whole 1-deviation space. Count / length prefixes are not located by a reference parser: the splice
// is applied AT EVERY OFFSET (to the var-uint that starts there as the decoder would read it, and to the 8 bytes there
// as a u64), which is a superset of the real prefix positions; each splice also with the input cut right behind it
// (the shortest reproduction of an unchecked count).
func forEachCase(objs []object, f func(i int, c *mcase)) int {
	i := 0
	var m mcase
	emit := func() { f(i, &m); i++ }
	var widths [256]int
	for x := range widths {
		widths[x] = 1
	}
	widths[0xFD], widths[0xFE], widths[0xFF] = 3, 5, 9
	for oi := range objs {
		b := objs[oi].b
		L := len(b)
		for t := 0; t < L; t++ {
			m = mcase{obj: oi, class: "trunc", off: t, b: b}
			emit()
		}
		for off := 0; off < L; off++ {
			for _, rep := range [4]byte{b[off] ^ 0x01, b[off] ^ 0x80, 0x00, 0xFF} {
				if rep == b[off] {
					continue
				}
				m = mcase{obj: oi, class: "byte", off: off, rep: rep, b: b}
				emit()
			}
			if w := widths[b[off]]; off+w <= L {
				for _, bv := range bigValues(L - off - w) {
					m = mcase{obj: oi, class: "varuint", off: off, w: w, bv: bv, b: b}
					emit()
					if bv.name != "remaining+1" {
						m = mcase{obj: oi, class: "varuint+cut", off: off, w: w, bv: bv, b: b}
						emit()
					}
				}
			}
			if off+8 <= L {
				for _, bv := range bigValues(L - off - 8) {
					if bv.name == "0xFFFF" || bv.name == "2^63" {
						continue
					}
					m = mcase{obj: oi, class: "u64", off: off, bv: bv, b: b}
					emit()
					if bv.name != "remaining+1" {
						m = mcase{obj: oi, class: "u64+cut", off: off, bv: bv, b: b}
						emit()
					}
				}
			}
		}
	}
	return i
}

func repoFrame(stack string) string {
	for _, ln := range strings.Split(stack, "\n") {
		ln = strings.TrimSpace(ln)
		if strings.HasPrefix(ln, "github.com/polynetwork/poly/") {
			if i := strings.LastIndex(ln, "("); i > 0 {
				ln = ln[:i]
			}
			ln = strings.TrimPrefix(ln, "github.com/polynetwork/poly/")
			ln = strings.TrimPrefix(ln, "native/service/")
			return strings.TrimPrefix(ln, "governance/")
		}
	}
	return ""
}

func childSetup() {
	buildTable()
	polyenv.InstallHeightLedger()
	setRegime(production)
}

// decodeMutant runs the real decoder on a mutated input; for an accepted input it also checks that the accepted value
// round trips (encode, decode again, equal) and that a strict truncation is not accepted.
func decodeMutant(o *object, mc *mcase, in []byte) (accepted bool, note string) {
	c := o.c
	q, _, err := c.dec(in, 0)
	if err != nil {
		return false, ""
	}
	if mc.class == "trunc" {
		if c.truncOK == nil || !c.truncOK(o.p.Interface(), o.b, mc.off) {
			note = "truncated-input-accepted"
		} else {
			note = "info:truncation-inside-ExtraInfo-tail-accepted(documented)"
		}
	}
	want := deepCopy(q)
	raw, eerr := c.enc(q)
	if eerr != nil {
		return true, "accepted-value-cannot-be-encoded"
	}
	if c.canon != nil {
		c.canon(want.Interface())
	}
	q2, _, err2 := c.dec(append([]byte{}, raw...), 0)
	if err2 != nil {
		return true, "accepted-value-does-not-round-trip"
	}
	var d diffs
	compare(want.Elem(), q2.Elem(), "", &d)
	if len(d.loose) > 0 {
		return true, "accepted-value-does-not-round-trip"
	}
	return true, note
}

func atoi(s string) int { v, _ := strconv.Atoi(s); return v }

func childMain(args []string) {
	tier, k, n, from := args[0], atoi(args[1]), atoi(args[2]), atoi(args[3])
	debug.SetMemoryLimit(3 << 30)
	debug.SetGCPercent(400)
	runtime.GOMAXPROCS(2) // single-threaded work; 8 children x 16 GC workers only thrash a shared machine
	childSetup()
	objs := objects(tier == "thorough")
	w := bufio.NewWriterSize(os.Stdout, 1<<16)
	forEachCase(objs, func(i int, mc *mcase) {
		if i%n != k || i < from {
			return
		}
		fmt.Fprintf(w, "S %d\n", i)
		w.Flush() // the marker must be out before a fatal runtime error can kill the process
		in := append([]byte{}, mc.build()...)
		var ok bool
		var note string
		var pmsg, frame string
		func() {
			defer func() {
				if x := recover(); x != nil {
					pmsg = strings.ReplaceAll(fmt.Sprint(x), "\n", " ")
					frame = repoFrame(string(debug.Stack()))
					if pmsg == "" {
						pmsg = "panic"
					}
				}
			}()
			ok, note = decodeMutant(&objs[mc.obj], mc, in)
		}()
		switch {
		case pmsg != "":
			fmt.Fprintf(w, "P %s\t%s\n", pmsg, frame)
		case ok:
			w.WriteString("A\n")
		default:
			w.WriteString("E\n")
		}
		if note != "" {
			fmt.Fprintf(w, "N %s\n", note)
		}
	})
	w.WriteString("DONE\n")
	w.Flush()
}

type childEvent struct {
	idx    int
	class  string // panic | fatal-oom | fatal | timeout | note | harness
	detail string
	frame  string
}

type shardStats struct {
	acc, rej map[int]int // per object index
}

func runShard(tier string, k, n, total int, out chan<- childEvent, st *shardStats, caseObj []int32) {
	from := 0
	self, _ := os.Executable()
	for restarts := 0; restarts < 5000; restarts++ {
		cmd := exec.Command("bash", "-c", `ulimit -v 4000000; exec timeout -s KILL 1200 "$0" "$@"`, self, childFlag, tier, strconv.Itoa(k), strconv.Itoa(n), strconv.Itoa(from))
		var stderr bytes.Buffer
		cmd.Stderr = &stderr
		stdout, err := cmd.StdoutPipe()
		if err != nil || cmd.Start() != nil {
			out <- childEvent{idx: -1, class: "harness", detail: "cannot start child"}
			return
		}
		last, done := -1, false
		sc := bufio.NewScanner(stdout)
		sc.Buffer(make([]byte, 1<<20), 1<<20)
		for sc.Scan() {
			ln := sc.Text()
			switch {
			case strings.HasPrefix(ln, "S "):
				last = atoi(ln[2:])
				if last >= len(caseObj) {
					out <- childEvent{idx: -1, class: "harness", detail: "child enumerates a different case list than the parent"}
					cmd.Process.Kill()
					cmd.Wait()
					return
				}
			case ln == "A":
				st.acc[int(caseObj[last])]++
			case ln == "E":
				st.rej[int(caseObj[last])]++
			case strings.HasPrefix(ln, "P "):
				f := strings.SplitN(ln[2:], "\t", 2)
				fr := ""
				if len(f) > 1 {
					fr = f[1]
				}
				out <- childEvent{last, "panic", f[0], fr}
			case strings.HasPrefix(ln, "N "):
				out <- childEvent{last, "note", ln[2:], ""}
			case ln == "DONE":
				done = true
			}
		}
		werr := cmd.Wait()
		if done {
			return
		}
		se := stderr.String()
		class := "fatal"
		first := strings.SplitN(strings.TrimSpace(se), "\n", 2)[0]
		switch {
		case strings.Contains(se, "out of memory") || strings.Contains(se, "cannot allocate memory"):
			class = "fatal-oom"
		case werr != nil && strings.Contains(werr.Error(), "killed"):
			class = "timeout"
		}
		if last < 0 {
			out <- childEvent{idx: -1, class: "harness", detail: "child died before its first case: " + first}
			return
		}
		out <- childEvent{last, class, first, repoFrame(se)}
		from = last + 1
		if from >= total {
			return
		}
	}
	out <- childEvent{idx: -1, class: "harness", detail: "too many child restarts"}
}

var mutationsCapped bool

func runMutations(r *ev.Run, k *checker) map[string]any {
	thorough := r.Thorough()
	objs := objects(thorough)
	perClass := map[string]int{}
	var caseObj []int32
	total := forEachCase(objs, func(i int, c *mcase) {
		perClass[c.class]++
		caseObj = append(caseObj, int32(c.obj))
	})
	n := runtime.NumCPU()
	if n > 8 {
		n = 8
	}
	events := make(chan childEvent, 4096)
	stats := make([]*shardStats, n)
	var wg sync.WaitGroup
	for s := 0; s < n; s++ {
		stats[s] = &shardStats{map[int]int{}, map[int]int{}}
		wg.Add(1)
		go func(s int) {
			defer wg.Done()
			runShard(r.Tier, s, n, total, events, stats[s], caseObj)
		}(s)
	}
	go func() { wg.Wait(); close(events) }()
	byIdx := map[int][]childEvent{}
	for e := range events {
		if e.class == "harness" {
			r.HarnessError("mutation child: %s", e.detail)
		}
		byIdx[e.idx] = append(byIdx[e.idx], e)
	}
	// per-type outcome matrix
	var acc, rej int64
	for _, st := range stats {
		for oi, v := range st.acc {
			if k.perType[objs[oi].c.name] == nil {
				k.perType[objs[oi].c.name] = map[string]int{}
			}
			k.perType[objs[oi].c.name]["mutant_accepted"] += v
			acc += int64(v)
		}
		for oi, v := range st.rej {
			if k.perType[objs[oi].c.name] == nil {
				k.perType[objs[oi].c.name] = map[string]int{}
			}
			k.perType[objs[oi].c.name]["mutant_clean_error"] += v
			rej += int64(v)
		}
	}
	// second pass over the deterministic case list: attach inputs, group by violation key, keep the shortest input
	type agg struct {
		count   int
		input   []byte
		desc    map[string]any
		samples []string
	}
	groups := map[string]*agg{}
	counts := map[string]int{}
	forEachCase(objs, func(i int, mc *mcase) {
		for _, e := range byIdx[i] {
			o := &objs[mc.obj]
			name := o.c.name
			if e.class == "note" && strings.HasPrefix(e.detail, "info:") { // informational outcome class, not a failure
				r.Class(e.detail[5:])
				k.count(name, e.detail[5:])
				continue
			}
			counts[e.class]++
			r.Class("mutant_" + e.class)
			k.count(name, "mutant_"+e.class)
			var key string
			if e.class == "note" {
				key = name + ".Deserialization:" + e.detail
			} else {
				key = name + ".Deserialization:" + e.class
			}
			in := mc.build()
			g := groups[key]
			if g == nil {
				g = &agg{}
				groups[key] = g
			}
			g.count++
			if len(g.samples) < 6 {
				g.samples = append(g.samples, fmt.Sprintf("%s: %s (%s)", o.label, mc.what(), clip(e.detail)))
			}
			if g.input == nil || len(in) < len(g.input) {
				g.input = append([]byte{}, in...)
				g.desc = map[string]any{"type": name, "object": o.label, "object_value": describe(o.p.Elem()), "object_encoding": hexClip(o.b),
					"mutation": mc.what(), "input_hex": fmt.Sprintf("%x", clipN(in, 4096)), "input_len": len(in), "child_says": e.detail, "innermost_repo_frame": e.frame,
					"how": "decoded by the real decoder in a child process under `ulimit -v 4000000`; panic = recovered runtime panic, fatal-oom = process killed by the Go runtime (not recoverable); there is no recover() on the transaction execution path"}
			}
		}
	})
	keys := make([]string, 0, len(groups))
	for key := range groups {
		keys = append(keys, key)
	}
	sort.Strings(keys)
	for _, key := range keys {
		g := groups[key]
		g.desc["failing_cases"] = g.count
		g.desc["more_cases"] = g.samples
		r.Violation(key, g.desc)
	}
	r.Evals(total)
	if acc > 0 {
		r.Class("mutant_accepted")
	}
	if rej > 0 {
		r.Class("mutant_clean_error")
	}
	caps := []string{}
	return map[string]any{"mutation_cases": total, "mutation_cases_by_class": perClass, "mutant_decodes_accepted": acc, "mutant_decodes_clean_error": rej,
		"mutant_failures": counts, "mutation_objects": len(objs), "child_processes": n, "caps_hit_local": caps}
}

func clipN(b []byte, n int) []byte {
	if len(b) > n {
		return b[:n]
	}
	return b
}
