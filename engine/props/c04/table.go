// The driver's table of record / parameter types: one entry per type found by the source scan (scan.go).
// Values come from the per-field-kind alphabets (gen.go); the hooks below state, per type, the record invariants the
// production code maintains and the documented encoder/decoder asymmetries.
package main

import (
	"bytes"
	"fmt"
	"reflect"
	"sort"

	"github.com/polynetwork/poly/common"
	cstates "github.com/polynetwork/poly/core/states"
	"github.com/polynetwork/poly/native/service/cross_chain_manager/btc"
	ccmcom "github.com/polynetwork/poly/native/service/cross_chain_manager/common"
	"github.com/polynetwork/poly/native/service/cross_chain_manager/consensus_vote"
	"github.com/polynetwork/poly/native/service/cross_chain_manager/ripple"
	"github.com/polynetwork/poly/native/service/governance/neo3_state_manager"
	"github.com/polynetwork/poly/native/service/governance/node_manager"
	"github.com/polynetwork/poly/native/service/governance/relayer_manager"
	"github.com/polynetwork/poly/native/service/governance/side_chain_manager"
	"github.com/polynetwork/poly/native/service/governance/signature_manager"
	hscom "github.com/polynetwork/poly/native/service/header_sync/common"
	"github.com/polynetwork/poly/native/service/header_sync/ont"
	nstates "github.com/polynetwork/poly/native/states"
)

type codec struct {
	name string       // "<package dir, shortened>.<Type>" — the key produced by the source scan
	typ  reflect.Type // T
	// enc runs the real encoder on p (*T); dec runs the real decoder on buf starting at off and reports the offset
	// behind the last byte it consumed (-1: the decoder takes a whole byte slice, no position)
	enc func(p reflect.Value) ([]byte, error)
	dec func(buf []byte, off int) (p reflect.Value, end int, err error)
	// decInto runs the real decoder with p (*T, in whatever state it is) as the receiver
	decInto func(p reflect.Value, buf []byte, off int) (end int, err error)

	fix     func(p any)                            // establish record invariants on a generated value
	baseFix func(p any)                            // applied to the typical vector before deviations
	rejects func(p any) string                     // the decoder validates: this encodable value is refused (documented)
	canon   func(p any)                            // normal form imposed by the encoder (documented)
	truncOK func(p any, full []byte, cut int) bool // documented accepted truncations
	regime  bool                                   // encoding depends on (network id, ledger height)
	extra   func() []any                           // additional hand-written values (*T)
}

var table = map[string]*codec{}
var tableOrder []string

type zc interface {
	Serialization(*common.ZeroCopySink)
	Deserialization(*common.ZeroCopySource) error
}
type zcE interface {
	Serialization(*common.ZeroCopySink) error
	Deserialization(*common.ZeroCopySource) error
}

func add(c *codec, opts []func(*codec)) {
	for _, o := range opts {
		o(c)
	}
	c.dec = func(buf []byte, off int) (reflect.Value, int, error) {
		p := reflect.New(c.typ) // fresh zero value
		end, err := c.decInto(p, buf, off)
		return p, end, err
	}
	if table[c.name] != nil {
		panic("duplicate table entry " + c.name)
	}
	table[c.name] = c
	tableOrder = append(tableOrder, c.name)
}

func std[T any, P interface {
	*T
	zc
}](pkg string, opts ...func(*codec)) {
	var z T
	t := reflect.TypeOf(z)
	add(&codec{name: pkg + "." + t.Name(), typ: t,
		enc: func(p reflect.Value) ([]byte, error) {
			sink := common.NewZeroCopySink(nil)
			P(p.Interface().(*T)).Serialization(sink)
			return sink.Bytes(), nil
		},
		decInto: func(p reflect.Value, buf []byte, off int) (int, error) {
			src := common.NewZeroCopySource(buf)
			src.Skip(uint64(off))
			err := P(p.Interface().(*T)).Deserialization(src)
			return int(src.Pos()), err
		}}, opts)
}

func stdE[T any, P interface {
	*T
	zcE
}](pkg string, opts ...func(*codec)) {
	var z T
	t := reflect.TypeOf(z)
	add(&codec{name: pkg + "." + t.Name(), typ: t,
		enc: func(p reflect.Value) ([]byte, error) {
			sink := common.NewZeroCopySink(nil)
			err := P(p.Interface().(*T)).Serialization(sink)
			return sink.Bytes(), err
		},
		decInto: func(p reflect.Value, buf []byte, off int) (int, error) {
			src := common.NewZeroCopySource(buf)
			src.Skip(uint64(off))
			err := P(p.Interface().(*T)).Deserialization(src)
			return int(src.Pos()), err
		}}, opts)
}

func varBytesLen(n int) int {
	switch {
	case n < 0xFD:
		return 1 + n
	case n <= 0xFFFF:
		return 3 + n
	case n <= 0xFFFFFFFF:
		return 5 + n
	}
	return 9 + n
}

func buildTable() {
	const (
		ccmc = "cross_chain_manager/common"
		hsc  = "header_sync/common"
		nm   = "node_manager"
		scm  = "side_chain_manager"
		rm   = "relayer_manager"
		neo3 = "neo3_state_manager"
		sigm = "signature_manager"
		cv   = "cross_chain_manager/consensus_vote"
		btcp = "cross_chain_manager/btc"
		rip  = "cross_chain_manager/ripple"
		ontp = "header_sync/ont"
	)
	// --- cross_chain_manager/common/param.go
	std[ccmcom.InitRedeemScriptParam](ccmc)
	std[ccmcom.EntranceParam](ccmc)
	std[ccmcom.MakeTxParam](ccmc)
	std[ccmcom.MultiSignParam](ccmc)
	std[ccmcom.ToMerkleValue](ccmc)
	std[ccmcom.BlackChainParam](ccmc)
	// MakeTxParamWithSender: Serialization() ([]byte, error) / Deserialization([]byte) error
	add(&codec{name: ccmc + ".MakeTxParamWithSender", typ: reflect.TypeOf(ccmcom.MakeTxParamWithSender{}),
		enc: func(p reflect.Value) ([]byte, error) {
			return p.Interface().(*ccmcom.MakeTxParamWithSender).Serialization()
		},
		decInto: func(p reflect.Value, buf []byte, off int) (int, error) {
			return -1, p.Interface().(*ccmcom.MakeTxParamWithSender).Deserialization(buf[off:])
		}}, nil)
	// --- header_sync/common/param.go
	std[hscom.SyncGenesisHeaderParam](hsc)
	std[hscom.SyncBlockHeaderParam](hsc)
	std[hscom.SyncCrossChainMsgParam](hsc)
	// --- governance/node_manager
	std[node_manager.RegisterPeerParam](nm)
	std[node_manager.PeerParam](nm)
	std[node_manager.PeerListParam](nm)
	std[node_manager.UpdateConfigParam](nm)
	std[node_manager.Status](nm)
	std[node_manager.BlackListItem](nm)
	std[node_manager.PeerPoolMap](nm, func(c *codec) {
		// invariant kept by every writer (and re-established by the decoder): map key == item.PeerPubkey
		c.fix = func(p any) {
			for k, it := range p.(*node_manager.PeerPoolMap).PeerPoolMap {
				it.PeerPubkey = k
			}
		}
	})
	std[node_manager.PeerPoolItem](nm)
	std[node_manager.GovernanceView](nm)
	std[node_manager.ConsensusSigns](nm)
	std[node_manager.Configuration](nm)
	// --- governance/side_chain_manager
	extraTail := func(extra []byte) func(full []byte, cut int) bool {
		return func(full []byte, cut int) bool { return cut >= len(full)-varBytesLen(len(extra)) }
	}
	stdE[side_chain_manager.RegisterSideChainParam](scm, func(c *codec) {
		c.regime = true
		c.rejects = func(p any) string {
			if p.(*side_chain_manager.RegisterSideChainParam).BlocksToWait == 0 {
				return "BlocksToWait==0"
			}
			return ""
		}
		c.truncOK = func(p any, full []byte, cut int) bool {
			return extraTail(p.(*side_chain_manager.RegisterSideChainParam).ExtraInfo)(full, cut)
		}
		c.extra = func() []any { return []any{&side_chain_manager.RegisterSideChainParam{BlocksToWait: 1}} }
	})
	std[side_chain_manager.ChainidParam](scm)
	std[side_chain_manager.RegisterRedeemParam](scm)
	std[side_chain_manager.BtcTxParamDetial](scm)
	std[side_chain_manager.BtcTxParam](scm)
	std[side_chain_manager.RegisterAssetParam](scm)
	std[side_chain_manager.AssetBind](scm)
	std[side_chain_manager.UpdateFeeParam](scm)
	stdE[side_chain_manager.SideChain](scm, func(c *codec) {
		c.regime = true
		c.truncOK = func(p any, full []byte, cut int) bool {
			return extraTail(p.(*side_chain_manager.SideChain).ExtraInfo)(full, cut)
		}
	})
	std[side_chain_manager.BindSignInfo](scm)
	std[side_chain_manager.ContractBinded](scm)
	std[side_chain_manager.Fee](scm)
	std[side_chain_manager.FeeInfo](scm)
	std[side_chain_manager.RippleExtraInfo](scm)
	// --- relayer / neo3 / signature / vote
	std[relayer_manager.RelayerListParam](rm)
	std[relayer_manager.ApproveRelayerParam](rm)
	std[neo3_state_manager.StateValidatorListParam](neo3)
	std[neo3_state_manager.ApproveStateValidatorParam](neo3)
	std[signature_manager.SigInfo](sigm)
	std[consensus_vote.VoteInfo](cv)
	// --- cross_chain_manager/btc/states.go
	std[btc.BtcProof](btcp)
	std[btc.Utxos](btcp)
	std[btc.Utxo](btcp)
	std[btc.OutPoint](btcp)
	std[btc.MultiSignInfo](btcp)
	std[btc.Args](btcp)
	std[btc.BtcFromInfo](btcp)
	// --- native/states/contract.go
	std[nstates.ContractInvokeParam]("native/states", func(c *codec) {
		c.rejects = func(p any) string {
			if p.(*nstates.ContractInvokeParam).Version > nstates.MAX_NATIVE_VERSION {
				return "Version>MAX_NATIVE_VERSION"
			}
			return ""
		}
		c.baseFix = func(p any) { p.(*nstates.ContractInvokeParam).Version = 0 }
	})
	// --- core/states/storage_item.go: Serialize(io.Writer) / Deserialize(io.Reader)
	add(&codec{name: "core/states.StorageItem", typ: reflect.TypeOf(cstates.StorageItem{}),
		enc: func(p reflect.Value) ([]byte, error) {
			var bb bytes.Buffer
			err := p.Interface().(*cstates.StorageItem).Serialize(&bb)
			return bb.Bytes(), err
		},
		decInto: func(p reflect.Value, buf []byte, off int) (int, error) {
			rd := bytes.NewReader(buf[off:])
			err := p.Interface().(*cstates.StorageItem).Deserialize(rd)
			return len(buf) - rd.Len(), err
		}}, nil)
	// --- included beyond the anchor list because they carry maps / sorted lists of the same kind
	std[ripple.MultisignInfo](rip)
	std[ripple.Signer](rip)
	std[ont.Peer](ontp)
	std[ont.KeyHeights](ontp, func(c *codec) {
		// Serialization sorts the caller's HeightList in place (descending) before writing it
		c.canon = func(p any) {
			h := p.(*ont.KeyHeights).HeightList
			sort.SliceStable(h, func(i, j int) bool { return h[i] > h[j] })
		}
	})
	std[ont.ConsensusPeers](ontp, func(c *codec) {
		c.fix = func(p any) {
			for k, it := range p.(*ont.ConsensusPeers).PeerMap {
				it.PeerPubkey = k
			}
		}
	})
}

// values returns the value set (as *T) of a type.
func (c *codec) values(pairs bool) []reflect.Value {
	var out []reflect.Value
	wrap := func(v reflect.Value) reflect.Value {
		p := reflect.New(c.typ)
		p.Elem().Set(v)
		if c.fix != nil {
			c.fix(p.Interface())
		}
		return p
	}
	var base func(reflect.Value)
	if c.baseFix != nil {
		base = func(v reflect.Value) {
			p := reflect.New(c.typ)
			p.Elem().Set(v)
			c.baseFix(p.Interface())
			v.Set(p.Elem())
		}
	}
	for _, v := range enumerate(c.typ, pairs, base) {
		out = append(out, wrap(v))
	}
	if c.extra != nil {
		for _, x := range c.extra() {
			out = append(out, reflect.ValueOf(x))
		}
	}
	return out
}

// alts: instances built to collide with / differ from the typical vector: other values in every field; maps with an
// overlapping key set (one shared key, different value) and with a disjoint key set.
func (c *codec) alts() []reflect.Value {
	var out []reflect.Value
	for _, a := range []struct{ salt, keyOff, n int }{{2, 2, 3}, {3, 3, 2}} {
		genKeyOffset, genMapN = a.keyOff, a.n
		v := deepCopy(typical(c.typ, a.salt))
		genKeyOffset, genMapN = 0, 3
		p := reflect.New(c.typ)
		p.Elem().Set(v)
		if c.baseFix != nil {
			c.baseFix(p.Interface())
		}
		if c.fix != nil {
			c.fix(p.Interface())
		}
		out = append(out, p)
	}
	return out
}

func (c *codec) String() string { return fmt.Sprintf("%s(%s)", c.name, c.typ) }
