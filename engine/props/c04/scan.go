// Source scan: the registry of codec types is rebuilt FROM THE CODE on every run (go/ast over the anchored files as the
// current build sees them, i.e. including killdemo mutants). A type with an encoder/decoder method pair that the
// driver's table does not cover is a harness error.
package main

import (
	"fmt"
	"go/ast"
	"go/parser"
	"go/token"
	"path/filepath"
	"sort"
	"strings"

	"verif.local/engine/lib/src"
)

var anchoredFiles = []string{
	"native/service/cross_chain_manager/common/param.go",
	"native/service/header_sync/common/param.go",
	"native/service/governance/node_manager/param.go",
	"native/service/governance/node_manager/states.go",
	"native/service/governance/side_chain_manager/param.go",
	"native/service/governance/side_chain_manager/states.go",
	"native/service/governance/relayer_manager/param.go",
	"native/service/governance/neo3_state_manager/param.go",
	"native/service/governance/signature_manager/states.go",
	"native/service/cross_chain_manager/consensus_vote/states.go",
	"native/service/cross_chain_manager/btc/states.go",
	"native/states/contract.go",
	"core/states/storage_item.go",
}

// not in the anchor list, included because they hold map-carrying / sorted records of the same family
var extraFiles = []string{
	"native/service/cross_chain_manager/ripple/states.go",
	"native/service/header_sync/ont/states.go",
}

type scanned struct {
	Name string `json:"name"`
	File string `json:"file"`
	Enc  string `json:"encoder"`
	Dec  string `json:"decoder"`
}

func shortDir(rel string) string {
	d := filepath.Dir(rel)
	d = strings.TrimPrefix(d, "native/service/")
	d = strings.TrimPrefix(d, "governance/")
	return d
}

func recvName(fd *ast.FuncDecl) string {
	if fd.Recv == nil || len(fd.Recv.List) != 1 {
		return ""
	}
	e := fd.Recv.List[0].Type
	if s, ok := e.(*ast.StarExpr); ok {
		e = s.X
	}
	if id, ok := e.(*ast.Ident); ok {
		return id.Name
	}
	return ""
}

// scanSources returns the codec types (both halves present), the half-codecs, and the allocation sites whose size is
// a variable (informational: the F16 family).
func scanSources() (full []scanned, half []string, allocSites []string, err error) {
	fset := token.NewFileSet()
	for _, rel := range append(append([]string{}, anchoredFiles...), extraFiles...) {
		p := src.Path(rel)
		if p == "" {
			return nil, nil, nil, fmt.Errorf("%s deleted by overlay", rel)
		}
		f, perr := parser.ParseFile(fset, p, nil, 0)
		if perr != nil {
			return nil, nil, nil, perr
		}
		enc, dec := map[string]string{}, map[string]string{}
		var order []string
		for _, d := range f.Decls {
			fd, ok := d.(*ast.FuncDecl)
			if !ok {
				continue
			}
			rn := recvName(fd)
			if rn != "" {
				switch fd.Name.Name {
				case "Serialization", "Serialize":
					if enc[rn] == "" && dec[rn] == "" {
						order = append(order, rn)
					}
					enc[rn] = fd.Name.Name
				case "Deserialization", "Deserialize":
					if enc[rn] == "" && dec[rn] == "" {
						order = append(order, rn)
					}
					dec[rn] = fd.Name.Name
				}
			}
			fn := fd.Name.Name
			if rn != "" {
				fn = rn + "." + fn
			}
			ast.Inspect(fd, func(n ast.Node) bool {
				ce, ok := n.(*ast.CallExpr)
				if !ok {
					return true
				}
				if id, ok := ce.Fun.(*ast.Ident); !ok || id.Name != "make" || len(ce.Args) < 2 {
					return true
				}
				for _, a := range ce.Args[1:] {
					if id, ok := a.(*ast.Ident); ok {
						allocSites = append(allocSites, fmt.Sprintf("%s.%s:%d make(.., %s)", shortDir(rel), fn, fset.Position(ce.Pos()).Line, id.Name))
						break
					}
				}
				return true
			})
		}
		for _, rn := range order {
			name := shortDir(rel) + "." + rn
			if enc[rn] != "" && dec[rn] != "" {
				full = append(full, scanned{name, rel, enc[rn], dec[rn]})
			} else {
				half = append(half, name)
			}
		}
	}
	sort.Strings(half)
	return
}
