// Value generator and equality, both driven by the Go type of the record (reflect) with one small hand-written
// boundary alphabet per FIELD KIND. A field kind without an alphabet is a harness error (a newly added field of an
// unknown kind cannot silently escape).
package main

import (
	"bytes"
	"fmt"
	"math"
	"math/big"
	"reflect"
	"sort"
	"strings"

	"github.com/polynetwork/poly/common"
)

var (
	tAddr   = reflect.TypeOf(common.Address{})
	tU256   = reflect.TypeOf(common.Uint256{})
	tBigPtr = reflect.TypeOf((*big.Int)(nil))
	tBytes  = reflect.TypeOf([]byte(nil))
)

var genThorough bool

// typical maps take genMapN keys of the key alphabet starting at genKeyOffset (changed only by codec.alts)
var genKeyOffset, genMapN = 0, 3

func pattern(n int, seed byte) []byte {
	b := make([]byte, n)
	for i := range b {
		b[i] = seed + byte(i*7)
	}
	return b
}

func rv(x any) reflect.Value { return reflect.ValueOf(x) }

// conv builds a value of type t (possibly a named type such as node_manager.Status) from a basic value.
func conv(t reflect.Type, x any) reflect.Value { return reflect.ValueOf(x).Convert(t) }

func arr(t reflect.Type, b []byte) reflect.Value {
	v := reflect.New(t).Elem()
	for i := 0; i < t.Len(); i++ {
		v.Index(i).SetUint(uint64(b[i%len(b)]))
	}
	return v
}

func unsupported(t reflect.Type) {
	panic(fmt.Sprintf("c04 generator: no alphabet for field kind %s", t))
}

// typical returns a value that is (a) valid, (b) different for different salts: two fields of the same kind in one
// record never carry the same typical value (so a decoder that swaps two fields is visible).
func typical(t reflect.Type, salt int) reflect.Value {
	s := uint64(salt)
	switch {
	case t == tBigPtr:
		return rv(new(big.Int).SetUint64(1000003*s + 77))
	case t == tBytes:
		return rv(pattern(2+salt%4, byte(0x11+salt*13)))
	case t.Kind() == reflect.Array && t.Elem().Kind() == reflect.Uint8:
		return arr(t, pattern(t.Len(), byte(0x21+salt*5)))
	}
	switch t.Kind() {
	case reflect.Bool:
		return conv(t, salt%2 == 1)
	case reflect.Uint8:
		return conv(t, uint8(3+salt*7))
	case reflect.Uint32:
		return conv(t, uint32(0x01010101*(s%13+1)+s))
	case reflect.Uint64:
		return conv(t, uint64(0x0101010101010101*(s%13+1)+s))
	case reflect.Int64:
		return conv(t, int64(-0x0102030405060708*int64(s%7+1)+int64(s)))
	case reflect.String:
		return conv(t, fmt.Sprintf("s%d%s", salt, strings.Repeat("x", salt%3)))
	case reflect.Slice:
		n := 2 + salt%2
		v := reflect.MakeSlice(t, 0, n)
		for i := 0; i < n; i++ {
			v = reflect.Append(v, typical(t.Elem(), salt*8+i+1))
		}
		return v
	case reflect.Map:
		keys := keyAlphabet(t.Key())
		v := reflect.MakeMap(t)
		for i := 0; i < genMapN; i++ {
			v.SetMapIndex(keys[(i+genKeyOffset)%len(keys)], typical(t.Elem(), salt*8+i+1))
		}
		return v
	case reflect.Ptr:
		p := reflect.New(t.Elem())
		p.Elem().Set(typical(t.Elem(), salt))
		return p
	case reflect.Struct:
		v := reflect.New(t).Elem()
		for i := 0; i < t.NumField(); i++ {
			v.Field(i).Set(typical(t.Field(i).Type, salt*16+i+1))
		}
		return v
	}
	unsupported(t)
	return reflect.Value{}
}

func keyAlphabet(t reflect.Type) []reflect.Value {
	switch {
	case t.Kind() == reflect.String:
		// descending-sort traps: prefix pairs, case, empty key, a 0xFD-byte key (3-byte length prefix)
		return []reflect.Value{conv(t, "b"), conv(t, "ab"), conv(t, ""), conv(t, "a"), conv(t, strings.Repeat("k", 0xFD))}
	case t.Kind() == reflect.Uint64:
		return []reflect.Value{conv(t, uint64(1)), conv(t, uint64(math.MaxUint64)), conv(t, uint64(0)), conv(t, uint64(0xFD)), conv(t, uint64(1<<32))}
	case t.Kind() == reflect.Array && t.Elem().Kind() == reflect.Uint8:
		// byte order and hex-string order (Address.ToHexString reverses the bytes) disagree on these
		a := make([]byte, t.Len())
		a[0] = 1
		b := make([]byte, t.Len())
		b[t.Len()-1] = 1
		return []reflect.Value{arr(t, a), arr(t, b), arr(t, []byte{0}), arr(t, []byte{0xFF}), arr(t, pattern(t.Len(), 0x30))}
	}
	unsupported(t)
	return nil
}

// alphabet returns the boundary values of one field kind; index 0 is the "zero" end, the last index the "max" end.
func alphabet(t reflect.Type, salt int) []reflect.Value {
	var out []reflect.Value
	add := func(xs ...any) {
		for _, x := range xs {
			out = append(out, conv(t, x))
		}
	}
	switch {
	case t == tBigPtr:
		// non-negative values only (the wire form is big.Int.Bytes(), i.e. the magnitude); see asymmetry notes
		two256 := new(big.Int).Sub(new(big.Int).Lsh(big.NewInt(1), 256), big.NewInt(1))
		return []reflect.Value{rv(big.NewInt(0)), rv(big.NewInt(1)), rv(big.NewInt(0xFF)), rv(big.NewInt(0x100)),
			rv(new(big.Int).Lsh(big.NewInt(1), 64)), rv(new(big.Int).Lsh(big.NewInt(1), 0xFD*8-1)), rv(two256)}
	case t == tBytes:
		out = []reflect.Value{rv([]byte(nil)), rv([]byte{}), rv([]byte{0}), rv([]byte{0xFD}), rv(pattern(0xFC, 3)), rv(pattern(0xFD, 5))}
		if genThorough {
			out = append(out, rv(pattern(0xFFFF, 7)), rv(pattern(0x10000, 9)))
		}
		return out
	case t.Kind() == reflect.Array && t.Elem().Kind() == reflect.Uint8:
		return []reflect.Value{arr(t, []byte{0}), arr(t, pattern(t.Len(), 0x41)), arr(t, []byte{0xFD}), arr(t, []byte{0xFF})}
	}
	switch t.Kind() {
	case reflect.Bool:
		add(false, true)
	case reflect.Uint8:
		add(uint8(0), uint8(1), uint8(0xFC), uint8(0xFD), uint8(0xFF))
	case reflect.Uint32:
		add(uint32(0), uint32(1), uint32(0xFC), uint32(0xFD), uint32(0xFFFF), uint32(0x10000), uint32(math.MaxUint32))
	case reflect.Uint64:
		add(uint64(0), uint64(1), uint64(0xFC), uint64(0xFD), uint64(0xFFFF), uint64(0x10000), uint64(0xFFFFFFFF), uint64(1<<32), uint64(math.MaxUint64))
	case reflect.Int64:
		add(int64(0), int64(1), int64(-1), int64(0xFD), int64(math.MinInt64), int64(math.MaxInt64))
	case reflect.String:
		add("", "a", "\x00", "\xff\xfe", strings.Repeat("k", 0xFC), strings.Repeat("K", 0xFD))
		if genThorough {
			add(strings.Repeat("L", 0xFFFF), strings.Repeat("M", 0x10000))
		}
	case reflect.Slice:
		// 0..3 elements (nil and empty are different Go values with the same encoding)
		e := t.Elem()
		ea := alphabet(e, salt)
		e0, eM := ea[0], ea[len(ea)-1]
		mk := func(xs ...reflect.Value) reflect.Value {
			v := reflect.MakeSlice(t, 0, len(xs))
			return reflect.Append(v, xs...)
		}
		out = []reflect.Value{reflect.Zero(t), mk(), mk(e0), mk(typical(e, salt+1)), mk(typical(e, salt+2), typical(e, salt+2)),
			mk(typical(e, salt+3), typical(e, salt+4)), mk(typical(e, salt+5), eM, e0), mk(eM, typical(e, salt+6), typical(e, salt+7))}
		if e.Kind() == reflect.Uint32 { // ascending / descending / duplicates (ont.KeyHeights sorts)
			out = append(out, mk(conv(e, uint32(1)), conv(e, uint32(2)), conv(e, uint32(3))), mk(conv(e, uint32(3)), conv(e, uint32(2)), conv(e, uint32(1))))
		}
	case reflect.Map:
		// 0..4 entries
		keys := keyAlphabet(t.Key())
		va := alphabet(t.Elem(), salt)
		out = append(out, reflect.Zero(t))
		for n := 0; n <= 4; n++ {
			v := reflect.MakeMap(t)
			for i := 0; i < n; i++ {
				v.SetMapIndex(keys[i], deepCopy(va[(i*2+n)%len(va)]))
			}
			out = append(out, v)
		}
		v := reflect.MakeMap(t) // the long key and the typical values
		for i := 1; i <= 4; i++ {
			v.SetMapIndex(keys[i], typical(t.Elem(), salt*4+i))
		}
		out = append(out, v)
	case reflect.Ptr:
		// nil pointers are outside the encodable domain (Serialization dereferences them); probed separately
		for _, s := range nestedValues(t.Elem(), salt) {
			p := reflect.New(t.Elem())
			p.Elem().Set(s)
			out = append(out, p)
		}
	case reflect.Struct:
		out = nestedValues(t, salt)
	default:
		unsupported(t)
	}
	return out
}

// nestedValues: the alphabet of a nested record (by value, embedded or behind a pointer): zero vector, typical vector,
// every 1-deviation of the typical vector, max vector (first = zero end, last = max end).
func nestedValues(t reflect.Type, salt int) []reflect.Value {
	sv := structVectors(t, salt)
	if t.Kind() != reflect.Struct {
		return sv
	}
	out := []reflect.Value{sv[0], sv[1]}
	for i := 0; i < t.NumField(); i++ {
		for _, a := range alphabet(t.Field(i).Type, salt*16+i+1) {
			v := deepCopy(sv[1])
			v.Field(i).Set(deepCopy(a))
			out = append(out, v)
		}
	}
	return append(out, sv[2])
}

func structVectors(t reflect.Type, salt int) []reflect.Value {
	if t.Kind() != reflect.Struct {
		a := alphabet(t, salt)
		return []reflect.Value{a[0], typical(t, salt), a[len(a)-1]}
	}
	zero, max := reflect.New(t).Elem(), reflect.New(t).Elem()
	for i := 0; i < t.NumField(); i++ {
		a := alphabet(t.Field(i).Type, salt*16+i+1)
		zero.Field(i).Set(deepCopy(a[0]))
		max.Field(i).Set(deepCopy(a[len(a)-1]))
	}
	return []reflect.Value{zero, typical(t, salt), max}
}

// enumerate returns the value set of a record type: zero vector, max vector, typical vector, every 1-deviation from
// the typical vector (each field x each alphabet value), and with pairs=true every 2-deviation (each field pair x both
// alphabets). Values are fresh deep copies (encoders may mutate their receiver).
func enumerate(t reflect.Type, pairs bool, base func(reflect.Value)) []reflect.Value {
	if t.Kind() != reflect.Struct {
		return alphabet(t, 1)
	}
	mkTyp := func() reflect.Value {
		v := deepCopy(typical(t, 1))
		if base != nil {
			base(v)
		}
		return v
	}
	sv := structVectors(t, 1)
	out := []reflect.Value{sv[0], mkTyp(), sv[2]}
	alph := make([][]reflect.Value, t.NumField())
	for i := range alph {
		alph[i] = alphabet(t.Field(i).Type, 16+i+1)
	}
	for i := range alph {
		for _, a := range alph[i] {
			v := mkTyp()
			v.Field(i).Set(deepCopy(a))
			out = append(out, v)
		}
	}
	if pairs {
		for i := range alph {
			for j := i + 1; j < len(alph); j++ {
				for _, a := range alph[i] {
					for _, b := range alph[j] {
						v := mkTyp()
						v.Field(i).Set(deepCopy(a))
						v.Field(j).Set(deepCopy(b))
						out = append(out, v)
					}
				}
			}
		}
	}
	return out
}

// ---------------------------------------------------------------------------------------------
// deep copy with control over map insertion order

type mapSite struct {
	path string
	n    int
}

func keyString(k reflect.Value) string {
	switch k.Kind() {
	case reflect.String:
		return "s:" + k.String()
	case reflect.Uint64, reflect.Uint32, reflect.Uint8:
		return fmt.Sprintf("u:%020d", k.Uint())
	}
	return fmt.Sprintf("x:%x", k.Interface())
}

func sortedMapKeys(m reflect.Value) []reflect.Value {
	ks := m.MapKeys()
	sort.Slice(ks, func(i, j int) bool { return keyString(ks[i]) < keyString(ks[j]) })
	return ks
}

// copyWith deep-copies v; every map is rebuilt by inserting its keys (taken in canonical sorted order) in the order
// given by order(path, n) (nil = identity). sites collects the maps met.
func copyWith(v reflect.Value, path string, order func(path string, n int) []int, sites *[]mapSite) reflect.Value {
	t := v.Type()
	switch {
	case t == tBigPtr:
		if v.IsNil() {
			return v
		}
		return rv(new(big.Int).Set(v.Interface().(*big.Int)))
	}
	switch t.Kind() {
	case reflect.Slice:
		if v.IsNil() {
			return reflect.Zero(t)
		}
		o := reflect.MakeSlice(t, v.Len(), v.Len())
		for i := 0; i < v.Len(); i++ {
			o.Index(i).Set(copyWith(v.Index(i), fmt.Sprintf("%s[%d]", path, i), order, sites))
		}
		return o
	case reflect.Map:
		if v.IsNil() {
			return reflect.Zero(t)
		}
		ks := sortedMapKeys(v)
		if sites != nil {
			*sites = append(*sites, mapSite{path, len(ks)})
		}
		idx := make([]int, len(ks))
		for i := range idx {
			idx[i] = i
		}
		if order != nil {
			if p := order(path, len(ks)); p != nil {
				idx = p
			}
		}
		o := reflect.MakeMap(t)
		for _, i := range idx {
			o.SetMapIndex(ks[i], copyWith(v.MapIndex(ks[i]), path+"{"+keyString(ks[i])+"}", order, sites))
		}
		return o
	case reflect.Ptr:
		if v.IsNil() {
			return reflect.Zero(t)
		}
		p := reflect.New(t.Elem())
		p.Elem().Set(copyWith(v.Elem(), path, order, sites))
		return p
	case reflect.Struct:
		o := reflect.New(t).Elem()
		for i := 0; i < t.NumField(); i++ {
			o.Field(i).Set(copyWith(v.Field(i), path+"."+t.Field(i).Name, order, sites))
		}
		return o
	}
	return v // scalars, strings, arrays are values
}

func deepCopy(v reflect.Value) reflect.Value { return copyWith(v, "", nil, nil) }

func hasMap(t reflect.Type, seen map[reflect.Type]bool) bool {
	if seen[t] {
		return false
	}
	seen[t] = true
	switch t.Kind() {
	case reflect.Map:
		return true
	case reflect.Ptr, reflect.Slice:
		if t == tBigPtr {
			return false
		}
		return hasMap(t.Elem(), seen)
	case reflect.Struct:
		for i := 0; i < t.NumField(); i++ {
			if hasMap(t.Field(i).Type, seen) {
				return true
			}
		}
	}
	return false
}

func permutations(n int) [][]int {
	var out [][]int
	p := make([]int, n)
	for i := range p {
		p[i] = i
	}
	var rec func(k int)
	rec = func(k int) {
		if k == n {
			out = append(out, append([]int{}, p...))
			return
		}
		for i := k; i < n; i++ {
			p[k], p[i] = p[i], p[k]
			rec(k + 1)
			p[k], p[i] = p[i], p[k]
		}
	}
	rec(0)
	return out
}

// ---------------------------------------------------------------------------------------------
// equality: loose = the property's notion of "the value that was encoded"; strictOnly lists the differences that
// only a Go-level comparison sees (documented asymmetries: nil vs empty slice / map).

type diffs struct {
	loose  []string // real differences
	strict []string // asymmetry classes "nil-vs-empty:<path>"
}

func compare(a, b reflect.Value, path string, d *diffs) {
	if len(d.loose) > 4 {
		return
	}
	t := a.Type()
	if t != b.Type() {
		d.loose = append(d.loose, path+": type")
		return
	}
	if t == tBigPtr {
		x, y := a.Interface().(*big.Int), b.Interface().(*big.Int)
		if x == nil || y == nil {
			if x != y {
				d.loose = append(d.loose, path+": nil big.Int")
			}
			return
		}
		if x.Cmp(y) != 0 {
			d.loose = append(d.loose, fmt.Sprintf("%s: %s != %s", path, clip(x.String()), clip(y.String())))
		}
		return
	}
	switch t.Kind() {
	case reflect.Slice:
		if a.Len() != b.Len() {
			d.loose = append(d.loose, fmt.Sprintf("%s: len %d != %d", path, a.Len(), b.Len()))
			return
		}
		if a.IsNil() != b.IsNil() {
			d.strict = append(d.strict, "nil-vs-empty-slice")
		}
		if t == tBytes {
			if !bytes.Equal(a.Bytes(), b.Bytes()) {
				d.loose = append(d.loose, fmt.Sprintf("%s: %s != %s", path, clip(fmt.Sprintf("%x", a.Bytes())), clip(fmt.Sprintf("%x", b.Bytes()))))
			}
			return
		}
		for i := 0; i < a.Len(); i++ {
			compare(a.Index(i), b.Index(i), fmt.Sprintf("%s[%d]", path, i), d)
		}
	case reflect.Map:
		if a.Len() != b.Len() {
			d.loose = append(d.loose, fmt.Sprintf("%s: map size %d != %d", path, a.Len(), b.Len()))
			return
		}
		if a.IsNil() != b.IsNil() {
			d.strict = append(d.strict, "nil-vs-empty-map")
		}
		for _, k := range sortedMapKeys(a) {
			bv := b.MapIndex(k)
			if !bv.IsValid() {
				d.loose = append(d.loose, fmt.Sprintf("%s: key %s missing", path, clip(keyString(k))))
				continue
			}
			compare(a.MapIndex(k), bv, path+"{"+clip(keyString(k))+"}", d)
		}
	case reflect.Ptr:
		if a.IsNil() || b.IsNil() {
			if a.IsNil() != b.IsNil() {
				d.loose = append(d.loose, path+": nil pointer")
			}
			return
		}
		compare(a.Elem(), b.Elem(), path, d)
	case reflect.Struct:
		for i := 0; i < t.NumField(); i++ {
			compare(a.Field(i), b.Field(i), path+"."+t.Field(i).Name, d)
		}
	default:
		if !reflect.DeepEqual(a.Interface(), b.Interface()) {
			d.loose = append(d.loose, fmt.Sprintf("%s: %s != %s", path, clip(fmt.Sprintf("%v", a.Interface())), clip(fmt.Sprintf("%v", b.Interface()))))
		}
	}
}

func clip(s string) string {
	if len(s) > 48 {
		return fmt.Sprintf("%s..(%d)", s[:40], len(s))
	}
	return s
}

// describe renders a value compactly for evidence / replay details.
func describe(v reflect.Value) string {
	var sb strings.Builder
	var w func(v reflect.Value)
	w = func(v reflect.Value) {
		t := v.Type()
		if t == tBigPtr {
			if v.IsNil() {
				sb.WriteString("nil")
			} else {
				sb.WriteString(clip(v.Interface().(*big.Int).String()))
			}
			return
		}
		switch t.Kind() {
		case reflect.Slice:
			if v.IsNil() {
				sb.WriteString("nil")
				return
			}
			if t == tBytes {
				sb.WriteString("h'" + clip(fmt.Sprintf("%x", v.Bytes())) + "'")
				return
			}
			sb.WriteString("[")
			for i := 0; i < v.Len(); i++ {
				if i > 0 {
					sb.WriteString(",")
				}
				w(v.Index(i))
			}
			sb.WriteString("]")
		case reflect.Map:
			if v.IsNil() {
				sb.WriteString("nil-map")
				return
			}
			sb.WriteString("{")
			for i, k := range sortedMapKeys(v) {
				if i > 0 {
					sb.WriteString(",")
				}
				sb.WriteString(clip(keyString(k)) + ":")
				w(v.MapIndex(k))
			}
			sb.WriteString("}")
		case reflect.Ptr:
			if v.IsNil() {
				sb.WriteString("nil")
				return
			}
			sb.WriteString("&")
			w(v.Elem())
		case reflect.Struct:
			sb.WriteString("{")
			for i := 0; i < t.NumField(); i++ {
				if i > 0 {
					sb.WriteString(" ")
				}
				sb.WriteString(t.Field(i).Name + "=")
				w(v.Field(i))
			}
			sb.WriteString("}")
		case reflect.Array:
			sb.WriteString(clip(fmt.Sprintf("%x", v.Interface())))
		case reflect.String:
			sb.WriteString(fmt.Sprintf("%q", clip(v.String())))
		default:
			sb.WriteString(fmt.Sprintf("%v", v.Interface()))
		}
	}
	w(v)
	s := sb.String()
	if len(s) > 600 {
		s = s[:600] + "..."
	}
	return s
}

// leafVariation counts, per leaf path of a record type, the distinct values in a value set: every field must vary,
// otherwise a decoder that ignores / swaps that field could not be noticed.
func leafVariation(vals []reflect.Value) map[string]int {
	seen := map[string]map[string]bool{}
	var walk func(v reflect.Value, path string)
	walk = func(v reflect.Value, path string) {
		t := v.Type()
		if t.Kind() == reflect.Struct && t != tBigPtr.Elem() {
			for i := 0; i < t.NumField(); i++ {
				walk(v.Field(i), path+"."+t.Field(i).Name)
			}
			return
		}
		if t.Kind() == reflect.Ptr && t != tBigPtr && !v.IsNil() {
			walk(v.Elem(), path)
			return
		}
		if seen[path] == nil {
			seen[path] = map[string]bool{}
		}
		if len(seen[path]) < 3 {
			seen[path][describe(v)] = true
		}
	}
	for _, v := range vals {
		walk(v, "")
	}
	out := map[string]int{}
	for p, s := range seen {
		out[p] = len(s)
	}
	return out
}
