// C38 — recent-block duplicate detection is exact.
//
// Part A (model checking): the real increment.IncrementValidator (capacities 1,2,3) against a list model.
// Events: AddBlock(height ∈ {next, gap+2, gap+3, repeat(last), oldest tracked, base-1}, tx set ⊆ {a,b,c}) and
// Clean; BFS over the model state with mc.BFS, every transition re-executed on a fresh real validator by
// replaying the whole path; after EVERY step of the replay's last event ALL queries are compared:
// Verify(tx, start) for tx ∈ {a,b,c,d}, start ∈ {base-1 .. end+1} ∪ {0, MaxUint32} and BlockRange().
// Part A' (linear): capacity ≤ 0 selects the default of 20 — window after 0..45 contiguous blocks.
// Part B (stateful validator): the real stateful validator actor (validator/stateful, ontology-eventbus)
// answering CheckTx against a real on-disk ledger (polyenv.Chain installed as ledger.DefLedger):
// every assignment of {a,b,c} to {block1, block2, block3, never}, both commit paths, query after every
// block and after a reopen.
package main

import (
	"fmt"
	"math"
	"os"
	"sort"
	"strconv"
	"strings"
	"sync/atomic"
	"time"

	"github.com/ontio/ontology-eventbus/actor"
	"github.com/polynetwork/poly/common"
	"github.com/polynetwork/poly/core/ledger"
	"github.com/polynetwork/poly/core/payload"
	"github.com/polynetwork/poly/core/types"
	"github.com/polynetwork/poly/errors"
	_ "github.com/polynetwork/poly/native/service"
	"github.com/polynetwork/poly/validator/increment"
	"github.com/polynetwork/poly/validator/stateful"
	vatypes "github.com/polynetwork/poly/validator/types"
	"verif.local/engine/ev"
	"verif.local/engine/mc"
	"verif.local/engine/polyenv"
)

// ---------------------------------------------------------------------------------------------
// reference model: a plain list of (height, set) — no ring, no base arithmetic shared with the code.

type blk struct {
	H    uint32
	Mask uint8 // bit i = tx i ∈ block (a=0,b=1,c=2)
}

type state struct {
	Cap    int
	Blocks []blk // tracked window, oldest first
}

func (s state) key() string {
	var b strings.Builder
	fmt.Fprintf(&b, "cap%d", s.Cap)
	for _, x := range s.Blocks {
		fmt.Fprintf(&b, "|%d:%d", x.H, x.Mask)
	}
	return b.String()
}

func (s state) rng() (uint32, uint32) {
	if len(s.Blocks) == 0 {
		return 0, 0
	}
	return s.Blocks[0].H, s.Blocks[len(s.Blocks)-1].H + 1
}

func (s state) clone() state {
	return state{Cap: s.Cap, Blocks: append([]blk{}, s.Blocks...)}
}

// model transition
func (s state) apply(e string) state {
	n := s.clone()
	if e == "clean" {
		n.Blocks = nil
		return n
	}
	h, mask := parseAdd(e)
	if len(n.Blocks) > 0 && n.Blocks[len(n.Blocks)-1].H+1 != h {
		return n // non-contiguous: ignored
	}
	n.Blocks = append(n.Blocks, blk{h, mask})
	if len(n.Blocks) > n.Cap {
		n.Blocks = n.Blocks[1:]
	}
	return n
}

// model query: "cannot" | "dup" | "ok"
func (s state) query(tx int, start uint32) string {
	base, _ := s.rng()
	if start < base {
		return "cannot"
	}
	for _, b := range s.Blocks {
		if b.H >= start && tx < 3 && b.Mask&(1<<uint(tx)) != 0 {
			return "dup"
		}
	}
	return "ok"
}

func parseAdd(e string) (uint32, uint8) {
	f := strings.Split(e, ":")
	h, _ := strconv.ParseUint(f[1], 10, 32)
	m, _ := strconv.ParseUint(f[2], 10, 8)
	return uint32(h), uint8(m)
}

func events(s state, _ int) []string {
	hs := map[uint32]bool{}
	if len(s.Blocks) == 0 {
		hs[0], hs[1], hs[5] = true, true, true
	} else {
		base, end := s.rng()
		last := end - 1
		hs[last+1] = true // next
		hs[last+2] = true // gap
		hs[last+3] = true // wider gap
		hs[last] = true   // repeat of newest
		hs[base] = true   // oldest tracked
		if base > 0 {
			hs[base-1] = true // just evicted / older
		}
		hs[0] = true
	}
	var hl []uint32
	for h := range hs {
		hl = append(hl, h)
	}
	sort.Slice(hl, func(i, j int) bool { return hl[i] < hl[j] })
	out := []string{"clean"}
	for _, h := range hl {
		for m := 0; m < 8; m++ {
			out = append(out, fmt.Sprintf("add:%d:%d", h, m))
		}
	}
	return out
}

// ---------------------------------------------------------------------------------------------
// real side

var txs [4]*types.Transaction

func mkTx(i int) *types.Transaction {
	tx := &types.Transaction{Version: types.CURR_TX_VERSION, TxType: types.Invoke, Nonce: uint32(1000 + i),
		Payload: &payload.InvokeCode{Code: []byte{0xc3, byte(i)}}, Attributes: []byte{}}
	sink := common.NewZeroCopySink(nil)
	if err := tx.Serialization(sink); err != nil {
		panic(err)
	}
	out, err := types.TransactionFromRawBytes(sink.Bytes())
	if err != nil {
		panic(err)
	}
	return out
}

func mkBlock(h uint32, mask uint8) *types.Block {
	b := &types.Block{Header: &types.Header{Height: h}}
	for i := 0; i < 3; i++ {
		if mask&(1<<uint(i)) != 0 {
			b.Transactions = append(b.Transactions, txs[i])
		}
	}
	return b
}

func applyReal(v *increment.IncrementValidator, e string) {
	if e == "clean" {
		v.Clean()
		return
	}
	h, m := parseAdd(e)
	v.AddBlock(mkBlock(h, m))
}

func classify(err error) string {
	switch {
	case err == nil:
		return "ok"
	case strings.Contains(err.Error(), "tx duplicated"):
		return "dup"
	case strings.HasPrefix(err.Error(), "can not do increment validation"):
		return "cannot"
	}
	return "other:" + err.Error()
}

// query counters by REFERENCE outcome (atomic: the BFS workers run concurrently; flushed into ev in main)
var qOK, qDup, qCannot int64

// compareAll runs every query on the real validator and the model. Returns a description of the first mismatch.
func compareAll(r *ev.Run, v *increment.IncrementValidator, m state, count bool) (string, map[string]any) {
	base, end := m.rng()
	gs, ge := v.BlockRange()
	if gs != base || ge != end {
		return "BlockRange", map[string]any{"got": []uint32{gs, ge}, "want": []uint32{base, end}}
	}
	starts := map[uint32]bool{0: true, math.MaxUint32: true}
	if base > 0 {
		starts[base-1] = true
	}
	for h := base; h <= end+1; h++ {
		starts[h] = true
	}
	for st := range starts {
		for t := 0; t < 4; t++ {
			want := m.query(t, st)
			got := classify(v.Verify(txs[t], st))
			if count {
				switch want {
				case "ok":
					atomic.AddInt64(&qOK, 1)
				case "dup":
					atomic.AddInt64(&qDup, 1)
				default:
					atomic.AddInt64(&qCannot, 1)
				}
			}
			if got != want {
				kind := "Verify:" + want + "-expected-got-" + strings.SplitN(got, ":", 2)[0]
				return kind, map[string]any{"tx": string(rune('a' + t)), "start": st, "got": got, "want": want,
					"model_window": m.Blocks}
			}
		}
	}
	return "", nil
}

func partA(r *ev.Run) mc.Stats {
	depth := r.QT(6, 10)
	var init []state
	for _, c := range []int{1, 2, 3} {
		init = append(init, state{Cap: c})
	}
	cfg := mc.Config[state]{
		Init:   init,
		Events: events,
		Step:   func(s state, e string) (state, bool) { return s.apply(e), true },
		Key:    func(s state) string { return s.key() },
		Check: func(prev state, e string, next state, path []string) {
			// rebuild the real object by replaying the path; compare after every step of it
			v := increment.NewIncrementValidator(prev.Cap)
			m := state{Cap: prev.Cap}
			for i, pe := range path {
				var rec any
				var p bool
				rec, p = ev.Guard(func() { applyReal(v, pe) })
				if p {
					r.Violation("increment:panic:"+strings.SplitN(pe, ":", 2)[0], map[string]any{"cap": prev.Cap, "path": path[:i+1], "panic": fmt.Sprint(rec)})
					return
				}
				m = m.apply(pe)
				if i != len(path)-1 {
					continue // every proper prefix is itself an explored (and compared) transition of this BFS
				}
				var kind string
				var det map[string]any
				rec, p = ev.Guard(func() { kind, det = compareAll(r, v, m, true) })
				if p {
					r.Violation("increment:panic:query", map[string]any{"cap": prev.Cap, "path": path, "panic": fmt.Sprint(rec)})
					return
				}
				if kind != "" {
					det["cap"] = prev.Cap
					det["path"] = path
					r.Violation(fmt.Sprintf("increment:cap%d:%s", prev.Cap, kind), det)
				}
			}
			if m.key() != next.key() {
				r.HarnessError("model replay diverged: %s vs %s", m.key(), next.key())
			}
			// outcome classes for vacuity
			switch {
			case e == "clean":
				r.Class("ev_clean")
			case len(prev.Blocks) > 0 && next.key() == prev.key():
				r.Class("ev_add_ignored_noncontiguous")
			case len(prev.Blocks) == prev.Cap && len(next.Blocks) == prev.Cap && e != "clean":
				r.Class("ev_add_evicting")
			default:
				r.Class("ev_add_accepted")
			}
			r.Case(next.key())
			if len(path) == 3 {
				r.Sample(map[string]any{"cap": prev.Cap, "path": path, "window": next.Blocks})
			}
		},
		MaxDepth: depth,
		Workers:  12,
		Stop:     r.Expired,
	}
	st := mc.BFS(cfg)
	if st.Truncated {
		r.Capped("partA BFS deadline")
	}
	return st
}

// Part A': default capacity (maxBlocks <= 0 → 20).
func partDefaultCap(r *ev.Run) {
	for _, c := range []int{0, -1} {
		for _, startH := range []uint32{0, 7} {
			v := increment.NewIncrementValidator(c)
			m := state{Cap: 20}
			for i := 0; i < 46; i++ {
				e := fmt.Sprintf("add:%d:%d", startH+uint32(i), (i%7)+1)
				applyReal(v, e)
				m = m.apply(e)
				if kind, det := compareAll(r, v, m, true); kind != "" {
					det["ctor_arg"] = c
					det["blocks_added"] = i + 1
					det["first_height"] = startH
					r.Violation("increment:default-cap:"+kind, det)
				}
				r.Class("defaultcap_step")
			}
		}
	}
}

// ---------------------------------------------------------------------------------------------
// Part B: stateful validator actor on a real ledger

func ask(pid *actor.PID, tx *types.Transaction, worker uint8) (*vatypes.CheckResponse, error) {
	res, err := pid.RequestFuture(&vatypes.CheckTx{WorkerId: worker, Tx: tx}, 10*time.Second).Result()
	if err != nil {
		return nil, err
	}
	rsp, ok := res.(*vatypes.CheckResponse)
	if !ok {
		return nil, fmt.Errorf("unexpected response %T", res)
	}
	return rsp, nil
}

func partB(r *ev.Run) {
	vals := polyenv.Keys(4)
	polyenv.Setup(0, vals)
	const id = "verif-c38-stateful"
	val, err := stateful.NewValidator(id)
	if err != nil {
		r.HarnessError("stateful.NewValidator: %v", err)
	}
	if val.VerifyType() != vatypes.Stateful {
		r.Violation("stateful:verify-type", map[string]any{"got": val.VerifyType()})
	}
	pid := actor.NewLocalPID(id)
	user := polyenv.Key(20)
	// four ledger-level transactions (unknown contract: they fail at execution, which still records them)
	var lt [4]*types.Transaction
	for i := range lt {
		lt[i] = polyenv.Tx(common.Address{0xee, byte(i)}, "noop", []byte{byte(i)}, uint32(500+i), polyenv.Single(user))
	}
	checkAll := func(ch *polyenv.Chain, inLedger [4]bool, ctx map[string]any) {
		height := ch.L.GetCurrentBlockHeight()
		for i, tx := range lt {
			rsp, err := ask(pid, tx, uint8(i+1))
			r.Eval()
			if err != nil {
				r.HarnessError("actor request failed: %v", err)
			}
			want := errors.ErrNoError
			if inLedger[i] {
				want = errors.ErrDuplicatedTx
			}
			d := map[string]any{"tx": i, "in_ledger": inLedger[i], "errcode": int(rsp.ErrCode), "ctx": ctx}
			if rsp.ErrCode != want {
				if inLedger[i] {
					r.Violation("stateful:committed-tx-not-rejected", d)
				} else {
					r.Violation("stateful:fresh-tx-rejected", d)
				}
			}
			if inLedger[i] { // classes follow the reference side so that a mutant run is not "vacuous"
				r.Class("stateful_duplicate")
			} else {
				r.Class("stateful_fresh_ok")
			}
			if rsp.Hash != tx.Hash() || rsp.WorkerId != uint8(i+1) || rsp.Type != vatypes.Stateful || rsp.Height != height {
				d["rsp"] = fmt.Sprintf("%+v", *rsp)
				d["ledger_height"] = height
				r.Violation("stateful:response-fields", d)
			}
		}
		// a transaction of the genesis block is in the ledger too
		for _, gtx := range ch.Genesis.Transactions {
			rsp, err := ask(pid, gtx, 9)
			r.Eval()
			if err != nil {
				r.HarnessError("actor request failed: %v", err)
			}
			if rsp.ErrCode != errors.ErrDuplicatedTx {
				r.Violation("stateful:genesis-tx-not-rejected", map[string]any{"errcode": int(rsp.ErrCode), "ctx": ctx})
			}
			r.Class("stateful_duplicate")
		}
	}
	nblocks := r.QT(2, 3)
	assignments := 1
	for i := 0; i < 3; i++ {
		assignments *= nblocks + 1
	}
	for _, mode := range []string{"commit", "sync"} {
		for a := 0; a < assignments; a++ {
			if r.Expired() {
				r.Capped("partB assignments")
				return
			}
			// tx i goes into block where[i] (1..3) or 0 = never; tx 3 (d) is never committed
			var where [3]int
			x := a
			for i := range where {
				where[i] = x % (nblocks + 1)
				x /= nblocks + 1
			}
			dir := polyenv.TmpDir("c38-")
			func() {
				defer os.RemoveAll(dir)
				ch, err := polyenv.OpenChain(dir, vals)
				if err != nil {
					r.HarnessError("OpenChain: %v", err)
				}
				ledger.DefLedger = ledger.VerifNewLedger(ch.L)
				var in [4]bool
				ctx := map[string]any{"mode": mode, "where": where, "after_block": 0}
				checkAll(ch, in, ctx)
				for b := 1; b <= nblocks; b++ {
					var btx []*types.Transaction
					for i, w := range where {
						if w == b {
							btx = append(btx, lt[i])
						}
					}
					blk := ch.NextBlock(btx, nil)
					if mode == "commit" {
						_, err = ch.Commit(blk)
					} else {
						err = ch.CommitSync(blk)
					}
					if err != nil {
						r.HarnessError("commit block %d (%s, where=%v): %v", b, mode, where, err)
					}
					if ch.L.GetCurrentBlockHeight() != uint32(b) {
						r.HarnessError("height after block %d = %d", b, ch.L.GetCurrentBlockHeight())
					}
					for i, w := range where {
						if w == b {
							in[i] = true
						}
					}
					ctx = map[string]any{"mode": mode, "where": where, "after_block": b}
					checkAll(ch, in, ctx)
					r.Case(fmt.Sprintf("ledger/%s/%v/%d", mode, in, b))
				}
				// restart path: the answer must survive a reopen (cache is gone, store is asked)
				ch.Close()
				ch, err = polyenv.OpenChain(dir, vals)
				if err != nil {
					r.HarnessError("reopen: %v", err)
				}
				ledger.DefLedger = ledger.VerifNewLedger(ch.L)
				ctx = map[string]any{"mode": mode, "where": where, "after_block": "reopen"}
				checkAll(ch, in, ctx)
				ch.Close()
			}()
		}
	}
}

func main() {
	r := ev.Start("C38", "model_checking")
	polyenv.Setup(0, polyenv.Keys(4)) // also silences the repo logger (AddBlock logs every ignored block)
	for i := range txs {
		txs[i] = mkTx(i)
	}
	r.Require("query_ok", "query_dup", "query_cannot", "ev_clean", "ev_add_accepted", "ev_add_evicting",
		"ev_add_ignored_noncontiguous", "stateful_duplicate", "stateful_fresh_ok", "defaultcap_step")
	// canonical well-formed case first
	{
		v := increment.NewIncrementValidator(3)
		v.AddBlock(mkBlock(5, 1))
		if classify(v.Verify(txs[0], 5)) != "dup" || classify(v.Verify(txs[1], 5)) != "ok" {
			// reported by the BFS as well; this only protects against a broken harness
			r.Note("canonical_case", "deviates (see violations)")
		}
	}
	t0 := time.Now()
	st := partA(r)
	partDefaultCap(r)
	tA := time.Since(t0).Seconds()
	for name, n := range map[string]int64{"query_ok": qOK, "query_dup": qDup, "query_cannot": qCannot} {
		if n > 0 {
			r.Class(name)
		}
		r.Evals(int(n))
	}
	r.Note("query_counts_by_reference_outcome", map[string]int64{"ok": qOK, "dup": qDup, "cannot": qCannot})
	partB(r)
	r.Note("wall_partA_s", tA)
	r.Assume("duplicate / cannot-validate are distinguished by the error text (the code returns plain fmt.Errorf values)",
		"block heights near 2^32 (base+len overflow) are not part of the alphabet",
		"stateful part: the validator is driven through its real actor mailbox (RequestFuture) with ledger.DefLedger = real LedgerStoreImp; transactions fail at execution (unknown contract) which still records them in the block store")
	r.Finish(map[string]any{
		"rule": fmt.Sprintf("BFS depth %d over events {clean} ∪ {add(h,set): h ∈ {next,+2,+3,repeat,oldest,base-1,0} or {0,1,5} when empty, set ⊆ {a,b,c}} for capacities 1,2,3; all queries tx∈{a,b,c,d} × start∈{0,base-1..end+1,MaxUint32} + BlockRange after every transition; default capacity (ctor arg 0,-1) 46 contiguous blocks; stateful actor: every assignment of {a,b,c} to {never, block 1..%d} × {commit,sync}, all four txs + genesis tx asked after every block and after reopen",
			st.MaxDepth, r.QT(2, 3)),
		"states": st.States, "transitions": st.Transitions, "traces_validated_against_impl": st.Transitions,
		"max_depth": st.MaxDepth, "per_depth": st.PerDepth, "depth_capped": st.DepthCapped,
	})
}
