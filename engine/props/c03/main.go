// C03 — transaction root equals the reference Bitcoin-style Merkle root.
// Bounded-exhaustive: every leaf count n in 0..N, three leaf families, every block path
// (ComputeMerkleRoot, Block.RebuildMerkleRoot, block decoder root check).
package main

import (
	"crypto/sha256"
	"encoding/binary"
	"fmt"
	"sync"

	"github.com/polynetwork/poly/common"
	"github.com/polynetwork/poly/core/payload"
	"github.com/polynetwork/poly/core/types"
	"verif.local/engine/ev"
)

func dsha(a, b []byte) common.Uint256 {
	h := sha256.New()
	h.Write(a)
	h.Write(b)
	t := h.Sum(nil)
	return common.Uint256(sha256.Sum256(t))
}

// reference: textbook recursive level-by-level definition, no in-place tricks.
func refRoot(leaves []common.Uint256) common.Uint256 {
	if len(leaves) == 0 {
		return common.Uint256{}
	}
	level := append([]common.Uint256{}, leaves...)
	for len(level) > 1 {
		var next []common.Uint256
		for i := 0; i < len(level); i += 2 {
			l := level[i]
			r := l
			if i+1 < len(level) {
				r = level[i+1]
			}
			next = append(next, dsha(l[:], r[:]))
		}
		level = next
	}
	return level[0]
}

func leaf(i uint64) common.Uint256 {
	var b [8]byte
	binary.LittleEndian.PutUint64(b[:], i)
	return common.Uint256(sha256.Sum256(b[:]))
}

func family(name string, n int) []common.Uint256 {
	out := make([]common.Uint256, n)
	for i := range out {
		switch name {
		case "distinct":
			out[i] = leaf(uint64(i))
		case "allequal":
			out[i] = leaf(7)
		case "lasttwoequal":
			if i == n-1 && n >= 2 {
				out[i] = out[i-1]
			} else {
				out[i] = leaf(uint64(i))
			}
		}
	}
	return out
}

func mkTx(i int) *types.Transaction {
	tx := &types.Transaction{Version: types.CURR_TX_VERSION, TxType: types.Invoke, Nonce: uint32(i),
		Payload: &payload.InvokeCode{Code: []byte{byte(i), byte(i >> 8)}}, Attributes: []byte{}}
	sink := common.NewZeroCopySink(nil)
	if err := tx.Serialization(sink); err != nil {
		panic(err)
	}
	out, err := types.TransactionFromRawBytes(sink.Bytes())
	if err != nil {
		panic(err)
	}
	return out
}

func rootCases(r *ev.Run, n int) {
	for _, fam := range []string{"distinct", "allequal", "lasttwoequal"} {
		leaves := family(fam, n)
		want := refRoot(leaves)
		work := append([]common.Uint256{}, leaves...)
		var got common.Uint256
		if rec, p := ev.Guard(func() { got = common.ComputeMerkleRoot(work) }); p {
			r.Violation(fmt.Sprintf("ComputeMerkleRoot:panic:%s", fam), map[string]any{"n": n, "family": fam, "panic": fmt.Sprint(rec)})
			continue
		}
		r.Eval()
		r.Case(fmt.Sprintf("n=%d/%s", n, fam))
		if got != want {
			r.Violation(fmt.Sprintf("ComputeMerkleRoot:mismatch:%s", fam), map[string]any{"n": n, "family": fam,
				"got": got.ToHexString(), "want": want.ToHexString()})
		} else {
			r.Class("root_ok")
		}
		if n == 0 && got != (common.Uint256{}) {
			r.Violation("ComputeMerkleRoot:empty-not-zero", map[string]any{"got": got.ToHexString()})
		}
		if n <= 5 && fam == "distinct" {
			r.Sample(map[string]any{"n": n, "family": fam, "root": got.ToHexString()})
		}
	}
}

func main() {
	r := ev.Start("C03", "exploration")
	N := r.QT(4200, 9000) // crosses 1024/2048/4096 (chunked or parallel implementations change shape there)
	NB := r.QT(130, 400)  // block-level paths (build + decode real blocks)
	r.Require("root_ok", "block_accept", "block_reject_wrong_root")
	var wg sync.WaitGroup
	nch := make(chan int, 64)
	for w := 0; w < 12; w++ {
		wg.Add(1)
		go func() {
			defer wg.Done()
			for n := range nch {
				rootCases(r, n)
			}
		}()
	}
	for n := 0; n <= N; n++ {
		nch <- n
	}
	close(nch)
	wg.Wait()
	// Block-level: RebuildMerkleRoot and the decoder's root check over real transactions.
	txs := make([]*types.Transaction, 2602)
	for i := range txs {
		txs[i] = mkTx(i)
	}
	sizes := []int{}
	for n := 0; n <= NB; n++ {
		sizes = append(sizes, n)
	}
	sizes = append(sizes, 1023, 1024, 1025, 1100, 1536, 1537, 2047, 2048, 2049, 2600) // blocks above the chunk boundaries too
	for _, n := range sizes {
		blk := &types.Block{Header: &types.Header{Version: 0, ConsensusPayload: []byte{}}, Transactions: txs[:n]}
		hashes := make([]common.Uint256, n)
		for i := 0; i < n; i++ {
			hashes[i] = txs[i].Hash()
		}
		want := refRoot(hashes)
		blk.RebuildMerkleRoot()
		r.Eval()
		r.Case(fmt.Sprintf("block n=%d", n))
		if blk.Header.TransactionsRoot != want {
			r.Violation("RebuildMerkleRoot:mismatch", map[string]any{"n": n, "got": blk.Header.TransactionsRoot.ToHexString(), "want": want.ToHexString()})
		}
		// the block's own transaction list must not be clobbered
		for i := 0; i < n; i++ {
			if blk.Transactions[i].Hash() != hashes[i] {
				r.Violation("RebuildMerkleRoot:clobbered-tx-list", map[string]any{"n": n, "i": i})
			}
		}
		// object lifetime: the root must not depend on how often it was computed before, nor on what the block held earlier
		// (a cached hash list / reused workspace would show here): rebuild again, then replace transactions without changing
		// their number, rebuild, and restore.
		blk.RebuildMerkleRoot()
		r.Eval()
		if blk.Header.TransactionsRoot != want {
			r.Violation("RebuildMerkleRoot:second-call-differs", map[string]any{"n": n, "got": blk.Header.TransactionsRoot.ToHexString(), "want": want.ToHexString()})
		}
		if n >= 1 && n+1 < len(txs) {
			for _, pos := range []int{0, n / 2, n - 1} {
				saved := blk.Transactions[pos]
				cp := append([]*types.Transaction{}, blk.Transactions...)
				cp[pos] = txs[n+1] // a transaction that is not in the block
				blk.Transactions = cp
				h2 := append([]common.Uint256{}, hashes...)
				h2[pos] = txs[n+1].Hash()
				blk.RebuildMerkleRoot()
				r.Eval()
				if blk.Header.TransactionsRoot != refRoot(h2) {
					r.Violation("RebuildMerkleRoot:stale-after-replacing-a-transaction", map[string]any{"n": n, "replaced_index": pos})
				}
				cp[pos] = saved
				blk.RebuildMerkleRoot()
				if blk.Header.TransactionsRoot != want {
					r.Violation("RebuildMerkleRoot:stale-after-restoring-a-transaction", map[string]any{"n": n, "replaced_index": pos})
				}
			}
			blk.Transactions = txs[:n]
		}
		raw := blk.ToArray()
		if _, err := types.BlockFromRawBytes(raw); err != nil {
			r.Violation("BlockDecode:honest-root-rejected", map[string]any{"n": n, "err": err.Error()})
		} else {
			r.Class("block_accept")
		}
		// any other root from the alphabet must be refused
		others := []common.Uint256{{}, leaf(99)}
		if n > 0 {
			others = append(others, refRoot(hashes[:n-1]))
			rev := make([]common.Uint256, n)
			for i := range rev {
				rev[i] = hashes[n-1-i]
			}
			others = append(others, refRoot(rev))
		}
		for oi, o := range others {
			if o == want {
				continue
			}
			b2 := &types.Block{Header: &types.Header{Version: 0, ConsensusPayload: []byte{}, TransactionsRoot: o}, Transactions: txs[:n]}
			r.Eval()
			if _, err := types.BlockFromRawBytes(b2.ToArray()); err == nil {
				r.Violation("BlockDecode:wrong-root-accepted", map[string]any{"n": n, "variant": oi, "root": o.ToHexString()})
			} else {
				r.Class("block_reject_wrong_root")
			}
		}
	}
	r.Assume("leaf families: distinct, all-equal, last-two-equal (CVE-2012-2459 shape is a property of the construction and not flagged)")
	r.Finish(map[string]any{
		"rule": fmt.Sprintf("every n in 0..%d x 3 leaf families against an independent level-by-level reference; block paths for n in 0..%d; a case is (n,family)", N, NB),
	})
}
