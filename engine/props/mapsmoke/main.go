package main

import (
	"fmt"

	"verif.local/engine/lib/maporder"
)

func main() {
	m := map[string]int{}
	for i, k := range []string{"a", "b", "c", "d", "e"} {
		m[k] = i
	}
	seen := map[string]bool{}
	for c := uint16(0); c < 8; c++ {
		var order string
		tr := maporder.Run(nil, c, func() {
			for k := range m {
				order += k
			}
		})
		fmt.Println(c, order, tr.Iterations, tr.Sizes)
		seen[order] = true
	}
	fmt.Println("distinct orders:", len(seen))
	var o1, o2 string
	for k := range m {
		o1 += k
	}
	for k := range m {
		o2 += k
	}
	fmt.Println("unarmed:", o1, o2)
}
