// C13 — the ledger only grows by valid successors (model_checking, real on-disk LedgerStoreImp).
//
// State  = committed chain (sequence of canonical blocks: content kind x timestamp step), explored
//
//	breadth-first with mc.BFS to depth q:3 / t:4 (every state below the last level is fully expanded).
//
// Events = in every state: (a) the canonical successor (3 contents x 2 timestamp steps), (b) a successor with
//
//	exactly ONE deviation (height, previous hash, timestamp, block root; informational: tx root,
//	duplicate tx), (c) re-submission of every committed height (the same block and an honestly built
//	sibling) — each through AddBlock, SubmitBlock (with the honest execution result), ExecuteBlock+
//	SubmitBlock and AddHeaders+AddBlock.
//
// Oracle = a 40-line reference model (list of blocks + textbook RFC-6962 tree hash, sharing no code with
//
//	the implementation): whenever the ledger tip or any store content changes, the block must sit at
//	tip+1, name the tip as parent, carry a strictly later timestamp and the reference accumulator
//	root over [0, H(b0)..H(tip)]; after every commit all lookups by height / hash / transaction return
//	exactly the model's blocks; a re-submitted committed height or a rejected block leaves all three
//	stores byte-identical. The canonical successor must be accepted on every path (else harness error).
package main

import (
	"crypto/sha256"
	"encoding/hex"
	"fmt"
	"os"
	"runtime"
	"runtime/debug"
	"runtime/pprof"
	"sort"
	"strconv"
	"strings"
	"sync"

	"github.com/polynetwork/poly/common"
	"github.com/polynetwork/poly/common/verifhook"
	"github.com/polynetwork/poly/core/store"
	"github.com/polynetwork/poly/core/types"
	"github.com/polynetwork/poly/native"
	"github.com/polynetwork/poly/native/service/governance/node_manager"
	"github.com/polynetwork/poly/native/service/utils"
	"verif.local/engine/ev"
	"verif.local/engine/mc"
	"verif.local/engine/polyenv"
)

const nVals = 4

var vals []*polyenv.Acct

// ---------------------------------------------------------------------------------------------
// reference model (independent of the implementation)

type mblock struct {
	Hash, Prev common.Uint256
	TS         uint32
	Txs        []common.Uint256
}

// mth is the RFC 6962 merkle tree hash of the leaf data items.
func mth(d [][]byte) [32]byte {
	if len(d) == 0 {
		return sha256.Sum256(nil)
	}
	if len(d) == 1 {
		return sha256.Sum256(append([]byte{0}, d[0]...))
	}
	k := 1
	for k*2 < len(d) {
		k *= 2
	}
	l, r := mth(d[:k]), mth(d[k:])
	return sha256.Sum256(append(append([]byte{1}, l[:]...), r[:]...))
}

// refRoot: the accumulator root a block at height len(chain) must carry: leaves = previous-block hash of
// every block 0..len(chain), i.e. 32 zero bytes (genesis has no parent) followed by H(b0)..H(tip).
func refRoot(chain []mblock) common.Uint256 {
	leaves := [][]byte{make([]byte, 32)}
	for _, b := range chain {
		h := b.Hash
		leaves = append(leaves, h[:])
	}
	return common.Uint256(mth(leaves))
}

// validSuccessor states the four conditions of the property for block b on top of chain.
func validSuccessor(chain []mblock, b *types.Block) (bad []string) {
	tip := chain[len(chain)-1]
	if b.Header.Height != uint32(len(chain)) {
		bad = append(bad, fmt.Sprintf("height %d != tip+1 = %d", b.Header.Height, len(chain)))
	}
	if b.Header.PrevBlockHash != tip.Hash {
		bad = append(bad, "previous hash != tip hash")
	}
	if b.Header.Timestamp <= tip.TS {
		bad = append(bad, fmt.Sprintf("timestamp %d not later than parent %d", b.Header.Timestamp, tip.TS))
	}
	if b.Header.BlockRoot != refRoot(chain) {
		bad = append(bad, "block root != accumulator root over earlier block hashes")
	}
	return
}

func toM(b *types.Block) mblock {
	m := mblock{Hash: b.Hash(), Prev: b.Header.PrevBlockHash, TS: b.Header.Timestamp}
	for _, t := range b.Transactions {
		m.Txs = append(m.Txs, t.Hash())
	}
	return m
}

// ---------------------------------------------------------------------------------------------
// block construction (no use of the ledger's own root computation)

func regTx(keyIdx int, nonce uint32, signer *polyenv.Acct) *types.Transaction {
	k := polyenv.Key(keyIdx)
	p := &node_manager.RegisterPeerParam{PeerPubkey: k.PubHex, Address: k.Addr}
	s := common.NewZeroCopySink(nil)
	p.Serialization(s)
	if signer == nil {
		signer = k
	}
	return polyenv.Tx(utils.NodeManagerContractAddress, node_manager.REGISTER_CANDIDATE, s.Bytes(), nonce, polyenv.Single(signer))
}

// txsFor: E empty, G one state-changing tx, D two txs (one succeeding, one failing), S sibling content.
func txsFor(kind byte, height uint32) []*types.Transaction {
	switch kind {
	case 'G':
		return []*types.Transaction{regTx(100+int(height), height, nil)}
	case 'D':
		return []*types.Transaction{regTx(100+int(height), height, nil), regTx(200+int(height), height, vals[0])}
	case 'S':
		return []*types.Transaction{regTx(300+int(height), height, nil)}
	}
	return nil
}

func build(height uint32, prev common.Uint256, ts uint32, root common.Uint256, txs []*types.Transaction, mut func(b *types.Block)) *types.Block {
	return buildS(height, prev, ts, root, txs, mut, true)
}

func buildS(height uint32, prev common.Uint256, ts uint32, root common.Uint256, txs []*types.Transaction, mut func(b *types.Block), sign bool) *types.Block {
	hdr := &types.Header{Version: types.CURR_HEADER_VERSION, ChainID: polyenv.ChainID(), PrevBlockHash: prev,
		Timestamp: ts, Height: height, ConsensusData: uint64(height), ConsensusPayload: polyenv.VbftPayload(0, nil),
		NextBookkeeper: polyenv.OperatorAddr(vals), BlockRoot: root}
	b := &types.Block{Header: hdr, Transactions: txs}
	b.RebuildMerkleRoot()
	if mut != nil {
		mut(b)
	}
	if !sign {
		return b // execution twin: ExecuteBlock never looks at the signatures
	}
	polyenv.SignHeader(hdr, vals)
	nb, err := types.BlockFromRawBytes(b.ToArray()) // fresh hash caches; the decoder itself rejects a wrong tx root
	if err != nil {
		return b
	}
	return nb
}

// ---------------------------------------------------------------------------------------------
// BFS state

type state struct {
	Desc   []string       // canonical description: "G+1", "E+7", "R" (reopen), "C2/add:G+1" (crash + reopen) ...
	Blocks []*types.Block // committed blocks 0..n (0 = genesis)
	Ops    []sop          // how the ledger got here (parallel to Desc[1:]): commits, reopens, crash+reopen
}

func (s state) key() string { return strings.Join(s.Desc, ",") }

func (s state) model() []mblock {
	out := make([]mblock, len(s.Blocks))
	for i, b := range s.Blocks {
		out[i] = toM(b)
	}
	return out
}

// ---------------------------------------------------------------------------------------------
// ledger handling

type lctx struct {
	key   string
	dir   string
	ch    *polyenv.Chain
	dirty bool
	// execution results of honest twins in state exKey (ExecuteBlock is read-only and depends only on the
	// committed state and the twin; every call allocates a large overlay, so it is done once per twin)
	exKey string
	ex    map[common.Uint256]exRes
}

type exRes struct {
	res store.ExecuteResult
	err error
}

func (c *lctx) execTwin(twin *types.Block) (store.ExecuteResult, error) {
	if c.exKey != c.key || c.ex == nil {
		c.exKey, c.ex = c.key, map[common.Uint256]exRes{}
	}
	// the twin is identified by its transactions and position (unsigned twins share no hash cache issue)
	k := twin.Hash()
	if v, ok := c.ex[k]; ok {
		return v.res, v.err
	}
	res, err := c.ch.L.ExecuteBlock(twin)
	c.ex[k] = exRes{res, err}
	return res, err
}

var perG sync.Map // goroutine id -> *lctx

func gid() uint64 {
	var buf [64]byte
	n := runtime.Stack(buf[:], false)
	f := strings.Fields(string(buf[:n]))
	id, _ := strconv.ParseUint(f[1], 10, 64)
	return id
}

func (c *lctx) drop() {
	if c.ch != nil {
		ev.Guard(func() { c.ch.Close() })
		c.ch = nil
	}
	if c.dir != "" {
		os.RemoveAll(c.dir)
		c.dir = ""
	}
}

var rebuilds int64
var cntMu sync.Mutex

// ledgerAt returns this goroutine's ledger positioned exactly at state s (fresh directory + replay of the
// model's blocks when the cached one is at another state or was polluted by the previous event).
func ledgerAt(r *ev.Run, s state) *lctx {
	g := gid()
	var c *lctx
	if v, ok := perG.Load(g); ok {
		c = v.(*lctx)
	} else {
		c = &lctx{}
		perG.Store(g, c)
	}
	if c.ch != nil && c.key == s.key() && !c.dirty {
		return c
	}
	c.drop()
	cntMu.Lock()
	rebuilds++
	cntMu.Unlock()
	c.dir = polyenv.TmpDir("c13")
	ch, err := polyenv.OpenChain(c.dir, vals)
	if err != nil {
		r.HarnessError("open: %v", err)
	}
	c.ch = ch
	for i, o := range s.Ops {
		switch o.Kind {
		case "B":
			// alternate the commit path while replaying: the resulting ledger must not depend on it
			if i%2 == 0 {
				err = c.ch.CommitSync(o.Blk)
			} else {
				_, err = c.ch.Commit(o.Blk)
			}
			if err != nil {
				r.HarnessError("replay of state %q: block rejected at step %d: %v", s.key(), i+1, err)
			}
		case "R":
			if err := c.reopen(); err != nil {
				r.HarnessError("replay of state %q: reopen at step %d failed although it succeeded when the state was found: %v", s.key(), i+1, err)
			}
		case "C":
			if crashed, _ := crashCommit(c.ch, o.Blk, o.Path, o.I); !crashed {
				r.HarnessError("replay of state %q: no crash at step %d", s.key(), i+1)
			}
			if err := c.reopen(); err != nil {
				r.HarnessError("replay of state %q: recovery at step %d failed although it succeeded when the state was found: %v", s.key(), i+1, err)
			}
		}
	}
	if c.ch.L.GetCurrentBlockHash() != s.Blocks[len(s.Blocks)-1].Hash() {
		r.HarnessError("replay of state %q is not deterministic: tip differs", s.key())
	}
	c.key, c.dirty = s.key(), false
	registerCanon(r, s, c.ch)
	return c
}

func h(parts ...string) string {
	x := sha256.New()
	for _, p := range parts {
		x.Write([]byte(p))
		x.Write([]byte{0})
	}
	return hex.EncodeToString(x.Sum(nil)[:12])
}

func dumpStr(kv [][2][]byte) string {
	var sb strings.Builder
	for _, e := range kv {
		sb.WriteString(hex.EncodeToString(e[0]))
		sb.WriteByte('=')
		sb.WriteString(hex.EncodeToString(e[1]))
		sb.WriteByte('\n')
	}
	return sb.String()
}

func indexStr(l interface {
	VerifHeaderIndex() map[uint32]common.Uint256
}) string {
	m := l.VerifHeaderIndex()
	ks := make([]int, 0, len(m))
	for k := range m {
		ks = append(ks, int(k))
	}
	sort.Ints(ks)
	var sb strings.Builder
	for _, k := range ks {
		x := m[uint32(k)]
		fmt.Fprintf(&sb, "%d:%s ", k, x.ToHexString())
	}
	return sb.String()
}

// fp: byte-exact fingerprint of the three stores + tip (+ header index unless excluded).
func fp(ch *polyenv.Chain, withIndex bool) string {
	l := ch.L
	ht, hs := l.GetCurrentBlock()
	parts := []string{dumpStr(l.VerifDump("block")), dumpStr(l.VerifDump("state")), dumpStr(l.VerifDump("event")), fmt.Sprint(ht), hs.ToHexString()}
	if withIndex {
		parts = append(parts, indexStr(l))
	}
	return h(parts...)
}

// canon: signature-independent fingerprint (state + event stores, block hashes, header index).
func canon(ch *polyenv.Chain) string {
	l := ch.L
	ht, hs := l.GetCurrentBlock()
	return h(dumpStr(l.VerifDump("state")), dumpStr(l.VerifDump("event")), fmt.Sprint(ht), hs.ToHexString(), indexStr(l))
}

var canonReg sync.Map // state key -> canon fingerprint

func registerCanon(r *ev.Run, s state, ch *polyenv.Chain) {
	c := canon(ch)
	if v, loaded := canonReg.LoadOrStore(s.key(), c); loaded && v.(string) != c {
		r.HarnessError("state key %q is not canonical: two ledgers with this history differ (%s vs %s)", s.key(), v, c)
	}
}

// lookups compares every lookup the property names with the model; returns mismatches.
func lookups(ch *polyenv.Chain, m []mblock) (bad []string) {
	l := ch.L
	if int(l.GetCurrentBlockHeight()) != len(m)-1 {
		bad = append(bad, fmt.Sprintf("current height %d, model %d", l.GetCurrentBlockHeight(), len(m)-1))
	}
	if l.GetCurrentBlockHash() != m[len(m)-1].Hash {
		bad = append(bad, "current block hash")
	}
	idx := l.VerifHeaderIndex()
	if len(idx) != len(m) {
		bad = append(bad, fmt.Sprintf("header index has %d entries, model %d", len(idx), len(m)))
	}
	for i, b := range m {
		ht := uint32(i)
		if l.GetBlockHash(ht) != b.Hash || idx[ht] != b.Hash {
			bad = append(bad, fmt.Sprintf("GetBlockHash(%d)", i))
		}
		for name, get := range map[string]func() (*types.Block, error){
			"GetBlockByHeight": func() (*types.Block, error) { return l.GetBlockByHeight(ht) },
			"GetBlockByHash":   func() (*types.Block, error) { return l.GetBlockByHash(b.Hash) },
		} {
			blk, err := get()
			if err != nil || blk == nil {
				bad = append(bad, fmt.Sprintf("%s(%d): %v", name, i, err))
				continue
			}
			g := toM(polyenv.Rehash(blk))
			if g.Hash != b.Hash || g.Prev != b.Prev || g.TS != b.TS || blk.Header.Height != ht || fmt.Sprint(g.Txs) != fmt.Sprint(b.Txs) {
				bad = append(bad, fmt.Sprintf("%s(%d) returns another block", name, i))
			}
		}
		for name, get := range map[string]func() (*types.Header, error){
			"GetHeaderByHeight": func() (*types.Header, error) { return l.GetHeaderByHeight(ht) },
			"GetHeaderByHash":   func() (*types.Header, error) { return l.GetHeaderByHash(b.Hash) },
		} {
			hd, err := get()
			if err != nil || hd == nil {
				bad = append(bad, fmt.Sprintf("%s(%d): %v", name, i, err))
				continue
			}
			raw, _ := types.HeaderFromRawBytes(hd.ToArray())
			if raw.Hash() != b.Hash || hd.Height != ht {
				bad = append(bad, fmt.Sprintf("%s(%d) returns another header", name, i))
			}
		}
		if ok, err := l.IsContainBlock(b.Hash); !ok || err != nil {
			bad = append(bad, fmt.Sprintf("IsContainBlock(%d)", i))
		}
		if i == 0 {
			continue // genesis transactions: covered by GetBlockByHeight above
		}
		for _, th := range b.Txs {
			tx, txh, err := l.GetTransaction(th)
			if err != nil || tx == nil || tx.Hash() != th || txh != ht {
				bad = append(bad, fmt.Sprintf("GetTransaction(block %d): %v height %d", i, err, txh))
			}
			if ok, err := l.IsContainTransaction(th); !ok || err != nil {
				bad = append(bad, fmt.Sprintf("IsContainTransaction(block %d)", i))
			}
		}
	}
	return
}

// ---------------------------------------------------------------------------------------------
// events

var paths = []string{"add", "submit", "exec+submit", "hdr+add"}
var kinds = []byte{'E', 'G', 'D'}
var deltas = []uint32{1, 7}

// deviations: name -> builder of the deviating block on top of the model chain m (nil if not applicable).
type devFn func(m []mblock) *types.Block

func rnd(tag string) common.Uint256 { return common.Uint256(sha256.Sum256([]byte(tag))) }

func honest(m []mblock, kind byte, delta uint32, mut func(b *types.Block)) *types.Block {
	n := uint32(len(m))
	return build(n, m[n-1].Hash, m[n-1].TS+delta, refRoot(m), txsFor(kind, n), mut)
}

// Each deviation changes exactly one header field of an otherwise honest successor carrying one tx; the
// block is then honestly signed by all validators.
var devs = []struct {
	name string
	info bool // informational: none of the four stated conditions is broken
	mk   devFn
}{
	{"height=tip+2", false, func(m []mblock) *types.Block {
		return honest(m, 'G', 1, func(b *types.Block) { b.Header.Height++ })
	}},
	{"height=tip", false, func(m []mblock) *types.Block {
		return honest(m, 'G', 1, func(b *types.Block) { b.Header.Height-- })
	}},
	{"height=0", false, func(m []mblock) *types.Block {
		return honest(m, 'G', 1, func(b *types.Block) { b.Header.Height = 0 })
	}},
	{"height=tip+2,root-for-that-height", false, func(m []mblock) *types.Block {
		// consistent pair (height, root) but one block is missing in between
		fake := append(append([]mblock{}, m...), mblock{Hash: m[len(m)-1].Hash})
		return honest(m, 'G', 1, func(b *types.Block) { b.Header.Height++; b.Header.BlockRoot = refRoot(fake) })
	}},
	{"prev=grandparent", false, func(m []mblock) *types.Block {
		if len(m) < 2 {
			return nil
		}
		return honest(m, 'G', 1, func(b *types.Block) { b.Header.PrevBlockHash = m[len(m)-2].Hash })
	}},
	{"prev=grandparent,root-consistent", false, func(m []mblock) *types.Block {
		if len(m) < 2 {
			return nil
		}
		// accumulator over a history in which the tip is replaced by its parent
		fake := append(append([]mblock{}, m[:len(m)-1]...), m[len(m)-2])
		return honest(m, 'G', 1, func(b *types.Block) { b.Header.PrevBlockHash = m[len(m)-2].Hash; b.Header.BlockRoot = refRoot(fake) })
	}},
	{"prev=unknown", false, func(m []mblock) *types.Block {
		return honest(m, 'G', 1, func(b *types.Block) { b.Header.PrevBlockHash = rnd("unknown-parent") })
	}},
	{"prev=zero", false, func(m []mblock) *types.Block {
		return honest(m, 'G', 1, func(b *types.Block) { b.Header.PrevBlockHash = common.UINT256_EMPTY })
	}},
	{"ts=parent", false, func(m []mblock) *types.Block {
		return honest(m, 'G', 1, func(b *types.Block) { b.Header.Timestamp = m[len(m)-1].TS })
	}},
	{"ts=parent-1", false, func(m []mblock) *types.Block {
		return honest(m, 'G', 1, func(b *types.Block) { b.Header.Timestamp = m[len(m)-1].TS - 1 })
	}},
	{"ts=0", false, func(m []mblock) *types.Block {
		return honest(m, 'G', 1, func(b *types.Block) { b.Header.Timestamp = 0 })
	}},
	{"ts=parent,empty-block", false, func(m []mblock) *types.Block {
		return honest(m, 'E', 1, func(b *types.Block) { b.Header.Timestamp = m[len(m)-1].TS })
	}},
	{"root=zero", false, func(m []mblock) *types.Block {
		return honest(m, 'G', 1, func(b *types.Block) { b.Header.BlockRoot = common.UINT256_EMPTY })
	}},
	{"root=of-previous-size", false, func(m []mblock) *types.Block {
		return honest(m, 'G', 1, func(b *types.Block) { b.Header.BlockRoot = refRoot(m[:len(m)-1]) })
	}},
	{"root=of-next-size", false, func(m []mblock) *types.Block {
		fake := append(append([]mblock{}, m...), mblock{Hash: rnd("future")})
		return honest(m, 'G', 1, func(b *types.Block) { b.Header.BlockRoot = refRoot(fake) })
	}},
	{"root=without-zero-leaf", false, func(m []mblock) *types.Block {
		var leaves [][]byte
		for _, x := range m {
			hh := x.Hash
			leaves = append(leaves, hh[:])
		}
		return honest(m, 'G', 1, func(b *types.Block) { b.Header.BlockRoot = common.Uint256(mth(leaves)) })
	}},
	{"root=tip-replaced", false, func(m []mblock) *types.Block {
		fake := append(append([]mblock{}, m[:len(m)-1]...), mblock{Hash: rnd("other-tip")})
		return honest(m, 'G', 1, func(b *types.Block) { b.Header.BlockRoot = refRoot(fake) })
	}},
	{"root=one-inner-leaf-missing", false, func(m []mblock) *types.Block {
		if len(m) < 2 {
			return nil
		}
		// accumulator that skips the hash of the tip's parent (what a recovery that forgets a leaf would demand)
		fake := append(append([]mblock{}, m[:len(m)-2]...), m[len(m)-1])
		return honest(m, 'G', 1, func(b *types.Block) { b.Header.BlockRoot = refRoot(fake) })
	}},
	{"root=tip-leaf-duplicated", false, func(m []mblock) *types.Block {
		fake := append(append([]mblock{}, m...), m[len(m)-1])
		return honest(m, 'G', 1, func(b *types.Block) { b.Header.BlockRoot = refRoot(fake) })
	}},
	{"root=random,empty-block", false, func(m []mblock) *types.Block {
		return honest(m, 'E', 7, func(b *types.Block) { b.Header.BlockRoot = rnd("root") })
	}},
	// informational (the property does not speak about them; the block decoder / tx pool own these checks)
	{"txroot=random", true, func(m []mblock) *types.Block {
		return honest(m, 'G', 1, func(b *types.Block) { b.Header.TransactionsRoot = rnd("txroot") })
	}},
	{"duplicate-tx-in-block", true, func(m []mblock) *types.Block {
		n := uint32(len(m))
		t := txsFor('G', n)
		return build(n, m[n-1].Hash, m[n-1].TS+1, refRoot(m), append(t, t[0]), nil)
	}},
}

type outcome struct {
	err       error
	hdrErr    error
	hdrCalled bool
}

// submit runs block b through one path. twin = honest block with the same transactions at the canonical
// position, used to obtain the execution result / state root the caller of AddBlock / SubmitBlock supplies.
func submit(c *lctx, path string, b, twin *types.Block) (o outcome) {
	ch := c.ch
	l := ch.L
	var res store.ExecuteResult
	var xerr error
	if path != "exec+submit" {
		res, xerr = c.execTwin(twin)
	}
	switch path {
	case "add":
		if xerr != nil {
			o.err = fmt.Errorf("twin execution: %v", xerr)
			return
		}
		o.err = l.AddBlock(b, res.MerkleRoot)
	case "submit":
		if xerr != nil {
			o.err = fmt.Errorf("twin execution: %v", xerr)
			return
		}
		o.err = l.SubmitBlock(b, res)
	case "exec+submit":
		_, o.err = ch.Commit(b)
	case "hdr+add":
		o.hdrCalled = true
		hd, _ := types.HeaderFromRawBytes(b.Header.ToArray())
		o.hdrErr = l.AddHeaders([]*types.Header{hd})
		if xerr != nil {
			o.err = fmt.Errorf("twin execution: %v", xerr)
			return
		}
		o.err = l.AddBlock(b, res.MerkleRoot)
	}
	return
}

func errClass(err error) string {
	if err == nil {
		return "nil"
	}
	w := strings.Fields(err.Error())
	var out []string
	for _, x := range w {
		if strings.ContainsAny(x, "0123456789") && len(x) > 6 {
			continue
		}
		out = append(out, strings.Trim(x, ":,"))
		if len(out) == 6 {
			break
		}
	}
	return strings.Join(out, "_")
}

func main() {
	native.Contracts[utils.NodeManagerContractAddress] = node_manager.RegisterNodeManagerContract
	r := ev.Start("C13", "model_checking")
	debug.SetGCPercent(1000) // every block execution / store open allocates multi-MiB buffers: keep freed spans for reuse
	depth := r.QT(3, 4)
	if v := os.Getenv("C13_DEPTH"); v != "" {
		depth, _ = strconv.Atoi(v)
	}
	if pf := os.Getenv("C13_PROF"); pf != "" {
		f, _ := os.Create(pf)
		pprof.StartCPUProfile(f)
		defer pprof.StopCPUProfile()
	}
	vals = polyenv.Keys(nVals)
	polyenv.Setup(0, vals)
	r.Require("commit:canonical", "reject", "noop-nil", "resubmit-unchanged", "header-accepted", "header-rejected",
		"restart:clean-reopen", "restart:crash+reopen", "restart:recovered-with-block", "restart:recovered-without-block")
	// concurrency dimension first (small, and it must not be starved by the sequential exploration's budget)
	var cs *concStats
	if os.Getenv("C13_NO_CONC") == "" {
		r.Require("schedule:thread-blocked-on-saving-lock", "schedule:sequentially-consistent")
		cs = runConcurrency(r)
	}

	genesis := polyenv.Rehash(polyenv.GenesisBlock(vals))
	init0 := state{Desc: []string{"genesis"}, Blocks: []*types.Block{genesis}}

	// hdr+add with a deviation that passes the header-level checks leaves an uncommitted header behind (the
	// ledger must then be rebuilt), so only two block-root deviations take that path.
	quickTier := r.Quick()
	compactDevs := map[string]bool{"height=tip+2": true, "height=tip": true, "prev=grandparent": true, "prev=unknown": true,
		"ts=parent": true, "ts=parent-1": true, "root=zero": true, "root=of-previous-size": true, "root=one-inner-leaf-missing": true,
		"root=tip-leaf-duplicated": true, "root=of-next-size": true}
	hdrRootDevs := map[string]bool{"root=zero": true, "root=of-previous-size": true}
	verifhook.OnPersist = crashHook
	crashEvents := map[string]int{"add": persistEventsOfCommit(r, genesis, "add"), "exec+submit": persistEventsOfCommit(r, genesis, "exec+submit")}
	maxBlocksBeforeCrash := r.QT(2, 3)
	events := func(s state, d int) []string {
		var out []string
		restarted := hasRestart(s)
		wantR := false
		// restart events (bounds: <= 2 clean reopens, never two in a row; <= 1 crash per history)
		if os.Getenv("C13_NO_RESTART") == "" {
			last := ""
			if len(s.Ops) > 0 {
				last = s.Ops[len(s.Ops)-1].Kind
			}
			wantR = countOps(s, "R") < 2 && last != "R"
			// quick tier: no crash after a clean reopen, and beyond the first block one commit path (alternating)
			if countOps(s, "C") == 0 && len(s.Blocks)-1 <= maxBlocksBeforeCrash && !(quickTier && restarted) {
				cp := []string{"add", "exec+submit"}
				if quickTier && len(s.Blocks) > 1 {
					cp = cp[len(s.Desc)%2 : len(s.Desc)%2+1]
				}
				for _, p := range cp {
					for i := 1; i <= crashEvents[p]; i++ {
						out = append(out, fmt.Sprintf("restart|C|%d|%s", i, p))
					}
				}
			}
		}
		for _, dv := range devs {
			if dv.info && (len(s.Blocks) > 2 || restarted) {
				continue // informational deviations: shallow, never-restarted states only
			}
			if quickTier && restarted && !compactDevs[dv.name] {
				continue // quick tier, after a restart: one or two deviations per class
			}
			for _, p := range paths {
				if quickTier && restarted && p != "add" && p != "submit" {
					continue
				}
				if p == "hdr+add" && strings.HasPrefix(dv.name, "root=") && (!hdrRootDevs[dv.name] || restarted) {
					continue
				}
				out = append(out, "dev|"+dv.name+"|"+p)
			}
		}
		for j := 0; j < len(s.Blocks); j++ {
			for _, v := range []string{"same", "sibling"} {
				if j == 0 && v == "sibling" {
					continue
				}
				for _, p := range paths {
					if quickTier && restarted && p != "add" && p != "submit" {
						continue
					}
					out = append(out, fmt.Sprintf("resubmit|%d|%s|%s", j, v, p))
				}
			}
		}
		// canonical successors last (each costs a ledger rebuild for the following event): every successor
		// through one path (rotating), one successor per state through all four paths.
		i := 0
		for _, k := range kinds {
			for _, dl := range deltas {
				lastLevel := quickTier && len(s.Desc) >= depth // successors of this state are not expanded any more
				if lastLevel && !restarted && !((k == 'G' && dl == 1) || (k == 'E' && dl == 7) || (k == 'D' && dl == 1)) {
					i++
					continue
				}
				if restarted && !(k == 'G' && dl == 1) && !(k == 'E' && dl == 7 && !lastLevel) {
					i++
					continue // after a restart: two canonical successors (each through one rotating path)
				}
				for pi, p := range paths {
					allPaths := !restarted && i == len(s.Blocks)%6 && (len(s.Blocks) <= 2 || !quickTier) // quick: all four paths only in shallow states
					if allPaths || pi == (i+len(s.Desc))%4 {
						out = append(out, fmt.Sprintf("ok|%c+%d|%s", k, dl, p))
					}
				}
				i++
			}
		}
		if wantR {
			out = append(out, "restart|R") // last: every other event of this state runs on the never-reopened ledger
		}
		return out
	}

	var mu sync.Mutex
	infoCommits := map[string]int{}

	step := func(s state, e string) (state, bool) {
		f := strings.Split(e, "|")
		m := s.model()
		n := uint32(len(m))
		if f[0] == "restart" {
			c := ledgerAt(r, s)
			fpBefore := canon(c.ch)
			tok := restartToken(f)
			op := sop{Kind: "R"}
			var blk *types.Block
			if f[1] == "C" {
				op = sop{Kind: "C", Path: f[3]}
				op.I, _ = strconv.Atoi(f[2])
				blk = honest(m, 'G', 1, nil)
				op.Blk = blk
				crashed, err := crashCommit(c.ch, blk, op.Path, op.I)
				if !crashed {
					r.HarnessError("no crash at event %d of %s: %v", op.I, op.Path, err)
				}
				r.Class("restart:crash+reopen")
			} else {
				r.Class("restart:clean-reopen")
			}
			r.Eval()
			key := "after-restart:" + f[1]
			if f[1] == "C" {
				key = fmt.Sprintf("after-restart:crash-before-write-%s/%s", f[2], f[3])
			}
			det := func(x map[string]any) map[string]any {
				x["state"] = s.Desc
				x["event"] = e
				return x
			}
			if err := c.reopen(); err != nil {
				r.Class("restart:REOPEN-FAILED")
				r.Violation(key+"|reopen-failed", det(map[string]any{"error": err.Error()}))
				c.drop()
				return s, true
			}
			c.dirty, c.key = true, "" // the context is now at the successor state
			nm := m
			ns := state{Desc: append(append([]string{}, s.Desc...), tok), Blocks: s.Blocks, Ops: append(append([]sop{}, s.Ops...), op)}
			if blk != nil && c.ch.L.GetCurrentBlockHash() == blk.Hash() {
				// recovered WITH the interrupted block (legal; the other legal outcome is without it)
				ns.Blocks = append(append([]*types.Block{}, s.Blocks...), blk)
				nm = ns.model()
				r.Class("restart:recovered-with-block")
			} else if blk != nil {
				r.Class("restart:recovered-without-block")
			}
			r.Case(fmt.Sprintf("restart/%s/n=%d/+%d", tok, n, len(nm)-len(m)))
			if bad := afterRestart(c.ch, nm); len(bad) > 0 {
				r.Class("restart:INCONSISTENT")
				r.Violation(key+"|"+strings.SplitN(bad[0], ":", 2)[0], det(map[string]any{"mismatches": bad, "model_height": len(nm) - 1}))
				// the successor state is still explored: the honest successor / deviating roots show the consequence
			}
			registerCanon(r, ns, c.ch)
			if f[1] == "R" {
				if canon(c.ch) != fpBefore {
					r.Class("restart:REOPEN-CHANGED-LEDGER")
					r.Violation("after-restart:R|stores-or-index-changed", det(map[string]any{}))
				} else {
					// a clean reopen left stores, tip and header index identical: the context may go on serving state s
					c.dirty, c.key = false, s.key()
				}
			}
			return ns, true
		}
		var b, twin *types.Block
		var devName string
		info := false
		switch f[0] {
		case "dev":
			for _, dv := range devs {
				if dv.name == f[1] {
					b = dv.mk(m)
					info = dv.info
				}
			}
			if b == nil {
				return s, false
			}
			devName = f[1]
			twin = buildS(n, m[n-1].Hash, m[n-1].TS+1, refRoot(m), b.Transactions, nil, false)
		case "resubmit":
			j, _ := strconv.Atoi(f[1])
			if f[2] == "same" {
				b = s.Blocks[j]
			} else {
				b = build(uint32(j), m[j-1].Hash, m[j-1].TS+3, refRoot(m[:j]), txsFor('S', uint32(j)), nil)
			}
			devName = "resubmit-" + f[2]
			twin = b
		case "ok":
			k := f[1][0]
			dl, _ := strconv.Atoi(f[1][2:])
			b = honest(m, k, uint32(dl), nil)
			twin = b
		}
		path := f[len(f)-1]
		c := ledgerAt(r, s)
		ch := c.ch
		before := fp(ch, true)
		beforeNoIdx := fp(ch, false)
		var o outcome
		if x, p := ev.Guard(func() { o = submit(c, path, b, twin) }); p {
			r.Class("panic")
			r.Violation("panic:"+f[0]+":"+devName+"/"+path, map[string]any{"state": s.Desc, "event": e, "panic": fmt.Sprint(x)})
			c.dirty = true
			return s, true
		}
		r.Eval()
		afterTipH, afterTip := ch.L.GetCurrentBlock()
		tipMoved := afterTipH != n-1 || afterTip != m[n-1].Hash
		after := fp(ch, true)
		changed := after != before
		hdrAccepted := o.hdrCalled && o.hdrErr == nil
		if o.hdrCalled {
			if hdrAccepted {
				r.Class("header-accepted")
				// header-level conditions (verifyHeader anchor): next header height, known parent one below, later timestamp
				var bad []string
				if b.Header.Height != n {
					bad = append(bad, "height")
				}
				if b.Header.PrevBlockHash != m[n-1].Hash {
					bad = append(bad, "prev")
				}
				if b.Header.Timestamp <= m[n-1].TS {
					bad = append(bad, "timestamp")
				}
				if len(bad) > 0 {
					r.Violation("header-accepted:"+devName, map[string]any{"state": s.Desc, "event": e, "broken": bad})
				}
			} else {
				r.Class("header-rejected")
			}
		}
		detail := func(extra map[string]any) map[string]any {
			d := map[string]any{"state": s.Desc, "event": e, "error": fmt.Sprint(o.err), "header_error": fmt.Sprint(o.hdrErr),
				"block": hex.EncodeToString(b.ToArray()), "tip_height_after": afterTipH, "tip_after": afterTip.ToHexString()}
			for k, v := range extra {
				d[k] = v
			}
			return d
		}
		r.Case(fmt.Sprintf("%s/%s/%s/n=%d/moved=%v/%s", f[0], devName, path, n, tipMoved, errClass(o.err)))

		switch f[0] {
		case "ok":
			if !tipMoved || o.err != nil {
				if hasRestart(s) {
					// after a restart this is the ledger's fault, not the harness's
					r.Class("canonical-REJECTED-after-restart")
					r.Violation("honest-successor-rejected-after-restart/"+path, detail(map[string]any{"history": s.Desc}))
					c.dirty = true
					return s, true
				}
				r.HarnessError("canonical successor %s rejected in state %v: %v (header: %v)", e, s.Desc, o.err, o.hdrErr)
			}
			ns := state{Desc: append(append([]string{}, s.Desc...), f[1]), Blocks: append(append([]*types.Block{}, s.Blocks...), b),
				Ops: append(append([]sop{}, s.Ops...), sop{Kind: "B", Blk: b})}
			if afterTipH != n || afterTip != b.Hash() {
				r.Violation("commit-at-wrong-position/"+path, detail(nil))
			}
			if bad := lookups(ch, ns.model()); len(bad) > 0 {
				r.Violation("lookup-after-commit/"+path, detail(map[string]any{"mismatches": bad}))
			}
			registerCanon(r, ns, ch)
			r.Class("commit:canonical")
			r.Class("commit:canonical/" + path)
			c.dirty = true // ledger is now at ns; the next event of s needs a fresh one
			c.key = ""
			return ns, true
		case "resubmit":
			if changed || tipMoved {
				r.Class("resubmit-CHANGED")
				r.Violation("resubmission-changed-ledger:"+f[2]+"/"+path, detail(nil))
				c.dirty = true
			} else {
				r.Class("resubmit-unchanged")
				if o.err == nil {
					r.Class("noop-nil")
				} else {
					r.Class("reject")
				}
			}
			if bad := lookups(ch, m); len(bad) > 0 && !c.dirty {
				r.Violation("lookup-after-resubmission/"+path, detail(map[string]any{"mismatches": bad}))
			}
			return s, true
		default: // dev
			if tipMoved {
				broken := validSuccessor(m, b)
				if len(broken) > 0 {
					r.Class("commit:DEVIATING")
					r.Violation("committed:"+devName+"/"+path, detail(map[string]any{"broken_conditions": broken}))
				} else {
					// all four stated conditions hold (informational deviation): legal for C13
					if !info {
						r.HarnessError("deviation %s does not break any stated condition", devName)
					}
					r.Class("commit:informational")
					mu.Lock()
					infoCommits[devName+"/"+path]++
					mu.Unlock()
				}
				c.dirty = true
				return s, true
			}
			// not committed: nothing of the block may be visible
			noIdxChanged := fp(ch, false) != beforeNoIdx
			if noIdxChanged || (changed && !hdrAccepted) {
				r.Class("reject-CHANGED")
				r.Violation("rejected-block-changed-ledger:"+devName+"/"+path, detail(nil))
				c.dirty = true
			}
			if hdrAccepted {
				c.dirty = true // header index / cache now hold the header of a block that was not committed
			}
			if o.err == nil {
				r.Class("noop-nil")
				r.Class("noop-nil:" + devName)
			} else {
				r.Class("reject")
				r.Class("reject:" + errClass(o.err))
			}
			if info {
				r.Class("reject:informational")
			}
			return s, true
		}
	}

	workers := runtime.NumCPU()
	if workers > 16 {
		workers = 16
	}
	st := mc.BFS(mc.Config[state]{
		Init:     []state{init0},
		Events:   events,
		Step:     step,
		Key:      func(s state) string { return s.key() },
		MaxDepth: depth,
		Workers:  workers,
		Stop:     r.Expired,
	})
	perG.Range(func(_, v any) bool { v.(*lctx).drop(); return true })
	if st.Truncated {
		r.Capped("BFS frontier (deadline)")
	}
	r.Sample(map[string]any{"state": []string{"genesis", "G+1"}, "events": events(state{Blocks: []*types.Block{genesis, genesis}}, 1)[:12]})
	r.Note("informational_commits", infoCommits)
	r.Note("per_depth_states", st.PerDepth)
	r.Note("ledger_rebuilds", rebuilds)
	r.Assume("signatures/quorum are C14's subject: every block here is honestly signed by all 4 validators",
		"tx-root and duplicate-transaction deviations are informational: the property does not state them (block decoder / tx pool own them)",
		"AddBlock / SubmitBlock receive the execution result of the honest twin block with the same transactions (what a caller that executed the block would pass)")
	pprof.StopCPUProfile()
	var dn []string
	for _, d := range devs {
		dn = append(dn, d.name)
	}
	cov := map[string]any{}
	if cs != nil {
		cov = map[string]any{"concurrency_thread_pairs": cs.pairs, "concurrency_schedules": cs.schedules,
			"concurrency_schedules_preemption_bound_1": cs.bound1, "concurrency_schedules_preemption_bound_2": cs.bound2,
			"concurrency_schedules_with_a_thread_blocked_on_the_saving_lock": cs.blockedSeen,
			"concurrency_schedules_with_B_parked_mid_commit":                 cs.parkedB,
			"concurrency_distinct_outcomes":                                  len(cs.outcomes), "concurrency_outcomes": cs.outcomes,
			"concurrency_rule": "2 real goroutines on one store, switch points = persistence hook, blocked = goroutine in chan send inside getSavingBlockLock; final ledger == a sequential outcome, accumulator/state tree size == height+1, next root == reference, lookups == model, successor accepted, reopen equal; deadlock = violation"}
	}
	fin := map[string]any{
		"rule":                          "ledger changed => block at tip+1, prev = tip, timestamp > parent, block root = reference accumulator root; lookups == model after every commit; resubmission / rejection leaves stores byte-identical",
		"states":                        st.States,
		"transitions":                   st.Transitions,
		"traces_validated_against_impl": st.Transitions,
		"max_depth":                     st.MaxDepth,
		"depth_bound":                   depth,
		"depth_capped":                  st.DepthCapped,
		"paths":                         paths,
		"deviations":                    dn,
		"canonical_alphabet":            "contents {E,G,D} x timestamp step {+1,+7}",
	}
	for k, v := range cov {
		fin[k] = v
	}
	r.Finish(fin)
}
