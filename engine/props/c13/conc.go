// C13, concurrency dimension: schedule enumeration over the REAL LedgerStoreImp.
//
// Two real goroutines (thread A, thread B) call SubmitBlock / AddBlock / ExecuteBlock+SubmitBlock on ONE store.
// Scheduling points = verifhook.OnPersist (fires before every leveldb put/delete/batch and hash-file append):
// the running thread parks there and hands control to the harness, so exactly one thread is unparked at a
// time. Waiting on the saving lock (a channel semaphore) is made visible through the goroutine state:
// a thread is BLOCKED when runtime.Stack shows its goroutine in [chan send] inside getSavingBlockLock.
// The harness only ever waits for a stable state (every thread not-started / parked / blocked / finished);
// there is no wall-clock verdict (a 60 s guard only turns a harness hang into a harness error).
//
// Schedules (preemption bound 1 and 2): run A up to its i-th persist event (i = 0: not started), switch to B
// until it finishes / blocks / reaches its j-th persist event (j = 0: never parks), resume A to the end,
// then B to the end.
//
// Oracle per schedule: the final ledger is one of the two SEQUENTIAL outcomes of the same two calls (list of
// committed block hashes); accumulator size == state-merkle size == height+1; the root demanded from the
// next block == independent RFC-6962 root; all lookups == model; an honest successor is accepted; the
// store reopens to the same tip. Nobody runnable with somebody unfinished = deadlock = violation.
package main

import (
	"bytes"
	"fmt"
	"os"
	"runtime"
	"sort"
	"strings"
	"sync"
	"sync/atomic"
	"time"

	"github.com/polynetwork/poly/common"
	"github.com/polynetwork/poly/common/verifhook"
	"github.com/polynetwork/poly/core/store"
	"github.com/polynetwork/poly/core/types"
	"verif.local/engine/ev"
	"verif.local/engine/polyenv"
)

const (
	tNotStarted int32 = iota
	tRunning
	tParked
	tFinished
)

type cthread struct {
	name    string
	fn      func() error
	gid     uint64
	stopAt  int // park before this persist event (1-based); 0 = never
	events  int
	state   int32
	resume  chan struct{}
	started chan struct{}
	err     error
	pan     any
}

var cthreads sync.Map // goroutine id -> *cthread

func concHook(e string) {
	v, ok := cthreads.Load(gid())
	if !ok {
		return
	}
	t := v.(*cthread)
	t.events++
	if t.stopAt != 0 && t.events == t.stopAt {
		atomic.StoreInt32(&t.state, tParked)
		<-t.resume
	}
}

func (t *cthread) start() {
	atomic.StoreInt32(&t.state, tRunning)
	go func() {
		t.gid = gid()
		cthreads.Store(t.gid, t)
		close(t.started)
		defer func() {
			if x := recover(); x != nil {
				t.pan = x
			}
			cthreads.Delete(t.gid)
			atomic.StoreInt32(&t.state, tFinished)
		}()
		t.err = t.fn()
	}()
	<-t.started
}

func (t *cthread) cont(stopAt int) {
	t.stopAt = stopAt
	atomic.StoreInt32(&t.state, tRunning)
	t.resume <- struct{}{}
}

// blockedOnSavingLock: the thread's goroutine waits in a channel send inside getSavingBlockLock.
func blockedOnSavingLock(t *cthread, dump []byte) bool {
	hdr := []byte(fmt.Sprintf("goroutine %d [", t.gid))
	for _, g := range bytes.Split(dump, []byte("\n\n")) {
		if bytes.HasPrefix(g, hdr) {
			first := g
			if i := bytes.IndexByte(g, '\n'); i >= 0 {
				first = g[:i]
			}
			return bytes.Contains(first, []byte("[chan send")) && bytes.Contains(g, []byte("getSavingBlockLock"))
		}
	}
	return false
}

// allStacks dumps every goroutine, growing the buffer until the dump fits.
func allStacks(buf *[]byte) []byte {
	for {
		n := runtime.Stack(*buf, true)
		if n < len(*buf) {
			return (*buf)[:n]
		}
		*buf = make([]byte, 2*len(*buf))
	}
}

// waitStable returns once every thread is not-started / parked / finished / blocked on the saving lock.
// blocked[i] tells which running threads are blocked.
func waitStable(r *ev.Run, ts []*cthread) (blocked []bool) {
	deadline := time.Now().Add(60 * time.Second)
	buf := make([]byte, 1<<20)
	for spin := 0; ; spin++ {
		blocked = make([]bool, len(ts))
		stable := true
		// read every state FIRST, then take one stack dump, then classify with the states read before the
		// dump (a thread that finishes in between must not make a stale "blocked" observation of the other count)
		states := make([]int32, len(ts))
		anyRunning := false
		for i, t := range ts {
			states[i] = atomic.LoadInt32(&t.state)
			anyRunning = anyRunning || states[i] == tRunning
		}
		if anyRunning {
			dump := allStacks(&buf)
			for i, t := range ts {
				if states[i] != tRunning {
					continue
				}
				if blockedOnSavingLock(t, dump) {
					blocked[i] = true
				} else {
					stable = false
				}
			}
		}
		if stable {
			return
		}
		if time.Now().After(deadline) {
			dump := allStacks(&buf)
			var stuck []string
			for i, t := range ts {
				if states[i] == tRunning && !blocked[i] {
					hdr := []byte(fmt.Sprintf("goroutine %d [", t.gid))
					for _, g := range bytes.Split(dump, []byte("\n\n")) {
						if bytes.HasPrefix(g, hdr) {
							stuck = append(stuck, t.name+": "+string(g))
						}
					}
				}
			}
			r.HarnessError("concurrency harness: no stable state within 60 s (thread neither finished, parked nor blocked on the saving lock): %v", stuck)
		}
		if spin < 50 {
			runtime.Gosched()
		} else {
			time.Sleep(200 * time.Microsecond)
		}
	}
}

// ---------------------------------------------------------------------------------------------

type ccall struct {
	name string
	blk  *types.Block
	kind string // "S" SubmitBlock(result), "A" AddBlock(root), "X" ExecuteBlock+SubmitBlock
	res  store.ExecuteResult
}

func (c ccall) run(ch *polyenv.Chain) error {
	switch c.kind {
	case "S":
		return ch.L.SubmitBlock(c.blk, c.res)
	case "A":
		return ch.L.AddBlock(c.blk, c.res.MerkleRoot)
	default:
		_, err := ch.Commit(c.blk)
		return err
	}
}

func chainOf(ch *polyenv.Chain) (m []mblock, hashes string) {
	h := ch.L.GetCurrentBlockHeight()
	var hs []string
	for i := uint32(0); i <= h; i++ {
		b, err := ch.L.GetBlockByHeight(i)
		if err != nil || b == nil {
			hs = append(hs, fmt.Sprintf("<height %d unreadable: %v>", i, err))
			m = append(m, mblock{})
			continue
		}
		mb := toM(polyenv.Rehash(b))
		m = append(m, mb)
		hs = append(hs, mb.Hash.ToHexString()[:16])
	}
	return m, strings.Join(hs, ",")
}

func openBase(r *ev.Run, base []*types.Block) (*polyenv.Chain, string) {
	dir := polyenv.TmpDir("c13c")
	ch, err := polyenv.OpenChain(dir, vals)
	if err != nil {
		r.HarnessError("open: %v", err)
	}
	for _, b := range base[1:] {
		if err := ch.CommitSync(b); err != nil {
			r.HarnessError("concurrency base: %v", err)
		}
	}
	return ch, dir
}

type concStats struct {
	schedules, bound1, bound2 int
	outcomes                  map[string]int
	blockedSeen, parkedB      int
	pairs                     int
}

func runConcurrency(r *ev.Run) *concStats {
	verifhook.OnPersist = concHook
	defer func() { verifhook.OnPersist = nil }()
	st := &concStats{outcomes: map[string]int{}}
	var mu sync.Mutex

	nBase := []int{1}
	if r.Thorough() {
		nBase = []int{0, 1, 2}
	}
	type sched struct {
		base   []*types.Block
		a, b   ccall
		i, j   int
		seq    map[string]bool
		seqStr []string
	}
	var all []sched
	genesis := polyenv.Rehash(polyenv.GenesisBlock(vals))
	for _, nb := range nBase {
		// base chain
		base := []*types.Block{genesis}
		var m []mblock
		m = append(m, toM(genesis))
		for k := 0; k < nb; k++ {
			b := honest(m, 'G', 1, nil)
			base = append(base, b)
			m = append(m, toM(b))
		}
		bn := honest(m, 'G', 1, nil)                  // b_next
		bs := honest(m, 'E', 5, nil)                  // sibling: other content, other timestamp
		b2 := honest(append(m, toM(bn)), 'G', 1, nil) // b_next+1 (child of b_next)
		// execution results (solo helper ledger)
		hch, hdir := openBase(r, base)
		resN, err1 := hch.L.ExecuteBlock(bn)
		resS, err2 := hch.L.ExecuteBlock(bs)
		if err1 != nil || err2 != nil {
			r.HarnessError("exec: %v %v", err1, err2)
		}
		if err := hch.CommitSync(bn); err != nil {
			r.HarnessError("helper commit: %v", err)
		}
		res2, err := hch.L.ExecuteBlock(b2)
		if err != nil {
			r.HarnessError("exec b2: %v", err)
		}
		hch.Close()
		os.RemoveAll(hdir)
		first := []ccall{{"Submit(next)", bn, "S", resN}, {"Add(next)", bn, "A", resN}, {"Exec+Submit(next)", bn, "X", resN},
			{"Submit(sibling)", bs, "S", resS}, {"Add(sibling)", bs, "A", resS}}
		second := append(append([]ccall{}, first...), ccall{"Submit(next+1)", b2, "S", res2}, ccall{"Add(next+1)", b2, "A", res2})
		for _, a := range first {
			for _, b := range second {
				// sequential outcomes + event counts of the solo runs
				seq := map[string]bool{}
				var seqStr []string
				kA, kB := 0, 0
				for ord := 0; ord < 2; ord++ {
					ch, dir := openBase(r, base)
					x, y := a, b
					if ord == 1 {
						x, y = b, a
					}
					tx := &cthread{fn: func() error { return x.run(ch) }, resume: make(chan struct{}), started: make(chan struct{})}
					tx.start()
					waitStable(r, []*cthread{tx})
					ty := &cthread{fn: func() error { return y.run(ch) }, resume: make(chan struct{}), started: make(chan struct{})}
					ty.start()
					waitStable(r, []*cthread{ty})
					if ord == 0 {
						kA = tx.events
						if ty.events > kB {
							kB = ty.events
						}
					} else if tx.events > kB {
						kB = tx.events
					}
					mm, hs := chainOf(ch)
					// the sequential outcome itself must satisfy the reference model
					for h := len(base); h < len(mm); h++ {
						blk, _ := ch.L.GetBlockByHeight(uint32(h))
						if bad := validSuccessor(mm[:h], polyenv.Rehash(blk)); len(bad) > 0 {
							r.Violation("sequential-commit-invalid:"+x.name+";"+y.name, map[string]any{"broken": bad})
						}
					}
					seq[hs] = true
					seqStr = append(seqStr, fmt.Sprintf("%s;%s => %s", x.name, y.name, hs))
					ch.Close()
					os.RemoveAll(dir)
				}
				if kA == 0 {
					r.HarnessError("thread %s persists nothing when run alone", a.name)
				}
				st.pairs++
				for i := 0; i <= kA; i++ {
					all = append(all, sched{base, a, b, i, 0, seq, seqStr})
					// preemption bound 2 (B parks mid-commit as well): quick tier only for the second threads that
					// can themselves commit the contested height through the lock-taking entry points
					if r.Quick() && !(b.name == "Submit(next)" || b.name == "Add(next)") {
						continue
					}
					for j := 1; j <= kB; j++ {
						all = append(all, sched{base, a, b, i, j, seq, seqStr})
					}
				}
			}
		}
	}

	runOne := func(s sched) {
		ch, dir := openBase(r, s.base)
		defer os.RemoveAll(dir)
		A := &cthread{name: "A:" + s.a.name, fn: func() error { return s.a.run(ch) }, resume: make(chan struct{}), started: make(chan struct{})}
		B := &cthread{name: "B:" + s.b.name, fn: func() error { return s.b.run(ch) }, resume: make(chan struct{}), started: make(chan struct{})}
		ts := []*cthread{A, B}
		var trace []string
		note := func(step string, bl []bool) {
			var p []string
			for k, t := range ts {
				stt := []string{"not-started", "running", "parked", "finished"}[atomic.LoadInt32(&t.state)]
				if bl != nil && bl[k] {
					stt = "BLOCKED(saving lock)"
				}
				p = append(p, fmt.Sprintf("%s=%s@ev%d", t.name[:1], stt, t.events))
			}
			trace = append(trace, step+": "+strings.Join(p, " "))
		}
		sawBlocked, sawParkedB := false, false
		A.stopAt, B.stopAt = s.i, s.j
		if s.i > 0 {
			A.start()
			note("start A", waitStable(r, ts))
		}
		B.start()
		bl := waitStable(r, ts)
		note("start B", bl)
		sawBlocked = sawBlocked || bl[1]
		sawParkedB = atomic.LoadInt32(&B.state) == tParked
		if s.i == 0 {
			A.stopAt = 0
			A.start()
		} else if atomic.LoadInt32(&A.state) == tParked {
			A.cont(0)
		}
		bl = waitStable(r, ts)
		note("A to the end", bl)
		sawBlocked = sawBlocked || bl[0]
		deadlock := false
		for {
			progressed := false
			for _, t := range ts {
				if atomic.LoadInt32(&t.state) == tParked {
					t.cont(0)
					bl = waitStable(r, ts)
					note("resume "+t.name[:1], bl)
					progressed = true
				}
			}
			if atomic.LoadInt32(&A.state) == tFinished && atomic.LoadInt32(&B.state) == tFinished {
				break
			}
			if !progressed {
				deadlock = true
				break
			}
		}
		key := func(sym string) string { return "concurrent:" + s.a.name + "||" + s.b.name + "|" + sym }
		detail := func(extra map[string]any) map[string]any {
			d := map[string]any{"base_blocks": len(s.base) - 1, "thread_A": s.a.name, "thread_B": s.b.name,
				"A_parks_before_persist_event": s.i, "B_parks_before_persist_event": s.j, "trace": trace,
				"A_error": fmt.Sprint(A.err), "B_error": fmt.Sprint(B.err), "A_panic": fmt.Sprint(A.pan), "B_panic": fmt.Sprint(B.pan),
				"sequential_outcomes": s.seqStr}
			for k, v := range extra {
				d[k] = v
			}
			return d
		}
		r.Eval()
		mu.Lock()
		st.schedules++
		if s.j == 0 {
			st.bound1++
		} else {
			st.bound2++
		}
		if sawBlocked {
			st.blockedSeen++
		}
		if sawParkedB {
			st.parkedB++
		}
		mu.Unlock()
		if sawBlocked {
			r.Class("schedule:thread-blocked-on-saving-lock")
		}
		if deadlock {
			r.Class("schedule:DEADLOCK")
			r.Violation(key("deadlock"), detail(nil))
			return // goroutines and store are left behind
		}
		if A.pan != nil || B.pan != nil {
			r.Class("schedule:panic")
			r.Violation(key("panic"), detail(nil))
			ev.Guard(func() { ch.Close() })
			return
		}
		// ---- oracle
		m, hs := chainOf(ch)
		mu.Lock()
		st.outcomes[fmt.Sprintf("base=%d %s||%s => +%d block(s) A.err=%v B.err=%v", len(s.base)-1, s.a.name, s.b.name, len(m)-len(s.base), A.err != nil, B.err != nil)]++
		mu.Unlock()
		r.Case(fmt.Sprintf("conc/%s||%s/i=%d/j=%d/+%d/%v/%v", s.a.name, s.b.name, s.i, s.j, len(m)-len(s.base), A.err != nil, B.err != nil))
		var syms []string
		ex := map[string]any{"final_chain": hs}
		if !s.seq[hs] {
			syms = append(syms, "outcome-not-sequential")
		}
		ht := uint32(len(m) - 1)
		if n, _ := ch.L.VerifBlockMerkleMem(); n != ht+1 {
			syms = append(syms, "accumulator-size")
			ex["accumulator_size"] = fmt.Sprintf("%d at height %d", n, ht)
		}
		if n, _ := ch.L.VerifStateMerkleMem(); n != ht+1 {
			syms = append(syms, "state-merkle-size")
			ex["state_merkle_size"] = fmt.Sprintf("%d at height %d", n, ht)
		}
		if got := ch.L.GetBlockRootWithPreBlockHashes(ht+1, []common.Uint256{m[ht].Hash}); got != refRoot(m) {
			syms = append(syms, "next-block-root")
		}
		if bad := lookups(ch, m); len(bad) > 0 {
			syms = append(syms, "lookup")
			ex["lookup_mismatches"] = bad
		}
		succ := honest(m, 'G', 1, nil)
		if err := ch.CommitSync(succ); err != nil || ch.L.GetCurrentBlockHeight() != ht+1 {
			syms = append(syms, "successor-rejected")
			ex["successor_error"] = fmt.Sprint(err)
		} else {
			m = append(m, toM(succ))
		}
		ev.Guard(func() { ch.Close() })
		var ch2 *polyenv.Chain
		var oerr error
		if x, p := ev.Guard(func() { ch2, oerr = polyenv.OpenChain(dir, vals) }); p {
			oerr = fmt.Errorf("panic: %v", x)
		}
		if oerr != nil {
			syms = append(syms, "reopen-failed")
			ex["reopen_error"] = oerr.Error()
		} else {
			if bad := lookups(ch2, m); len(bad) > 0 {
				syms = append(syms, "reopen-lookup")
				ex["reopen_lookup_mismatches"] = bad
			}
			ev.Guard(func() { ch2.Close() })
		}
		if len(syms) > 0 {
			r.Class("schedule:VIOLATING")
			ex["all_symptoms"] = syms
			r.Violation(key(syms[0]), detail(ex))
		} else {
			r.Class("schedule:sequentially-consistent")
		}
	}

	// shortest preemption first, so the first report of a key carries the simplest schedule
	sort.SliceStable(all, func(x, y int) bool { return (all[x].j != 0) == false && (all[y].j != 0) })
	workers := runtime.NumCPU() / 2
	if workers < 2 {
		workers = 2
	}
	if workers > 8 {
		workers = 8
	}
	work := make(chan sched)
	var wg sync.WaitGroup
	for w := 0; w < workers; w++ {
		wg.Add(1)
		go func() {
			defer wg.Done()
			for s := range work {
				runOne(s)
			}
		}()
	}
	done := 0
	for _, s := range all {
		if r.Expired() {
			break
		}
		work <- s
		done++
	}
	close(work)
	wg.Wait()
	if done < len(all) {
		r.Capped(fmt.Sprintf("concurrency schedules: %d of %d (deadline)", done, len(all)))
	}
	return st
}
