// C13, restart dimension: the BFS alphabet also contains
//
//	restart|R            clean close + reopen (NewLedgerStore + InitLedgerStoreWithGenesisBlock)
//	restart|C|<i>|<path> crash before the i-th durable write of the next honest commit (G+1, through
//	                     AddBlock or ExecuteBlock+SubmitBlock), then reopen = the real recovery path
//
// Bounds per history: at most 2 clean reopens (never two in a row), at most 1 crash. After either event
// the whole C13 oracle goes on from the reopened ledger: the model chain is what the reopened ledger must
// hold (after a crash: with or without the interrupted block — both legal, anything else is a violation),
// the root demanded from the next block must be the reference accumulator root, lookups must agree, and the
// successor alphabet (honest / deviating / re-submitted blocks) must be accepted or rejected as the model says.
// Crash = panic in verifhook.OnPersist on the committing goroutine (the machinery of the C12 driver).
package main

import (
	"fmt"
	"os"
	"strings"
	"sync"

	"github.com/polynetwork/poly/common"
	"github.com/polynetwork/poly/core/types"
	"verif.local/engine/ev"
	"verif.local/engine/polyenv"
)

// sop is one step of a state's history (parallel to Desc[1:]).
type sop struct {
	Kind string       // "B" commit of Blk, "R" clean reopen, "C" crash at event I of commit(Blk, Path) + reopen
	Blk  *types.Block // B, C
	Path string       // C: "add" | "exec+submit"
	I    int          // C
}

func hasRestart(s state) bool {
	for _, o := range s.Ops {
		if o.Kind != "B" {
			return true
		}
	}
	return false
}

func countOps(s state, kind string) (n int) {
	for _, o := range s.Ops {
		if o.Kind == kind {
			n++
		}
	}
	return
}

type crashSig struct{}

var crashAt sync.Map // goroutine id -> *int (countdown to the crashing persistence event)

func crashHook(e string) {
	v, ok := crashAt.Load(gid())
	if !ok {
		return
	}
	p := v.(*int)
	*p--
	if *p == 0 {
		panic(crashSig{})
	}
}

// commitVia commits b through one of the two production commit sequences.
func commitVia(ch *polyenv.Chain, b *types.Block, path string) error {
	if path == "add" {
		return ch.CommitSync(b)
	}
	_, err := ch.Commit(b)
	return err
}

// crashCommit runs commit(b, path) on ch and crashes before its i-th durable write; the raw stores are then
// closed (nothing a process crash would lose is written by Close). Returns false if the commit finished
// with fewer than i writes.
func crashCommit(ch *polyenv.Chain, b *types.Block, path string, i int) (crashed bool, err error) {
	g := gid()
	n := i
	crashAt.Store(g, &n)
	defer crashAt.Delete(g)
	func() {
		defer func() {
			if x := recover(); x != nil {
				if _, ok := x.(crashSig); ok {
					crashed = true
					return
				}
				panic(x)
			}
		}()
		err = commitVia(ch, b, path)
	}()
	return
}

// persistEventsOfCommit learns, from a solo run, how many durable writes one honest commit performs.
func persistEventsOfCommit(r *ev.Run, genesis *types.Block, path string) int {
	s := state{Desc: []string{"genesis"}, Blocks: []*types.Block{genesis}}
	b := honest(s.model(), 'G', 1, nil)
	dir := polyenv.TmpDir("c13k")
	ch, err := polyenv.OpenChain(dir, vals)
	if err != nil {
		r.HarnessError("open: %v", err)
	}
	g := gid()
	n := 1 << 30
	crashAt.Store(g, &n)
	err = commitVia(ch, b, path)
	crashAt.Delete(g)
	ch.Close()
	os.RemoveAll(dir)
	if err != nil {
		r.HarnessError("solo commit: %v", err)
	}
	return (1 << 30) - n
}

// reopen closes the context's ledger and opens the directory again (restart path).
func (c *lctx) reopen() error {
	if c.ch != nil {
		ev.Guard(func() { c.ch.Close() })
		c.ch = nil
	}
	var ch *polyenv.Chain
	var err error
	if x, p := ev.Guard(func() { ch, err = polyenv.OpenChain(c.dir, vals) }); p {
		err = fmt.Errorf("panic: %v", x)
	}
	if err != nil {
		return err
	}
	c.ch = ch
	return nil
}

// afterRestart: what must hold right after a reopen, against the model chain m.
func afterRestart(ch *polyenv.Chain, m []mblock) (bad []string) {
	ht := uint32(len(m) - 1)
	if n, _ := ch.L.VerifBlockMerkleMem(); n != ht+1 {
		bad = append(bad, fmt.Sprintf("accumulator-size: %d at height %d", n, ht))
	}
	if n, _ := ch.L.VerifStateMerkleMem(); n != ht+1 {
		bad = append(bad, fmt.Sprintf("state-merkle-size: %d at height %d", n, ht))
	}
	if _, sh, err := ch.L.VerifStateCurrentBlock(); err != nil || sh != ht {
		bad = append(bad, fmt.Sprintf("state-height: %d (err %v) at block height %d", sh, err, ht))
	}
	if got := ch.L.GetBlockRootWithPreBlockHashes(ht+1, []common.Uint256{m[ht].Hash}); got != refRoot(m) {
		bad = append(bad, "next-block-root: root demanded from the next block != reference accumulator root")
	}
	for _, x := range lookups(ch, m) {
		bad = append(bad, "lookup: "+x)
	}
	return
}

func restartToken(f []string) string {
	if f[1] == "R" {
		return "R"
	}
	return "C" + f[2] + "/" + f[3] + ":G+1"
}

func descHasPrefix(tok, p string) bool { return strings.HasPrefix(tok, p) }
