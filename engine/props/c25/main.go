// C25 — vote-based approvals fire exactly once at ceil(2N/3) distinct current consensus validators.
//
// Mechanisms driven through the real native-contract entry points (production path
// StateStore.HandleInvokeTransaction -> NativeService.Invoke):
//
//	vote     cross_chain_manager.ImportExTransfer on a VOTE_ROUTER source chain   (consensus_vote.CheckVotes)
//	ripple   cross_chain_manager.ImportExTransfer on a RIPPLE_ROUTER source chain (consensus_vote.CheckVotes)
//	fee      side_chain_manager.UpdateFee                                         (consensus_vote.CheckVotes)
//	sig      signature_manager.AddSignature                                      (signature_manager.CheckSigns)
//	blocked  vote router whose target chain is blacklisted: the releasing tx fails downstream and must not
//	         record the vote; after WhiteChain the next vote that completes the quorum releases.
//
// Space: for every N in 1..Nmax (quick 6 / thorough 8) a breadth-first exploration over ALL sequences of
// {vote by validator i (i<N), vote by an outsider} — repeat votes included — until two steps past the
// release, deduplicated on (real state dump, model state). One epoch change through the real node_manager path
// (join / replace / shrink, see epochChange) is inserted at every position of every sequence: quick for the
// every mechanism at N = 4 (and vote router / AddSignature at N = 5); thorough for every mechanism and N. The
// change may come before or after the release; "exactly once" is asserted over the whole history of a subject.
//
// Oracle (reference model: a set of voters and a released flag):
//   - a vote by a non-validator fails and leaves the dump unchanged;
//   - a vote by a current validator succeeds; voters' = voters ∪ {i};
//   - the tx releases (exactly one release) iff !released ∧ |voters' ∩ current| ≥ ceil(2N/3) (reference
//     computed by a loop, not by the formula of the code); no release in any other tx;
//   - a release is mechanism specific: vote/ripple = exactly one cross-state hash and one new request
//     record; fee = fee view advanced by one; sig = exactly one AddSignatureQuorum notification.
package main

import (
	"fmt"
	"math/big"
	"sort"
	"strings"
	"sync"
	"sync/atomic"
	"time"

	"github.com/polynetwork/poly/common"
	"github.com/polynetwork/poly/core/types"
	_ "github.com/polynetwork/poly/native/service"
	scom "github.com/polynetwork/poly/native/service/cross_chain_manager/common"
	"github.com/polynetwork/poly/native/service/governance/node_manager"
	"github.com/polynetwork/poly/native/service/governance/side_chain_manager"
	"github.com/polynetwork/poly/native/service/governance/signature_manager"
	"github.com/polynetwork/poly/native/service/utils"
	"verif.local/engine/ev"
	"verif.local/engine/lib/ccm"
	"verif.local/engine/mc"
	"verif.local/engine/polyenv"
)

const (
	chainSrc  = 11 // vote-router source chain
	chainDst  = 12 // account-based destination (vote router registered, never used as source)
	chainRip  = 13 // ripple-router source chain
	outsiderK = 500
	newValK   = 600
)

type state struct {
	D        polyenv.Dump
	Voters   map[int]bool // model: who has an accepted vote in the current round (key index; newValK = joined validator)
	Cur      map[int]bool // model: current consensus set
	Released bool         // model: current round already released (vote/ripple/sig)
	Releases int          // model: number of releases so far
	Post     int          // steps taken since first release
	View     uint64       // fee: model of the fee view (round counter)
	Epoch    bool         // epoch change already used on this path
	Quits    int          // in-view status changes: validators that called quitNode (QuitingStatus until the next commitDpos)
	Cand     int          // candidate newValK+3: 0 none, 1 approved (CandidateStatus, not yet consensus), 2 committed into the consensus set
	Commits  int          // commitDpos executed after in-view changes
	White    bool         // blocked: target already white-listed
	Depth    int
}

func (s state) key() string {
	var v, c []string
	for i, ok := range s.Voters {
		if ok {
			v = append(v, fmt.Sprint(i))
		}
	}
	for i, ok := range s.Cur {
		if ok {
			c = append(c, fmt.Sprint(i))
		}
	}
	sort.Strings(v)
	sort.Strings(c)
	return fmt.Sprintf("%s|%s|%v|%d|%d|%d|%v|%v|%s", strings.Join(v, ","), strings.Join(c, ","), s.Released, s.Releases, s.Post,
		s.View, s.Epoch, s.White, fmt.Sprint(s.Quits, s.Cand, s.Commits)+"|"+s.D.String())
}

func cp(m map[int]bool) map[int]bool {
	o := map[int]bool{}
	for k, v := range m {
		if v {
			o[k] = true
		}
	}
	return o
}

func acct(i int) *polyenv.Acct { return polyenv.Key(i) }

// mech = one vote-authenticated mechanism.
type mech struct {
	name string
	seed func(w *polyenv.World, vals []*polyenv.Acct)
	// vote builds the voting tx of `who` in model state s.
	vote func(s state, who *polyenv.Acct, nonce uint32) *types.Transaction
	// releases counts release effects of one executed tx.
	releases func(prev polyenv.Dump, res polyenv.Result, next polyenv.Dump) int
	rounds   bool // a release opens a new round (fee)
}

var voteMsg = ccm.MsgBytes(ccm.Msg([]byte{0xaa, 1}, []byte{0xcc, 1}, []byte{0xf0}, chainDst, make([]byte, 20), "unlock", []byte{1, 2, 3}))

func rippleArgs() []byte {
	s := common.NewZeroCopySink(nil)
	s.WriteVarBytes([]byte{0xd1, 0xd2})
	s.WriteUint64(1000)
	return s.Bytes()
}

var rippleMsg = ccm.MsgBytes(ccm.Msg([]byte{0xab, 1}, []byte{0xcd, 1}, []byte{0xf1}, chainDst, nil, "unlock", rippleArgs()))

func importReleases(prev polyenv.Dump, res polyenv.Result, next polyenv.Dump) int {
	// release = cross-state hash(es) + new request record(s); report max so that a mismatch is visible
	nreq := ccm.CountPrefix(next, ccm.RequestPrefix()) - ccm.CountPrefix(prev, ccm.RequestPrefix())
	n := len(res.CrossHashes)
	if nreq > n {
		n = nreq
	}
	return n
}

func feeView(d polyenv.Dump) uint64 {
	k := polyenv.StorageKey(append(append(append([]byte{}, utils.SideChainManagerContractAddress[:]...), []byte(side_chain_manager.FEE)...), ccm.LE64(chainSrc)...))
	if v, ok := ccm.Get(d, k); ok {
		f := &side_chain_manager.Fee{}
		if err := f.Deserialization(common.NewZeroCopySource(v)); err != nil {
			panic(err)
		}
		return f.View
	}
	return 0
}

func mechs() []mech {
	regBasic := func(w *polyenv.World, vals []*polyenv.Acct) {
		ccm.Register(w, vals, ccm.SC{ID: chainSrc, Router: utils.VOTE_ROUTER, Wait: 1, Name: "src", CCMC: []byte{1}}, -1, 1)
		ccm.Register(w, vals, ccm.SC{ID: chainDst, Router: utils.VOTE_ROUTER, Wait: 1, Name: "dst", CCMC: []byte{2}}, -1, 1)
	}
	return []mech{
		{name: "vote", seed: regBasic,
			vote: func(s state, who *polyenv.Acct, nonce uint32) *types.Transaction {
				return ccm.VoteImport(chainSrc, 7, voteMsg, who, nonce)
			}, releases: importReleases},
		{name: "blocked", seed: func(w *polyenv.World, vals []*polyenv.Acct) {
			regBasic(w, vals)
			r := w.Exec(ccm.BlackTx(chainDst, false, 1, polyenv.Multi(vals)), 1, 1000)
			if !r.OK {
				panic(fmt.Sprint("BlackChain seed: ", r.Err))
			}
		},
			vote: func(s state, who *polyenv.Acct, nonce uint32) *types.Transaction {
				return ccm.VoteImport(chainSrc, 7, voteMsg, who, nonce)
			}, releases: importReleases},
		{name: "ripple", seed: func(w *polyenv.World, vals []*polyenv.Acct) {
			regBasic(w, vals)
			op := polyenv.Key(901)
			x := &side_chain_manager.RippleExtraInfo{Operator: op.Addr, Sequence: 1, Quorum: 1, SignerNum: 1, Pks: [][]byte{{2}}, ReserveAmount: big.NewInt(1)}
			xs := common.NewZeroCopySink(nil)
			x.Serialization(xs)
			ccm.Register(w, vals, ccm.SC{ID: chainRip, Router: utils.RIPPLE_ROUTER, Wait: 1, Name: "xrp", CCMC: []byte{3}, Extra: xs.Bytes()}, -1, 1)
			p := &side_chain_manager.RegisterAssetParam{OperatorAddress: op.Addr, ChainId: chainRip,
				AssetMap: map[uint64][]byte{chainDst: {0xa5}}, LockProxyMap: map[uint64][]byte{chainDst: {0x10, 0xc4}}}
			ps := common.NewZeroCopySink(nil)
			p.Serialization(ps)
			r := w.Exec(polyenv.Tx(utils.SideChainManagerContractAddress, side_chain_manager.REGISTER_ASSET, ps.Bytes(), 1, polyenv.Single(op)), 1, 1000)
			if !r.OK {
				panic(fmt.Sprint("registerAsset seed: ", r.Err))
			}
		},
			vote: func(s state, who *polyenv.Acct, nonce uint32) *types.Transaction {
				return ccm.VoteImport(chainRip, 9, rippleMsg, who, nonce)
			}, releases: importReleases},
		{name: "fee", seed: regBasic, rounds: true,
			vote: func(s state, who *polyenv.Acct, nonce uint32) *types.Transaction {
				p := &side_chain_manager.UpdateFeeParam{Address: who.Addr, ChainId: chainSrc, View: s.View, Fee: big.NewInt(int64(100 + int(who.Addr[0])))}
				ps := common.NewZeroCopySink(nil)
				p.Serialization(ps)
				return polyenv.Tx(utils.SideChainManagerContractAddress, side_chain_manager.UPDATE_FEE, ps.Bytes(), nonce, polyenv.Single(who))
			},
			releases: func(prev polyenv.Dump, res polyenv.Result, next polyenv.Dump) int {
				return int(feeView(next)) - int(feeView(prev))
			}},
		{name: "sig", seed: regBasic,
			vote: func(s state, who *polyenv.Acct, nonce uint32) *types.Transaction {
				p := &signature_manager.AddSignatureParam{Address: who.Addr, SideChainID: chainSrc, Subject: []byte("subject-1"), Signature: append([]byte("sig-of-"), who.Addr[:4]...)}
				ps := common.NewZeroCopySink(nil)
				p.Serialization(ps)
				return polyenv.Tx(utils.SignatureManagerContractAddress, signature_manager.ADD_SIGNATURE, ps.Bytes(), nonce, polyenv.Single(who))
			},
			releases: func(prev polyenv.Dump, res polyenv.Result, next polyenv.Dump) int {
				n := 0
				if res.Notify != nil {
					for _, e := range res.Notify.Notify {
						if st, ok := e.States.([]interface{}); ok && len(st) > 0 && st[0] == "AddSignatureQuorum" {
							n++
						}
					}
				}
				return n
			}},
	}
}

// epoch change through the real node_manager path (thorough tier):
//
//	join    registerCandidate(new) + approveCandidate by a quorum + commitDpos by the operator: N -> N+1
//	replace registerCandidate(new) + approveCandidate by a quorum + blackNode(validator 0) by a quorum of the
//	        others (the quorum-completing blackNode runs commitDpos itself): validator 0 out, new one in
//	shrink  blackNode(validator 0) by a quorum (needs N >= 5: node_manager keeps > MIN_PEER_NUM peers): N -> N-1
//	join3   three new validators at once: N -> N+3. After a release at ceil(2N/3) the stored votes fall below the
//	        new quorum by at least two, so one further vote stays below and a second one crosses it again: the
//	        release / event must still not fire a second time (exactly once per subject over the whole history).
//
// The epoch change is inserted at every position of a sequence, BEFORE and AFTER the release; exploration goes on
// until two votes past the release (epoch changes and WhiteChain do not count as steps).
//
// Status changes INSIDE the current view (no view switch) are separate events, at every position before and after
// the release: quitNode by a validator that has / has not voted (QuitingStatus until the next commitDpos; quick one, thorough two;
// node_manager requires more than 4 remaining peers), approval of a candidate (CandidateStatus), and a later
// commitDpos. Reference: "current consensus validators" = ConsensusStatus peers of the current view, so a quitting
// validator leaves the set (and N) immediately and a candidate joins it only at commitDpos.
func epochChange(w *ccm.W, vals []*polyenv.Acct, mode string, height uint32) error {
	ser := func(f func(*common.ZeroCopySink)) []byte { s := common.NewZeroCopySink(nil); f(s); return s.Bytes() }
	for k := 0; k < joiners(mode); k++ {
		nv := acct(newValK + k)
		rp := &node_manager.RegisterPeerParam{PeerPubkey: nv.PubHex, Address: nv.Addr}
		r := w.Exec(polyenv.Tx(utils.NodeManagerContractAddress, node_manager.REGISTER_CANDIDATE, ser(rp.Serialization), 7001, polyenv.Single(nv)), height, 1000)
		if !r.OK {
			return fmt.Errorf("registerCandidate: %v", r.Err)
		}
		for i := 0; i < ccm.Quorum(len(vals)); i++ {
			ap := &node_manager.PeerParam{PeerPubkey: nv.PubHex, Address: vals[i].Addr}
			r = w.Exec(polyenv.Tx(utils.NodeManagerContractAddress, node_manager.APPROVE_CANDIDATE, ser(ap.Serialization), 7002, polyenv.Single(vals[i])), height, 1000)
			if !r.OK {
				return fmt.Errorf("approveCandidate %d: %v", i, r.Err)
			}
		}
	}
	if mode == "join" || mode == "join3" {
		r := w.Exec(polyenv.Tx(utils.NodeManagerContractAddress, node_manager.COMMIT_DPOS, nil, 7004, polyenv.Multi(vals)), height, 1000)
		if !r.OK {
			return fmt.Errorf("commitDpos: %v", r.Err)
		}
		return nil
	}
	for i := 1; i <= ccm.Quorum(len(vals)); i++ { // validators 1.. vote validator 0 out
		bp := &node_manager.PeerListParam{PeerPubkeyList: []string{vals[0].PubHex}, Address: vals[i%len(vals)].Addr}
		r := w.Exec(polyenv.Tx(utils.NodeManagerContractAddress, node_manager.BLACK_NODE, ser(bp.Serialization), 7003, polyenv.Single(vals[i%len(vals)])), height, 1000)
		if !r.OK {
			return fmt.Errorf("blackNode %d: %v", i, r.Err)
		}
	}
	return nil
}

// joiners: number of new validators (keys newValK, newValK+1, ...) an epoch mode brings in.
func joiners(mode string) int {
	switch mode {
	case "join", "replace":
		return 1
	case "join3":
		return 3
	}
	return 0
}

const candK = newValK + 3

func btoi(b bool) int {
	if b {
		return 1
	}
	return 0
}

// pick: lowest-index current validator that has (voted=true) / has not (voted=false) voted; -1 if none.
func pick(s state, voted bool) int {
	for _, i := range keys(s.Cur) {
		if s.Voters[i] == voted {
			return i
		}
	}
	return -1
}

func curAccts(cur map[int]bool) []*polyenv.Acct {
	var o []*polyenv.Acct
	for _, i := range keys(cur) {
		o = append(o, acct(i))
	}
	return o
}

type job struct {
	m    mech
	n    int
	vals []*polyenv.Acct
	init state
}

func main() {
	r := ev.Start("C25", "model_checking")
	nmax := r.QT(6, 8)
	r.Require("release", "norelease-below-quorum", "outsider-rejected", "repeat-vote", "post-release-vote", "blocked-release-failed")
	// genesis + seeding is sequential (genesis reads the process-wide VBFT config); exploration runs in parallel.
	var jobs []job
	for _, m := range mechs() {
		for n := 1; n <= nmax; n++ {
			vals := polyenv.Keys(n)
			polyenv.Setup(0, vals)
			polyenv.InstallHeightLedger()
			w := polyenv.NewWorld()
			w.Genesis(vals)
			m.seed(w, vals)
			cur := map[int]bool{}
			for i := 0; i < n; i++ {
				cur[i] = true
			}
			d := w.Dump()
			w.Close()
			jobs = append(jobs, job{m, n, vals, state{D: d, Voters: map[int]bool{}, Cur: cur, View: feeView(d)}})
		}
	}
	var mu sync.Mutex
	var total mc.Stats
	perMech := map[string]any{}
	var epochBuilt int64
	pool := ccm.NewWorlds(32)
	// payload families (see payload.go): quick N = 4; thorough N = 4, 5
	pn := []int{4}
	if r.Thorough() {
		pn = []int{4, 5}
	}
	pst, ptr := 0, 0
	for _, n := range pn {
		bases := map[string]polyenv.Dump{}
		for _, j := range jobs {
			if j.n == n {
				bases[j.m.name] = j.init.D
			}
		}
		a, b := payloadPhase(r, pool, bases, n)
		pst, ptr = pst+a, ptr+b
	}
	r.Require("payload:release", "payload:below-quorum", "payload:quorum-blocked-by-done-id", "payload:vote-after-release")
	r.Note("payload_family_phase", map[string]any{"N": pn, "states": pst, "transitions": ptr,
		"families": "vote, ripple: P0..P5 (same tx+id other args / same args other id / trailing bytes / other height / other method+from-contract); sig: S0..S3",
		"spaces":   "every pair (P0,Pk) to the fixpoint; thorough also the whole family to depth 5"})
	total.States += pst
	total.Transitions += ptr
	sem := make(chan struct{}, 16)
	var wg sync.WaitGroup
	for _, j := range jobs {
		j := j
		wg.Add(1)
		sem <- struct{}{}
		go func() {
			defer func() { <-sem; wg.Done() }()
			st := explore(r, j, pool, &epochBuilt)
			mu.Lock()
			defer mu.Unlock()
			total.States += st.States
			total.Transitions += st.Transitions
			if st.MaxDepth > total.MaxDepth {
				total.MaxDepth = st.MaxDepth
			}
			if st.Truncated {
				r.Capped(fmt.Sprintf("%s/N=%d truncated by deadline", j.m.name, j.n))
			}
			if st.DepthCapped {
				r.Capped(fmt.Sprintf("%s/N=%d depth cap", j.m.name, j.n))
			}
			perMech[fmt.Sprintf("%s/N=%d", j.m.name, j.n)] = map[string]int{"states": st.States, "transitions": st.Transitions, "depth": st.MaxDepth}
		}()
	}
	wg.Wait()
	r.Assume("block execution does not verify signatures: a voter is whoever is listed as tx signer (CheckWitness)",
		"timestamps are constant, so the UpdateFee 300 s round timeout never fires",
		"a vote by a non-validator submitted after the release returns success without any effect (CheckVotes tests the Status flag before membership); counted as class outsider-noop-after-release, not as a violation: nothing is recorded, counted or released")
	r.Note("per_mechanism", perMech)
	r.Note("epoch_changes_executed", epochBuilt)
	r.Finish(map[string]any{
		"rule":       "release/emit exactly once, in the tx of the first current-validator vote after which |voters ∩ current consensus| >= ceil(2N/3); outsiders never leave a trace",
		"mechanisms": []string{"vote router", "ripple router", "UpdateFee", "AddSignature", "vote router with blacklisted target (failed release)"},
		"N_range":    fmt.Sprintf("1..%d", nmax), "epoch_change_modes": []string{"join N>=1", "join3 N<=5", "replace N>=4", "shrink N>=5"}, "epoch_change_positions": "every position before and after the release",
		"in_view_status_changes": map[bool]string{false: "vote, sig at N=5: one quitNode (voter / non-voter) or one candidate approval, optional later commitDpos, at every position",
			true: "vote, fee, sig: N=5 up to two quitNode, or one candidate approval; N=4,6,7 one quitNode or one candidate approval; optional later commitDpos; at every position"}[r.Thorough()],
		"epoch_change_scope": map[bool]string{true: "every mechanism, every N", false: "vote, fee, sig at N=4 (incl. join3), AddSignature also at N=5"}[r.Thorough()],
		"states":             total.States, "transitions": total.Transitions, "traces_validated_against_impl": total.Transitions, "max_depth": total.MaxDepth,
	})
}

var t0 = time.Now()

func explore(r *ev.Run, j job, pool *ccm.Worlds, epochBuilt *int64) mc.Stats {
	m, n, vals := j.m, j.n, j.vals
	epochModes := []string{}
	// quick tier: epoch changes for vote/ripple/fee/sig at N = 4 and for AddSignature at N = 5;
	// thorough: every mechanism and N (join3 for N <= 5)
	if r.Thorough() || (n == 4 && (m.name == "vote" || m.name == "fee" || m.name == "sig")) || (m.name == "sig" && n == 5) {
		epochModes = append(epochModes, "join")
		if n <= 5 && (r.Thorough() || n == 4) {
			epochModes = append(epochModes, "join3")
		}
		if n >= 4 {
			epochModes = append(epochModes, "replace")
		}
		if n >= 5 {
			epochModes = append(epochModes, "shrink")
		}
	}
	// in-view status changes (quitNode / approved candidate / later commitDpos): quick N = 5, 6; thorough N >= 4
	// quick: vote/fee/sig at N = 5, at most one quitNode, quit and candidate never combined on one path;
	// thorough: vote/fee/sig at N = 5 with up to two quits, and at N = 4, 6, 7 with one
	core := m.name == "vote" || m.name == "fee" || m.name == "sig"
	inView := (n == 5 && core && (m.name != "fee" || r.Thorough())) || (r.Thorough() && core && (n == 4 || n == 6 || n == 7))
	maxQuits, combine := 1, false
	if r.Thorough() && n == 5 {
		maxQuits = 2
	}
	_ = combine
	step := func(s state, e string, w *ccm.W) state {
		nx := s
		nx.Depth = s.Depth + 1
		nx.Voters, nx.Cur = cp(s.Voters), cp(s.Cur)
		if s.Releases > 0 && e[0] == 'v' || e == "stale" && s.Releases > 0 {
			nx.Post = s.Post + 1
		}
		switch {
		case e == "white":
			res := w.Exec(ccm.BlackTx(chainDst, true, uint32(nx.Depth), polyenv.Multi(curAccts(s.Cur))), 2, 1000)
			if !res.OK {
				r.HarnessError("WhiteChain by operator failed: %v", res.Err)
			}
			nx.White = true
			nx.D = w.Dump()
			return nx
		case e == "stale": // fee: a vote for an already closed round (old view) must fail without trace
			old := s
			old.View = s.View - 1
			res := w.Exec(m.vote(old, acct(keys(s.Cur)[0]), uint32(nx.Depth)), 2, 1000)
			nx.D = w.Dump()
			r.Eval()
			r.Class("stale-round-vote")
			if res.OK || nx.D.String() != s.D.String() {
				r.Violation("C25/"+m.name+"/vote-for-closed-round-accepted", map[string]any{"mechanism": m.name, "N": n, "view": s.View, "tx_ok": res.OK})
			}
			return nx
		case strings.HasPrefix(e, "quit"):
			var who int
			fmt.Sscanf(e, "quit%d", &who)
			qa := acct(who)
			qp := &node_manager.PeerParam{PeerPubkey: qa.PubHex, Address: qa.Addr}
			qs := common.NewZeroCopySink(nil)
			qp.Serialization(qs)
			if res := w.Exec(polyenv.Tx(utils.NodeManagerContractAddress, node_manager.QUIT_NODE, qs.Bytes(), 7100, polyenv.Single(qa)), 2, 1000); !res.OK {
				r.HarnessError("quitNode(%d) N=%d failed: %v", who, n, res.Err)
			}
			delete(nx.Cur, who) // QuitingStatus is not ConsensusStatus: no longer a current consensus validator
			nx.Quits++
			nx.D = w.Dump()
			r.Class("in-view:quitNode")
			return nx
		case e == "cand":
			ca := acct(candK)
			ser := func(f func(*common.ZeroCopySink)) []byte { s := common.NewZeroCopySink(nil); f(s); return s.Bytes() }
			rp := &node_manager.RegisterPeerParam{PeerPubkey: ca.PubHex, Address: ca.Addr}
			if res := w.Exec(polyenv.Tx(utils.NodeManagerContractAddress, node_manager.REGISTER_CANDIDATE, ser(rp.Serialization), 7101, polyenv.Single(ca)), 2, 1000); !res.OK {
				r.HarnessError("registerCandidate failed: %v", res.Err)
			}
			cur := curAccts(s.Cur)
			for i := 0; i < ccm.Quorum(len(cur)); i++ {
				ap := &node_manager.PeerParam{PeerPubkey: ca.PubHex, Address: cur[i].Addr}
				if res := w.Exec(polyenv.Tx(utils.NodeManagerContractAddress, node_manager.APPROVE_CANDIDATE, ser(ap.Serialization), 7102, polyenv.Single(cur[i])), 2, 1000); !res.OK {
					r.HarnessError("approveCandidate failed: %v", res.Err)
				}
			}
			nx.Cand = 1 // CandidateStatus: not a consensus validator before the next commitDpos
			nx.D = w.Dump()
			r.Class("in-view:candidate-approved")
			return nx
		case e == "commit":
			if res := w.Exec(polyenv.Tx(utils.NodeManagerContractAddress, node_manager.COMMIT_DPOS, nil, 7103, polyenv.Multi(curAccts(s.Cur))), 3, 1000); !res.OK {
				r.HarnessError("commitDpos after in-view changes failed: %v", res.Err)
			}
			if s.Cand == 1 {
				nx.Cand = 2
				nx.Cur[candK] = true
			}
			nx.Commits++
			nx.D = w.Dump()
			r.Class("in-view:commitDpos")
			return nx
		case strings.HasPrefix(e, "epoch-"):
			mode := strings.TrimPrefix(e, "epoch-")
			if err := epochChange(w, vals, mode, 2); err != nil {
				r.HarnessError("epoch change (%s, N=%d) failed: %v", e, n, err)
			}
			nx.Epoch = true
			for k := 0; k < joiners(mode); k++ {
				nx.Cur[newValK+k] = true
			}
			if mode == "replace" || mode == "shrink" {
				delete(nx.Cur, 0)
			}
			nx.D = w.Dump()
			atomic.AddInt64(epochBuilt, 1)
			return nx
		}
		var who int
		fmt.Sscanf(e, "v%d", &who)
		res := w.Exec(m.vote(s, acct(who), uint32(nx.Depth)), 2, 1000)
		nx.D = w.Dump()
		r.Eval()
		rel := m.releases(s.D, res, nx.D)
		unchanged := nx.D.String() == s.D.String()
		det := map[string]any{"mechanism": m.name, "N": n, "event": e, "voters_before": keys(s.Voters), "current": keys(s.Cur),
			"released_before": s.Released, "tx_ok": res.OK, "tx_err": fmt.Sprint(res.Err), "releases_in_tx": rel, "epoch_changed": s.Epoch}
		if res.Panic != nil {
			r.Class("panic")
			r.Note("panics_observed", fmt.Sprint(res.Panic))
		}
		if !s.Cur[who] { // not a current consensus validator
			if res.OK {
				r.Class("outsider-noop-after-release")
				if !s.Released {
					r.Violation("C25/"+m.name+"/non-validator-vote-accepted", det)
				}
			} else {
				r.Class("outsider-rejected")
			}
			if !unchanged {
				r.Violation("C25/"+m.name+"/non-validator-vote-left-trace", det)
			}
			if rel != 0 {
				r.Violation("C25/"+m.name+"/non-validator-vote-released", det)
			}
			return nx
		}
		if s.Voters[who] {
			r.Class("repeat-vote")
		}
		// reference count over the CURRENT consensus set
		nx.Voters[who] = true
		cnt, ncur := 0, 0
		for i := range nx.Cur {
			ncur++
			if nx.Voters[i] {
				cnt++
			}
		}
		want := 0
		if !s.Released && cnt >= ccm.Quorum(ncur) {
			want = 1
		}
		if m.name == "blocked" && !s.White && want == 1 {
			// the releasing tx must fail downstream and record nothing
			r.Class("blocked-release-failed")
			nx.Voters = cp(s.Voters)
			if res.OK || !unchanged || rel != 0 {
				r.Violation("C25/blocked/failed-release-recorded-vote-or-released", det)
			}
			return nx
		}
		if s.Released {
			r.Class("post-release-vote")
		}
		switch {
		case want == 1 && rel == 1:
			r.Class("release")
			r.Case(fmt.Sprintf("%s/N%d/release@%d", m.name, ncur, cnt))
			if !res.OK {
				r.Violation("C25/"+m.name+"/release-in-failed-tx", det)
			}
		case want == 1 && rel != 1:
			r.Violation("C25/"+m.name+"/no-release-at-quorum", det)
		case want == 0 && rel != 0 && s.Released:
			r.Violation("C25/"+m.name+"/released-twice", det)
		case want == 0 && rel != 0:
			r.Violation("C25/"+m.name+"/released-below-quorum", det)
		default:
			if !s.Released {
				r.Class("norelease-below-quorum")
				r.Case(fmt.Sprintf("%s/N%d/pending@%d", m.name, ncur, cnt))
				if !res.OK { // a valid vote below quorum must be recorded, i.e. the tx succeeds
					r.Violation("C25/"+m.name+"/validator-vote-rejected", det)
				}
			}
		}
		if rel > 0 {
			nx.Releases += rel
			if m.rounds {
				nx.View += uint64(rel)
				nx.Voters = map[int]bool{}
			} else {
				nx.Released = true
			}
		}
		if s.Depth < 2 && n == 4 {
			r.Sample(det)
		}
		return nx
	}
	return mc.BFS(mc.Config[state]{
		Init: []state{j.init}, Workers: 4, Stop: func() bool { return r.Expired() || time.Since(t0) > 25*time.Minute }, MaxDepth: 3*n + 12,
		Key: func(s state) string { return s.key() },
		Events: func(s state, depth int) []string {
			if s.Post >= 2 {
				return nil
			}
			var e []string
			for i := 0; i < n; i++ { // all original validators (an expelled one now votes as an outsider)
				e = append(e, fmt.Sprintf("v%d", i))
			}
			for k := 0; k < 3; k++ {
				if s.Cur[newValK+k] {
					e = append(e, fmt.Sprintf("v%d", newValK+k))
				}
			}
			e = append(e, fmt.Sprintf("v%d", outsiderK))
			if m.name == "blocked" && !s.White {
				e = append(e, "white")
			}
			if m.rounds && s.View > 0 {
				e = append(e, "stale")
			}
			if inView && !s.Epoch {
				// status changes INSIDE the current view (no view switch): quitNode by the lowest current validator
				// that has / has not voted; approval of a candidate; later commitDpos
				if s.Quits < maxQuits && len(s.Cur)+btoi(s.Cand == 1) > 4 && s.Commits == 0 && (combine || s.Cand == 0) {
					if v := pick(s, true); v >= 0 {
						e = append(e, fmt.Sprintf("quit%d", v))
					}
					if v := pick(s, false); v >= 0 {
						e = append(e, fmt.Sprintf("quit%d", v))
					}
				}
				if s.Cand == 0 && s.Commits == 0 && (combine || s.Quits == 0) {
					e = append(e, "cand")
				}
				if s.Cand >= 1 {
					e = append(e, fmt.Sprintf("v%d", candK))
				}
				if (s.Quits > 0 || s.Cand == 1) && s.Commits == 0 {
					e = append(e, "commit")
				}
			}
			if !s.Epoch && s.Quits == 0 && s.Cand == 0 {
				for _, em := range epochModes {
					e = append(e, "epoch-"+em)
				}
			}
			return e
		},
		Step: func(s state, e string) (state, bool) {
			var nx state
			pool.With(s.D, func(w *ccm.W) { nx = step(s, e, w) })
			return nx, true
		},
	})
}

func keys(m map[int]bool) []int {
	var o []int
	for k, v := range m {
		if v {
			o = append(o, k)
		}
	}
	sort.Ints(o)
	return o
}

var _ = scom.REQUEST
