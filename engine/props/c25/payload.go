package main

// Payload families: a vote is a vote for ONE payload. For the mechanisms whose subject is a payload (vote router,
// ripple router: the submitted Extra at a Height; AddSignature: the Subject bytes) every validator chooses, per vote,
// between two members of a family that agree on some identity fields and differ in others:
//
//	P0  base message (source tx hash T, cross-chain id X, args A, ...) at height H
//	P1  same T, X — other args
//	P2  same T, args — other cross-chain id
//	P3  P0 followed by trailing bytes after the MakeTxParam
//	P4  the bytes of P0 claimed at another height
//	P5  same T, X, args — other method and from-contract
//	(AddSignature: S0; S1 = S0 plus a trailing byte; S2 = S0 with the last byte changed; S3 = a prefix of S0)
//
// For every pair (P0, Pk) an exhaustive BFS over {vote of validator i for payload j, vote of an outsider for payload j}:
// quick N = 4 to depth 6; thorough N = 4 to the fixpoint (votes are idempotent, so the space is finite) plus the whole
// family at once to depth 4, and N = 5 to depth ceil(2N/3)+3.
//
// Oracle (the reference model tallies per FULL payload):
//	a release for payload P happens exactly in the tx after which >= ceil(2N/3) distinct current validators have
//	voted for exactly P, at most once per P, never for a P with fewer votes; what is released is P itself (request
//	content = P's message with the source chain; AddSignatureQuorum carries P's subject and sha256(P));
//	import routers only: if another payload with the same (source chain, cross-chain id) was released before, the
//	quorum-completing vote for P fails and leaves no trace (at-most-once per id, C20) — P is then never released.

import (
	"bytes"
	"crypto/sha256"
	"fmt"
	"sort"
	"strings"

	"github.com/polynetwork/poly/common"
	"github.com/polynetwork/poly/core/types"
	scom "github.com/polynetwork/poly/native/service/cross_chain_manager/common"
	"github.com/polynetwork/poly/native/service/governance/signature_manager"
	"github.com/polynetwork/poly/native/service/utils"
	"verif.local/engine/ev"
	"verif.local/engine/lib/ccm"
	"verif.local/engine/mc"
	"verif.local/engine/polyenv"
)

type payload struct {
	name   string
	extra  []byte // import routers: Extra; sig: Subject
	height uint32
	ccid   string // import routers: cross-chain id (done-marker identity)
}

type pfamily struct {
	mech     string
	src      uint64
	payloads []payload
	// tx builds validator who's vote for payload p
	tx func(p payload, who *polyenv.Acct) *types.Transaction
	// released returns how many releases the tx produced and whether each carries exactly payload p
	released func(p payload, tx *types.Transaction, res polyenv.Result, before, after polyenv.Dump) (n int, contentOK bool)
	hasDone  bool
}

func importFamily(mech string, src uint64, h uint32, args func(seed byte) []byte, want func(extra []byte) *scom.MakeTxParam) pfamily {
	T, X, X2, F, F2, C := []byte{0xaa, 0x01}, []byte{0xcc, 0x01}, []byte{0xcc, 0x02}, []byte{0xf0}, []byte{0xf1, 0x02}, make([]byte, 20)
	m := func(ccid, from []byte, method string, a []byte) []byte {
		return ccm.MsgBytes(ccm.Msg(T, ccid, from, chainDst, C, method, a))
	}
	p0 := m(X, F, "unlock", args(1))
	f := pfamily{mech: mech, src: src, hasDone: true}
	f.payloads = []payload{
		{"P0-base", p0, h, string(X)},
		{"P1-same-tx-and-id-other-args", m(X, F, "unlock", args(2)), h, string(X)},
		{"P2-same-tx-and-args-other-id", m(X2, F, "unlock", args(1)), h, string(X2)},
		{"P3-trailing-bytes", append(append([]byte{}, p0...), 0xee, 0x01), h, string(X)},
		{"P4-other-height", p0, h + 1, string(X)},
		{"P5-same-tx-id-args-other-method-and-from-contract", m(X, F2, "mint", args(1)), h, string(X)},
	}
	f.tx = func(p payload, who *polyenv.Acct) *types.Transaction {
		return ccm.VoteImport(src, p.height, p.extra, who, 1)
	}
	f.released = func(p payload, tx *types.Transaction, res polyenv.Result, before, after polyenv.Dump) (int, bool) {
		b := before.Map()
		n, ok := 0, true
		for _, kv := range after {
			if !strings.HasPrefix(kv.K, ccm.RequestPrefix()) {
				continue
			}
			if _, old := b[kv.K]; old {
				continue
			}
			n++
			mv := new(scom.ToMerkleValue)
			z := common.NewZeroCopySource(ccm.Val(kv.V))
			h := tx.Hash()
			w := want(p.extra)
			if err := mv.Deserialization(z); err != nil || z.Len() != 0 || mv.FromChainID != src || !bytes.Equal(mv.TxHash, h.ToArray()) ||
				!bytes.Equal(ccm.MsgBytes(mv.MakeTxParam), ccm.MsgBytes(w)) {
				ok = false
			}
		}
		if len(res.CrossHashes) != n {
			ok = false
			if len(res.CrossHashes) > n {
				n = len(res.CrossHashes)
			}
		}
		return n, ok
	}
	return f
}

func parseMsg(extra []byte) *scom.MakeTxParam {
	p := new(scom.MakeTxParam)
	if err := p.Deserialization(common.NewZeroCopySource(extra)); err != nil {
		panic(err)
	}
	return p
}

func families() []pfamily {
	vote := importFamily("vote", chainSrc, 7, func(seed byte) []byte { return []byte{seed, 2, 3} }, parseMsg)
	ripple := importFamily("ripple", chainRip, 9, func(seed byte) []byte { return ccm.RippleArgs([]byte{0xd1, seed}, 1000+uint64(seed)) },
		func(extra []byte) *scom.MakeTxParam { // what the ripple router hands on: bound lock proxy, args = asset ++ dst ++ amount(32)
			p := parseMsg(extra)
			z := common.NewZeroCopySource(p.Args)
			dst, _ := z.NextVarBytes()
			amt, _ := z.NextUint64()
			s := common.NewZeroCopySink(nil)
			s.WriteVarBytes([]byte{0xa5})
			s.WriteVarBytes(dst)
			b := make([]byte, 32)
			copy(b, ccm.LE64(amt))
			s.WriteBytes(b)
			p.ToContractAddress, p.Args = []byte{0x10, 0xc4}, s.Bytes()
			return p
		})
	s0 := []byte("subject-of-the-signature-A")
	sig := pfamily{mech: "sig", src: chainSrc}
	sig.payloads = []payload{
		{"S0-base", s0, 0, ""},
		{"S1-trailing-byte", append(append([]byte{}, s0...), 0x00), 0, ""},
		{"S2-last-byte-changed", append(append([]byte{}, s0[:len(s0)-1]...), 'B'), 0, ""},
		{"S3-prefix", s0[:len(s0)-1], 0, ""},
	}
	sig.tx = func(p payload, who *polyenv.Acct) *types.Transaction {
		ap := &signature_manager.AddSignatureParam{Address: who.Addr, SideChainID: chainSrc, Subject: p.extra, Signature: append([]byte("sig-of-"), who.Addr[:4]...)}
		s := common.NewZeroCopySink(nil)
		ap.Serialization(s)
		return polyenv.Tx(utils.SignatureManagerContractAddress, signature_manager.ADD_SIGNATURE, s.Bytes(), 1, polyenv.Single(who))
	}
	sig.released = func(p payload, tx *types.Transaction, res polyenv.Result, before, after polyenv.Dump) (int, bool) {
		n, ok := 0, true
		for _, e := range res.Notify.Notify {
			st, isList := e.States.([]interface{})
			if !isList || len(st) != 4 || st[0] != "AddSignatureQuorum" {
				continue
			}
			n++
			id := sha256.Sum256(p.extra)
			gid, _ := st[1].([]byte)
			gsub, _ := st[2].([]byte)
			if !bytes.Equal(gid, id[:]) || !bytes.Equal(gsub, p.extra) {
				ok = false
			}
		}
		return n, ok
	}
	return []pfamily{vote, ripple, sig}
}

type pstate struct {
	D        polyenv.Dump
	V        map[int]map[int]bool // payload index -> voters
	Released map[int]bool
	Done     map[string]bool
}

func (s pstate) key() string {
	var o []string
	for k, vs := range s.V {
		for v := range vs {
			o = append(o, fmt.Sprintf("%d:%d", k, v))
		}
	}
	for k := range s.Released {
		o = append(o, fmt.Sprintf("R%d", k))
	}
	sort.Strings(o)
	return strings.Join(o, ",") + "|" + s.D.String()
}

func (s pstate) clone() pstate {
	n := pstate{D: s.D, V: map[int]map[int]bool{}, Released: map[int]bool{}, Done: map[string]bool{}}
	for k, vs := range s.V {
		n.V[k] = map[int]bool{}
		for v := range vs {
			n.V[k][v] = true
		}
	}
	for k := range s.Released {
		n.Released[k] = true
	}
	for k := range s.Done {
		n.Done[k] = true
	}
	return n
}

// payloadPhase runs the family explorations; bases maps mechanism name -> seeded dump for nVal validators.
func payloadPhase(r *ev.Run, pool *ccm.Worlds, bases map[string]polyenv.Dump, nVal int) (states, transitions int) {
	q := ccm.Quorum(nVal)
	for _, f := range families() {
		f := f
		var subsets [][]int
		for k := 1; k < len(f.payloads); k++ {
			subsets = append(subsets, []int{0, k})
		}
		depths := make([]int, len(subsets))
		for i := range depths {
			switch {
			case r.Quick():
				depths[i] = 6 // a release needs 3 votes, a second payload blocked by the done id 3 more
			case nVal == 4:
				depths[i] = 0 // thorough, N = 4: to the fixpoint
			default:
				depths[i] = q + 3 // thorough, N = 5
			}
		}
		if r.Thorough() && nVal == 4 { // the whole family at once, depth 4
			all := []int{}
			for k := range f.payloads {
				all = append(all, k)
			}
			subsets, depths = append(subsets, all), append(depths, 4)
		}
		for si, sub := range subsets {
			sub := sub
			var events []string
			for _, k := range sub {
				for v := 0; v < nVal; v++ {
					events = append(events, fmt.Sprintf("%d/%d", k, v))
				}
				events = append(events, fmt.Sprintf("%d/%d", k, outsiderK))
			}
			st := mc.BFS(mc.Config[pstate]{
				Init:    []pstate{{D: bases[f.mech], V: map[int]map[int]bool{}, Released: map[int]bool{}, Done: map[string]bool{}}},
				Workers: 16, Stop: r.Expired, MaxDepth: depths[si],
				Key:    func(s pstate) string { return s.key() },
				Events: func(s pstate, d int) []string { return events },
				Step: func(s pstate, e string) (pstate, bool) {
					var k, who int
					fmt.Sscanf(e, "%d/%d", &k, &who)
					p := f.payloads[k]
					nx := s.clone()
					pool.With(s.D, func(w *ccm.W) {
						tx := f.tx(p, acct(who))
						res := w.Exec(tx, 2, 1000)
						nx.D = w.Dump()
						r.Eval()
						n, contentOK := f.released(p, tx, res, s.D, nx.D)
						unchanged := nx.D.String() == s.D.String()
						det := map[string]any{"mechanism": f.mech, "N": nVal, "payload": p.name, "voter": who, "tx_ok": res.OK, "tx_err": fmt.Sprint(res.Err),
							"releases_in_tx": n, "votes_before": tally(f, s), "released_before": relNames(f, s)}
						pre := "C25/" + f.mech + "/payload/"
						if who == outsiderK {
							if n != 0 || !unchanged {
								r.Violation(pre+"non-validator-vote-left-trace-or-released", det)
							}
							return
						}
						if s.Released[k] { // P already released: nothing may fire again (sig still records late signatures)
							r.Class("payload:vote-after-release")
							if n != 0 {
								r.Violation(pre+"released-twice-for-one-payload", det)
							}
							return
						}
						votes := map[int]bool{who: true}
						for v := range s.V[k] {
							votes[v] = true
						}
						switch {
						case len(votes) < q:
							if n != 0 {
								r.Violation(pre+"released-with-fewer-than-quorum-votes-for-exactly-that-payload", det)
								return
							}
							if !res.OK {
								r.Violation(pre+"validator-vote-rejected", det)
								return
							}
							r.Class("payload:below-quorum")
							nx.V[k] = votes
						case f.hasDone && s.Done[p.ccid]: // another payload with this cross-chain id was released
							r.Class("payload:quorum-blocked-by-done-id")
							r.Case(f.mech + "/blocked/" + p.name)
							if n != 0 || res.OK || !unchanged {
								r.Violation(pre+"second-payload-for-a-done-id-released-or-left-trace", det)
							}
						default:
							if n != 1 {
								r.Violation(pre+"no-release-at-quorum-for-payload", det)
								return
							}
							if !contentOK {
								r.Violation(pre+"released-content-differs-from-the-voted-payload", det)
							}
							r.Class("payload:release")
							r.Case(f.mech + "/release/" + p.name)
							nx.V[k], nx.Released[k] = votes, true
							if f.hasDone {
								nx.Done[p.ccid] = true
							}
						}
					})
					return nx, true
				},
			})
			states += st.States
			transitions += st.Transitions
			if st.Truncated {
				r.Capped(fmt.Sprintf("payload families %s %v truncated by deadline", f.mech, sub))
			}
		}
	}
	return
}

func tally(f pfamily, s pstate) map[string][]int {
	o := map[string][]int{}
	for k, vs := range s.V {
		for v := range vs {
			o[f.payloads[k].name] = append(o[f.payloads[k].name], v)
		}
		sort.Ints(o[f.payloads[k].name])
	}
	return o
}

func relNames(f pfamily, s pstate) []string {
	var o []string
	for k := range s.Released {
		o = append(o, f.payloads[k].name)
	}
	sort.Strings(o)
	return o
}
