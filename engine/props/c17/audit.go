// Dynamic key audit (C17 c): records whose key PARAMETERS are derived from mutable state (fee round / view
// counters, request ids, governance view). Real transactions are executed on worlds (production
// HandleInvokeTransaction path) and, per transaction, the SET OF KEYS WRITTEN is compared with the logical records a
// small reference model says the call is entitled to touch, mapped through the extracted (and dynamically
// validated) key schemas:
//
//	(a) every written key is the key of an entitled logical record, and the records the call must update are written;
//	(b) over the whole explored history two different logical records (kind, parameters) never own the same key.
//
// E1 side_chain_manager.UpdateFee: BFS over histories of {vote by node i on chain c, stale-view vote, clock tick of
//
//	UPDATE_FEE_TIMEOUT+1 s}; model = fee round per (chain, view) with start time and voter set.
//
// E2 request ids: n-th registerRelayer / removeRelayer / registerStateValidator / removeStateValidator request.
// E3 node_manager.commitDpos across views v -> v+1 -> v+2: governanceView, peerPool(v+1), delete peerPool(v-1).
package main

import (
	"encoding/binary"
	"encoding/hex"
	"fmt"
	"math/big"
	"sort"
	"strings"

	"github.com/polynetwork/poly/common"
	cstates "github.com/polynetwork/poly/core/states"
	scom "github.com/polynetwork/poly/core/store/common"
	scm "github.com/polynetwork/poly/native/service/governance/side_chain_manager"
	"github.com/polynetwork/poly/native/service/utils"
	"verif.local/engine/lib/gov"
	"verif.local/engine/polyenv"
)

type auditor struct {
	kinds  []*Kind
	owner  map[string]string // storage key -> logical record that owns it
	ownerH map[string][]string
	calls  int
	keys   int
	recs   map[string]bool
}

func le64(v uint64) []byte { b := make([]byte, 8); binary.LittleEndian.PutUint64(b, v); return b }
func le32(v uint32) []byte { b := make([]byte, 4); binary.LittleEndian.PutUint32(b, v); return b }

// keyFor maps a logical record (prefix constant + parameter values) to its storage key through the extracted schema
// of that kind (validated against the real helper above); without a schema, through the real put helper itself.
func (a *auditor) keyFor(constName string, params ...[]byte) string {
	for _, k := range a.kinds {
		if firstLitName(k.Segs) != constName {
			continue
		}
		n := 0
		for _, s := range k.Segs {
			if s.K != "lit" {
				n++
			}
		}
		if n != len(params) {
			continue
		}
		full := make([][]byte, 0, len(k.Segs))
		i := 0
		for _, s := range k.Segs {
			if s.K == "lit" {
				full = append(full, []byte(s.Lit))
			} else {
				full = append(full, params[i])
				i++
			}
		}
		suffix, err := build(k.Segs, full)
		if err != nil {
			continue
		}
		addr, _ := contractAddr(k.Contract)
		return string(append(append([]byte{byte(scom.ST_STORAGE)}, addr[:]...), suffix...))
	}
	// schema-less kind: ask the real helper
	if b, ok := bindings[constName]; ok {
		var shape []Seg
		var vals [][]byte
		for _, p := range params {
			switch len(p) {
			case 8:
				shape = append(shape, Seg{K: "fix", N: 8})
			case 4:
				shape = append(shape, Seg{K: "fix", N: 4})
			default:
				shape = append(shape, Seg{K: "var"})
			}
			vals = append(vals, p)
		}
		if ar, err := mkArgs(shape, vals, "audit"); err == nil {
			s := newSandboxNS()
			defer s.close()
			if b.put(s.ns, ar) == nil {
				ws := s.written()
				if len(ws) == 1 {
					for k := range ws {
						return k
					}
				}
			}
		}
	}
	r.HarnessError("key audit: no key function for record kind %s", constName)
	return ""
}

type entitled struct {
	rec      string // logical record id, e.g. "feeInfo(chain=1,view=0)"
	key      string
	required bool // the call must write it
}

// check compares one transaction's write set with the entitled records; hist is the op list (replay artefact).
func (a *auditor) check(space, call string, ws polyenv.Dump, ent []entitled, hist []string) {
	a.calls++
	byKey := map[string]entitled{}
	for _, e := range ent {
		byKey[e.key] = e
		a.recs[e.rec] = true
	}
	written := map[string]bool{}
	for _, kv := range ws {
		written[kv.K] = true
		a.keys++
		e, ok := byKey[kv.K]
		if !ok {
			var names []string
			for _, x := range ent {
				names = append(names, x.rec+"="+hex.EncodeToString([]byte(x.key)))
			}
			sort.Strings(names)
			r.Violation("key-audit/written-key-not-entitled:"+space, map[string]any{"call": call, "history": hist,
				"written_key_hex": hex.EncodeToString([]byte(kv.K)), "written_key_text": printable(kv.K), "entitled_records": names,
				"explanation": "the transaction wrote a storage key that is not the key of any logical record this call may touch in the reference model (e.g. a record of another round/view/request)"})
			continue
		}
		if prev, ok := a.owner[kv.K]; ok && prev != e.rec {
			r.Violation("key-audit/two-logical-records-one-key:"+space, map[string]any{"key_hex": hex.EncodeToString([]byte(kv.K)),
				"record_a": prev, "history_a": a.ownerH[kv.K], "record_b": e.rec, "history_b": hist})
		} else if !ok {
			a.owner[kv.K] = e.rec
			a.ownerH[kv.K] = hist
		}
	}
	for _, e := range ent {
		if e.required && !written[e.key] {
			r.Violation("key-audit/required-record-not-written:"+space, map[string]any{"call": call, "history": hist, "record": e.rec,
				"expected_key_hex": hex.EncodeToString([]byte(e.key)), "written_keys": dumpKeys(ws)})
		}
	}
}

func printable(k string) string {
	var b strings.Builder
	for i := 21; i < len(k); i++ {
		c := k[i]
		if c >= 0x20 && c < 0x7f {
			b.WriteByte(c)
		} else {
			fmt.Fprintf(&b, "\\x%02x", c)
		}
	}
	return b.String()
}

func dumpKeys(ws polyenv.Dump) []string {
	var l []string
	for _, kv := range ws {
		l = append(l, printable(kv.K))
	}
	return l
}

// ---------------------------------------------------------------------------------------------
// E1 UpdateFee

type cv struct{ c, v uint64 }

type feeModel struct {
	view   map[uint64]uint64
	start  map[cv]uint32
	voters map[cv]map[int]bool
	done   map[cv]bool
}

func (m *feeModel) clone() *feeModel {
	n := &feeModel{view: map[uint64]uint64{}, start: map[cv]uint32{}, voters: map[cv]map[int]bool{}, done: map[cv]bool{}}
	for k, v := range m.view {
		n.view[k] = v
	}
	for k, v := range m.start {
		n.start[k] = v
	}
	for k, v := range m.done {
		n.done[k] = v
	}
	for k, v := range m.voters {
		s := map[int]bool{}
		for i := range v {
			s[i] = true
		}
		n.voters[k] = s
	}
	return n
}

type feeNode struct {
	dump polyenv.Dump
	t    uint32
	m    *feeModel
	hist []string
}

const (
	cSCM   = "native/service/governance/side_chain_manager."
	cVOTE  = "native/service/cross_chain_manager/consensus_vote.VOTE_INFO"
	feeTO  = 300
	nodesN = 3
)

func updateFeeTx(e *gov.Env, node int, chain, view uint64) ([]byte, *polyenv.Acct) {
	v := e.Vals[node]
	p := &scm.UpdateFeeParam{Address: v.Addr, ChainId: chain, View: view, Fee: big.NewInt(int64(10 + node))}
	s := common.NewZeroCopySink(nil)
	p.Serialization(s)
	return s.Bytes(), v
}

func (a *auditor) auditUpdateFee(e *gov.Env, depth int) map[string]any {
	base := gov.NewWorld()
	base.Genesis(e.Vals)
	quorum := (2*len(e.Vals) + 2) / 3
	chains := []uint64{1, 2}
	start := feeNode{dump: base.Dump(), t: 1000, m: &feeModel{view: map[uint64]uint64{}, start: map[cv]uint32{}, voters: map[cv]map[int]bool{}, done: map[cv]bool{}}}
	seen := map[string]bool{start.dump.String() + fmt.Sprint(start.t): true}
	frontier := []feeNode{start}
	states, trans, timeouts, quorums, stale := 1, 0, 0, 0, 0
	voteID := func(c, v uint64) []byte { return append([]byte("updateFee"), append(le64(c), le64(v)...)...) }
	for d := 0; d < depth && len(frontier) > 0 && !r.Expired(); d++ {
		var next []feeNode
		for _, n := range frontier {
			type ev struct {
				name  string
				node  int
				chain uint64
				stale bool
				tick  bool
			}
			var evs []ev
			for _, c := range chains {
				for i := 0; i < nodesN; i++ {
					evs = append(evs, ev{name: fmt.Sprintf("vote(node%d,chain%d)", i, c), node: i, chain: c})
				}
				evs = append(evs, ev{name: fmt.Sprintf("staleViewVote(node0,chain%d)", c), chain: c, stale: true})
			}
			evs = append(evs, ev{name: fmt.Sprintf("tick(+%ds)", feeTO+1), tick: true})
			for _, x := range evs {
				hist := append(append([]string{}, n.hist...), x.name)
				if x.tick {
					nn := feeNode{dump: n.dump, t: n.t + feeTO + 1, m: n.m, hist: hist}
					k := nn.dump.String() + fmt.Sprint(nn.t)
					if !seen[k] {
						seen[k] = true
						states++
						next = append(next, nn)
					}
					continue
				}
				m := n.m.clone()
				c := x.chain
				v := m.view[c]
				pv := v
				if x.stale {
					pv = v + 7
				}
				args, signer := updateFeeTx(e, x.node, c, pv)
				w := gov.NewWorldFrom(n.dump)
				res := w.Exec(polyenv.Tx(utils.SideChainManagerContractAddress, scm.UPDATE_FEE, args, 0, polyenv.Single(signer)), 1, n.t)
				trans++
				r.Eval()
				var ent []entitled
				if x.stale {
					stale++
					if res.OK {
						r.Violation("key-audit/stale-view-vote-accepted:updateFee", map[string]any{"history": hist})
					}
				} else {
					// reference model of the call
					feeWritten := false
					v2 := v
					if st := m.start[cv{c, v}]; st == 0 {
						m.start[cv{c, v}] = n.t
					} else if n.t-st > feeTO {
						v2 = v + 1
						m.view[c] = v2
						m.start[cv{c, v2}] = n.t
						feeWritten = true
						timeouts++
					}
					round := cv{c, v2}
					newVoter := false
					if !m.done[round] {
						if m.voters[round] == nil {
							m.voters[round] = map[int]bool{}
						}
						if !m.voters[round][x.node] {
							newVoter = true
							m.voters[round][x.node] = true
						}
						if len(m.voters[round]) >= quorum {
							m.done[round] = true
							m.view[c] = v2 + 1
							feeWritten = true
							quorums++
						}
					}
					ent = []entitled{
						{fmt.Sprintf("feeInfo(chain=%d,view=%d)", c, v2), a.keyFor(cSCM+"FEE_INFO", le64(c), le64(v2)), true},
						{fmt.Sprintf("voteInfo(updateFee,chain=%d,view=%d)", c, v2), a.keyFor(cVOTE, voteID(c, v2)), newVoter},
						{fmt.Sprintf("fee(chain=%d)", c), a.keyFor(cSCM+"FEE", le64(c)), feeWritten},
					}
					if !feeWritten { // the fee record may only be touched on timeout / quorum
						ent = ent[:2]
					}
					if !res.OK {
						r.Violation("key-audit/well-formed-vote-rejected:updateFee", map[string]any{"history": hist, "err": fmt.Sprint(res.Err)})
					}
				}
				a.check("updateFee", x.name, res.WriteSet, ent, hist)
				if !res.OK {
					continue
				}
				nn := feeNode{dump: w.Dump(), t: n.t, m: m, hist: hist}
				k := nn.dump.String() + fmt.Sprint(nn.t)
				if !seen[k] {
					seen[k] = true
					states++
					next = append(next, nn)
				}
			}
		}
		frontier = next
	}
	if timeouts == 0 || quorums == 0 {
		r.HarnessError("key audit E1 vacuous: timeouts=%d quorums=%d", timeouts, quorums)
	}
	r.Class("audit-fee-timeout")
	r.Class("audit-fee-quorum")
	return map[string]any{"depth": depth, "states": states, "transitions": trans, "timeout_rounds": timeouts, "quorum_rounds": quorums, "stale_view_votes_rejected": stale,
		"events": "vote(node 0..2, chain 1..2) | staleViewVote(node0, chain) | tick(+301 s)"}
}

// ---------------------------------------------------------------------------------------------
// E2 request ids, E3 commitDpos views

func (a *auditor) auditRequestIDs(e *gov.Env) map[string]any {
	w := polyenv.NewWorld()
	defer w.Close()
	w.Genesis(e.Vals)
	var hist []string
	n := 0
	type req struct {
		name              string
		do                func(i int) polyenv.Result
		recConst, idConst string
	}
	pRM := "native/service/governance/relayer_manager."
	pSV := "native/service/governance/neo3_state_manager."
	reqs := []req{
		{"registerRelayer", func(i int) polyenv.Result {
			return e.RegisterRelayer(w, []string{"ra"}, []string{"o1", "o2", "X"}[i], 1)
		}, pRM + "RELAYER_APPLY", pRM + "APPLY_ID"},
		{"removeRelayer", func(i int) polyenv.Result { return e.RemoveRelayer(w, []string{"rb"}, []string{"o1", "o2", "X"}[i], 1) }, pRM + "RELAYER_REMOVE", pRM + "REMOVE_ID"},
		{"registerStateValidator", func(i int) polyenv.Result {
			return e.RegisterSV(w, []string{e.A("c1").PubHex}, []string{"o1", "o2", "X"}[i], 1)
		}, pSV + "STATE_VALIDATOR_APPLY", pSV + "STATE_VALIDATOR_APPLY_ID"},
		{"removeStateValidator", func(i int) polyenv.Result {
			return e.RemoveSV(w, []string{e.A("c1").PubHex}, []string{"o1", "o2", "X"}[i], 1)
		}, pSV + "STATE_VALIDATOR_REMOVE", pSV + "STATE_VALIDATOR_REMOVE_ID"},
	}
	for _, q := range reqs {
		for i := 0; i < 3; i++ {
			res := q.do(i)
			r.Eval()
			call := fmt.Sprintf("%s#%d", q.name, i)
			hist = append(hist, call)
			if !res.OK {
				continue
			}
			n++
			a.check("request-ids", call, res.WriteSet, []entitled{
				{fmt.Sprintf("%s(request=%d)", q.name, i), a.keyFor(q.recConst, le64(uint64(i))), true},
				{q.name + ".counter", a.keyFor(q.idConst), true},
			}, append([]string{}, hist...))
		}
	}
	if n < 6 {
		r.HarnessError("key audit E2 vacuous: only %d requests accepted", n)
	}
	return map[string]any{"requests_audited": n}
}

func (a *auditor) auditCommitDpos(e *gov.Env) map[string]any {
	w := polyenv.NewWorld()
	defer w.Close()
	w.Genesis(e.Vals)
	pNM := "native/service/governance/node_manager."
	raw := w.GetRaw([]byte(a.keyFor(pNM + "GOVERNANCE_VIEW"))[1:])
	val, err := cstates.GetValueFromRawStorageItem(raw)
	if err != nil || len(val) < 4 {
		r.HarnessError("key audit E3: cannot read the genesis governance view")
	}
	v := binary.LittleEndian.Uint32(val[:4])
	var hist []string
	n := 0
	for h := uint32(1); h <= 3; h++ {
		res := e.CommitDpos(w, h)
		r.Eval()
		call := fmt.Sprintf("commitDpos@height%d", h)
		hist = append(hist, call)
		if !res.OK {
			r.HarnessError("key audit E3: commitDpos failed: %v", res.Err)
		}
		n++
		a.check("commitDpos", call, res.WriteSet, []entitled{
			{"governanceView", a.keyFor(pNM + "GOVERNANCE_VIEW"), true},
			{fmt.Sprintf("peerPool(view=%d)", v+1), a.keyFor(pNM+"PEER_POOL", le32(v+1)), true},
			{fmt.Sprintf("peerPool(view=%d)", v-1), a.keyFor(pNM+"PEER_POOL", le32(v-1)), true},
		}, append([]string{}, hist...))
		v++
	}
	return map[string]any{"commits_audited": n, "genesis_view": v - 3}
}

func keyAudit(kinds []*Kind, e *gov.Env) map[string]any {
	a := &auditor{kinds: kinds, owner: map[string]string{}, ownerH: map[string][]string{}, recs: map[string]bool{}}
	out := map[string]any{}
	out["E1_updateFee"] = a.auditUpdateFee(e, r.QT(6, 7))
	out["E2_request_ids"] = a.auditRequestIDs(e)
	out["E3_commitDpos"] = a.auditCommitDpos(e)
	out["calls_audited"] = a.calls
	out["written_keys_checked"] = a.keys
	out["logical_records"] = len(a.recs)
	out["keys_owned"] = len(a.owner)
	return out
}
