// Key-schema model (C17 b): each record kind is a sequence of segments lit / fix(n) / var, i.e. a small NFA over
// bytes. Two kinds (or one kind with two different parameter tuples) collide iff the product automaton accepts
// a word. Explicit-state BFS over the product; a shortest witness is reconstructed and split back into the
// parameter values of both sides.
package main

import (
	"fmt"
)

// cursor: segment index i, offset o inside a lit/fix segment (o is always 0 inside var)
type cur struct{ i, o int }

func norm(p []Seg, c cur) cur {
	for c.i < len(p) {
		s := p[c.i]
		if s.K == "lit" && c.o >= len(s.Lit) {
			c = cur{c.i + 1, 0}
			continue
		}
		if s.K == "fix" && c.o >= s.N {
			c = cur{c.i + 1, 0}
			continue
		}
		break
	}
	return c
}

// next byte demanded by side p at cursor c: (b, true) specific byte, (0,false) any byte
func want(p []Seg, c cur) (byte, bool) {
	s := p[c.i]
	if s.K == "lit" {
		return s.Lit[c.o], true
	}
	return 0, false
}

func adv(p []Seg, c cur) cur {
	if p[c.i].K == "var" {
		return cur{c.i, 1} // o=1: at least one byte consumed in this var segment
	}
	return norm(p, cur{c.i, c.o + 1})
}

type pstate struct {
	a, b cur
	div  bool // the two segmentations have differed at some point (only tracked in self mode)
}

type pedge struct {
	prev   pstate
	byteOK bool // a byte was consumed
	b      byte
	leaveA bool // epsilon: side A left its var segment
	leaveB bool
}

type Witness struct {
	Word    []byte
	ParamsA [][]byte // one entry per segment of A (literal segments included, as their bytes)
	ParamsB [][]byte
}

const filler = '1' // a decimal digit, so that witnesses also fit textual (decimal) segments

// collide searches the product automaton. self=true: same kind against itself, only accept when the two
// segmentations differ (=> the parameter tuples differ).
// minVar (0|1): minimal length of every var segment in the witness.
func collide(a, b []Seg, self bool, minVar int) (*Witness, int) {
	start := pstate{a: norm(a, cur{}), b: norm(b, cur{})}
	parent := map[pstate]pedge{}
	seen := map[pstate]bool{start: true}
	queue := []pstate{start}
	explored := 0
	var goal *pstate
	for len(queue) > 0 && goal == nil {
		s := queue[0]
		queue = queue[1:]
		explored++
		endA, endB := s.a.i >= len(a), s.b.i >= len(b)
		if endA && endB {
			if !self || s.div {
				g := s
				goal = &g
				break
			}
			continue
		}
		push := func(n pstate, e pedge) {
			// the segmentations differ iff some byte is attributed to different segments on the two sides
			if self && e.byteOK && s.a != s.b {
				n.div = true
			}
			n.div = n.div || s.div
			if !seen[n] {
				seen[n] = true
				e.prev = s
				parent[n] = e
				queue = append(queue, n)
			}
		}
		// epsilon moves: leave a var segment
		if !endA && a[s.a.i].K == "var" && s.a.o >= minVar {
			push(pstate{a: norm(a, cur{s.a.i + 1, 0}), b: s.b}, pedge{leaveA: true})
		}
		if !endB && b[s.b.i].K == "var" && s.b.o >= minVar {
			push(pstate{a: s.a, b: norm(b, cur{s.b.i + 1, 0})}, pedge{leaveB: true})
		}
		if endA || endB {
			continue
		}
		ba, sa := want(a, s.a)
		bb, sb := want(b, s.b)
		var by byte = filler
		switch {
		case sa && sb:
			if ba != bb {
				continue
			}
			by = ba
		case sa:
			by = ba
		case sb:
			by = bb
		}
		push(pstate{a: adv(a, s.a), b: adv(b, s.b)}, pedge{byteOK: true, b: by})
	}
	if goal == nil {
		return nil, explored
	}
	// reconstruct: walk back collecting events, then replay forward splitting the word into segments
	var evs []pedge
	for s := *goal; s != start; {
		e := parent[s]
		evs = append(evs, e)
		s = e.prev
	}
	for i, j := 0, len(evs)-1; i < j; i, j = i+1, j-1 {
		evs[i], evs[j] = evs[j], evs[i]
	}
	w := &Witness{ParamsA: make([][]byte, len(a)), ParamsB: make([][]byte, len(b))}
	ca, cb := norm(a, cur{}), norm(b, cur{})
	for _, e := range evs {
		switch {
		case e.leaveA:
			ca = norm(a, cur{ca.i + 1, 0})
		case e.leaveB:
			cb = norm(b, cur{cb.i + 1, 0})
		case e.byteOK:
			w.Word = append(w.Word, e.b)
			w.ParamsA[ca.i] = append(w.ParamsA[ca.i], e.b)
			w.ParamsB[cb.i] = append(w.ParamsB[cb.i], e.b)
			ca, cb = adv(a, ca), adv(b, cb)
		}
	}
	return w, explored
}

// collidePreferNonEmpty prefers a witness whose variable segments are all non-empty (more likely to be accepted
// by the real helpers when replayed); the decision collide / disjoint is the one of the unrestricted search.
func collidePreferNonEmpty(a, b []Seg, self bool) (*Witness, int) {
	w0, n0 := collide(a, b, self, 0)
	if w0 == nil {
		return nil, n0
	}
	if w1, n1 := collide(a, b, self, 1); w1 != nil {
		return w1, n0 + n1
	}
	return w0, n0
}

// build concatenates concrete segment values according to the schema (used to cross-check witnesses).
func build(p []Seg, params [][]byte) ([]byte, error) {
	var out []byte
	for i, s := range p {
		v := params[i]
		switch s.K {
		case "lit":
			if string(v) != s.Lit {
				return nil, fmt.Errorf("segment %d: literal mismatch", i)
			}
		case "fix":
			if len(v) != s.N {
				return nil, fmt.Errorf("segment %d: fix(%d) got %d bytes", i, s.N, len(v))
			}
		}
		out = append(out, v...)
	}
	return out, nil
}

// matches: does the concrete byte string belong to the language of the schema? (used for validation)
func matches(p []Seg, w []byte) bool {
	type st struct {
		c cur
		n int
	}
	start := st{norm(p, cur{}), 0}
	seen := map[st]bool{start: true}
	q := []st{start}
	for len(q) > 0 {
		s := q[0]
		q = q[1:]
		if s.c.i >= len(p) {
			if s.n == len(w) {
				return true
			}
			continue
		}
		push := func(n st) {
			if !seen[n] {
				seen[n] = true
				q = append(q, n)
			}
		}
		if p[s.c.i].K == "var" {
			push(st{norm(p, cur{s.c.i + 1, 0}), s.n})
		}
		if s.n < len(w) {
			if b, spec := want(p, s.c); !spec || b == w[s.n] {
				push(st{adv(p, s.c), s.n + 1})
			}
		}
	}
	return false
}

// sameRecordVariant: two layouts of the same contract that denote the same record kind written/read through
// differently typed expressions (e.g. Put with hash.Bytes() = fix(32), Get with a []byte parameter = var):
// equal segment count, pairwise equal or {fix,var}.
func sameRecordVariant(a, b []Seg) bool {
	if len(a) != len(b) {
		return false
	}
	for i := range a {
		x, y := a[i], b[i]
		if x.K == y.K && x.Lit == y.Lit && x.N == y.N {
			continue
		}
		if (x.K == "fix" && y.K == "var") || (x.K == "var" && y.K == "fix") {
			continue
		}
		return false
	}
	return true
}
