// Bindings from record kinds (identified by the NAME of the prefix constant, so they survive a change of the
// constant's value) to the REAL storage helpers. Used for (i) schema validation (the key really written must be
// contract ++ schema(params)) and (ii) replay of model collisions.
package main

import (
	"encoding/binary"
	"encoding/hex"
	"fmt"
	"math/big"
	"strconv"

	"github.com/polynetwork/poly/common"
	"github.com/polynetwork/poly/core/store/leveldbstore"
	"github.com/polynetwork/poly/core/store/overlaydb"
	"github.com/polynetwork/poly/native"
	ccm "github.com/polynetwork/poly/native/service/cross_chain_manager"
	"github.com/polynetwork/poly/native/service/cross_chain_manager/btc"
	ccmcom "github.com/polynetwork/poly/native/service/cross_chain_manager/common"
	"github.com/polynetwork/poly/native/service/cross_chain_manager/consensus_vote"
	"github.com/polynetwork/poly/native/service/cross_chain_manager/ripple"
	"github.com/polynetwork/poly/native/service/governance/neo3_state_manager"
	"github.com/polynetwork/poly/native/service/governance/node_manager"
	"github.com/polynetwork/poly/native/service/governance/relayer_manager"
	scm "github.com/polynetwork/poly/native/service/governance/side_chain_manager"
	"github.com/polynetwork/poly/native/service/governance/signature_manager"
	"github.com/polynetwork/poly/native/service/utils"
	"github.com/polynetwork/poly/native/storage"
	"verif.local/engine/polyenv"
)

// args: parameter values of the non-literal segments grouped by segment class, in schema order.
type args struct {
	U64 []uint64
	U32 []uint32
	B20 [][]byte
	B32 [][]byte
	Var [][]byte
	tag string // distinguishes the payloads of two records
}

func mkArgs(p []Seg, params [][]byte, tag string) (args, error) {
	a := args{tag: tag}
	for i, s := range p {
		v := params[i]
		switch {
		case s.K == "lit":
		case s.K == "fix" && s.N == 8:
			a.U64 = append(a.U64, binary.LittleEndian.Uint64(v))
		case s.K == "fix" && s.N == 4:
			a.U32 = append(a.U32, binary.LittleEndian.Uint32(v))
		case s.K == "fix" && s.N == 20:
			a.B20 = append(a.B20, v)
		case s.K == "fix" && s.N == 32:
			a.B32 = append(a.B32, v)
		case s.K == "var":
			a.Var = append(a.Var, v)
		default:
			return a, fmt.Errorf("no argument class for %s", s)
		}
	}
	return a, nil
}

// chain returns the chain-id parameter of a record: the fix(8) segment if the schema has one, otherwise the first
// variable segment read as decimal text (a chain id rendered with a variable-length encoding), which is consumed.
func (a *args) chain() (uint64, error) {
	if len(a.U64) > 0 {
		v := a.U64[0]
		a.U64 = a.U64[1:]
		return v, nil
	}
	if len(a.Var) > 0 {
		v, err := strconv.ParseUint(string(a.Var[0]), 10, 64)
		if err != nil {
			return 0, fmt.Errorf("chain id segment %q is not decimal text", a.Var[0])
		}
		a.Var = a.Var[1:]
		return v, nil
	}
	return 0, fmt.Errorf("no chain id segment")
}

type binding struct {
	need [5]int // number of U64,U32,B20,B32,Var the helper takes
	put  func(n *native.NativeService, a args) error
}

// kinds whose helper takes the chain id as a number: the schema may render it as fix(8) or (mutants) as a var segment
var flexChain = map[string]bool{pCC + "DONE_TX": true, pCC + "REQUEST": true}

func (b binding) fits(name string, a args) bool {
	if flexChain[name] && len(a.U64) == b.need[0]-1 && len(a.Var) == b.need[4]+1 { // chain id as a variable-length segment
		return len(a.U32) == b.need[1] && len(a.B20) == b.need[2] && len(a.B32) == b.need[3]
	}
	return len(a.U64) == b.need[0] && len(a.U32) == b.need[1] && len(a.B20) == b.need[2] && len(a.B32) == b.need[3] && len(a.Var) == b.need[4]
}

func multisigScript() []byte {
	pk, _ := hex.DecodeString(polyenv.Key(0).PubHex)
	s := []byte{0x51, byte(len(pk))}
	s = append(s, pk...)
	return append(s, 0x51, 0xae)
}

func sideChain(a args) *scm.SideChain {
	return &scm.SideChain{ChainId: a.U64[0], Router: 2, Name: "rec-" + a.tag, BlocksToWait: 1, CCMCAddress: []byte("ccmc-" + a.tag)}
}

const (
	pSCM = "native/service/governance/side_chain_manager."
	pNM  = "native/service/governance/node_manager."
	pRM  = "native/service/governance/relayer_manager."
	pSV  = "native/service/governance/neo3_state_manager."
	pSIG = "native/service/governance/signature_manager."
	pCC  = "native/service/cross_chain_manager/common."
	pBTC = "native/service/cross_chain_manager/btc."
	pVOT = "native/service/cross_chain_manager/consensus_vote."
)

// keyed by the identity of the first literal constant of the kind
var bindings = map[string]binding{
	pSCM + "SIDE_CHAIN_APPLY": {[5]int{1}, func(n *native.NativeService, a args) error { return scm.VerifC17PutSideChainApply(n, sideChain(a)) }},
	pSCM + "SIDE_CHAIN":       {[5]int{1}, func(n *native.NativeService, a args) error { return scm.PutSideChain(n, sideChain(a)) }},
	pSCM + "UPDATE_SIDE_CHAIN_REQUEST": {[5]int{1}, func(n *native.NativeService, a args) error {
		return scm.VerifC17PutUpdateSideChain(n, sideChain(a))
	}},
	pSCM + "QUIT_SIDE_CHAIN_REQUEST": {[5]int{1}, func(n *native.NativeService, a args) error { return scm.VerifC17PutQuitSideChain(n, a.U64[0]) }},
	pSCM + "REDEEM_BIND": {[5]int{2, 0, 0, 0, 1}, func(n *native.NativeService, a args) error {
		return scm.VerifC17PutContractBind(n, a.U64[0], a.U64[1], a.Var[0], []byte("contract-"+a.tag), 1)
	}},
	pSCM + "BIND_SIGN_INFO": {[5]int{0, 0, 0, 0, 1}, func(n *native.NativeService, a args) error {
		return scm.VerifC17PutBindSignInfo(n, a.Var[0], &scm.BindSignInfo{BindSignInfo: map[string][]byte{"k": []byte(a.tag)}})
	}},
	pSCM + "BTC_TX_PARAM": {[5]int{1, 0, 0, 0, 1}, func(n *native.NativeService, a args) error {
		return scm.VerifC17PutBtcTxParam(n, a.Var[0], a.U64[0], &scm.BtcTxParamDetial{PVersion: uint64(len(a.tag)), FeeRate: 7, MinChange: 9})
	}},
	pSCM + "REDEEM_SCRIPT": {[5]int{1, 0, 0, 0, 1}, func(n *native.NativeService, a args) error {
		return scm.VerifC17PutBtcRedeemScript(n, string(a.Var[0]), multisigScript(), a.U64[0])
	}},
	pSCM + "ASSET_BIND": {[5]int{1}, func(n *native.NativeService, a args) error {
		scm.PutAssetBind(n, a.U64[0], &scm.AssetBind{AssetMap: map[uint64][]byte{1: []byte(a.tag)}, LockProxyMap: map[uint64][]byte{}})
		return nil
	}},
	pSCM + "FEE": {[5]int{1}, func(n *native.NativeService, a args) error {
		scm.PutFee(n, a.U64[0], &scm.Fee{View: uint64(len(a.tag)), Fee: big.NewInt(5)})
		return nil
	}},
	pSCM + "FEE_INFO": {[5]int{2}, func(n *native.NativeService, a args) error {
		scm.PutFeeInfo(n, a.U64[0], a.U64[1], &scm.FeeInfo{StartTime: uint32(len(a.tag)), FeeInfo: map[common.Address]*big.Int{}})
		return nil
	}},

	pNM + "PEER_APPLY": {[5]int{0, 0, 0, 0, 1}, func(n *native.NativeService, a args) error {
		return node_manager.VerifC17PutPeerApply(n, &node_manager.RegisterPeerParam{PeerPubkey: hex.EncodeToString(a.Var[0])})
	}},
	pNM + "PEER_POOL": {[5]int{0, 1}, func(n *native.NativeService, a args) error {
		node_manager.VerifC17PutPeerPoolMap(n, &node_manager.PeerPoolMap{PeerPoolMap: map[string]*node_manager.PeerPoolItem{}}, a.U32[0])
		return nil
	}},
	pNM + "VBFT_CONFIG": {[5]int{}, func(n *native.NativeService, a args) error {
		node_manager.VerifC17PutConfig(n, &node_manager.Configuration{BlockMsgDelay: uint32(len(a.tag))})
		return nil
	}},
	pNM + "CANDIDITE_INDEX": {[5]int{}, func(n *native.NativeService, a args) error {
		node_manager.VerifC17PutCandidateIndex(n, uint32(len(a.tag)))
		return nil
	}},
	pNM + "GOVERNANCE_VIEW": {[5]int{}, func(n *native.NativeService, a args) error {
		node_manager.VerifC17PutGovernanceView(n, &node_manager.GovernanceView{View: uint32(len(a.tag))})
		return nil
	}},
	pNM + "CONSENSUS_SIGNS": {[5]int{0, 0, 0, 1}, func(n *native.NativeService, a args) error {
		var k common.Uint256
		copy(k[:], a.B32[0])
		node_manager.VerifC17PutConsensusSigns(n, k, &node_manager.ConsensusSigns{SignsMap: map[common.Address]bool{}})
		return nil
	}},

	pRM + "RELAYER": {[5]int{0, 0, 1}, func(n *native.NativeService, a args) error {
		var ad common.Address
		copy(ad[:], a.B20[0])
		return relayer_manager.VerifC17PutRelayer(n, ad)
	}},
	pRM + "RELAYER_APPLY": {[5]int{1}, func(n *native.NativeService, a args) error {
		if err := relayer_manager.VerifC17PutApplyID(n, a.U64[0]); err != nil { // the helper keys the record by the stored counter
			return err
		}
		return relayer_manager.VerifC17PutRelayerApply(n, &relayer_manager.RelayerListParam{})
	}},
	pRM + "RELAYER_REMOVE": {[5]int{1}, func(n *native.NativeService, a args) error {
		if err := relayer_manager.VerifC17PutRemoveID(n, a.U64[0]); err != nil {
			return err
		}
		return relayer_manager.VerifC17PutRelayerRemove(n, &relayer_manager.RelayerListParam{})
	}},
	pRM + "APPLY_ID": {[5]int{}, func(n *native.NativeService, a args) error {
		return relayer_manager.VerifC17PutApplyID(n, uint64(len(a.tag)))
	}},
	pRM + "REMOVE_ID": {[5]int{}, func(n *native.NativeService, a args) error {
		return relayer_manager.VerifC17PutRemoveID(n, uint64(len(a.tag)))
	}},

	pSV + "STATE_VALIDATOR": {[5]int{}, func(n *native.NativeService, a args) error {
		return neo3_state_manager.VerifC17PutStateValidators(n, []string{polyenv.Key(len(a.tag)).PubHex})
	}},
	pSV + "STATE_VALIDATOR_APPLY": {[5]int{1}, func(n *native.NativeService, a args) error {
		if err := neo3_state_manager.VerifC17PutStateValidatorApplyID(n, a.U64[0]); err != nil {
			return err
		}
		return neo3_state_manager.VerifC17PutStateValidatorApply(n, &neo3_state_manager.StateValidatorListParam{})
	}},
	pSV + "STATE_VALIDATOR_REMOVE": {[5]int{1}, func(n *native.NativeService, a args) error {
		if err := neo3_state_manager.VerifC17PutStateValidatorRemoveID(n, a.U64[0]); err != nil {
			return err
		}
		return neo3_state_manager.VerifC17PutStateValidatorRemove(n, &neo3_state_manager.StateValidatorListParam{})
	}},
	pSV + "STATE_VALIDATOR_APPLY_ID": {[5]int{}, func(n *native.NativeService, a args) error {
		return neo3_state_manager.VerifC17PutStateValidatorApplyID(n, uint64(len(a.tag)))
	}},
	pSV + "STATE_VALIDATOR_REMOVE_ID": {[5]int{}, func(n *native.NativeService, a args) error {
		return neo3_state_manager.VerifC17PutStateValidatorRemoveID(n, uint64(len(a.tag)))
	}},

	pSIG + "SIG_INFO": {[5]int{0, 0, 0, 0, 1}, func(n *native.NativeService, a args) error {
		signature_manager.VerifC17PutSigInfo(n, a.Var[0], &signature_manager.SigInfo{SigInfo: map[string][]byte{"k": []byte(a.tag)}})
		return nil
	}},

	pCC + "DONE_TX": {[5]int{1, 0, 0, 0, 1}, func(n *native.NativeService, a args) error {
		c, err := a.chain()
		if err != nil {
			return err
		}
		return ccmcom.PutDoneTx(n, a.Var[0], c)
	}},
	pCC + "BLACKED_CHAIN": {[5]int{1}, func(n *native.NativeService, a args) error { ccmcom.PutBlackChain(n, a.U64[0]); return nil }},
	pCC + "REQUEST": {[5]int{1, 0, 0, 0, 1}, func(n *native.NativeService, a args) error {
		c, err := a.chain()
		if err != nil {
			return err
		}
		return ccm.PutRequest(n, a.Var[0], c, []byte("request-"+a.tag))
	}},
	pCC + "MULTISIGN_INFO": {[5]int{0, 0, 0, 0, 1}, func(n *native.NativeService, a args) error {
		ripple.PutMultisignInfo(n, string(a.Var[0]), &ripple.MultisignInfo{SigMap: map[string]bool{a.tag: true}})
		return nil
	}},
	pCC + "RIPPLE_TX_INFO": {[5]int{1, 0, 0, 0, 1}, func(n *native.NativeService, a args) error {
		ripple.PutTxJsonInfo(n, a.U64[0], a.Var[0], "json-"+a.tag)
		return nil
	}},
	pVOT + "VOTE_INFO": {[5]int{0, 0, 0, 0, 1}, func(n *native.NativeService, a args) error {
		consensus_vote.VerifC17PutVoteInfo(n, a.Var[0], &consensus_vote.VoteInfo{VoteInfo: map[string]bool{a.tag: true}})
		return nil
	}},
	pBTC + "UTXOS": {[5]int{1, 0, 0, 0, 1}, func(n *native.NativeService, a args) error {
		btc.VerifC17PutUtxos(n, a.U64[0], string(a.Var[0]), &btc.Utxos{})
		return nil
	}},
	pBTC + "STXOS": {[5]int{1, 0, 0, 0, 1}, func(n *native.NativeService, a args) error {
		btc.VerifC17PutStxos(n, a.U64[0], string(a.Var[0]), &btc.Utxos{})
		return nil
	}},
	pBTC + "MULTI_SIGN_INFO": {[5]int{0, 0, 0, 0, 1}, func(n *native.NativeService, a args) error {
		return btc.VerifC17PutBtcMultiSignInfo(n, a.Var[0], &btc.MultiSignInfo{MultiSignInfo: map[string][][]byte{a.tag: nil}})
	}},
	pBTC + "BTC_FROM_TX_PREFIX": {[5]int{0, 0, 0, 0, 1}, func(n *native.NativeService, a args) error {
		return btc.VerifC17PutBtcFromInfo(n, a.Var[0], &btc.BtcFromInfo{FromTxHash: []byte(a.tag), FromChainID: 1})
	}},
}

// firstLitName is the binding key of a kind.
func firstLitName(p []Seg) string {
	for _, s := range p {
		if s.K == "lit" {
			return s.Name
		}
	}
	return ""
}

// sandboxNS: a real NativeService over a real CacheDB / OverlayDB / in-memory leveldb.
type sandboxNS struct {
	db      *leveldbstore.LevelDBStore
	overlay *overlaydb.OverlayDB
	cache   *storage.CacheDB
	ns      *native.NativeService
}

func newSandboxNS() *sandboxNS {
	db, err := leveldbstore.NewMemLevelDBStore()
	if err != nil {
		panic(err)
	}
	o := overlaydb.NewOverlayDB(db)
	c := storage.NewCacheDB(o)
	tx := polyenv.Tx(utils.NodeManagerContractAddress, "none", nil, 1, polyenv.Single(polyenv.Key(0)))
	ns, err := native.NewNativeService(c, tx, 1000, 1, common.Uint256{}, polyenv.ChainID(), nil, false)
	if err != nil {
		panic(err)
	}
	return &sandboxNS{db, o, c, ns}
}

// written commits the cache and returns the accumulated write set of the overlay (raw keys incl. prefix byte).
func (s *sandboxNS) written() map[string]string {
	s.cache.Commit()
	out := map[string]string{}
	s.overlay.GetWriteSet().ForEach(func(k, v []byte) { out[string(k)] = string(v) })
	return out
}

func (s *sandboxNS) close() { s.db.Close() }

// reset empties the overlay and the cache (the backing store is never written).
func (s *sandboxNS) reset() {
	s.overlay.Reset()
	s.cache.Reset()
}
