// Key-schema extractor (C17 b): runs on every check over the CURRENT source of /repo/native/service/**
// (honouring the build overlay, so a mutated file is what gets analysed) and finds every storage-key
// construction  utils.ConcatKey(contract, seg...)  feeding CacheDB Put/Get/Delete.
//
// Each segment is classified
//
//	lit("…")  []byte(CONST) / []byte("literal")           (constants resolved across packages)
//	fix(n)    GetUint64Bytes→8, GetUint32Bytes→4, Address[:]→20, Uint256[:]/ToArray()→32, [N]byte[:]→N,
//	          eth Hash().Bytes()/chainhash CloneBytes()→32
//	var       anything else (caller-controlled byte strings)
//
// by plain go/parser + go/ast with a small amount of local data flow (last assignment of an identifier in the
// enclosing function; parameter types; constant arguments of same-package callers for key-prefix parameters).
// The classification is validated dynamically (see validate.go): every key really written by the transaction
// corpus must be matched by a schema of its contract.
package main

import (
	"fmt"
	"go/ast"
	"go/parser"
	"go/token"
	"os"
	"path/filepath"
	"sort"
	"strconv"
	"strings"
)

const repoRoot = "/repo"
const modPath = "github.com/polynetwork/poly"

type Seg struct {
	K     string `json:"k"` // lit | fix | var
	Lit   string `json:"lit,omitempty"`
	Name  string `json:"name,omitempty"` // identity of the constant the literal comes from (package dir + name)
	N     int    `json:"n,omitempty"`
	Src   string `json:"src,omitempty"`
	Chain bool   `json:"chain,omitempty"` // fix(8) segment built from a chain id expression
}

func (s Seg) String() string {
	switch s.K {
	case "lit":
		if s.Name != "" {
			return fmt.Sprintf("lit(%s=%q)", s.Name[strings.LastIndex(s.Name, "/")+1:], s.Lit)
		}
		return fmt.Sprintf("lit(%q)", s.Lit)
	case "fix":
		return fmt.Sprintf("fix(%d)", s.N)
	}
	return "var"
}

type Site struct {
	File     string `json:"file"`
	Line     int    `json:"line"`
	Func     string `json:"func"`
	Contract string `json:"contract"`
	Segs     []Seg  `json:"segs"`
	Use      string `json:"use"` // put | get | delete | other
}

type pkgInfo struct {
	dir    string
	files  map[string]*ast.File
	consts map[string]string          // string constants
	funcs  map[string]*ast.FuncDecl   // top-level functions (methods under Recv.Name)
	fields map[string]map[string]bool // struct field name -> set of type strings
}

type extractor struct {
	fset              *token.FileSet
	overlay           map[string]string
	pkgs              map[string]*pkgInfo // by dir
	Sites             []Site
	Unres             []string // unresolved constructions (extractor incompleteness, listed in the evidence)
	PkgVarPrefixes    map[string]string
	assignedNames     map[string]bool
	callerNames       map[string]string
	ConcatCalls       int
	CacheUses         int
	CacheUsesResolved int
}

// loadOverlay takes the build overlay as seen by lib/src (so killdemo mutants are what gets analysed) but drops
// the entries of the harness itself (build stubs / injected accessors living under /verif/engine): the real
// harmony router source — stubbed out of the build because libbls is absent — is analysed as well.
func loadOverlay(repl map[string]string) map[string]string {
	out := map[string]string{}
	for k, v := range repl {
		if v == "" || strings.HasPrefix(v, "/verif/engine/") {
			continue
		}
		out[k] = v
	}
	return out
}

func (x *extractor) readFile(path string) ([]byte, bool) {
	if r, ok := x.overlay[path]; ok {
		if r == "" {
			return nil, false
		}
		b, err := os.ReadFile(r)
		return b, err == nil
	}
	b, err := os.ReadFile(path)
	return b, err == nil
}

// assigned reports whether a package-level name is the target of an assignment anywhere under native/ (by name).
func (x *extractor) assigned(p *pkgInfo, name string) bool {
	if x.assignedNames == nil {
		x.assignedNames = map[string]bool{}
		filepath.Walk(filepath.Join(repoRoot, "native"), func(path string, info os.FileInfo, err error) error {
			if err != nil || info.IsDir() || !strings.HasSuffix(path, ".go") || strings.HasSuffix(path, "_test.go") {
				return nil
			}
			src, ok := x.readFile(path)
			if !ok {
				return nil
			}
			f, err := parser.ParseFile(token.NewFileSet(), path, src, 0)
			if err != nil {
				return nil
			}
			ast.Inspect(f, func(n ast.Node) bool {
				if as, ok := n.(*ast.AssignStmt); ok && as.Tok == token.ASSIGN {
					for _, l := range as.Lhs {
						switch t := l.(type) {
						case *ast.Ident:
							x.assignedNames[t.Name] = true
						case *ast.SelectorExpr:
							x.assignedNames[t.Sel.Name] = true
						}
					}
				}
				return true
			})
			return nil
		})
	}
	return x.assignedNames[name]
}

func (x *extractor) loadPkg(dir string) *pkgInfo {
	if p, ok := x.pkgs[dir]; ok {
		return p
	}
	p := &pkgInfo{dir: dir, files: map[string]*ast.File{}, consts: map[string]string{}, funcs: map[string]*ast.FuncDecl{}, fields: map[string]map[string]bool{}}
	x.pkgs[dir] = p
	ents, _ := os.ReadDir(dir)
	names := map[string]bool{}
	for _, e := range ents {
		names[filepath.Join(dir, e.Name())] = true
	}
	for k := range x.overlay { // files that exist only in the overlay
		if filepath.Dir(k) == dir {
			names[k] = true
		}
	}
	for path := range names {
		if !strings.HasSuffix(path, ".go") || strings.HasSuffix(path, "_test.go") {
			continue
		}
		src, ok := x.readFile(path)
		if !ok {
			continue
		}
		f, err := parser.ParseFile(x.fset, path, src, 0)
		if err != nil {
			continue
		}
		p.files[path] = f
	}
	// constants (two passes for const A = B)
	for pass := 0; pass < 3; pass++ {
		for _, f := range p.files {
			for _, d := range f.Decls {
				gd, ok := d.(*ast.GenDecl)
				if !ok {
					continue
				}
				if gd.Tok == token.CONST || gd.Tok == token.VAR {
					for _, s := range gd.Specs {
						vs := s.(*ast.ValueSpec)
						for i, n := range vs.Names {
							if i < len(vs.Values) {
								if v, ok := x.constString(p, f, vs.Values[i]); ok {
									if gd.Tok == token.CONST {
										p.consts[n.Name] = v
									} else if !x.assigned(p, n.Name) { // package-level string var that is never re-assigned
										p.consts[n.Name] = v
										x.PkgVarPrefixes[strings.TrimPrefix(p.dir, repoRoot+"/")+"."+n.Name] = v
									}
								}
							}
						}
					}
				}
				if gd.Tok == token.TYPE {
					for _, s := range gd.Specs {
						ts := s.(*ast.TypeSpec)
						if st, ok := ts.Type.(*ast.StructType); ok {
							for _, fl := range st.Fields.List {
								for _, n := range fl.Names {
									if p.fields[n.Name] == nil {
										p.fields[n.Name] = map[string]bool{}
									}
									p.fields[n.Name][exprStr(fl.Type)] = true
								}
							}
						}
					}
				}
			}
		}
	}
	for _, f := range p.files {
		for _, d := range f.Decls {
			if fd, ok := d.(*ast.FuncDecl); ok && fd.Body != nil {
				p.funcs[fd.Name.Name] = fd
			}
		}
	}
	return p
}

func exprStr(e ast.Expr) string {
	switch v := e.(type) {
	case *ast.Ident:
		return v.Name
	case *ast.SelectorExpr:
		return exprStr(v.X) + "." + v.Sel.Name
	case *ast.StarExpr:
		return "*" + exprStr(v.X)
	case *ast.ArrayType:
		if v.Len == nil {
			return "[]" + exprStr(v.Elt)
		}
		return "[" + exprStr(v.Len) + "]" + exprStr(v.Elt)
	case *ast.BasicLit:
		return v.Value
	case *ast.CallExpr:
		var a []string
		for _, x := range v.Args {
			a = append(a, exprStr(x))
		}
		return exprStr(v.Fun) + "(" + strings.Join(a, ",") + ")"
	case *ast.SliceExpr:
		return exprStr(v.X) + "[:]"
	case *ast.IndexExpr:
		return exprStr(v.X) + "[" + exprStr(v.Index) + "]"
	case *ast.UnaryExpr:
		return v.Op.String() + exprStr(v.X)
	case *ast.BinaryExpr:
		return exprStr(v.X) + v.Op.String() + exprStr(v.Y)
	case *ast.ParenExpr:
		return "(" + exprStr(v.X) + ")"
	}
	return fmt.Sprintf("%T", e)
}

func importDir(f *ast.File, alias string) (string, bool) {
	for _, im := range f.Imports {
		path, _ := strconv.Unquote(im.Path.Value)
		name := filepath.Base(path)
		if im.Name != nil {
			name = im.Name.Name
		}
		if name == alias && strings.HasPrefix(path, modPath) {
			return filepath.Join(repoRoot, strings.TrimPrefix(path, modPath)), true
		}
	}
	return "", false
}

// constName is the identity of a named constant: "<package dir>.<NAME>" ("" for inline literals).
func (x *extractor) constName(p *pkgInfo, f *ast.File, e ast.Expr) string {
	switch v := e.(type) {
	case *ast.Ident:
		return strings.TrimPrefix(p.dir, repoRoot+"/") + "." + v.Name
	case *ast.SelectorExpr:
		if id, ok := v.X.(*ast.Ident); ok {
			if dir, ok := importDir(f, id.Name); ok {
				return strings.TrimPrefix(dir, repoRoot+"/") + "." + v.Sel.Name
			}
		}
	}
	return ""
}

func (x *extractor) constString(p *pkgInfo, f *ast.File, e ast.Expr) (string, bool) {
	switch v := e.(type) {
	case *ast.BasicLit:
		if v.Kind == token.STRING {
			s, err := strconv.Unquote(v.Value)
			return s, err == nil
		}
	case *ast.Ident:
		s, ok := p.consts[v.Name]
		return s, ok
	case *ast.SelectorExpr:
		if id, ok := v.X.(*ast.Ident); ok {
			if dir, ok := importDir(f, id.Name); ok {
				q := x.loadPkg(dir)
				s, ok := q.consts[v.Sel.Name]
				return s, ok
			}
		}
	case *ast.BinaryExpr:
		if v.Op == token.ADD {
			a, ok1 := x.constString(p, f, v.X)
			b, ok2 := x.constString(p, f, v.Y)
			return a + b, ok1 && ok2
		}
	case *ast.ParenExpr:
		return x.constString(p, f, v.X)
	}
	return "", false
}

// ---------------------------------------------------------------------------------------------
// per-function context

type fctx struct {
	x    *extractor
	p    *pkgInfo
	f    *ast.File
	fd   *ast.FuncDecl
	bind map[string]Seg // parameter name -> forced segment (constant propagated from callers)
}

// lastAssign returns the right-hand side most recently assigned to name before pos (textual order).
func (c *fctx) lastAssign(name string, pos token.Pos) (ast.Expr, bool) {
	var best ast.Expr
	var bestPos token.Pos
	multi := false
	ast.Inspect(c.fd.Body, func(n ast.Node) bool {
		switch s := n.(type) {
		case *ast.AssignStmt:
			if s.Pos() >= pos {
				return true
			}
			for i, l := range s.Lhs {
				if id, ok := l.(*ast.Ident); ok && id.Name == name {
					var rhs ast.Expr
					if len(s.Rhs) == len(s.Lhs) {
						rhs = s.Rhs[i]
					} else if len(s.Rhs) == 1 {
						rhs = s.Rhs[0]
						multi = i != 0 || len(s.Lhs) > 1
					}
					if s.Pos() > bestPos {
						best, bestPos = rhs, s.Pos()
						if len(s.Rhs) == len(s.Lhs) {
							multi = false
						}
					}
				}
			}
		case *ast.DeclStmt:
			if gd, ok := s.Decl.(*ast.GenDecl); ok && s.Pos() < pos {
				for _, sp := range gd.Specs {
					if vs, ok := sp.(*ast.ValueSpec); ok {
						for i, n := range vs.Names {
							if n.Name == name && i < len(vs.Values) && s.Pos() > bestPos {
								best, bestPos = vs.Values[i], s.Pos()
								multi = false
							}
						}
					}
				}
			}
		}
		return true
	})
	if best == nil {
		return nil, false
	}
	if multi { // x, err := f(...) : keep the call, the caller decides by function name
		return best, true
	}
	return best, true
}

// typeOf returns the declared type text of an identifier (parameter, receiver, var decl, range over typed field).
func (c *fctx) typeOf(name string, pos token.Pos) string {
	if c.fd.Recv != nil {
		for _, f := range c.fd.Recv.List {
			for _, n := range f.Names {
				if n.Name == name {
					return exprStr(f.Type)
				}
			}
		}
	}
	for _, f := range c.fd.Type.Params.List {
		for _, n := range f.Names {
			if n.Name == name {
				return exprStr(f.Type)
			}
		}
	}
	t := ""
	ast.Inspect(c.fd.Body, func(n ast.Node) bool {
		switch s := n.(type) {
		case *ast.DeclStmt:
			if gd, ok := s.Decl.(*ast.GenDecl); ok {
				for _, sp := range gd.Specs {
					if vs, ok := sp.(*ast.ValueSpec); ok && vs.Type != nil {
						for _, n := range vs.Names {
							if n.Name == name {
								t = exprStr(vs.Type)
							}
						}
					}
				}
			}
		case *ast.RangeStmt:
			if id, ok := s.Value.(*ast.Ident); ok && id.Name == name {
				// range over X.Field : element type from the struct field table
				if sel, ok := s.X.(*ast.SelectorExpr); ok {
					if ts := c.p.fields[sel.Sel.Name]; len(ts) == 1 {
						for k := range ts {
							t = strings.TrimPrefix(k, "[]")
						}
					}
				}
			}
		case *ast.AssignStmt:
			if s.Pos() < pos {
				for i, l := range s.Lhs {
					if id, ok := l.(*ast.Ident); ok && id.Name == name && len(s.Rhs) == len(s.Lhs) {
						if cl, ok := s.Rhs[i].(*ast.CompositeLit); ok && cl.Type != nil {
							t = exprStr(cl.Type)
						}
					}
				}
			}
		}
		return true
	})
	return t
}

func fixOfType(t string) (int, bool) {
	t = strings.TrimPrefix(t, "*")
	switch t {
	case "common.Address", "Address":
		return 20, true
	case "common.Uint256", "Uint256":
		return 32, true
	case "ethcommon.Hash", "ecom.Hash", "chainhash.Hash", "*chainhash.Hash":
		return 32, true
	case "ethcommon.Address":
		return 20, true
	}
	if strings.HasSuffix(t, ".Hash") { // go-ethereum common.Hash, btcd chainhash.Hash, bytom bc.Hash: 32 bytes
		return 32, true
	}
	if strings.HasPrefix(t, "[") && strings.HasSuffix(t, "]byte") {
		if n, err := strconv.Atoi(t[1 : len(t)-5]); err == nil {
			return n, true
		}
	}
	return 0, false
}

func isByteSliceConv(e *ast.CallExpr) bool {
	at, ok := e.Fun.(*ast.ArrayType)
	if !ok || at.Len != nil || len(e.Args) != 1 {
		return false
	}
	id, ok := at.Elt.(*ast.Ident)
	return ok && id.Name == "byte"
}

func (c *fctx) classify(e ast.Expr, depth int) Seg {
	src := exprStr(e)
	v := Seg{K: "var", Src: src}
	if depth > 6 {
		return v
	}
	switch t := e.(type) {
	case *ast.ParenExpr:
		return c.classify(t.X, depth+1)
	case *ast.StarExpr:
		s := c.classify(t.X, depth+1)
		s.Src = src
		return s
	case *ast.CallExpr:
		if isByteSliceConv(t) {
			if s, ok := c.x.constString(c.p, c.f, t.Args[0]); ok {
				return Seg{K: "lit", Lit: s, Name: c.x.constName(c.p, c.f, t.Args[0]), Src: src}
			}
			if id, ok := t.Args[0].(*ast.Ident); ok {
				if b, ok := c.bind[id.Name]; ok {
					b.Src = src
					return b
				}
			}
			return v
		}
		if sel, ok := t.Fun.(*ast.SelectorExpr); ok {
			switch sel.Sel.Name {
			case "GetUint64Bytes":
				return Seg{K: "fix", N: 8, Src: src, Chain: len(t.Args) == 1 && chainLike(exprStr(t.Args[0]))}
			case "GetUint32Bytes":
				return Seg{K: "fix", N: 4, Src: src}
			case "ToArray": // common.Uint256.ToArray
				if id, ok := sel.X.(*ast.Ident); ok {
					if n, ok := fixOfType(c.typeOf(id.Name, t.Pos())); ok {
						return Seg{K: "fix", N: n, Src: src}
					}
					if rhs, ok := c.lastAssign(id.Name, t.Pos()); ok && rhs != nil {
						if call, ok := rhs.(*ast.CallExpr); ok {
							if s2, ok := call.Fun.(*ast.SelectorExpr); ok && s2.Sel.Name == "Hash" { // Header.Hash() common.Uint256
								return Seg{K: "fix", N: 32, Src: src}
							}
						}
					}
				}
				return v
			case "Bytes":
				// X.Hash().Bytes() on an Ethereum-style header: 32-byte hash
				if inner, ok := sel.X.(*ast.CallExpr); ok {
					if is, ok := inner.Fun.(*ast.SelectorExpr); ok && is.Sel.Name == "Hash" {
						return Seg{K: "fix", N: 32, Src: src}
					}
				}
				if id, ok := sel.X.(*ast.Ident); ok {
					if n, ok := fixOfType(c.typeOf(id.Name, t.Pos())); ok {
						return Seg{K: "fix", N: n, Src: src}
					}
				}
				return v
			case "CloneBytes": // chainhash.Hash
				return Seg{K: "fix", N: 32, Src: src}
			}
		}
		return v
	case *ast.SliceExpr:
		if t.Low == nil && t.High == nil {
			if id, ok := t.X.(*ast.Ident); ok {
				if n, ok := fixOfType(c.typeOf(id.Name, t.Pos())); ok {
					return Seg{K: "fix", N: n, Src: src}
				}
			}
			if sel, ok := t.X.(*ast.SelectorExpr); ok { // params.Address[:]
				if ts := c.p.fields[sel.Sel.Name]; len(ts) == 1 {
					for k := range ts {
						if n, ok := fixOfType(k); ok {
							return Seg{K: "fix", N: n, Src: src}
						}
					}
				}
			}
		}
		return v
	case *ast.Ident:
		if b, ok := c.bind[t.Name]; ok {
			return b
		}
		if rhs, ok := c.lastAssign(t.Name, t.Pos()); ok && rhs != nil {
			s := c.classify(rhs, depth+1)
			s.Src = src + "=" + s.Src
			return s
		}
		return v
	}
	return v
}

func (c *fctx) contractOf(e ast.Expr) string {
	switch t := e.(type) {
	case *ast.SelectorExpr:
		return t.Sel.Name
	case *ast.Ident:
		if rhs, ok := c.lastAssign(t.Name, t.Pos()); ok && rhs != nil {
			return c.contractOf(rhs)
		}
		return "?" + t.Name
	}
	return "?" + exprStr(e)
}

func chainLike(s string) bool {
	l := strings.ToLower(s)
	return strings.Contains(l, "chainid") || strings.Contains(l, "chain_id") || strings.Contains(l, "chanid")
}

func isConcatKey(e ast.Expr) (*ast.CallExpr, bool) {
	ce, ok := e.(*ast.CallExpr)
	if !ok {
		return nil, false
	}
	switch f := ce.Fun.(type) {
	case *ast.SelectorExpr:
		return ce, f.Sel.Name == "ConcatKey"
	case *ast.Ident:
		return ce, f.Name == "ConcatKey"
	}
	return nil, false
}

// ---------------------------------------------------------------------------------------------

func (x *extractor) run() {
	root := filepath.Join(repoRoot, "native/service")
	var dirs []string
	filepath.Walk(root, func(path string, info os.FileInfo, err error) error {
		if err == nil && info.IsDir() {
			dirs = append(dirs, path)
		}
		return nil
	})
	sort.Strings(dirs)
	for _, d := range dirs {
		x.loadPkg(d)
	}
	for _, d := range dirs {
		p := x.pkgs[d]
		var paths []string
		for path := range p.files {
			paths = append(paths, path)
		}
		sort.Strings(paths)
		for _, path := range paths {
			f := p.files[path]
			for _, decl := range f.Decls {
				fd, ok := decl.(*ast.FuncDecl)
				if !ok || fd.Body == nil {
					continue
				}
				if fd.Name.Name == "ConcatKey" {
					continue
				}
				x.scanFunc(p, f, fd)
			}
		}
	}
}

// callers' constant arguments for parameter `param` of function fd within the package
func (x *extractor) callerConsts(p *pkgInfo, fd *ast.FuncDecl, param string) []string {
	idx := -1
	i := 0
	for _, f := range fd.Type.Params.List {
		for _, n := range f.Names {
			if n.Name == param {
				idx = i
			}
			i++
		}
	}
	if idx < 0 {
		return nil
	}
	set := map[string]bool{}
	all := true
	found := false
	for _, f := range p.files {
		ast.Inspect(f, func(n ast.Node) bool {
			ce, ok := n.(*ast.CallExpr)
			if !ok {
				return true
			}
			if id, ok := ce.Fun.(*ast.Ident); ok && id.Name == fd.Name.Name && idx < len(ce.Args) {
				found = true
				if s, ok := x.constString(p, f, ce.Args[idx]); ok {
					set[s] = true
					x.callerNames[s] = x.constName(p, f, ce.Args[idx])
				} else {
					all = false
				}
			}
			return true
		})
	}
	if !found || !all {
		return nil
	}
	var out []string
	for s := range set {
		out = append(out, s)
	}
	sort.Strings(out)
	return out
}

func (x *extractor) scanFunc(p *pkgInfo, f *ast.File, fd *ast.FuncDecl) {
	rel := func(pos token.Pos) (string, int) {
		ps := x.fset.Position(pos)
		return strings.TrimPrefix(ps.Filename, repoRoot+"/"), ps.Line
	}
	// string parameters used as []byte(param) inside ConcatKey: propagate constants from callers
	variants := []map[string]Seg{{}}
	ast.Inspect(fd.Body, func(n ast.Node) bool {
		ce, ok := isConcatKey(exprOf(n))
		if !ok {
			return true
		}
		for _, a := range ce.Args[1:] {
			conv, ok := a.(*ast.CallExpr)
			if !ok || !isByteSliceConv(conv) {
				continue
			}
			id, ok := conv.Args[0].(*ast.Ident)
			if !ok {
				continue
			}
			if _, isConst := x.constString(p, f, id); isConst {
				continue
			}
			if _, done := variants[0][id.Name]; done {
				continue
			}
			cs := x.callerConsts(p, fd, id.Name)
			if len(cs) == 0 {
				continue
			}
			var nv []map[string]Seg
			for _, v := range variants {
				for _, c := range cs {
					m := map[string]Seg{}
					for k, s := range v {
						m[k] = s
					}
					m[id.Name] = Seg{K: "lit", Lit: c, Name: x.callerNames[c]}
					nv = append(nv, m)
				}
			}
			variants = nv
		}
		return true
	})
	// uses of CacheDB: Put/Get/Delete(key...) — check that the key argument resolves to a ConcatKey
	ast.Inspect(fd.Body, func(n ast.Node) bool {
		ce, ok := n.(*ast.CallExpr)
		if !ok {
			return true
		}
		sel, ok := ce.Fun.(*ast.SelectorExpr)
		if !ok || len(ce.Args) == 0 {
			return true
		}
		if inner, ok := sel.X.(*ast.CallExpr); ok {
			if is, ok := inner.Fun.(*ast.SelectorExpr); ok && is.Sel.Name == "GetCacheDB" {
				switch sel.Sel.Name {
				case "Put", "Get", "Delete", "NewIterator":
					x.CacheUses++
					c := &fctx{x: x, p: p, f: f, fd: fd}
					if x.resolvesToConcat(c, ce.Args[0], 0) {
						x.CacheUsesResolved++
					} else {
						file, line := rel(ce.Pos())
						x.Unres = append(x.Unres, fmt.Sprintf("%s:%d %s: key argument %s of CacheDB.%s is not a ConcatKey construction", file, line, fd.Name.Name, exprStr(ce.Args[0]), sel.Sel.Name))
					}
				}
			}
		}
		return true
	})
	for _, bind := range variants {
		c := &fctx{x: x, p: p, f: f, fd: fd, bind: bind}
		var stack []ast.Node
		ast.Inspect(fd.Body, func(n ast.Node) bool {
			if n == nil {
				stack = stack[:len(stack)-1]
				return true
			}
			stack = append(stack, n)
			ce, ok := isConcatKey(exprOf(n))
			if !ok {
				return true
			}
			if len(bind) == 0 || true {
				if len(ce.Args) < 1 {
					return true
				}
			}
			file, line := rel(ce.Pos())
			if ce.Ellipsis.IsValid() { // ConcatKey(contract, args...): segment list built elsewhere, no static schema
				if len(bind) == 0 || isFirstVariant(bind, variants) {
					x.Unres = append(x.Unres, fmt.Sprintf("%s:%d %s: ConcatKey called with a spread argument list (%s...)", file, line, fd.Name.Name, exprStr(ce.Args[len(ce.Args)-1])))
				}
				return true
			}
			s := Site{File: file, Line: line, Func: fd.Name.Name, Contract: c.contractOf(ce.Args[0]), Use: useOf(stack, ce, fd)}
			for _, a := range ce.Args[1:] {
				s.Segs = append(s.Segs, c.classify(a, 0))
			}
			if s.Use == "returned" { // key-builder helper: the use is the one of its callers (one level)
				s.Use = x.usesOfCallers(p, fd.Name.Name)
			}
			x.Sites = append(x.Sites, s)
			return true
		})
	}
	x.ConcatCalls += countConcat(fd)
}

// usesOfCallers: how the value returned by key-builder helper fname is used at its call sites in the package.
func (x *extractor) usesOfCallers(p *pkgInfo, fname string) string {
	uses := map[string]bool{}
	for _, f := range p.files {
		var stack []ast.Node
		ast.Inspect(f, func(n ast.Node) bool {
			if n == nil {
				stack = stack[:len(stack)-1]
				return true
			}
			stack = append(stack, n)
			ce, ok := n.(*ast.CallExpr)
			if !ok {
				return true
			}
			if id, ok := ce.Fun.(*ast.Ident); !ok || id.Name != fname {
				return true
			}
			for i := len(stack) - 2; i >= 0; i-- {
				if pc, ok := stack[i].(*ast.CallExpr); ok {
					if sel, ok := pc.Fun.(*ast.SelectorExpr); ok {
						switch sel.Sel.Name {
						case "Put", "PutBytes":
							uses["put"] = true
						case "Get", "GetStorageItem", "GetStorageUInt64", "GetStorageUInt32", "GetStorageVarBytes":
							uses["get"] = true
						case "Delete":
							uses["delete"] = true
						}
					}
					break
				}
			}
			return true
		})
	}
	var l []string
	for u := range uses {
		l = append(l, u)
	}
	sort.Strings(l)
	if len(l) == 0 {
		return "returned"
	}
	return strings.Join(l, "+")
}

func isFirstVariant(bind map[string]Seg, variants []map[string]Seg) bool {
	return len(variants) > 0 && fmt.Sprint(bind) == fmt.Sprint(variants[0])
}

func countConcat(fd *ast.FuncDecl) int {
	n := 0
	ast.Inspect(fd.Body, func(nd ast.Node) bool {
		if _, ok := isConcatKey(exprOf(nd)); ok {
			n++
		}
		return true
	})
	return n
}

func exprOf(n ast.Node) ast.Expr {
	if e, ok := n.(ast.Expr); ok {
		return e
	}
	return nil
}

// resolvesToConcat: e is a ConcatKey call, an identifier last assigned from one, a call of a same-package
// function that returns one, or (inside pass-through helpers of native/service/utils) a []byte parameter named key.
func (x *extractor) resolvesToConcat(c *fctx, e ast.Expr, depth int) bool {
	if depth > 4 {
		return false
	}
	if _, ok := isConcatKey(e); ok {
		return true
	}
	switch t := e.(type) {
	case *ast.Ident:
		if rhs, ok := c.lastAssign(t.Name, t.Pos()); ok && rhs != nil {
			return x.resolvesToConcat(c, rhs, depth+1)
		}
		// pass-through helper: parameter `key []byte`; its callers are checked below
		if c.typeOf(t.Name, t.Pos()) == "[]byte" && strings.HasSuffix(c.p.dir, "native/service/utils") {
			return true
		}
	case *ast.CallExpr:
		if id, ok := t.Fun.(*ast.Ident); ok {
			if fd, ok := c.p.funcs[id.Name]; ok {
				ret := false
				ast.Inspect(fd.Body, func(n ast.Node) bool {
					if rs, ok := n.(*ast.ReturnStmt); ok && len(rs.Results) == 1 {
						if _, ok := isConcatKey(rs.Results[0]); ok {
							ret = true
						}
					}
					return true
				})
				return ret
			}
		}
	}
	return false
}

// useOf tells how the constructed key is used: walks up to the enclosing call / follows a `key :=` variable.
func useOf(stack []ast.Node, ce *ast.CallExpr, fd *ast.FuncDecl) string {
	name := func(call *ast.CallExpr) string {
		if sel, ok := call.Fun.(*ast.SelectorExpr); ok {
			switch sel.Sel.Name {
			case "Put", "PutBytes":
				return "put"
			case "Get", "GetStorageItem", "GetStorageUInt64", "GetStorageUInt32", "GetStorageVarBytes":
				return "get"
			case "Delete":
				return "delete"
			}
		}
		return ""
	}
	for i := len(stack) - 2; i >= 0; i-- {
		switch p := stack[i].(type) {
		case *ast.CallExpr:
			if u := name(p); u != "" {
				return u
			}
		case *ast.AssignStmt:
			if len(p.Lhs) == 1 {
				if id, ok := p.Lhs[0].(*ast.Ident); ok {
					uses := map[string]bool{}
					ast.Inspect(fd.Body, func(n ast.Node) bool {
						if c, ok := n.(*ast.CallExpr); ok && len(c.Args) > 0 {
							for _, a := range c.Args {
								if aid, ok := a.(*ast.Ident); ok && aid.Name == id.Name {
									if u := name(c); u != "" {
										uses[u] = true
									}
								}
							}
						}
						return true
					})
					var l []string
					for u := range uses {
						l = append(l, u)
					}
					sort.Strings(l)
					if len(l) > 0 {
						return strings.Join(l, "+")
					}
				}
			}
			return "other"
		case *ast.ReturnStmt:
			return "returned"
		}
	}
	return "other"
}

// ---------------------------------------------------------------------------------------------
// record kinds

type Kind struct {
	Contract string   `json:"contract"`
	Segs     []Seg    `json:"segs"`
	Sites    []string `json:"sites"`
	Uses     []string `json:"uses"`
	Pkgs     []string `json:"pkgs"`
}

func (k *Kind) Layout() string {
	var s []string
	for _, g := range k.Segs {
		s = append(s, g.String())
	}
	return strings.Join(s, " ")
}

func (k *Kind) ID() string { return k.Contract + ": " + k.Layout() }

func kindsOf(sites []Site) []*Kind {
	m := map[string]*Kind{}
	var order []string
	for _, s := range sites {
		k := &Kind{Contract: s.Contract}
		for _, g := range s.Segs {
			g.Src = ""
			k.Segs = append(k.Segs, g)
		}
		id := k.ID()
		if m[id] == nil {
			m[id] = k
			order = append(order, id)
		}
		k = m[id]
		for i := range k.Segs {
			if i < len(s.Segs) && s.Segs[i].Chain {
				k.Segs[i].Chain = true
			}
		}
		k.Sites = append(k.Sites, fmt.Sprintf("%s:%d(%s,%s)", s.File, s.Line, s.Func, s.Use))
		addUniq(&k.Uses, s.Use)
		addUniq(&k.Pkgs, filepath.Dir(s.File))
	}
	sort.Strings(order)
	out := make([]*Kind, len(order))
	for i, id := range order {
		out[i] = m[id]
	}
	return out
}

func addUniq(l *[]string, s string) {
	for _, x := range *l {
		if x == s {
			return
		}
	}
	*l = append(*l, s)
}
