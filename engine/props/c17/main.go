package main

import (
	"fmt"
	"go/token"
	"os"
)

func main() {
	x := &extractor{fset: token.NewFileSet(), overlay: loadOverlay(), pkgs: map[string]*pkgInfo{}}
	x.run()
	ks := kindsOf(x.Sites)
	for _, k := range ks {
		fmt.Printf("%-70s uses=%v sites=%d pkgs=%v\n", k.ID(), k.Uses, len(k.Sites), k.Pkgs)
	}
	fmt.Println("sites", len(x.Sites), "concat calls", x.ConcatCalls, "kinds", len(ks), "cache uses", x.CacheUses, "resolved", x.CacheUsesResolved)
	for _, u := range x.Unres {
		fmt.Println("UNRES", u)
	}
	if len(os.Args) > 1 {
		for _, s := range x.Sites {
			for _, g := range s.Segs {
				if g.K == "var" {
					fmt.Printf("VAR %s:%d %s  %s\n", s.File, s.Line, s.Func, g.Src)
				}
			}
		}
	}
}
