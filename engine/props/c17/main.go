// C17 — contract storage is confined to the contract-storage namespace and its keys are unambiguous.
//
// (a) dynamic confinement: every WriteSet produced by executing (i) the C15 probe-block corpus through the real
//
//	ledger and (ii) a corpus of real governance / cross-chain-manager transactions contains only keys
//	ST_STORAGE ++ <registered contract address> ++ …; after really submitting blocks the persistent state
//	store holds contract data only under ST_STORAGE and the ledger bookkeeping keys are untouched by write sets.
//
// (b) key-schema model: extract.go extracts every ConcatKey construction from the current source on every run;
//
//	model.go searches the product automaton of every pair of record kinds of the same contract (and of every
//	kind with itself) for a common key; every model collision is concretised and replayed through the real
//	storage helpers (bindings.go) before it may become a VIOLATION; unreplayable ones are `unconfirmed`.
package main

import (
	"crypto/sha256"
	"encoding/hex"
	"fmt"
	"go/token"
	"sort"
	"strings"
	"sync"
	"sync/atomic"

	"github.com/polynetwork/poly/common"
	scom "github.com/polynetwork/poly/core/store/common"
	"github.com/polynetwork/poly/core/types"
	"github.com/polynetwork/poly/native"
	_ "github.com/polynetwork/poly/native/service"
	"github.com/polynetwork/poly/native/service/utils"
	"verif.local/engine/ev"
	"verif.local/engine/lib/ccm"
	"verif.local/engine/lib/gov"
	"verif.local/engine/lib/probe"
	"verif.local/engine/lib/src"
	"verif.local/engine/polyenv"
)

var r *ev.Run

var contractNames = map[common.Address]string{
	utils.SideChainManagerContractAddress:  "SideChainManagerContractAddress",
	utils.HeaderSyncContractAddress:        "HeaderSyncContractAddress",
	utils.CrossChainManagerContractAddress: "CrossChainManagerContractAddress",
	utils.NodeManagerContractAddress:       "NodeManagerContractAddress",
	utils.RelayerManagerContractAddress:    "RelayerManagerContractAddress",
	utils.Neo3StateManagerContractAddress:  "Neo3StateManagerContractAddress",
	utils.SignatureManagerContractAddress:  "SignatureManagerContractAddress",
	utils.ReplenishContractAddress:         "ReplenishContractAddress",
}

func contractAddr(name string) (common.Address, bool) {
	for a, n := range contractNames {
		if n == name {
			return a, true
		}
	}
	return common.Address{}, false
}

// ---------------------------------------------------------------------------------------------
// (a) confinement

type confine struct {
	mu        sync.Mutex
	writeSets int64
	keys      int64
	deletes   int64
	observed  map[string]map[string]bool // contract name -> key suffixes seen (for schema validation)
}

func (c *confine) check(source string, ws map[string]string, detail func() any) {
	atomic.AddInt64(&c.writeSets, 1)
	for k, v := range ws {
		atomic.AddInt64(&c.keys, 1)
		if v == "" {
			atomic.AddInt64(&c.deletes, 1)
		}
		if len(k) == 0 || k[0] != byte(scom.ST_STORAGE) {
			p := "empty"
			if len(k) > 0 {
				p = fmt.Sprintf("0x%02x", k[0])
			}
			op := "put"
			if v == "" {
				op = "delete"
			}
			r.Violation("confinement/writeset-key-outside-ST_STORAGE:"+op+":prefix-"+p, map[string]any{"source": source, "key": hex.EncodeToString([]byte(k)), "tx": detail()})
			continue
		}
		if len(k) < 21 {
			r.Violation("confinement/key-without-contract-address", map[string]any{"source": source, "key": hex.EncodeToString([]byte(k)), "tx": detail()})
			continue
		}
		var a common.Address
		copy(a[:], k[1:21])
		name, ok := contractNames[a]
		if !ok {
			if a == probe.Addr {
				continue
			}
			r.Violation("confinement/key-under-unregistered-contract-address", map[string]any{"source": source, "key": hex.EncodeToString([]byte(k)), "tx": detail()})
			continue
		}
		c.mu.Lock()
		if c.observed[name] == nil {
			c.observed[name] = map[string]bool{}
		}
		c.observed[name][k[21:]] = true
		c.mu.Unlock()
	}
}

func main() {
	r = ev.Start("C17", "model_checking")
	r.Require("writeset-put", "writeset-delete", "real-tx-success", "real-tx-fail", "kind-validated-by-binding", "kind-validated-by-real-tx", "pair-disjoint", "audit-fee-timeout", "audit-fee-quorum")
	e := gov.NewEnv(4)
	vals := e.Vals
	polyenv.Setup(0, vals)
	polyenv.InstallHeightLedger()
	probe.Install()
	for a := range native.Contracts {
		if _, ok := contractNames[a]; !ok && a != probe.Addr {
			r.HarnessError("native contract %x is not in the driver's contract table", a)
		}
	}
	cf := &confine{observed: map[string]map[string]bool{}}
	cov := map[string]any{}

	// ---- (b) static extraction first (cheap; its result also drives the validation of (a)'s observations)
	x := &extractor{fset: token.NewFileSet(), overlay: loadOverlay(src.Replaced()), pkgs: map[string]*pkgInfo{}, PkgVarPrefixes: map[string]string{}, callerNames: map[string]string{}}
	x.run()
	kinds := kindsOf(x.Sites)
	if len(x.Sites) < 200 || len(kinds) < 40 {
		r.HarnessError("extractor found only %d sites / %d kinds", len(x.Sites), len(kinds))
	}
	if len(x.Unres) > 0 || x.CacheUses != x.CacheUsesResolved {
		// an unresolvable key construction DEGRADES the static part (it is listed, the run is no longer exhaustive);
		// bound kinds are still exercised dynamically below
		r.Capped(fmt.Sprintf("static key-schema extraction incomplete: %d unresolved key construction sites", len(x.Unres)))
	}
	for _, k := range kinds {
		if strings.HasPrefix(k.Contract, "?") {
			r.HarnessError("extractor could not resolve the contract of %v", k.Sites)
		}
		if _, ok := contractAddr(k.Contract); !ok {
			r.HarnessError("unknown contract constant %s at %v", k.Contract, k.Sites)
		}
	}

	// ---- (a) corpus 1: probe blocks through the real ledger
	signer := polyenv.Key(20)
	nW := 8
	pool := probe.NewPool(nW, vals, "c17-", func(w *probe.Worker) {
		if _, _, err := w.Commit([]*types.Transaction{probe.Tx([]probe.Op{{C: probe.Put, K: 'a', V: "A-seed"}}, 1000, signer)}); err != nil {
			r.HarnessError("seed commit: %v", err)
		}
	})
	var probeBlocks int64
	{
		L := r.QT(3, 4)
		jobs := make(chan [][]probe.Op, 64)
		var wg sync.WaitGroup
		for _, w := range pool {
			wg.Add(1)
			go func(w *probe.Worker) {
				defer wg.Done()
				sb := w.Ch.L.VerifC15NewSandbox()
				for batch := range jobs {
					for _, p := range batch {
						tx := probe.Tx(p, 1, signer)
						res, err := w.Ch.L.VerifC15ExecOne(sb, w.DryHeader(), tx)
						if err != nil {
							r.HarnessError("probe exec: %v", err)
						}
						cf.check("probe-program", probe.WriteSet(res), func() any { return probe.Show(p) })
						atomic.AddInt64(&probeBlocks, 1)
						r.Eval()
					}
				}
			}(w)
		}
		batch := make([][]probe.Op, 0, 128)
		probe.SpaceA(L, 2, 1, nil, func(p []probe.Op) bool {
			batch = append(batch, p)
			if len(batch) == 128 {
				jobs <- batch
				batch = make([][]probe.Op, 0, 128)
			}
			return !r.Expired()
		})
		jobs <- batch
		close(jobs)
		wg.Wait()
		// multi-transaction blocks through the real ExecuteBlock
		bodies := probe.Bodies([]string{"PA", "PB", "DA", "MV", "NT", "FL", "C1", "C2"}, 2, "")
		idx := make(chan int, len(bodies))
		for i := range bodies {
			idx <- i
		}
		close(idx)
		for _, w := range pool {
			wg.Add(1)
			go func(w *probe.Worker) {
				defer wg.Done()
				for i := range idx {
					for j := range bodies {
						progs := [][]probe.Op{probe.WithReads(probe.Relabel(bodies[i], "t0.")), probe.WithReads(probe.Relabel(bodies[j], "t1."))}
						res, err := w.Exec([]*types.Transaction{probe.Tx(progs[0], 1, signer), probe.Tx(progs[1], 2, signer)})
						if err != nil {
							r.HarnessError("probe block exec: %v", err)
						}
						cf.check("probe-block", probe.WriteSet(res), func() any { return []string{probe.Show(progs[0]), probe.Show(progs[1])} })
						atomic.AddInt64(&probeBlocks, 1)
						r.Eval()
					}
				}
			}(w)
		}
		wg.Wait()
	}

	// ---- (a) corpus 2: real governance / CCM transactions (World = production HandleInvokeTransaction path),
	// recorded, then replayed as really submitted blocks on a ledger.
	w := polyenv.NewWorld()
	w.Genesis(vals)
	rec := &recWorld{W: w, cf: cf}
	realCorpus(e, rec)
	if rec.ok > 0 {
		r.Class("real-tx-success")
	}
	if rec.fail > 0 {
		r.Class("real-tx-fail")
	}
	// replay the recorded transactions as blocks on a real ledger: ExecuteBlock write sets + final store scan
	ch := pool[0]
	var ledgerBlocks int
	before := prefixCensus(ch.Ch.L.VerifC15RawState(nil))
	for _, op := range rec.ops {
		polyenv.GlobalHeight = ch.Ch.L.GetCurrentBlockHeight()
		res, _, err := ch.Commit([]*types.Transaction{op})
		if err != nil {
			r.HarnessError("ledger replay of corpus tx failed: %v", err)
		}
		cf.check("ledger-block", probe.WriteSet(res), func() any { h := op.Hash(); return h.ToHexString() })
		ledgerBlocks++
		r.Eval()
	}
	final := ch.Ch.L.VerifC15RawState(nil)
	after := prefixCensus(final)
	for k := range final {
		if len(k) > 0 && k[0] == byte(scom.ST_STORAGE) {
			cf.check("ledger-final-state", map[string]string{k: final[k]}, func() any { return "final state scan" })
		}
	}
	probe.ClosePool(pool)
	if cf.keys-cf.deletes > 0 {
		r.Class("writeset-put")
	}
	if cf.deletes > 0 {
		r.Class("writeset-delete")
	}
	cov["a_confinement"] = map[string]any{"write_sets": cf.writeSets, "keys_checked": cf.keys, "delete_entries": cf.deletes,
		"probe_blocks": probeBlocks, "real_txs": len(rec.ops), "real_tx_success": rec.ok, "real_tx_fail": rec.fail,
		"ledger_blocks_submitted": ledgerBlocks, "state_store_prefix_census_before": before, "state_store_prefix_census_after": after,
		"real_tx_methods": rec.methodList()}

	// ---- (b)(i) validation of the extracted schemas
	byContract := map[string][]*Kind{}
	for _, k := range kinds {
		byContract[k.Contract] = append(byContract[k.Contract], k)
	}
	validatedByTx := map[string]bool{}
	for cname, keys := range cf.observed {
		for suffix := range keys {
			hit := false
			for _, k := range byContract[cname] {
				if matches(k.Segs, []byte(suffix)) {
					hit = true
					validatedByTx[k.ID()] = true
				}
			}
			if !hit {
				r.HarnessError("schema extraction incomplete: real key %s:%q (%x) matches no extracted record kind", cname, suffix, suffix)
			}
		}
	}
	validatedByBinding := map[string]bool{}
	var bindingMismatch []string
	var dynamicOnly []string // kinds bound by constant name whose construction the extractor can no longer see
	// a record kind that is bound to a real helper by the NAME of its prefix constant must still be found by the
	// extractor (a bound kind that silently disappears after a refactor is suspicious, not fine)
	{
		have := map[string]bool{}
		for _, k := range kinds {
			have[firstLitName(k.Segs)] = true
		}
		for name := range bindings {
			if !have[name] {
				dynamicOnly = append(dynamicOnly, name)
			}
		}
		sort.Strings(dynamicOnly)
	}
	nonLiteral := []map[string]any{}
	var tuplesTried, tuplesRejected int
	sbx := newSandboxNS()
	for _, k := range kinds {
		name := firstLitName(k.Segs)
		b, ok := bindings[name]
		if !ok {
			continue
		}
		addr, _ := contractAddr(k.Contract)
		pfx := append([]byte{byte(scom.ST_STORAGE)}, addr[:]...)
		// run the real helper on one parameter tuple; returns the keys it wrote under this contract
		run := func(params [][]byte, tag string) (map[string]string, error) {
			a, err := mkArgs(k.Segs, params, tag)
			if err != nil || !b.fits(name, a) {
				return nil, errNoFit
			}
			sbx.reset()
			if err := b.put(sbx.ns, a); err != nil {
				return nil, err
			}
			out := map[string]string{}
			for kk, v := range sbx.written() {
				if strings.HasPrefix(kk, string(pfx)) {
					out[kk] = v
				}
			}
			return out, nil
		}
		okAll, fitted, accepted := true, false, 0
		byKey := map[string][][]byte{} // record key actually written -> first tuple that wrote it
		tuples := boundaryTuples(k.Segs)
		for ti, params := range tuples {
			ws, err := run(params, fmt.Sprint("t", ti))
			if err == errNoFit {
				okAll = false
				break
			}
			fitted = true
			tuplesTried++
			r.Eval()
			if err != nil {
				tuplesRejected++ // the real helper refuses this value (validation inside the helper)
				continue
			}
			want, _ := build(k.Segs, params)
			wantKey := string(pfx) + string(want)
			if _, ok := ws[wantKey]; ok {
				accepted++
				if prev, dup := byKey[wantKey]; dup && fmt.Sprint(prev) != fmt.Sprint(params) {
					r.HarnessError("two different tuples with one literal key for %s", k.ID())
				}
				byKey[wantKey] = params
				continue
			}
			// the helper did NOT write contract ++ literal ++ raw parameter bytes: find what it wrote instead
			okAll = false
			lit0 := ""
			for _, s := range k.Segs {
				if s.K == "lit" {
					lit0 = s.Lit
					break
				}
			}
			var dev []string
			for kk := range ws {
				if strings.Contains(kk[len(pfx):], lit0) {
					dev = append(dev, kk)
				}
			}
			sort.Strings(dev)
			finding := map[string]any{"kind": k.ID(), "sites": k.Sites, "params_hex": hexAll(params), "expected_key_hex": hex.EncodeToString([]byte(wantKey)), "written_keys_hex": hexStrs(dev)}
			confirmed := false
			for _, kk := range dev {
				// (1) another tuple of the alphabet already wrote this key
				if prev, dup := byKey[kk]; dup && fmt.Sprint(prev) != fmt.Sprint(params) {
					finding["other_params_hex"], finding["shared_key_hex"], confirmed = hexAll(prev), hex.EncodeToString([]byte(kk)), true
					break
				}
				byKey[kk] = params
				// (2) read the observed key back through the schema: the tuple it literally denotes
				w2, _ := collide(k.Segs, []Seg{{K: "lit", Lit: kk[len(pfx):]}}, false, 0)
				if w2 == nil || fmt.Sprint(w2.ParamsA) == fmt.Sprint(params) {
					continue
				}
				ws2, err2 := run(w2.ParamsA, "other")
				if _, same := ws2[kk]; err2 == nil && same {
					finding["other_params_hex"], finding["shared_key_hex"], confirmed = hexAll(w2.ParamsA), hex.EncodeToString([]byte(kk)), true
					break
				}
			}
			if confirmed {
				finding["replay"] = "the real storage helper of this kind, called with params_hex and with other_params_hex (two different parameter tuples), writes the same storage key"
				r.Violation("key-not-literal-concatenation:"+kindName(k), finding)
			} else {
				finding["class"] = "unconfirmed: key is not the literal concatenation of its parameters, but no second tuple with the same key was exhibited"
				nonLiteral = append(nonLiteral, finding)
			}
			r.Class("key-not-literal")
		}
		if okAll && fitted && accepted > 0 {
			validatedByBinding[k.ID()] = true
		} else if fitted {
			bindingMismatch = append(bindingMismatch, k.ID())
		}
	}
	// kinds bound by constant name that the extractor no longer finds (key built by an unresolvable helper): no static
	// schema, so test what must hold whatever the layout is — the real helper must be INJECTIVE: two different
	// parameter tuples (parameter classes = the helper's own signature) never write the same set of keys.
	dynamicReport := []map[string]any{}
	for _, name := range dynamicOnly {
		b := bindings[name]
		var shape []Seg
		for i, n := range []int{8, 4, 20, 32} {
			for j := 0; j < b.need[i]; j++ {
				shape = append(shape, Seg{K: "fix", N: n})
			}
		}
		for j := 0; j < b.need[4]; j++ {
			shape = append(shape, Seg{K: "var"})
		}
		seen := map[string][][]byte{}
		accepted, rejected := 0, 0
		short := name[strings.LastIndex(name, "/")+1:]
		for ti, params := range boundaryTuples(shape) {
			a, err := mkArgs(shape, params, fmt.Sprint("t", ti))
			if err != nil {
				continue
			}
			sbx.reset()
			tuplesTried++
			r.Eval()
			if err := b.put(sbx.ns, a); err != nil {
				rejected++
				continue
			}
			accepted++
			var ks []string
			for kk := range sbx.written() {
				ks = append(ks, kk)
			}
			sort.Strings(ks)
			sig := strings.Join(ks, "\x00|")
			if prev, dup := seen[sig]; dup && fmt.Sprint(prev) != fmt.Sprint(params) {
				r.Class("key-not-literal")
				r.Violation("key-not-injective:"+short, map[string]any{"kind_bound_by_constant": name,
					"params_hex": hexAll(prev), "other_params_hex": hexAll(params), "keys_written_hex": hexStrs(ks),
					"parameter_classes": shapeStr(shape), "unresolved_key_sites": x.Unres,
					"replay": "the real storage helper of this kind, called with params_hex and with other_params_hex (two different parameter tuples), writes exactly the same storage keys"})
				break
			}
			seen[sig] = params
		}
		if accepted == 0 {
			r.HarnessError("record kind bound by constant %s can neither be extracted statically nor exercised dynamically (%d tuples rejected)", name, rejected)
		}
		dynamicReport = append(dynamicReport, map[string]any{"kind_bound_by_constant": name, "tuples_accepted": accepted, "tuples_rejected": rejected, "distinct_key_sets": len(seen)})
	}
	sbx.close()
	if x.Unres == nil {
		x.Unres = []string{}
	}
	cov["unresolved_key_sites"] = x.Unres
	cov["b_dynamic_only_kinds"] = dynamicReport
	cov["b_literal_concatenation"] = map[string]any{"tuples_tried": tuplesTried, "tuples_rejected_by_helper": tuplesRejected,
		"var_alphabet_lengths": []int{0, 1, 31, 32, 33, 64, 0xFD, 0x100}, "var_alphabet_extra": "leading 0x00 (32 bytes), all 0xFF (32 bytes)",
		"fix_alphabet": "all 0x00, all 0xFF, LE 1, high bit only, pattern", "kinds_not_literal": bindingMismatch, "unconfirmed_non_literal": nonLiteral}
	if len(validatedByBinding) > 0 {
		r.Class("kind-validated-by-binding")
	}
	if len(validatedByTx) > 0 {
		r.Class("kind-validated-by-real-tx")
	}

	// ---- (c) dynamic key audit for records keyed by mutable state (see audit.go)
	cov["c_key_audit"] = keyAudit(kinds, e)

	// ---- (b)(ii) pairwise collision search
	type pairRes struct {
		A, B    string
		Class   string
		Word    string   `json:"colliding_key_suffix_hex,omitempty"`
		ParamsA []string `json:"params_a,omitempty"`
		ParamsB []string `json:"params_b,omitempty"`
		Note    string   `json:"note,omitempty"`
		SitesA  []string `json:"sites_a,omitempty"`
		SitesB  []string `json:"sites_b,omitempty"`
	}
	unconfirmed, variants, crossRouter := []pairRes{}, []pairRes{}, []pairRes{}
	modelSelfTest()
	var pairs, selfs, productStates, modelCollisions, confirmed int
	for cname, ks := range byContract {
		for i := 0; i < len(ks); i++ {
			for j := i; j < len(ks); j++ {
				A, B := ks[i], ks[j]
				self := i == j
				if self {
					selfs++
				} else {
					pairs++
				}
				if !self && sameRecordVariant(A.Segs, B.Segs) && sameNames(A.Segs, B.Segs) {
					variants = append(variants, pairRes{A: A.ID(), B: B.ID(), Class: "same-record-layout-variant"})
					r.Case("variant/" + cname)
					continue
				}
				wit, n := collidePreferNonEmpty(A.Segs, B.Segs, self)
				productStates += n
				r.Eval()
				if wit == nil {
					r.Class("pair-disjoint")
					r.Case("disjoint/" + cname + "/" + shape(A.Segs) + "|" + shape(B.Segs))
					continue
				}
				modelCollisions++
				r.Class("model-collision")
				pr := pairRes{A: A.ID(), B: B.ID(), Word: hex.EncodeToString(wit.Word), ParamsA: hexAll(wit.ParamsA), ParamsB: hexAll(wit.ParamsB), SitesA: A.Sites, SitesB: B.Sites}
				// the witness must be a word of both schemas (self-check of the model)
				wa, ea := build(A.Segs, wit.ParamsA)
				wb, eb := build(B.Segs, wit.ParamsB)
				if ea != nil || eb != nil || string(wa) != string(wit.Word) || string(wb) != string(wit.Word) {
					r.HarnessError("model witness inconsistent for %s | %s", A.ID(), B.ID())
				}
				if !self && crossRouterPair(A, B) {
					pr.Class = "unconfirmed"
					pr.Note = "same prefix constant used by different header-sync routers with a chain-id segment at the same offset: a chain id is served by exactly one router, so both layouts never coexist for one chain id (assumption)"
					crossRouter = append(crossRouter, pr)
					r.Case("cross-router/" + shape(A.Segs) + "|" + shape(B.Segs))
					continue
				}
				if self && fmt.Sprint(wit.ParamsA) == fmt.Sprint(wit.ParamsB) {
					r.HarnessError("self-collision witness with equal parameter tuples for %s", A.ID())
				}
				// concretise + replay through the real helpers
				ba, okA := bindings[firstLitName(A.Segs)]
				bb, okB := bindings[firstLitName(B.Segs)]
				if !okA || !okB || !validatedByBinding[A.ID()] || !validatedByBinding[B.ID()] {
					pr.Class = "unconfirmed"
					pr.Note = "no validated binding to a real storage helper for one of the kinds: not replayable"
					unconfirmed = append(unconfirmed, pr)
					r.Case("unconfirmed/" + cname)
					continue
				}
				aa, e1 := mkArgs(A.Segs, wit.ParamsA, "record-A")
				ab, e2 := mkArgs(B.Segs, wit.ParamsB, "record-B")
				if e1 != nil || e2 != nil || !ba.fits(firstLitName(A.Segs), aa) || !bb.fits(firstLitName(B.Segs), ab) {
					pr.Class = "unconfirmed"
					pr.Note = "binding arity does not fit the (changed) schema"
					unconfirmed = append(unconfirmed, pr)
					continue
				}
				addr, _ := contractAddr(cname)
				key := string(append(append([]byte{byte(scom.ST_STORAGE)}, addr[:]...), wit.Word...))
				s := newSandboxNS()
				errA := ba.put(s.ns, aa)
				ws1 := s.written()
				v1, in1 := ws1[key]
				errB := bb.put(s.ns, ab)
				ws2 := s.written()
				v2, in2 := ws2[key]
				s.close()
				if errA != nil || errB != nil {
					pr.Class = "unconfirmed"
					pr.Note = fmt.Sprintf("real helper rejected the colliding parameters: %v / %v", errA, errB)
					unconfirmed = append(unconfirmed, pr)
					continue
				}
				if in1 && in2 && v1 != v2 {
					confirmed++
					pr.Class = "confirmed"
					r.Violation("key-collision:"+cname+":"+kindName(A)+"|"+kindName(B), map[string]any{
						"contract": cname, "kind_a": A.ID(), "kind_b": B.ID(), "sites_a": A.Sites, "sites_b": B.Sites,
						"params_a_hex": pr.ParamsA, "params_b_hex": pr.ParamsB, "storage_key_hex": hex.EncodeToString([]byte(key)),
						"replay":            "put record A through its real helper, then record B through its real helper: the same storage key is written and A's value is overwritten",
						"value_after_A_hex": hex.EncodeToString([]byte(v1)), "value_after_B_hex": hex.EncodeToString([]byte(v2)),
						"self_collision": self})
				} else {
					pr.Class = "unconfirmed"
					pr.Note = fmt.Sprintf("replay did not reproduce: key written by A=%v by B=%v", in1, in2)
					unconfirmed = append(unconfirmed, pr)
				}
			}
		}
	}

	// kinds written nowhere / read nowhere (informational; e.g. F4's QUIT_SIDE_CHAIN delete-only key)
	var neverPut []string
	for _, k := range kinds {
		put := false
		for _, u := range k.Uses {
			if strings.Contains(u, "put") || u == "returned" || u == "other" {
				put = true
			}
		}
		if !put {
			neverPut = append(neverPut, k.ID()+" "+strings.Join(k.Sites, ","))
		}
	}

	var kindList []map[string]any
	bound := 0
	for _, k := range kinds {
		_, hasB := bindings[firstLitName(k.Segs)]
		if hasB {
			bound++
		}
		kindList = append(kindList, map[string]any{"id": k.ID(), "sites": len(k.Sites), "uses": k.Uses, "binding": hasB,
			"validated_by_binding": validatedByBinding[k.ID()], "validated_by_real_tx": validatedByTx[k.ID()]})
	}
	r.Sample(map[string]any{"example_kind": kinds[0].ID(), "sites": kinds[0].Sites})
	for _, pr := range unconfirmed {
		r.Sample(pr)
	}
	r.Assume("all storage keys are built by utils.ConcatKey (checked: every CacheDB Put/Get/Delete key argument in native/service resolves to a ConcatKey construction, else the run aborts)",
		"segments the extractor cannot type are `var` (over-approximation: more model collisions, never fewer)",
		"a header-sync chain id is served by exactly one router: equal prefix constants with different layouts in different routers are listed, not alarmed",
		"package-level string VARIABLES used as prefixes (cross_chain_manager/common REQUEST, DONE_TX, …) are treated as constants after checking that nothing under native/ assigns them")
	cov["rule"] = "(a) every write-set key = ST_STORAGE ++ registered contract ++ suffix; (b) no two record kinds of one contract (nor one kind with two parameter tuples) share a key: product-automaton search over extracted schemas, collisions replayed through real helpers"
	cov["b_extraction"] = map[string]any{"concat_key_sites": len(x.Sites), "cache_db_uses": x.CacheUses, "cache_db_uses_resolved": x.CacheUsesResolved,
		"record_kinds": len(kinds), "kinds_with_binding": bound, "kinds_validated_by_binding": len(validatedByBinding), "kinds_validated_by_real_tx": len(validatedByTx),
		"package_var_prefixes": x.PkgVarPrefixes, "kinds_never_put": neverPut}
	cov["b_kinds"] = kindList
	cov["b_search"] = map[string]any{"pairs": pairs, "self_pairs": selfs, "product_states": productStates, "model_collisions": modelCollisions,
		"confirmed_collisions": confirmed, "unconfirmed": unconfirmed, "same_record_layout_variants": len(variants), "cross_router_same_prefix": crossRouter}
	cov["states"] = productStates
	cov["transitions"] = pairs + selfs
	cov["traces_validated_against_impl"] = int(cf.writeSets) + 2*len(validatedByBinding)
	cov["max_depth"] = "product automaton explored to fixpoint for every pair"
	r.Finish(cov)
}

func sameNames(a, b []Seg) bool {
	for i := range a {
		if a[i].K == "lit" && (a[i].Name != b[i].Name) {
			return false
		}
	}
	return true
}

func shape(p []Seg) string {
	var s []string
	for _, g := range p {
		switch g.K {
		case "lit":
			s = append(s, "L")
		case "fix":
			s = append(s, fmt.Sprintf("F%d", g.N))
		default:
			s = append(s, "V")
		}
	}
	return strings.Join(s, "")
}

func kindName(k *Kind) string {
	n := firstLitName(k.Segs)
	if n == "" {
		return shape(k.Segs)
	}
	return n[strings.LastIndex(n, "/")+1:] + "/" + shape(k.Segs)
}

func hexAll(p [][]byte) []string {
	out := make([]string, len(p))
	for i, b := range p {
		out[i] = hex.EncodeToString(b)
	}
	return out
}

// crossRouterPair: two header-sync kinds from disjoint router packages whose literal parts are equal and which
// carry a chain-id segment at the same byte offset.
func crossRouterPair(a, b *Kind) bool {
	if a.Contract != "HeaderSyncContractAddress" {
		return false
	}
	for _, p := range a.Pkgs {
		for _, q := range b.Pkgs {
			if p == q {
				return false
			}
		}
	}
	offA, okA := chainOffset(a.Segs)
	offB, okB := chainOffset(b.Segs)
	return okA && okB && offA == offB && literalPart(a.Segs) == literalPart(b.Segs)
}

func chainOffset(p []Seg) (int, bool) {
	off := 0
	for _, s := range p {
		switch s.K {
		case "lit":
			off += len(s.Lit)
		case "fix":
			if s.N == 8 && s.Chain {
				return off, true
			}
			off += s.N
		default:
			return 0, false
		}
	}
	return 0, false
}

func literalPart(p []Seg) string {
	var s string
	for _, g := range p {
		if g.K == "lit" {
			s += g.Lit + "|"
		}
	}
	return s
}

// sampleParams: deterministic parameter values for tuple t of a schema.
func sampleParams(p []Seg, t int) [][]byte {
	out := make([][]byte, len(p))
	for i, s := range p {
		switch s.K {
		case "lit":
			out[i] = []byte(s.Lit)
		case "fix":
			b := make([]byte, s.N)
			for j := range b {
				b[j] = byte(0x10*(t+1) + i + j)
			}
			out[i] = b
		default:
			out[i] = []byte(fmt.Sprintf("9%d%d", i, t)) // decimal text: also a legal value for textual (numeric) segments
		}
	}
	return out
}

func prefixCensus(m map[string]string) map[string]int {
	out := map[string]int{}
	for k := range m {
		if len(k) == 0 {
			out["empty"]++
			continue
		}
		out[fmt.Sprintf("0x%02x", k[0])]++
	}
	return out
}

// ---------------------------------------------------------------------------------------------
// real transaction corpus

type recWorld struct {
	W        *polyenv.World
	cf       *confine
	ops      []*types.Transaction
	ok, fail int
	methods  map[string]int
	n        uint32
}

func (w *recWorld) Exec(tx *types.Transaction, height, timestamp uint32) polyenv.Result {
	res := w.W.Exec(tx, height, timestamp)
	ws := map[string]string{}
	for _, kv := range res.WriteSet {
		ws[kv.K] = kv.V
	}
	w.cf.check("real-tx", ws, func() any { h := tx.Hash(); return h.ToHexString() })
	r.Eval()
	if res.OK {
		w.ok++
		w.ops = append(w.ops, tx) // only successful ones are replayed on the ledger (failed ones have empty write sets)
	} else {
		w.fail++
		if len(res.WriteSet) != 0 {
			r.Violation("confinement/failed-tx-has-write-set", map[string]any{"tx": txHashHex(tx), "err": fmt.Sprint(res.Err)})
		}
	}
	return res
}

func (w *recWorld) Dump() polyenv.Dump { return w.W.Dump() }

func (w *recWorld) methodList() []string {
	var l []string
	for m, n := range w.methods {
		l = append(l, fmt.Sprintf("%s x%d", m, n))
	}
	sort.Strings(l)
	return l
}

func (w *recWorld) note(m string, res polyenv.Result) {
	if w.methods == nil {
		w.methods = map[string]int{}
	}
	s := "fail"
	if res.OK {
		s = "ok"
	}
	w.methods[m+":"+s]++
}

func realCorpus(e *gov.Env, w *recWorld) {
	h := uint32(1)
	q := e.Q()
	// node manager: register / approve (to quorum) / a duplicate / an outsider
	w.note("registerCandidate", e.RegisterCandidate(w, "c1", "c1", h))
	w.note("registerCandidate(dup)", e.RegisterCandidate(w, "c1", "c1", h))
	w.note("approveCandidate(outsider)", e.ApproveCandidate(w, "c1", "X", h))
	for i := 1; i <= q; i++ {
		w.note("approveCandidate", e.ApproveCandidate(w, "c1", e.V(i), h))
	}
	w.note("commitDpos", e.CommitDpos(w, h))
	w.note("quitNode", e.QuitNode(w, "c1", "c1", h+1))
	w.note("commitDpos", e.CommitDpos(w, h+1))
	// side chain manager: register + approvals, update + approvals, quit + approvals, outsider
	for _, id := range []uint64{7, 8} {
		w.note("registerSideChain", e.RegisterSideChain(w, "o1", "o1", id, "a", h))
		w.note("registerSideChain(wrong signer)", e.RegisterSideChain(w, "o1", "X", id+100, "a", h))
		for i := 1; i <= q; i++ {
			w.note("approveRegisterSideChain", e.ApproveSC(w, "approveRegisterSideChain", id, e.V(i), h))
		}
	}
	w.note("updateSideChain", e.UpdateSideChain(w, "o1", "o1", 7, "b", h))
	for i := 1; i <= q; i++ {
		w.note("approveUpdateSideChain", e.ApproveSC(w, "approveUpdateSideChain", 7, e.V(i), h))
	}
	w.note("quitSideChain", e.QuitSideChain(w, "o1", "o1", 8, h))
	for i := 1; i <= q; i++ {
		w.note("approveQuitSideChain", e.ApproveSC(w, "approveQuitSideChain", 8, e.V(i), h))
	}
	// relayer manager
	w.note("registerRelayer", e.RegisterRelayer(w, []string{"ra", "rb"}, "o1", h))
	for i := 1; i <= q; i++ {
		w.note("approveRegisterRelayer", e.ApproveRelayer(w, "approveRegisterRelayer", 0, e.V(i), h))
	}
	w.note("removeRelayer", e.RemoveRelayer(w, []string{"rb"}, "o1", h))
	for i := 1; i <= q; i++ {
		w.note("approveRemoveRelayer", e.ApproveRelayer(w, "approveRemoveRelayer", 0, e.V(i), h))
	}
	// neo3 state validators
	w.note("registerStateValidator", e.RegisterSV(w, []string{e.A("c1").PubHex}, "o1", h))
	for i := 1; i <= q; i++ {
		w.note("approveRegisterStateValidator", e.ApproveSV(w, "approveRegisterStateValidator", 0, e.V(i), h))
	}
	w.note("removeStateValidator", e.RemoveSV(w, []string{e.A("c1").PubHex}, "o1", h))
	for i := 1; i <= q; i++ {
		w.note("approveRemoveStateValidator", e.ApproveSV(w, "approveRemoveStateValidator", 0, e.V(i), h))
	}
	// cross chain manager: black / white list (operator), by an outsider
	w.note("blackChain", w.Exec(ccm.BlackTx(7, false, 1, polyenv.Multi(e.Vals)), h, 1000))
	w.note("blackChain(outsider)", w.Exec(ccm.BlackTx(7, false, 2, polyenv.Single(e.A("X"))), h, 1000))
	w.note("whiteChain", w.Exec(ccm.BlackTx(7, true, 3, polyenv.Multi(e.Vals)), h, 1000))
	// vote-router import: two vote-router chains, validators vote a message through to quorum (voteInfo, doneTx, request)
	owner := polyenv.Key(900)
	for _, sc := range []ccm.SC{{ID: 11, Router: utils.VOTE_ROUTER, Wait: 1, Name: "src", CCMC: []byte{1}}, {ID: 12, Router: utils.VOTE_ROUTER, Wait: 1, Name: "dst", CCMC: []byte{2}}} {
		w.note("registerSideChain", w.Exec(ccm.RegisterTx(sc, owner, uint32(sc.ID)), h, 1000))
		for i := 0; i < q; i++ {
			w.note("approveRegisterSideChain", w.Exec(ccm.ApproveTx(sc.ID, e.Vals[i], uint32(sc.ID)), h, 1000))
		}
	}
	msg := ccm.MsgBytes(ccm.Msg([]byte{0xaa, 1}, []byte{0xcc, 1}, []byte{0xf0}, 12, make([]byte, 20), "unlock", []byte{1, 2, 3}))
	w.note("importOuterTransfer(vote, outsider)", w.Exec(ccm.VoteImport(11, 7, msg, e.A("X"), 50), h, 1000))
	for i := 0; i < q; i++ {
		w.note("importOuterTransfer(vote)", w.Exec(ccm.VoteImport(11, 7, msg, e.Vals[i], uint32(60+i)), h, 1000))
	}
	w.note("importOuterTransfer(vote, replay)", w.Exec(ccm.VoteImport(11, 7, msg, e.Vals[0], 70), h, 1000))
}

func txHashHex(tx *types.Transaction) string { h := tx.Hash(); return h.ToHexString() }

// modelSelfTest: the collision search itself is checked on hand-made schemas before it is trusted.
func modelSelfTest() {
	L := func(s string) Seg { return Seg{K: "lit", Lit: s} }
	F := func(n int) Seg { return Seg{K: "fix", N: n} }
	V := Seg{K: "var"}
	cases := []struct {
		a, b []Seg
		self bool
		want bool
	}{
		{[]Seg{L("fee"), V}, []Seg{L("feeInfo"), F(8)}, false, true},
		{[]Seg{L("fee"), F(8)}, []Seg{L("feeInfo"), F(8), F(8)}, false, false},
		{[]Seg{L("fee"), F(8)}, []Seg{L("feeInfo"), F(4)}, false, true},
		{[]Seg{L("quitSideChain"), F(8)}, []Seg{L("quitSideChainRequest"), F(8)}, false, false},
		{[]Seg{L("quitSideChain"), V}, []Seg{L("quitSideChainRequest"), F(8)}, false, true},
		{[]Seg{L("a"), V, V}, []Seg{L("a"), V, V}, true, true},
		{[]Seg{L("a"), V, F(8)}, []Seg{L("a"), V, F(8)}, true, false},
		{[]Seg{L("a"), F(8), V}, []Seg{L("a"), F(8), V}, true, false},
		{[]Seg{L("a"), V, L("x"), V}, []Seg{L("a"), V, L("x"), V}, true, true},
		{[]Seg{L("a"), V}, []Seg{L("a"), V}, true, false},
		{[]Seg{F(8), L("dsComm"), F(8)}, []Seg{L("headerIndex"), F(8), V}, false, false},
		{[]Seg{F(8), L("dex"), F(8)}, []Seg{L("headerIndex"), F(8), V}, false, true},
		{[]Seg{L("x"), F(8)}, []Seg{L("y"), F(8)}, false, false},
	}
	for i, c := range cases {
		w, _ := collide(c.a, c.b, c.self, 0)
		if (w != nil) != c.want {
			r.HarnessError("model self-test %d failed", i)
		}
		if w != nil {
			wa, e1 := build(c.a, w.ParamsA)
			wb, e2 := build(c.b, w.ParamsB)
			if e1 != nil || e2 != nil || string(wa) != string(wb) || !matches(c.a, w.Word) || !matches(c.b, w.Word) {
				r.HarnessError("model self-test %d: inconsistent witness", i)
			}
			if c.self && fmt.Sprint(w.ParamsA) == fmt.Sprint(w.ParamsB) {
				r.HarnessError("model self-test %d: self witness with equal tuples", i)
			}
		}
	}
}

var errNoFit = fmt.Errorf("binding does not fit the schema")

func hexStrs(l []string) []string {
	out := make([]string, len(l))
	for i, s := range l {
		out[i] = hex.EncodeToString([]byte(s))
	}
	return out
}

// boundaryTuples: the full product of the per-segment boundary alphabets.
func boundaryTuples(p []Seg) [][][]byte {
	stream := make([]byte, 0, 0x120)
	h := sha256.Sum256([]byte("c17-boundary"))
	for len(stream) < 0x110 {
		stream = append(stream, h[:]...)
		h = sha256.Sum256(h[:])
	}
	alpha := make([][][]byte, len(p))
	for i, s := range p {
		switch s.K {
		case "lit":
			alpha[i] = [][]byte{[]byte(s.Lit)}
		case "fix":
			z := make([]byte, s.N)
			f := make([]byte, s.N)
			one := make([]byte, s.N)
			hi := make([]byte, s.N)
			for j := range f {
				f[j] = 0xFF
			}
			one[0] = 1
			hi[s.N-1] = 0x80
			alpha[i] = [][]byte{z, f, one, hi, append([]byte{}, stream[i:i+s.N]...)}
		default:
			for _, n := range []int{0, 1, 31, 32, 33, 64, 0xFD, 0x100} {
				alpha[i] = append(alpha[i], append([]byte{}, stream[i:i+n]...))
			}
			alpha[i] = append(alpha[i], []byte("9"), []byte("910")) // decimal text (numeric segments rendered as text)
			lead := append([]byte{0}, stream[i:i+31]...)
			ff := make([]byte, 32)
			for j := range ff {
				ff[j] = 0xFF
			}
			alpha[i] = append(alpha[i], lead, ff)
		}
	}
	out := [][][]byte{{}}
	for i := range p {
		var next [][][]byte
		for _, t := range out {
			for _, v := range alpha[i] {
				next = append(next, append(append([][]byte{}, t...), v))
			}
		}
		out = next
	}
	return out
}

func shapeStr(p []Seg) string {
	var s []string
	for _, g := range p {
		s = append(s, g.String())
	}
	return strings.Join(s, " ")
}
