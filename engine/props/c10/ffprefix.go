// C10 phase F — prefixes that end in 0xff (the carry case of the prefix -> exclusive-limit computation), 0xff 0xff,
// the single byte 0xff and the empty prefix, scanned at every layer (store, OverlayDB, CacheDB).
//
// Keys: the prefix itself and one key below it for each of \x05a\xff, \x05a\xff\xff, \x05\xff (contract prefixes
// a\xff, a\xff\xff, \xff), plus \xff / \xffz (block layer and store only) and \x05b (first key above the a\xff.. ranges).
// Worlds: every key in turn runs through all combinations {persisted?} x {overlay: -, put, delete} x {cache: -, put,
// delete} against two backgrounds (all other keys absent / all persisted), plus all keys in the same combination.
// Oracle: the usual battery (Get at every layer, every prefix scan at tx and block layer, full store scan) plus a
// prefix scan of the store for every prefix == three-map model.
package main

import (
	"fmt"
	"sort"
	"strings"

	"verif.local/engine/ev"
)

func ffPrefixPhase() map[string]any {
	savedCk, savedRaw, savedTx, savedBlk := ckeys, rawAll, txPref, blkPrf
	defer func() { ckeys, rawAll, txPref, blkPrf = savedCk, savedRaw, savedTx, savedBlk }()
	ckeys = []string{"a\xff", "a\xffz", "a\xff\xff", "a\xff\xffz", "\xff", "\xffz", "b"}
	rawAll = nil
	for _, k := range ckeys {
		rawAll = append(rawAll, pfx+k)
	}
	rawAll = append(rawAll, "\xff", "\xffz")
	sort.Strings(rawAll)
	txPref = []string{"", "a", "a\xff", "a\xff\xff", "\xff", "\xff\xff"}
	blkPrf = []string{"", pfx, pfx + "a\xff", pfx + "a\xff\xff", pfx + "\xff", "\xff", "\xff\xff"}

	type combo struct {
		persisted bool
		blk, tx   int // 0 none, 1 put, 2 delete
	}
	var combos []combo
	for _, p := range []bool{false, true} {
		for b := 0; b < 3; b++ {
			for t := 0; t < 3; t++ {
				combos = append(combos, combo{p, b, t})
			}
		}
	}
	worlds := 0
	run := func(assign map[string]combo, what string) {
		init := map[string]string{}
		m := &model{map[string]string{}, map[string]string{}, map[string]string{}}
		var ops []op
		for _, k := range rawAll {
			c := assign[k]
			if c.persisted {
				init[k] = "s"
				m.store[k] = "s"
			}
			switch c.blk {
			case 1:
				ops = append(ops, op{"blk", "put", k, "o"})
			case 2:
				ops = append(ops, op{"blk", "del", k, ""})
			}
			if strings.HasPrefix(k, pfx) {
				switch c.tx {
				case 1:
					ops = append(ops, op{"tx", "put", k[1:], "c"})
				case 2:
					ops = append(ops, op{"tx", "del", k[1:], ""})
				}
			}
		}
		var names []string
		for _, o := range ops {
			m.do(o)
			names = append(names, o.String())
		}
		var got, want strings.Builder
		var h *pooled
		if rec, p := ev.Guard(func() {
			var w *world
			w, h = pooledWorld(init)
			for _, o := range ops {
				w.do(o)
			}
			got.WriteString(w.battery())
			for _, p := range blkPrf {
				fmt.Fprintf(&got, "\nstore.scan(%q)=[", p)
				var key []byte
				if p != "" {
					key = []byte(p)
				}
				scan(&got, w.store.NewIterator(key))
			}
		}); p {
			r.Violation("views:ff-prefix:panic", map[string]any{"case": desc(init, names), "panic": fmt.Sprint(rec)})
			return
		}
		putStore(init, h)
		want.WriteString(m.battery())
		for _, p := range blkPrf {
			fmt.Fprintf(&want, "\nstore.scan(%q)=[", p)
			for _, k := range rawAll {
				if strings.HasPrefix(k, p) && m.store[k] != "" {
					fmt.Fprintf(&want, "%q=%q ", k, m.store[k])
				}
			}
			want.WriteString("]")
		}
		worlds++
		evalCnt.Add(1)
		if got.String() != want.String() {
			gl, wl := strings.Split(got.String(), "\n"), strings.Split(want.String(), "\n")
			kind := "length"
			for i := range wl {
				if i >= len(gl) || gl[i] != wl[i] {
					kind = strings.SplitN(wl[i], "(", 2)[0]
					if i == 0 {
						kind = "get"
					}
					break
				}
			}
			r.Violation("views:ff-prefix:"+kind+":mismatch", map[string]any{"case": desc(init, names), "varied": what, "got": got.String(), "want": want.String()})
		}
	}
	for _, bg := range []combo{{}, {persisted: true}} {
		for _, k := range rawAll {
			for _, c := range combos {
				assign := map[string]combo{}
				for _, o := range rawAll {
					assign[o] = bg
				}
				assign[k] = c
				run(assign, fmt.Sprintf("key %q over background persisted=%v", k, bg.persisted))
			}
		}
	}
	for _, c := range combos {
		assign := map[string]combo{}
		for _, o := range rawAll {
			assign[o] = c
		}
		run(assign, "all keys")
	}
	class("ff_prefix_worlds")
	return map[string]any{"raw_keys": fmt.Sprintf("%q", rawAll), "tx_scan_prefixes": fmt.Sprintf("%q", txPref),
		"blk_and_store_scan_prefixes": fmt.Sprintf("%q", blkPrf), "combinations_per_key": len(combos), "worlds": worlds}
}
